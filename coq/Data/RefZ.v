(* Data/RefZ.v — refinement Map -> Spec for sorted sets (property C08): the member keys of a zset record
   form a collection (RepC), whose abstraction (RefHS.abs_c) is the Spec association list member -> score;
   the score index of the current generation is the sorted enumeration of that list. *)
From ZV Require Import Common.Bytes Common.BytesFacts Data.Consts Data.Base Data.BaseFacts Data.MapEq Data.Map Data.MapZ Data.Spec Data.SpecZ
  Data.RepColl Data.RepHS Data.RepZ Data.RepRead Data.RefHS Data.RefCmd.
From Coq Require Import Permutation Lia ZifyBool.
Open Scope Z_scope.

Section ZRef.
  Variable compact : bool.
  Notation Rep := (RepZ compact).
  Notation get := (aget bytes_eqb).
  Notation mem := (amem bytes_eqb).

  Definition simz (z : zcoll) (a : szset) : Prop := sim (z_c z) a.
  Definition zref (mf : zcoll -> zcoll * reply) (sf : szset -> szset * reply) (z : zcoll) (a : szset) : Prop :=
    snd (mf z) = snd (sf a) /\ simz (fst (mf z)) (fst (sf a)).

  Definition swap {A B} (p : A * B) : B * A := (snd p, fst p).

  (* ---------- Spec side: ZADD loop ---------- *)
  Lemma zadd_loop_spec ps : forall (a : szset), NoDup (map fst a) ->
    NoDup (map fst (fst (zadd_loop ps a))) /\
    (forall g, get g (fst (zadd_loop ps a)) = match alast g (map swap ps) with Some s => Some s | None => get g a end).
  Proof.
    induction ps as [|[sc m] r IH]; intros a ND; cbn [zadd_loop map alast]; [split; [exact ND|reflexivity]|].
    cbn [swap fst snd].
    destruct (IH (aput bytes_eqb m sc a) (nodup_aput bytes_eqb bytes_eqb_eq m sc a ND)) as [N1 G1].
    assert (G2 : forall g, get g (fst (zadd_loop r (aput bytes_eqb m sc a))) =
                           match match alast g (map swap r) with Some x => Some x | None => if bytes_eqb g m then Some sc else None end with
                           | Some s => Some s | None => get g a end).
    { intros g. rewrite G1, get_put. destruct (alast g (map swap r)); [reflexivity|]. destruct (bytes_eqb g m); reflexivity. }
    destruct (mem m a); [split; [exact N1|exact G2]|].
    destruct (zadd_loop r (aput bytes_eqb m sc a)) as [h n]. cbn [fst] in *. split; [exact N1|exact G2].
  Qed.

  Lemma filter_perm_length {A} (f : A -> bool) l l' : Permutation l l' -> length (filter f l) = length (filter f l').
  Proof.
    induction 1; cbn; auto.
    - destruct (f x); cbn; auto.
    - destruct (f x), (f y); cbn; auto.
    - congruence.
  Qed.

  Lemma zadd_loop_count ps : forall seen (a : szset), NoDup (map fst a) -> (forall k, In k seen -> mem k a = true) ->
    snd (zadd_loop ps a) = Z.of_nat (length (filter (fun m => negb (mem m a)) (dedup seen (map snd ps)))).
  Proof.
    induction ps as [|[sc m] r IH]; intros seen a ND Hs; cbn [zadd_loop map dedup snd]; [reflexivity|].
    assert (NDp : NoDup (map fst (aput bytes_eqb m sc a))) by (apply (nodup_aput bytes_eqb bytes_eqb_eq); exact ND).
    assert (MP : forall x, mem x (aput bytes_eqb m sc a) = bytes_eqb x m || mem x a).
    { intros x. unfold amem. rewrite get_put. destruct (bytes_eqb x m); [reflexivity|reflexivity]. }
    destruct (bytes_mem m seen) eqn:M.
    - apply bytes_mem_In in M. rewrite (Hs m M).
      rewrite (IH seen (aput bytes_eqb m sc a) NDp).
      + f_equal. f_equal. apply filter_ext_in. intros x Hx. rewrite MP.
        destruct (bytes_eqb x m) eqn:Q; [apply bytes_eqb_eq in Q; subst; rewrite (Hs m M); reflexivity|reflexivity].
      + intros k Hk. rewrite MP, (Hs k Hk). apply orb_true_r.
    - cbn [filter]. destruct (mem m a) eqn:E; cbn [negb].
      + rewrite (IH (m :: seen) (aput bytes_eqb m sc a) NDp).
        * f_equal. f_equal. apply filter_ext_in. intros x Hx. rewrite MP.
          destruct (bytes_eqb x m) eqn:Q; [apply bytes_eqb_eq in Q; subst; rewrite E; reflexivity|reflexivity].
        * intros k [<-|Hk]; rewrite MP; [rewrite bytes_eqb_refl; reflexivity|rewrite (Hs k Hk); apply orb_true_r].
      + specialize (IH (m :: seen) (aput bytes_eqb m sc a) NDp).
        destruct (zadd_loop r (aput bytes_eqb m sc a)) as [h n]. cbn [snd] in *. rewrite IH.
        * cbn [length]. rewrite (filter_ext_in (fun m0 => negb (mem m0 (aput bytes_eqb m sc a))) (fun m0 => negb (mem m0 a))); [lia|].
          intros x Hx. apply dedup_In in Hx. destruct Hx as [_ Hx]. rewrite MP.
          assert (bytes_eqb x m = false) as -> by (apply bytes_eqb_false_ne; intros ->; apply Hx; left; reflexivity). reflexivity.
        * intros k [<-|Hk]; rewrite MP; [rewrite bytes_eqb_refl; reflexivity|rewrite (Hs k Hk); apply orb_true_r].
  Qed.

  (* ---------- ZADD ---------- *)
  Lemma zadd_ref clock ts key ps z a : Rep clock z -> 0 <= clock < ts -> simz z a ->
    zref (MapZ.zstep compact ts key (ZCadd ps)) (SpecZ.zstep key (ZCadd ps)) z a.
  Proof.
    intros R L S. unfold zref. cbn [MapZ.zstep SpecZ.zstep].
    destruct ps as [|p0 r0]; [split; [reflexivity|exact S]|]. set (ps := p0 :: r0) in *.
    destruct (too_many ps); cbn [fst snd]; [split; [reflexivity|exact S]|].
    destruct (negb (key_ok key) || negb (forallb (fun p => subkey_ok (snd p)) ps)) eqn:G; cbn [fst snd]; [split; [reflexivity|exact S]|].
    destruct R as [Rc Ri]. unfold simz in *.
    assert (NDa : NoDup (map fst a)) by (destruct S as (_ & N & _); exact N).
    set (v := prep_ver compact ts (z_c z)).
    set (lw := last_wins (map (fun p : score * bytes => (snd p, fst p)) ps)).
    set (ps' := map (fun p : bytes * score => (snd p, fst p)) lw).
    assert (MS : map snd ps' = map fst lw) by (unfold ps'; rewrite map_map; reflexivity).
    assert (ND : NoDup (map snd ps')) by (rewrite MS; apply last_wins_keys_NoDup).
    destruct (zs_fold_spec v z ps' ND z (fun _ _ => eq_refl) Ri) as (ea & eb & ec).
    fold (zs_fold v z ps' z). set (z' := zs_fold v z ps' z) in *.
    assert (PM : map (fun p : score * bytes => (snd p, fst p)) ps' = lw) by (unfold ps'; apply swap_swap).
    rewrite PM in eb.
    assert (EM : forall m, emem v m (c_elems (z_c z)) = mem m a).
    { intros m. rewrite emem_lookup. unfold v. rewrite (prep_lookup compact clock ts (z_c z) m Rc L), (sim_lookup (z_c z) a m S). reflexivity. }
    destruct (zadd_loop_spec ps a NDa) as [N1 G1].
    pose proof (zadd_loop_count ps [] a NDa ltac:(intros k [])) as C1.
    destruct (zadd_loop ps a) as [h n]. cbn [fst snd] in *.
    split.
    - (* the count: distinct new members, whichever occurrence is kept *)
      rewrite C1. f_equal. unfold count_new. rewrite MS. f_equal.
      rewrite (filter_ext_in (fun f => negb (emem v f (c_elems (z_c z)))) (fun m => negb (mem m a))) by (intros x _; rewrite EM; reflexivity).
      apply filter_perm_length. apply NoDup_Permutation; [apply last_wins_keys_NoDup|apply dedup_NoDup|].
      intros x. unfold lw. rewrite last_wins_keys_In, map_map. cbn [fst]. rewrite dedup_nil_In. reflexivity.
    - unfold zwith_size. cbn [z_c]. rewrite eb, MS. unfold zsize.
      eapply meq_trans.
      + apply (ref_put_batch compact clock ts (z_c z) lw a Rc L); [apply last_wins_keys_NoDup| |exact S].
        apply forallb_forall. intros k Hk. apply (proj1 (last_wins_keys_In _ _)) in Hk.
        rewrite map_map in Hk. apply in_map_iff in Hk. destruct Hk as (p & Ep & Hp). cbn in Ep. subst k.
        apply orb_false_iff in G. destruct G as [_ G]. apply negb_false_iff in G. rewrite forallb_forall in G. apply G; exact Hp.
      + split; [apply nodup_fold_put; exact NDa|]. split; [exact N1|].
        intros g. rewrite get_fold_put, G1. unfold lw. rewrite alast_last_wins. reflexivity.
  Qed.

  (* ---------- ZINCRBY ---------- *)
  Lemma zincrby_ref clock ts key d m z a : Rep clock z -> 0 <= clock < ts -> simz z a ->
    zref (MapZ.zstep compact ts key (ZCincrby d m)) (SpecZ.zstep key (ZCincrby d m)) z a.
  Proof.
    intros R L S. unfold zref. cbn [MapZ.zstep SpecZ.zstep].
    destruct (negb (key_ok key) || negb (subkey_ok m)) eqn:G; cbn [fst snd]; [split; [reflexivity|exact S]|].
    assert (SK : subkey_ok m = true).
    { destruct (subkey_ok m); [reflexivity|]. rewrite orb_true_r in G; discriminate. }
    destruct R as [Rc Ri]. unfold simz in *.
    rewrite (prep_lookup compact clock ts (z_c z) m Rc L), (sim_lookup (z_c z) a m S).
    destruct (get m a) as [old|] eqn:E.
    - destruct (score_add old d) as [sc|]; cbn [fst snd]; [|split; [reflexivity|exact S]]. split; [reflexivity|].
      cbn [z_c]. apply (ref_put_existing compact clock); auto.
      rewrite emem_lookup, (prep_lookup compact clock ts (z_c z) m Rc L), (sim_lookup (z_c z) a m S), E. reflexivity.
    - destruct (score_add (SFin 0) d) as [sc|]; cbn [fst snd]; [|split; [reflexivity|exact S]]. split; [reflexivity|].
      unfold zwith_size. cbn [z_c c_meta c_elems].
      pose proof (ref_put_batch compact clock ts (z_c z) [(m, sc)] a Rc L) as P. cbn [map fst fold_left snd] in P.
      rewrite count_new_cons in P. rewrite emem_lookup, (prep_lookup compact clock ts (z_c z) m Rc L), (sim_lookup (z_c z) a m S), E in P.
      change (count_new (prep_ver compact ts (z_c z)) [] (c_elems (z_c z))) with 0 in P.
      replace (st_size (z_c z) + (1 + 0)) with (zsize z + 1) in P by (unfold zsize; lia).
      apply P; [repeat constructor; tauto|cbn; rewrite SK; reflexivity|exact S].
  Qed.

  (* ---------- removal of a list of distinct members (ZREM and every range removal) ---------- *)
  Lemma zremove_ref clock ms z a : Rep clock z -> NoDup ms -> simz z a ->
    simz (fst (zremove ms z)) (fst (del_loop ms a)) /\ snd (zremove ms z) = snd (del_loop ms a).
  Proof.
    intros [Rc Ri] ND S. unfold simz in *. unfold zremove. cbn [fst snd].
    destruct (zd_fold_spec (zver z) z ms ND z (fun _ _ => eq_refl) Ri) as (ea & eb & ec).
    fold (zd_fold (zver z) z ms z). set (z' := zd_fold (zver z) z ms z) in *.
    unfold zwith_size. cbn [z_c]. rewrite eb. unfold zsize, zver.
    apply (ref_del_batch compact clock (z_c z) ms a Rc ND S).
  Qed.

  Lemma zrem_ref clock ts key ms z a : Rep clock z -> simz z a ->
    zref (MapZ.zstep compact ts key (ZCrem ms)) (SpecZ.zstep key (ZCrem ms)) z a.
  Proof.
    intros R S. unfold zref. cbn [MapZ.zstep SpecZ.zstep].
    destruct ms as [|m0 r0]; [split; [reflexivity|exact S]|]. set (ms := m0 :: r0) in *.
    destruct (too_many ms); cbn [fst snd]; [split; [reflexivity|exact S]|].
    destruct (negb (key_ok key) || negb (forallb subkey_ok ms)); cbn [fst snd]; [split; [reflexivity|exact S]|].
    assert (NDa : NoDup (map fst a)) by (destruct S as (_ & N & _); exact N).
    unfold remove_members. rewrite (del_loop_dedup ms [] a NDa) by (intros k []).
    destruct (zremove_ref clock (dedup [] ms) z a R (dedup_NoDup _ _) S) as [S' C'].
    destruct (zremove (dedup [] ms) z) as [z' n]. destruct (del_loop (dedup [] ms) a) as [h k]. cbn [fst snd] in *.
    split; [f_equal; exact C'|exact S'].
  Qed.

  (* ---------- point reads ---------- *)
  Lemma zpoint_reads_ref clock key z a : Rep clock z -> simz z a ->
    MapZ.zquery key ZQcard z = SpecZ.zquery key ZQcard a /\
    MapZ.zquery key ZQkeyexist z = SpecZ.zquery key ZQkeyexist a /\
    (forall m, MapZ.zquery key (ZQscore m) z = SpecZ.zquery key (ZQscore m) a).
  Proof.
    intros [Rc Ri] S. unfold simz in *.
    pose proof (sim_size compact clock (z_c z) a Rc S) as Hs. pose proof (sim_exists compact clock (z_c z) a Rc S) as He.
    split; [|split].
    - cbn [MapZ.zquery SpecZ.zquery]. unfold zsize, size_of. rewrite Hs. reflexivity.
    - cbn [MapZ.zquery SpecZ.zquery]. unfold zexists. rewrite He. reflexivity.
    - intros m. cbn [MapZ.zquery SpecZ.zquery]. destruct (negb (key_ok key)); [reflexivity|]. cbn [orb].
      rewrite <- (sim_lookup (z_c z) a m S). unfold lookup, zexists, zver. destruct (exists_coll (z_c z)); reflexivity.
  Qed.
End ZRef.

(* ---------- the order of a sorted set ---------- *)
Lemma score_order_facts :
  (forall a b, score_leb a b = true \/ score_leb b a = true) /\
  (forall a b c, score_leb a b = true -> score_leb b c = true -> score_leb a c = true) /\
  (forall a b, score_leb a b = true -> score_leb b a = true -> a = b).
Proof.
  repeat split.
  - intros [| x |] [| y |]; cbn; auto. unfold score_leb; cbn. lia.
  - intros [| x |] [| y |] [| z |]; unfold score_leb; cbn; try discriminate; auto; lia.
  - intros [| x |] [| y |]; unfold score_leb; cbn; try discriminate; auto. intros. f_equal. lia.
Qed.

Lemma sm_leb_total a b : sm_leb a b = true \/ sm_leb b a = true.
Proof.
  destruct a as [s m], b as [s' m']. unfold sm_leb; cbn [fst snd].
  destruct s as [| x |], s' as [| y |]; cbn; try (left; reflexivity); try (right; reflexivity).
  - destruct (bytes_leb_total m m'); auto.
  - destruct (Z.compare_spec x y).
    + subst. rewrite Z.ltb_irrefl, Z.eqb_refl. cbn. destruct (bytes_leb_total m m'); auto.
    + left. assert (x <? y = true) as -> by lia. reflexivity.
    + right. assert (y <? x = true) as -> by lia. reflexivity.
  - destruct (bytes_leb_total m m'); auto.
Qed.

Lemma sm_leb_cases a b : sm_leb a b = true <->
  score_ltb (fst a) (fst b) = true \/ (fst a = fst b /\ bytes_leb (snd a) (snd b) = true).
Proof.
  unfold sm_leb. rewrite orb_true_iff, andb_true_iff, score_eqb_eq. tauto.
Qed.
Lemma score_ltb_facts :
  (forall a, score_ltb a a = false) /\
  (forall a b c, score_ltb a b = true -> score_ltb b c = true -> score_ltb a c = true) /\
  (forall a b, score_ltb a b = true -> score_ltb b a = false).
Proof.
  repeat split.
  - intros [| x |]; cbn; auto. lia.
  - intros [| x |] [| y |] [| z |]; cbn; try discriminate; auto; lia.
  - intros [| x |] [| y |]; cbn; try discriminate; auto; lia.
Qed.
Lemma sm_leb_trans a b c : sm_leb a b = true -> sm_leb b c = true -> sm_leb a c = true.
Proof.
  destruct score_ltb_facts as (irr & tr & asym).
  rewrite !sm_leb_cases. intros [H1|[E1 L1]] [H2|[E2 L2]].
  - left. eapply tr; eauto.
  - left. rewrite <- E2. exact H1.
  - left. rewrite E1. exact H2.
  - right. split; [congruence|eapply bytes_leb_trans; eauto].
Qed.
Lemma sm_leb_antisym a b : sm_leb a b = true -> sm_leb b a = true -> a = b.
Proof.
  destruct score_ltb_facts as (irr & tr & asym).
  rewrite !sm_leb_cases. destruct a as [s m], b as [s' m']. cbn [fst snd]. intros [H1|[E1 L1]] [H2|[E2 L2]].
  - rewrite (asym _ _ H1) in H2. discriminate.
  - subst. rewrite irr in H1. discriminate.
  - subst. rewrite irr in H2. discriminate.
  - subst. f_equal. apply bytes_leb_antisym; assumption.
Qed.

Section ZIndex.
  Variable compact : bool.
  Notation Rep := (RepZ compact).

  Definition swp (p : bytes * score) : score * bytes := (snd p, fst p).

  Lemma abs_In (c : coll score) m s : In (m, s) (abs_c c) <-> exists_coll c = true /\ In ((st_ver c, m), s) (c_elems c).
  Proof.
    unfold abs_c. destruct (exists_coll c); [|cbn; split; [tauto|intros [H _]; discriminate]].
    rewrite in_map_iff. split.
    - intros ([[v' f] x] & E & H). unfold strip in E. cbn in E. inversion E; subst. apply gen_In in H. cbn in H.
      destruct H as [H ->]. auto.
    - intros [_ H]. exists ((st_ver c, m), s). split; [reflexivity|]. apply gen_In. cbn. auto.
  Qed.

  (* without a meta key nothing is stored in generation 0 *)
  Lemma no_meta_no_gen0 clock (c : coll score) e : RepC compact clock c -> exists_coll c = false -> In e (c_elems c) -> fst (fst e) <> st_ver c.
  Proof.
    intros R X He. unfold exists_coll, st_ver in *. destruct (c_meta c) eqn:E; [discriminate|].
    pose proof (rc_vers _ _ _ R e He) as Hv. pose proof (rc_none _ _ _ R E) as Hn. unfold ver_ok in Hv.
    destruct compact; [lia|]. rewrite (Hn eq_refl) in He. destruct He.
  Qed.

  (* the score index of the stored generation is the sorted enumeration of the Spec value *)
  Lemma index_scan_sorted clock z a : Rep clock z -> simz z a -> index_scan (zver z) (z_index z) = zsorted a.
  Proof.
    intros R S. pose proof R as [Rc [A B C]]. unfold simz in S. unfold zsorted, index_scan.
    change (fun e : bytes * score => (snd e, fst e)) with swp.
    apply isort_canonical.
    - exact sm_leb_total.
    - exact sm_leb_trans.
    - intros p q _ _. apply sm_leb_antisym.
    - pose proof (meq_perm _ _ S) as P. apply (Permutation_map swp) in P.
      eapply perm_trans; [|exact P]. clear P.
      apply NoDup_Permutation.
      + eapply NoDup_map_inv with (f := snd).
        pose proof (index_scan_members_NoDup compact clock z (zver z) R) as H. unfold index_scan in H.
        eapply Permutation_NoDup; [apply map_isort_perm|exact H].
      + eapply NoDup_map_inv with (f := snd). rewrite map_map. cbn. apply (abs_nodup compact clock). exact Rc.
      + intros [s m]. rewrite !in_map_iff. split.
        * intros ([v' [s' m']] & E & H). cbn in E. inversion E; subst. apply filter_In in H. cbn in H. destruct H as [H Ev].
          apply Z.eqb_eq in Ev. subst v'. apply C in H. exists (m, s). split; [reflexivity|]. apply abs_In.
          split; [|exact H]. destruct (exists_coll (z_c z)) eqn:X; [reflexivity|].
          exfalso. eapply (no_meta_no_gen0 clock (z_c z) _ Rc X H). reflexivity.
        * intros ([m' s'] & E & H). unfold swp in E. cbn in E. inversion E; subst. apply abs_In in H. destruct H as [_ H].
          exists (zver z, (s, m)). split; [reflexivity|]. apply filter_In. split; [apply C; exact H|cbn; apply Z.eqb_refl].
  Qed.

  Lemma del_all_members (a : szset) ms : NoDup (map fst a) -> (forall k, In k (map fst a) -> In k ms) ->
    meq (fst (del_loop ms a)) (@nil (bytes * score)) /\ (NoDup ms -> (forall k, In k ms -> In k (map fst a)) -> snd (del_loop ms a) = Z.of_nat (length a)).
  Proof.
    intros ND Hall. destruct (del_loop_spec ms a ND) as [N1 G1]. split.
    - split; [exact N1|]. split; [constructor|]. intros g. rewrite G1. cbn.
      destruct (bytes_mem g ms) eqn:M; [reflexivity|].
      destruct (aget bytes_eqb g a) eqn:G; [|reflexivity]. exfalso.
      apply (aget_In bytes_eqb bytes_eqb_eq) in G. apply (in_map fst) in G. cbn in G. apply Hall in G. apply bytes_mem_In in G. congruence.
    - intros NDm Hsub. rewrite (del_loop_count ms NDm a ND).
      rewrite filter_all by (intros x Hx; apply (amem_In bytes_eqb bytes_eqb_eq), Hsub; exact Hx).
      f_equal. rewrite <- (map_length fst a). apply NoDup_incl_length_eq; [exact NDm|exact ND|].
      intros x. split; [apply Hsub|apply Hall].
  Qed.

  (* zRemAll *)
  Lemma zrem_all_ref clock lazy z a : Rep clock z -> simz z a ->
    simz (fst (zrem_all lazy z)) (@nil (bytes * score)) /\ snd (zrem_all lazy z) = Z.of_nat (length a).
  Proof.
    intros R S. pose proof R as [Rc Ri]. pose proof (sim_size compact clock (z_c z) a Rc S) as Hs.
    unfold zrem_all. fold (zsize z) in Hs. destruct (zsize z =? 0) eqn:Z0.
    - assert (a = []) by (destruct a; [reflexivity|cbn [length] in Hs; lia]). subst a. cbn [fst snd]. split; [exact S|reflexivity].
    - destruct lazy; cbn [fst snd].
      + split; [|exact Hs]. unfold simz, sim, abs_c, exists_coll. cbn [z_c c_meta]. apply meq_refl. constructor.
      + destruct (range_delete_num <? zsize z); cbn [fst snd].
        * split; [|exact Hs]. unfold simz, sim, abs_c, exists_coll. cbn [z_c c_meta]. apply meq_refl. constructor.
        * assert (NDm : NoDup (map snd (index_scan (zver z) (z_index z)))) by (eapply index_scan_members_NoDup; exact R).
            destruct (zremove_ref compact clock _ z a R NDm S) as [S' C'].
            assert (NDa : NoDup (map fst a)) by (destruct S as (_ & N & _); exact N).
            rewrite (index_scan_sorted clock z a R S) in *.
            assert (MS : forall k, In k (map snd (zsorted a)) <-> In k (map fst a)).
            { intros k. unfold zsorted. rewrite !in_map_iff. split.
              - intros ([s m] & <- & H). apply isort_In in H. apply in_map_iff in H. destruct H as ([m' s'] & E & H). inversion E; subst.
                exists (m, s). auto.
              - intros ([m s] & <- & H). exists (s, m). split; [reflexivity|]. apply isort_In. apply in_map_iff. exists (m, s). auto. }
            destruct (del_all_members a (map snd (zsorted a)) NDa (fun k Hk => proj2 (MS k) Hk)) as [D1 D2].
            split; [eapply meq_trans; [exact S'|exact D1]|]. rewrite C'. apply D2; [exact NDm|]. intros k Hk; apply MS; exact Hk.
  Qed.
End ZIndex.

Section ZRanges.
  Variable compact : bool.
  Notation Rep := (RepZ compact).
  Notation get := (aget bytes_eqb).

  Lemma limit_take {A} o c (l : list A) : limit o c l = take_limit o c l.
  Proof. reflexivity. Qed.

  Lemma simz_nil_iff clock z a : Rep clock z -> simz z a -> (zexists z = false <-> a = []).
  Proof.
    intros [Rc _] S. pose proof (sim_exists compact clock (z_c z) a Rc S) as He. unfold zexists. rewrite He.
    destruct a; cbn; split; intros; try reflexivity; discriminate.
  Qed.

  (* removal of the members selected from the score index *)
  Lemma zrem_sel_ref clock lazy sel z a : Rep clock z -> simz z a ->
    zref (zrem_range_bytes lazy sel 0 (-1))
         (fun a => let '(z', n) := remove_members (map snd (filter sel (zsorted a))) a in (z', RInt n)) z a.
  Proof.
    intros R S. unfold zref, zrem_range_bytes. pose proof R as [Rc Ri].
    pose proof (sim_size compact clock (z_c z) a Rc S) as Hs. fold (zsize z) in Hs.
    destruct (zsize z =? 0) eqn:Z0.
    - assert (a = []) by (destruct a; [reflexivity|cbn [length] in Hs; lia]). subst a. cbn. split; [reflexivity|exact S].
    - cbn [Z.eqb andb]. assert (zsize z <=? -1 = false) as -> by lia. cbn [andb].
      assert (max_batch_num <? -1 = false) as -> by reflexivity.
      rewrite (index_scan_sorted compact clock z a R S), limit_unbounded.
      assert (NDm : NoDup (map snd (filter sel (zsorted a)))).
      { apply NoDup_map_filter. rewrite <- (index_scan_sorted compact clock z a R S). eapply index_scan_members_NoDup; exact R. }
      destruct (zremove_ref compact clock _ z a R NDm S) as [S' C']. unfold remove_members.
      destruct (zremove (map snd (filter sel (zsorted a))) z) as [z' n]. destruct (del_loop (map snd (filter sel (zsorted a))) a) as [h k].
      cbn [fst snd] in *. split; [f_equal; exact C'|exact S'].
  Qed.

  Lemma zremrangebyscore_ref clock ts key lo hi z a : Rep clock z -> simz z a ->
    zref (MapZ.zstep compact ts key (ZCremrangebyscore lo hi)) (SpecZ.zstep key (ZCremrangebyscore lo hi)) z a.
  Proof.
    intros R S. unfold zref. cbn [MapZ.zstep SpecZ.zstep].
    destruct lo as [l|]; [|split; [reflexivity|exact S]]. destruct hi as [h|]; [|split; [reflexivity|exact S]].
    destruct (negb (key_ok key)); [split; [reflexivity|exact S]|].
    apply (zrem_sel_ref clock _ (fun e => in_score l h (fst e)) z a R S).
  Qed.

  Lemma zclear_ref clock ts key z a : Rep clock z -> simz z a ->
    zref (MapZ.zstep compact ts key ZCclear) (SpecZ.zstep key ZCclear) z a.
  Proof.
    intros R S. unfold zref. cbn [MapZ.zstep SpecZ.zstep].
    destruct (negb (key_ok key)); [split; [reflexivity|exact S]|].
    destruct (zrem_all_ref compact clock (lazy_clear compact ts (zver z)) z a R S) as [S' C'].
    destruct (zrem_all (lazy_clear compact ts (zver z)) z) as [z' n]. cbn [fst snd] in *. subst n.
    destruct a as [|p a']; cbn [length fst snd].
    - split; [reflexivity|exact S'].
    - split; [reflexivity|exact S'].
  Qed.

  (* deletions over permuted member lists agree *)
  Lemma del_loop_perm (a : szset) ms ms' : NoDup (map fst a) -> NoDup ms -> NoDup ms' -> Permutation ms ms' ->
    meq (fst (del_loop ms a)) (fst (del_loop ms' a)) /\ snd (del_loop ms a) = snd (del_loop ms' a).
  Proof.
    intros ND N1 N2 P. destruct (del_loop_spec ms a ND) as [A1 G1]. destruct (del_loop_spec ms' a ND) as [A2 G2]. split.
    - split; [exact A1|]. split; [exact A2|]. intros g. rewrite G1, G2.
      assert (bytes_mem g ms = bytes_mem g ms') as ->; [|reflexivity].
      destruct (bytes_mem g ms) eqn:M1; destruct (bytes_mem g ms') eqn:M2; try reflexivity.
      + apply bytes_mem_In in M1. apply (Permutation_in _ P) in M1. apply bytes_mem_In in M1. congruence.
      + apply bytes_mem_In in M2. apply (Permutation_in _ (Permutation_sym P)) in M2. apply bytes_mem_In in M2. congruence.
    - rewrite (del_loop_count ms N1 a ND), (del_loop_count ms' N2 a ND). f_equal. apply filter_perm_length; exact P.
  Qed.

  (* members in lex order: the scan of the member keys is the sorted Spec list *)
  Lemma scan_members clock z a : Rep clock z -> simz z a ->
    map fst (scan (zver z) (c_elems (z_c z))) = map fst (sorted_pairs a).
  Proof.
    intros [Rc Ri] S. unfold simz in S. pose proof (scan_sorted compact clock (z_c z) a Rc S) as SS.
    unfold sorted_pairs. change (@fst_leb score) with (@key_leb score). rewrite <- SS. unfold zver.
    destruct (exists_coll (z_c z)) eqn:X; [reflexivity|]. cbn.
    (* no meta key: generation 0 holds nothing *)
    unfold scan. rewrite (gen_none (st_ver (z_c z)) (c_elems (z_c z))); [reflexivity|].
    intros e He. apply (no_meta_no_gen0 compact clock (z_c z) e Rc X He).
  Qed.

  Lemma zremrangebylex_ref clock ts key lo hi lopen ropen z a : Rep clock z -> simz z a ->
    zref (MapZ.zstep compact ts key (ZCremrangebylex lo hi lopen ropen)) (SpecZ.zstep key (ZCremrangebylex lo hi lopen ropen)) z a.
  Proof.
    intros R S. unfold zref. cbn [MapZ.zstep SpecZ.zstep].
    destruct (negb (key_ok key)); [split; [reflexivity|exact S]|].
    assert (NDa : NoDup (map fst a)) by (destruct S as (_ & N & _); exact N).
    assert (Gen : forall msM msS, msM = filter (in_lex lo hi lopen ropen) (map fst (scan (zver z) (c_elems (z_c z)))) ->
                  msS = filter (in_lex lo hi lopen ropen) (map fst a) ->
                  snd (let '(z', n) := zremove msM z in (z', RInt n)) = snd (let '(z', n) := remove_members msS a in (z', RInt n)) /\
                  simz (fst (let '(z', n) := zremove msM z in (z', RInt n))) (fst (let '(z', n) := remove_members msS a in (z', RInt n)))).
    { intros msM msS EM ES. rewrite (scan_members clock z a R S) in EM.
      assert (N1 : NoDup msM).
      { subst msM. apply NoDup_filter. unfold sorted_pairs. eapply Permutation_NoDup; [symmetry; apply map_isort_perm|exact NDa]. }
      assert (N2 : NoDup msS) by (subst msS; apply NoDup_filter; exact NDa).
      assert (P : Permutation msM msS).
      { subst. apply NoDup_Permutation; auto. intros x. rewrite !filter_In. unfold sorted_pairs.
        split; intros [H1 H2]; (split; [|exact H2]).
        - eapply Permutation_in; [apply map_isort_perm|exact H1].
        - eapply Permutation_in; [symmetry; apply map_isort_perm|exact H1]. }
      destruct (zremove_ref compact clock msM z a R N1 S) as [S' C'].
      destruct (del_loop_perm a msM msS NDa N1 N2 P) as [D1 D2]. unfold remove_members.
      destruct (zremove msM z) as [z' n]. destruct (del_loop msM a) as [h k]. destruct (del_loop msS a) as [h' k']. cbn [fst snd] in *.
      split; [f_equal; lia|]. unfold simz in *. eapply meq_trans; [exact S'|exact D1]. }
    destruct lo as [lo'|]; [apply Gen; reflexivity|]. destruct hi as [hi'|]; [apply Gen; reflexivity|].
    (* both unbounded: everything goes *)
    destruct (zrem_all_ref compact clock (lazy_clear compact ts (zver z)) z a R S) as [S' C'].
    assert (FA : filter (in_lex None None lopen ropen) (map fst a) = map fst a) by (apply filter_all; intros; reflexivity).
    rewrite FA. destruct (del_all_members a (map fst a) NDa (fun k H => H)) as [D1 D2].
    unfold remove_members. destruct (zrem_all (lazy_clear compact ts (zver z)) z) as [z' n]. destruct (del_loop (map fst a) a) as [h k]. cbn [fst snd] in *.
    split; [f_equal; rewrite C'; symmetry; apply D2; [exact NDa|auto]|].
    unfold simz in *. eapply meq_trans; [exact S'|apply meq_sym; exact D1].
  Qed.
End ZRanges.

Section ZReads.
  Variable compact : bool.
  Notation Rep := (RepZ compact).

  Lemma filter_length_le {A} (f : A -> bool) l : (length (filter f l) <= length l)%nat.
  Proof. induction l as [|x r IH]; cbn; [lia|]. destruct (f x); cbn; lia. Qed.

  Lemma limit_length_le {A} o c (l : list A) : (length (limit o c l) <= length l)%nat.
  Proof.
    unfold limit. destruct (o <? 0); [cbn; lia|]. pose proof (skipn_length (clampn o l) l).
    destruct (c <? 0); [lia|]. rewrite firstn_length. lia.
  Qed.

  (* rank ranges: zParseLimit is Redis's normalisation *)
  Lemma zparse_rank total start stop : 0 <= total ->
    match rank_range total start stop with
    | None => zparse_limit total start stop = (-1, 0)
    | Some (a, b) => zparse_limit total start stop = (a, b - a + 1) /\ 0 <= a <= b /\ b < total
    end.
  Proof.
    intros T. unfold rank_range, zparse_limit.
    repeat match goal with
           | |- context [if ?b then _ else _] => destruct b eqn:?
           | H : context [if ?b then _ else _] |- _ => destruct b eqn:?
           end; cbn [orb fst] in *;
      try discriminate; try reflexivity; try lia; try (exfalso; lia); try (split; [f_equal; lia|lia]).
  Qed.

  Lemma limit_slice {A} a b (l : list A) : 0 <= a <= b -> b < Z.of_nat (length l) -> limit a (b - a + 1) l = slice a b l.
  Proof.
    intros H1 H2. unfold limit, slice, clampn. assert (a <? 0 = false) as -> by lia. assert (b - a + 1 <? 0 = false) as -> by lia.
    assert (Z.to_nat (Z.min a (Z.of_nat (length l))) = Z.to_nat a) as -> by lia.
    rewrite skipn_length. f_equal. lia.
  Qed.

  Lemma zsorted_length (a : szset) : length (zsorted a) = length a.
  Proof. unfold zsorted. rewrite isort_length, map_length. reflexivity. Qed.

  Lemma slice_length {A} a b (l : list A) : 0 <= a <= b -> b < Z.of_nat (length l) -> Z.of_nat (length (slice a b l)) = b - a + 1.
  Proof. intros H1 H2. unfold slice. rewrite firstn_length, skipn_length. lia. Qed.

  Lemma zrange_ref clock key rev start stop ws z a : Rep clock z -> simz z a ->
    MapZ.zquery key (ZQrange rev start stop ws) z = SpecZ.zquery key (ZQrange rev start stop ws) a.
  Proof.
    intros R S. pose proof R as [Rc Ri]. pose proof (sim_size compact clock (z_c z) a Rc S) as Hs. fold (zsize z) in Hs.
    cbn [MapZ.zquery SpecZ.zquery]. destruct (negb (key_ok key)); [reflexivity|]. unfold size_of. rewrite <- Hs.
    destruct (zexists z) eqn:X; cbn [negb].
    2:{ apply (simz_nil_iff compact clock z a R S) in X. subst a. cbn [length] in Hs. rewrite Hs.
        change (Z.of_nat 0) with 0. assert (RN : rank_range 0 start stop = None).
        { unfold rank_range. repeat match goal with |- context [if ?b then _ else _] => destruct b eqn:? end; try reflexivity; exfalso; cbn [orb] in *; lia. }
        rewrite RN. reflexivity. }
    pose proof (zparse_rank (zsize z) start stop ltac:(pose proof (st_size_nonneg compact clock (z_c z) Rc); unfold zsize; lia)) as ZP.
    destruct (rank_range (zsize z) start stop) as [[ra rb]|].
    - destruct ZP as (E & B1 & B2). rewrite E. unfold zrange_bytes.
      assert (ra <? 0 = false) as -> by lia.
      assert (rb - ra + 1 <? 0 = false) as -> by lia. cbn [andb].
      rewrite filter_all by reflexivity. rewrite (index_scan_sorted compact clock z a R S).
      assert (LZ : Z.of_nat (length (zsorted a)) = zsize z) by (rewrite zsorted_length; lia).
      set (L := if rev then List.rev (zsorted a) else zsorted a).
      assert (LL : Z.of_nat (length L) = zsize z) by (unfold L; destruct rev; rewrite ?rev_length; exact LZ).
      rewrite (slice_length ra rb L) by lia.
      destruct (max_batch_num <? rb - ra + 1); [reflexivity|].
      unfold L. destruct rev.
      + rewrite limit_slice by (rewrite ?rev_length; lia). reflexivity.
      + rewrite limit_slice by lia. reflexivity.
    - rewrite ZP. unfold zrange_bytes. reflexivity.
  Qed.

  Lemma zrangebyscore_ref clock key rev lo hi ws offset count z a : Rep clock z -> simz z a ->
    MapZ.zquery key (ZQrangebyscore rev lo hi ws offset count) z = SpecZ.zquery key (ZQrangebyscore rev lo hi ws offset count) a.
  Proof.
    intros R S. pose proof R as [Rc Ri]. pose proof (sim_size compact clock (z_c z) a Rc S) as Hs. fold (zsize z) in Hs.
    cbn [MapZ.zquery SpecZ.zquery]. destruct (negb (key_ok key)); [reflexivity|].
    destruct (zexists z) eqn:X; cbn [negb].
    2:{ apply (simz_nil_iff compact clock z a R S) in X. subst a. reflexivity. }
    destruct a as [|p a'] eqn:EA; [cbn [length] in Hs; unfold zexists, exists_coll, zsize, st_size in *; destruct (c_meta (z_c z)) eqn:Q; [destruct (rc_meta _ _ _ Rc _ Q); lia|discriminate]|].
    rewrite <- EA in *. clear EA p a'.
    unfold zrange_bytes, capped. destruct (offset <? 0) eqn:O; [reflexivity|].
    destruct (max_batch_num <? count) eqn:C1; [reflexivity|].
    rewrite (index_scan_sorted compact clock z a R S).
    set (l := filter (fun e : score * bytes => in_score lo hi (fst e)) (zsorted a)).
    set (L := if rev then List.rev l else l).
    assert (EL : (if rev then limit offset count (List.rev l) else limit offset count l) = limit offset count L) by (unfold L; destruct rev; reflexivity).
    rewrite EL.
    change (take_limit offset count L) with (limit offset count L).
    destruct ((count <? 0) && (score_eqb (fst lo) SNInf && negb (snd lo) && score_eqb (fst hi) SPInf && negb (snd hi)) && (max_batch_num <? zsize z - offset)) eqn:P1.
    - (* the pre-check of the full range fires: the result would be too long anyway *)
      apply andb_true_iff in P1. destruct P1 as [P1 P3]. apply andb_true_iff in P1. destruct P1 as [Cn Pre].
      assert (ALL : l = zsorted a).
      { unfold l. apply filter_all. intros [s m] _. cbn [fst]. unfold in_score.
        repeat (apply andb_true_iff in Pre; destruct Pre as [Pre ?]).
        apply score_eqb_eq in Pre. apply score_eqb_eq in H0. destruct lo as [lo1 lo2], hi as [hi1 hi2]. cbn [fst snd] in *. subst.
        apply negb_true_iff in H, H1. subst. cbn. destruct s; reflexivity. }
      assert (LenL : Z.of_nat (length L) = zsize z).
      { unfold L. destruct rev; rewrite ?rev_length, ALL, zsorted_length; lia. }
      assert (LenLim : Z.of_nat (length (limit offset count L)) = Z.of_nat (length L) - Z.min offset (Z.of_nat (length L))).
      { unfold limit. rewrite O, Cn. rewrite skipn_length. unfold clampn. lia. }
      rewrite Cn. cbn [andb]. assert (max_batch_num <? Z.of_nat (length (limit offset count L)) = true) as -> by lia. reflexivity.
    - destruct ((count <? 0) && (max_batch_num <? Z.of_nat (length (limit offset count L)))); reflexivity.
  Qed.

  Lemma zrangebylex_ref clock key lo hi lopen ropen offset count z a : Rep clock z -> simz z a ->
    MapZ.zquery key (ZQrangebylex lo hi lopen ropen offset count) z = SpecZ.zquery key (ZQrangebylex lo hi lopen ropen offset count) a.
  Proof.
    intros R S. pose proof R as [Rc Ri]. pose proof (sim_size compact clock (z_c z) a Rc S) as Hs. fold (zsize z) in Hs.
    cbn [MapZ.zquery SpecZ.zquery]. destruct (max_batch_num <? count) eqn:C1; [reflexivity|]. destruct (negb (key_ok key)); [reflexivity|].
    rewrite (scan_members compact clock z a R S).
    destruct (zexists z) eqn:X; cbn [negb].
    2:{ apply (simz_nil_iff compact clock z a R S) in X. subst a. unfold capped. rewrite C1. cbn.
        unfold take_limit. destruct (offset <? 0); [destruct (count <? 0); reflexivity|]. rewrite skipn_nil.
        destruct (count <? 0); rewrite ?firstn_nil; reflexivity. }
    unfold capped. rewrite C1.
    change (take_limit offset count (filter (in_lex lo hi lopen ropen) (map fst (sorted_pairs a))))
      with (limit offset count (filter (in_lex lo hi lopen ropen) (map fst (sorted_pairs a)))).
    destruct ((count <? 0) && (max_batch_num <? Z.of_nat (length (limit offset count (filter (in_lex lo hi lopen ropen) (map fst (sorted_pairs a))))))); reflexivity.
  Qed.

  Lemma zcount_ref clock key lo hi z a : Rep clock z -> simz z a ->
    MapZ.zquery key (ZQcount lo hi) z = SpecZ.zquery key (ZQcount lo hi) a.
  Proof.
    intros R S. cbn [MapZ.zquery SpecZ.zquery]. destruct (negb (key_ok key)); [reflexivity|].
    destruct (zexists z) eqn:X; cbn [negb].
    2:{ apply (simz_nil_iff compact clock z a R S) in X. subst a. reflexivity. }
    rewrite (index_scan_sorted compact clock z a R S). f_equal. f_equal. unfold zsorted.
    rewrite (filter_perm_length _ _ _ (isort_perm sm_leb _)).
    clear. induction a as [|[m s] r IH]; cbn; [reflexivity|]. destruct (in_score lo hi s); cbn; rewrite IH; reflexivity.
  Qed.

  Lemma zlexcount_ref clock key lo hi lopen ropen z a : Rep clock z -> simz z a ->
    MapZ.zquery key (ZQlexcount lo hi lopen ropen) z = SpecZ.zquery key (ZQlexcount lo hi lopen ropen) a.
  Proof.
    intros R S. cbn [MapZ.zquery SpecZ.zquery]. destruct (negb (key_ok key)); [reflexivity|].
    rewrite (scan_members compact clock z a R S).
    destruct (zexists z) eqn:X; cbn [negb].
    2:{ apply (simz_nil_iff compact clock z a R S) in X. subst a. reflexivity. }
    f_equal. f_equal. unfold sorted_pairs.
    rewrite (filter_perm_length _ _ _ (map_isort_perm fst_leb fst a)).
    clear. induction a as [|[m s] r IH]; cbn; [reflexivity|]. destruct (in_lex lo hi lopen ropen m); cbn; rewrite IH; reflexivity.
  Qed.

  Lemma slice_all {A} (l : list A) n : Z.of_nat (length l) = n -> 0 < n -> slice 0 (n - 1) l = l.
  Proof.
    intros H P. unfold slice. cbn [Z.to_nat skipn]. apply firstn_all2. lia.
  Qed.

  Lemma zremrangebyrank_ref clock ts key start stop z a : Rep clock z -> simz z a ->
    zref (MapZ.zstep compact ts key (ZCremrangebyrank start stop)) (SpecZ.zstep key (ZCremrangebyrank start stop)) z a.
  Proof.
    intros R S. unfold zref. cbn [MapZ.zstep SpecZ.zstep]. pose proof R as [Rc Ri].
    destruct (negb (key_ok key)); [split; [reflexivity|exact S]|].
    pose proof (sim_size compact clock (z_c z) a Rc S) as Hs. fold (zsize z) in Hs. unfold size_of. rewrite <- Hs.
    assert (NDa : NoDup (map fst a)) by (destruct S as (_ & N & _); exact N).
    pose proof (zparse_rank (zsize z) start stop ltac:(pose proof (st_size_nonneg compact clock (z_c z) Rc); unfold zsize; lia)) as ZP.
    assert (LZ : Z.of_nat (length (zsorted a)) = zsize z) by (rewrite zsorted_length; lia).
    assert (NDs : NoDup (map snd (zsorted a))).
    { rewrite <- (index_scan_sorted compact clock z a R S). eapply index_scan_members_NoDup; exact R. }
    destruct (rank_range (zsize z) start stop) as [[ra rb]|].
    - destruct ZP as (E & B1 & B2). rewrite E. unfold zrem_range_bytes.
      assert (zsize z =? 0 = false) as -> by lia.
      destruct ((ra =? 0) && (zsize z <=? rb - ra + 1)) eqn:ALL.
      + (* everything *)
        assert (ra = 0 /\ rb = zsize z - 1) as [-> ->] by lia.
        assert ((max_batch_num <? zsize z - 1 - 0 + 1) && (zsize z - 1 - 0 + 1 <? zsize z) = false) as -> by lia.
        rewrite (slice_all (zsorted a) (zsize z) LZ) by lia.
        destruct (zrem_all_ref compact clock (lazy_clear compact ts (zver z)) z a R S) as [S' C'].
        assert (MS : forall k, In k (map snd (zsorted a)) <-> In k (map fst a)).
        { intros k. unfold zsorted. rewrite !in_map_iff. split.
          - intros ([s m] & <- & H). apply isort_In in H. apply in_map_iff in H. destruct H as ([m' s'] & E' & H). inversion E'; subst. exists (m, s). auto.
          - intros ([m s] & <- & H). exists (s, m). split; [reflexivity|]. apply isort_In. apply in_map_iff. exists (m, s). auto. }
        destruct (del_all_members a (map snd (zsorted a)) NDa (fun k Hk => proj2 (MS k) Hk)) as [D1 D2].
        unfold remove_members. destruct (zrem_all (lazy_clear compact ts (zver z)) z) as [z' n]. destruct (del_loop (map snd (zsorted a)) a) as [h k]. cbn [fst snd] in *.
        split; [f_equal; rewrite C'; symmetry; apply D2; [exact NDs|intros x Hx; apply MS; exact Hx]|].
        unfold simz in *. eapply meq_trans; [exact S'|apply meq_sym; exact D1].
      + assert (rb - ra + 1 <? zsize z = true) as -> by lia. rewrite andb_true_r.
        destruct (max_batch_num <? rb - ra + 1); [split; [reflexivity|exact S]|].
        rewrite filter_all by reflexivity. rewrite (index_scan_sorted compact clock z a R S).
        rewrite limit_slice by lia.
        assert (NDm : NoDup (map snd (slice ra rb (zsorted a)))).
        { unfold slice. apply NoDup_map_firstn, NoDup_map_skipn. exact NDs. }
        destruct (zremove_ref compact clock _ z a R NDm S) as [S' C']. unfold remove_members.
        destruct (zremove (map snd (slice ra rb (zsorted a))) z) as [z' n]. destruct (del_loop (map snd (slice ra rb (zsorted a))) a) as [h k].
        cbn [fst snd] in *. split; [f_equal; exact C'|exact S'].
    - rewrite ZP. unfold zrem_range_bytes.
      destruct (zsize z =? 0) eqn:Z0; cbn [fst snd]; [split; [reflexivity|exact S]|].
      cbn [Z.eqb andb]. assert (max_batch_num <? 0 = false) as -> by reflexivity.
      assert (limit (-1) 0 (filter (fun _ : score * bytes => true) (index_scan (zver z) (z_index z))) = []) as -> by reflexivity.
      cbn [map]. destruct (zremove_ref compact clock [] z a R (NoDup_nil _) S) as [S' C'].
      destruct (zremove [] z) as [z' n]. cbn [fst snd del_loop] in *. split; [f_equal; exact C'|exact S'].
  Qed.
End ZReads.

Section ZRank.
  Variable compact : bool.
  Notation Rep := (RepZ compact).

  Lemma sm_leb_refl x : sm_leb x x = true.
  Proof. destruct (sm_leb_total x x); assumption. Qed.

  Lemma strict_count (x : score * bytes) l : ~ In x l ->
    length (filter (fun e => sm_leb e x) l) = length (filter (fun e => negb (sm_leb x e)) l) /\
    length (filter (fun e => sm_leb x e) l) = length (filter (fun e => negb (sm_leb e x)) l).
  Proof.
    induction l as [|e r IH]; intros Hn; cbn [filter]; [split; reflexivity|].
    assert (e <> x) by (intros ->; apply Hn; left; reflexivity).
    destruct (IH (fun H' => Hn (or_intror H'))) as [I1 I2].
    destruct (sm_leb e x) eqn:A, (sm_leb x e) eqn:B; cbn [negb length].
    - exfalso. apply H. apply sm_leb_antisym; assumption.
    - split; [f_equal; exact I1|exact I2].
    - split; [exact I1|f_equal; exact I2].
    - exfalso. destruct (sm_leb_total e x); congruence.
  Qed.

  Lemma rank_count (x : score * bytes) l : NoDup l -> In x l ->
    length (filter (fun e => sm_leb e x) l) = S (length (filter (fun e => negb (sm_leb x e)) l)) /\
    length (filter (fun e => sm_leb x e) l) = S (length (filter (fun e => negb (sm_leb e x)) l)).
  Proof.
    induction l as [|e r IH]; intros ND Hin; [destruct Hin|]. inversion ND as [|? ? Hn ND']; subst. cbn [filter].
    destruct Hin as [->|Hin].
    - rewrite sm_leb_refl. cbn [negb length]. destruct (strict_count x r Hn) as [S1 S2]. split; f_equal; assumption.
    - destruct (IH ND' Hin) as [I1 I2]. assert (e <> x) by (intros ->; contradiction).
      destruct (sm_leb e x) eqn:A, (sm_leb x e) eqn:B; cbn [negb length].
      + exfalso. apply H. apply sm_leb_antisym; assumption.
      + split; [f_equal; exact I1|exact I2].
      + split; [exact I1|f_equal; exact I2].
      + exfalso. destruct (sm_leb_total e x); congruence.
  Qed.

  Lemma zrank_ref clock key rev m z a : Rep clock z -> simz z a ->
    MapZ.zquery key (ZQrank rev m) z = SpecZ.zquery key (ZQrank rev m) a.
  Proof.
    intros R S. pose proof R as [Rc Ri]. cbn [MapZ.zquery SpecZ.zquery].
    destruct (negb (key_ok key) || negb (subkey_ok m)); [reflexivity|].
    assert (LK : (if zexists z then eget (zver z) m (c_elems (z_c z)) else None) = aget bytes_eqb m a).
    { rewrite <- (sim_lookup (z_c z) a m S). reflexivity. }
    destruct (zexists z) eqn:X; cbn [negb].
    2:{ rewrite <- LK. reflexivity. }
    rewrite LK. destruct (aget bytes_eqb m a) as [s|] eqn:G; [|reflexivity].
    rewrite (index_scan_sorted compact clock z a R S).
    assert (NDa : NoDup (map fst a)) by (destruct S as (_ & N & _); exact N).
    set (L0 := map (fun e : bytes * score => (snd e, fst e)) a).
    assert (P : Permutation (zsorted a) L0) by (unfold zsorted; apply isort_perm).
    assert (NDL : NoDup L0).
    { unfold L0. eapply NoDup_map_inv with (f := snd). rewrite map_map. cbn. exact NDa. }
    assert (InL : In (s, m) L0).
    { unfold L0. apply in_map_iff. exists (m, s). split; [reflexivity|]. apply (aget_In bytes_eqb bytes_eqb_eq); exact G. }
    destruct (rank_count (s, m) L0 NDL InL) as [RC1 RC2].
    assert (EX : forall f : score * bytes -> bool, f (s, m) = true ->
              existsb (fun e => score_eqb (fst e) s && bytes_eqb (snd e) m) (filter f (zsorted a)) = true).
    { intros f Hf. apply existsb_exists. exists (s, m). split.
      - apply filter_In. split; [eapply Permutation_in; [symmetry; exact P|exact InL]|exact Hf].
      - cbn. rewrite bytes_eqb_refl. destruct (score_eqb_eq s s) as [_ Q]. rewrite Q; reflexivity. }
    destruct rev.
    - rewrite (EX (fun e => sm_leb (s, m) e) (sm_leb_refl _)).
      rewrite (filter_perm_length _ _ _ P), RC2. f_equal. lia.
    - rewrite (EX (fun e => sm_leb e (s, m)) (sm_leb_refl _)).
      rewrite (filter_perm_length _ _ _ P), RC1. f_equal. lia.
  Qed.
End ZRank.
