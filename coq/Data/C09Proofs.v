(* Data/C09Proofs.v — property C09 assembled: after every command sequence with increasing timestamps
   every collection's counting commands agree with its enumerating commands (Map model), and the
   witnesses that the pre-fix definitions break the invariant. *)
From ZV Require Import Common.Bytes Common.BytesFacts Data.Consts Data.Base Data.BaseFacts Data.Map Data.MapZ Data.MapL Data.MapK
  Data.Run Data.RepColl Data.RepHS Data.RepL Data.RepZ Data.RepRead Data.RepState Data.PreFix Data.ExpFacts.
From Coq Require Import Lia.
Open Scope Z_scope.

(* what a reader with wall clock `now` sees of the collections stored at one key *)
Definition all_agree (compact : bool) (now : Z) (s : mstate) (key : bytes) : Prop :=
  hash_agree key (xview forget_c compact now (alook (x0 empty_coll) key (m_hash s))) /\
  set_agree key (xview forget_c compact now (alook (x0 empty_coll) key (m_set s))) /\
  zset_agree key (xview forget_z compact now (alook (x0 empty_zcoll) key (m_zset s))) /\
  list_agree key (xview forget_l compact now (alook (x0 empty_lcoll) key (m_list s))).

Lemma reps_all_agree compact clock now s key : RepS compact clock s -> all_agree compact now s key.
Proof.
  intros [A B C D]. split; [|split; [|split]].
  - apply (rep_hash_agree compact clock).
    apply (xview_inv forget_c compact (RepC compact clock)); [intros Cc r; apply forget_c_rep; exact Cc|].
    apply (alook_rec (XP (RepC compact clock))); [apply RepC_empty|exact A].
  - apply (rep_set_agree compact clock).
    apply (xview_inv forget_c compact (RepC compact clock)); [intros Cc r; apply forget_c_rep; exact Cc|].
    apply (alook_rec (XP (RepC compact clock))); [apply RepC_empty|exact B].
  - apply (rep_zset_agree compact clock).
    apply (xview_inv forget_z compact (RepZ compact clock)); [intros Cc r; apply forget_z_rep; exact Cc|].
    apply (alook_rec (XP (RepZ compact clock))); [apply RepZ_empty|exact C].
  - apply (rep_list_agree compact clock).
    apply (xview_inv forget_l compact (RepL compact clock)); [intros Cc r; apply forget_l_rep; exact Cc|].
    apply (alook_rec (XP (RepL compact clock))); [apply RepL_empty|].
    eapply all_recs_mono; [|exact D]. intros v [Rv _]; exact Rv.
Qed.

Theorem rep_all_sequences compact now cs : increasing 0 cs -> RepS compact (last_ts 0 cs) (map_run compact now cs m_init).
Proof. intros I. apply map_run_rep; [apply RepS_init|lia|exact I]. Qed.

(* the reads inside the sequence and the final reader may have different clocks *)
Theorem agree_all_sequences compact now now' cs key : increasing 0 cs -> all_agree compact now' (map_run compact now cs m_init) key.
Proof. intros I. eapply reps_all_agree. apply rep_all_sequences; exact I. Qed.

(* every prefix of a sequence is a sequence *)
Lemma increasing_firstn n : forall clock cs, increasing clock cs -> increasing clock (firstn n cs).
Proof.
  induction n as [|n IH]; intros clock cs I; cbn; [exact Logic.I|].
  destruct cs as [|[ts c] r]; cbn; [exact Logic.I|]. destruct I as [I1 I2]. split; [exact I1|apply IH; exact I2].
Qed.
Theorem agree_every_prefix compact now now' cs key n : increasing 0 cs ->
  all_agree compact now' (map_run compact now (firstn n cs) m_init) key.
Proof. intros I. apply agree_all_sequences, increasing_firstn; exact I. Qed.

(* ---------- where the timestamps matter ----------
   The raft timestamp reaches the collections as the generation (ValueVersion) that wait_compact gives a
   collection created while no live meta key exists (prepareCollKeyForWrite / renewOnExpired) and as the
   clock of the expiry decision.  Under local_deletion nothing is ever expired for a command and the
   generation is 0: the invariant needs no hypothesis on the timestamps there. *)
Lemma RepS_local_clock clock clock' s : RepS false clock s -> RepS false clock' s.
Proof.
  assert (HC : forall V (c : coll V), RepC false clock c -> RepC false clock' c).
  { intros V c [A B N D E]. constructor; auto. }
  assert (HL : forall l, RepL false clock l -> RepL false clock' l).
  { intros l [A B N D]. constructor; auto. }
  intros [A B C D]. constructor.
  - eapply all_recs_mono; [|exact A]. intros v; apply HC.
  - eapply all_recs_mono; [|exact B]. intros v; apply HC.
  - eapply all_recs_mono; [|exact C]. intros v [R1 R2]; constructor; [apply HC; exact R1|exact R2].
  - eapply all_recs_mono; [|exact D]. intros v [Rv Sv]; split; [apply HL; exact Rv|exact Sv].
Qed.

(* the collections after a step under local_deletion do not depend on the timestamp *)
Definition colls (s : mstate) := (m_hash s, m_set s, m_zset s, m_list s).
Lemma map_step_local_ts now ts ts' c s :
  colls (fst (map_step false now ts c s)) = colls (fst (map_step false now ts' c s)).
Proof.
  destruct c; try reflexivity.
  - cbn [map_step]. destruct (negb (key_ok key)); [reflexivity|].
    destruct t; unfold aupd, xexpire; cbn [dead andb orb];
      match goal with |- context [alook ?d ?k ?m] => destruct (negb (_ (x_r (alook d k m)))) end; cbn [fst];
      repeat match goal with |- context [if ?b then _ else _] => destruct b end; reflexivity.
  - cbn [map_step]. destruct (MapK.kstep false ts c (m_kv s)), (MapK.kstep false ts' c (m_kv s)). reflexivity.
Qed.

Lemma RepS_colls compact clock s s' : colls s = colls s' -> RepS compact clock s -> RepS compact clock s'.
Proof.
  unfold colls. intros E [A B C D]. injection E as E1 E2 E3 E4.
  constructor; [rewrite <- E1|rewrite <- E2|rewrite <- E3|rewrite <- E4]; assumption.
Qed.

Theorem map_step_rep_local clock now ts c s : RepS false clock s -> RepS false clock (fst (map_step false now ts c s)).
Proof.
  intros R. apply (RepS_colls false clock (fst (map_step false now 1 c s))); [apply map_step_local_ts|].
  apply (RepS_local_clock 1). apply (map_step_rep false 0); [|lia]. apply (RepS_local_clock clock); exact R.
Qed.

Theorem rep_local_any_timestamps now cs : forall s clock, RepS false clock s -> RepS false clock (map_run false now cs s).
Proof.
  induction cs as [|[t c] r IH]; intros s clock R; cbn [map_run fold_left fst snd]; [exact R|].
  apply IH. apply map_step_rep_local; exact R.
Qed.
Theorem agree_local_any_timestamps now now' cs key : all_agree false now' (map_run false now cs m_init) key.
Proof. eapply reps_all_agree. apply (rep_local_any_timestamps now cs m_init 0). apply RepS_init. Qed.

(* ---------- the pre-fix definitions break it (vm_compute witnesses; inputs of corpus/C09) ---------- *)
Local Open Scope N_scope.
Definition k_ts : bytes := [116; 58; 115].   (* "t:s" *)
Definition b_m : bytes := [109]. Definition b_x : bytes := [120]. Definition b_y : bytes := [121].
Definition b_a : bytes := [97]. Definition b_b : bytes := [98]. Definition b_c : bytes := [99]. Definition b_f : bytes := [102].
Definition b_1 : bytes := [49]. Definition b_2 : bytes := [50]. Definition b_3 : bytes := [51].
Local Close Scope N_scope.

Definition after_sadd_pre : scoll := fst (sadd_pre false 1 k_ts [b_m; b_m] empty_coll).
Lemma sadd_pre_breaks : scard k_ts after_sadd_pre = RInt 2 /\ smembers k_ts after_sadd_pre = rbulks [b_m].
Proof. vm_compute. split; reflexivity. Qed.

Definition after_srem_pre : scoll :=
  fst (srem_pre k_ts [b_m; b_m] (fst (sadd false 1 k_ts [b_m; b_x; b_y] empty_coll))).
Lemma srem_pre_breaks : scard k_ts after_srem_pre = RInt 1 /\
  sismember k_ts b_x after_srem_pre = RInt 1 /\ sismember k_ts b_y after_srem_pre = RInt 1.
Proof. vm_compute. repeat split; reflexivity. Qed.

Definition after_hmset_pre : hcoll := fst (hmset_pre false 1 k_ts [(b_f, b_1); (b_f, b_2)] empty_coll).
Lemma hmset_pre_breaks : hlen k_ts after_hmset_pre = RInt 2 /\ hkeys k_ts after_hmset_pre = rbulks [b_f].
Proof. vm_compute. split; reflexivity. Qed.

Definition after_hdel_pre : hcoll :=
  fst (hdel_pre k_ts [b_a; b_a] (fst (hmset false 1 k_ts [(b_a, b_1); (b_b, b_2); (b_c, b_3)] empty_coll))).
Lemma hdel_pre_breaks : hlen k_ts after_hdel_pre = RInt 1 /\ hkeys k_ts after_hdel_pre = rbulks [b_b; b_c].
Proof. vm_compute. split; reflexivity. Qed.

Definition after_zadd_pre : zcoll := fst (zadd_pre false 1 k_ts [(SFin 1, b_m); (SFin 2, b_m)] empty_zcoll).
Lemma zadd_pre_breaks :
  zquery k_ts ZQcard after_zadd_pre = RInt 2 /\
  zquery k_ts (ZQrange false 0 (-1) false) after_zadd_pre = rbulks [b_m; b_m] /\
  zquery k_ts (ZQrangebylex None None false false 0 (-1)) after_zadd_pre = rbulks [b_m].
Proof. vm_compute. repeat split; reflexivity. Qed.

Definition after_zrem_pre : zcoll :=
  fst (zrem_pre k_ts [b_m; b_m] (fst (zstep false 1 k_ts (ZCadd [(SFin 1, b_m); (SFin 2, b_x); (SFin 3, b_y)]) empty_zcoll))).
Lemma zrem_pre_breaks :
  zquery k_ts ZQcard after_zrem_pre = RInt 1 /\
  zquery k_ts (ZQrange false 0 (-1) false) after_zrem_pre = rbulks [b_x] /\
  zquery k_ts (ZQrangebylex None None false false 0 (-1)) after_zrem_pre = rbulks [b_x; b_y].
Proof. vm_compute. repeat split; reflexivity. Qed.

Definition after_zincrby_pre : zcoll :=
  fst (zincrby_pre false 2 k_ts (SFin 0) b_m (fst (zstep false 1 k_ts (ZCadd [(SFin 1, b_m)]) empty_zcoll))).
Lemma zincrby_pre_breaks :
  zquery k_ts ZQcard after_zincrby_pre = RInt 1 /\
  zquery k_ts (ZQscore b_m) after_zincrby_pre = RFloat (SFin 1) /\
  zquery k_ts (ZQrange false 0 (-1) false) after_zincrby_pre = RArr [].
Proof. vm_compute. repeat split; reflexivity. Qed.

Definition after_ltrim_pre : lcoll :=
  fst (ltrim_pre k_ts (-3) (-3) (fst (lstep false 1 k_ts (LCpush true [b_a]) empty_lcoll))).
Lemma ltrim_pre_breaks :
  lquery k_ts LQlen after_ltrim_pre = RInt 1 /\ lquery k_ts (LQrange 0 (-1)) after_ltrim_pre = RArr [].
Proof. vm_compute. split; reflexivity. Qed.

(* the same inputs on the repaired definitions *)
Lemma sadd_fixed_ok : let c := fst (sadd false 1 k_ts [b_m; b_m] empty_coll) in
  scard k_ts c = RInt 1 /\ smembers k_ts c = rbulks [b_m].
Proof. vm_compute. split; reflexivity. Qed.
Lemma ltrim_fixed_ok :
  let l := fst (lstep false 2 k_ts (LCtrim (-3) (-3)) (fst (lstep false 1 k_ts (LCpush true [b_a]) empty_lcoll))) in
  lquery k_ts LQlen l = RInt 0 /\ lquery k_ts (LQrange 0 (-1)) l = RArr [].
Proof. vm_compute. split; reflexivity. Qed.

(* under wait_compact EQUAL timestamps break the agreement (open finding of C10: generation = ts collision).
   Since fix 1dcd66e a clear at the timestamp of the creation removes the elements physically, so clear +
   re-create at one timestamp is harmless; the collision is still reachable through expiry: a hash that
   expires in the second of its creation and is written again at the same timestamp is renewed with the
   generation it already had *)
Definition equal_ts_hash : list (Z * cmd) :=
  [ (5000000000, CHset false k_ts b_a b_1); (5000000000, CExpire TH k_ts 0); (5000000000, CHset false k_ts b_b b_1) ].
Lemma equal_ts_breaks_agree :
  let c := x_r (alook (x0 empty_coll) k_ts (m_hash (map_run true 0 equal_ts_hash m_init))) in
  hlen k_ts c = RInt 1 /\ hkeys k_ts c = rbulks [b_a; b_b].
Proof. vm_compute. split; reflexivity. Qed.
(* the clear variant on the repaired definitions: HSETNX k a 1; HCLEAR k; HSETNX k b 1 at one timestamp *)
Definition equal_ts_clear : list (Z * cmd) :=
  [ (5, CHset true k_ts b_a b_1); (5, CHclear k_ts); (5, CHset true k_ts b_b b_1) ].
Lemma equal_ts_clear_ok :
  let c := x_r (alook (x0 empty_coll) k_ts (m_hash (map_run true 0 equal_ts_clear m_init))) in
  hlen k_ts c = RInt 1 /\ hkeys k_ts c = rbulks [b_b].
Proof. vm_compute. split; reflexivity. Qed.

(* ---------- the size tests of hDeleteAll must cover every size ----------
   with `<` in the test of the key-by-key loop and `>` in the test of the DeleteRange, a hash of exactly
   RangeDeleteNum fields takes neither way and keeps all its field keys (the shape of a seeded change that the
   big-collection class of the check catches; compare clear_elems_tests_exact, which holds for ALL sizes) *)
Definition clear_elems_gap {V} (size v : Z) (es : list (vkey * V)) : list (vkey * V) :=
  let es1 := if size <? range_delete_num then delete_each (BStart v) (BStop v) es else es in
  if range_delete_num <? size then delete_range (BStart v) (BStop v) es1 else es1.
Lemma clear_gap_keeps_everything {V} v (es : list (vkey * V)) : clear_elems_gap range_delete_num v es = es.
Proof. unfold clear_elems_gap. rewrite !Z.ltb_irrefl. reflexivity. Qed.
