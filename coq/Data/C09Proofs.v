(* Data/C09Proofs.v — property C09 assembled: after every command sequence with increasing timestamps
   every collection's counting commands agree with its enumerating commands (Map model), and the
   witnesses that the pre-fix definitions break the invariant. *)
From ZV Require Import Common.Bytes Common.BytesFacts Data.Consts Data.Base Data.BaseFacts Data.Map Data.MapZ Data.MapL Data.MapK
  Data.Run Data.RepColl Data.RepHS Data.RepL Data.RepZ Data.RepRead Data.RepState Data.PreFix.
From Coq Require Import Lia.
Open Scope Z_scope.

Definition all_agree (s : mstate) (key : bytes) : Prop :=
  hash_agree key (alook empty_coll key (m_hash s)) /\
  set_agree key (alook empty_coll key (m_set s)) /\
  zset_agree key (alook empty_zcoll key (m_zset s)) /\
  list_agree key (alook empty_lcoll key (m_list s)).

Lemma reps_all_agree compact clock s key : RepS compact clock s -> all_agree s key.
Proof.
  intros [A B C D]. split; [|split; [|split]].
  - apply (rep_hash_agree compact clock). apply alook_rec; [apply RepC_empty|exact A].
  - apply (rep_set_agree compact clock). apply alook_rec; [apply RepC_empty|exact B].
  - apply (rep_zset_agree compact clock). apply alook_rec; [apply RepZ_empty|exact C].
  - apply (rep_list_agree compact clock). apply alook_rec; [apply RepL_empty|exact D].
Qed.

Theorem rep_all_sequences compact cs : increasing 0 cs -> RepS compact (last_ts 0 cs) (map_run compact cs m_init).
Proof. intros I. apply map_run_rep; [apply RepS_init|lia|exact I]. Qed.

Theorem agree_all_sequences compact cs key : increasing 0 cs -> all_agree (map_run compact cs m_init) key.
Proof. intros I. eapply reps_all_agree. apply rep_all_sequences; exact I. Qed.

(* every prefix of a sequence is a sequence *)
Lemma increasing_firstn n : forall clock cs, increasing clock cs -> increasing clock (firstn n cs).
Proof.
  induction n as [|n IH]; intros clock cs I; cbn; [exact Logic.I|].
  destruct cs as [|[ts c] r]; cbn; [exact Logic.I|]. destruct I as [I1 I2]. split; [exact I1|apply IH; exact I2].
Qed.
Theorem agree_every_prefix compact cs key n : increasing 0 cs -> all_agree (map_run compact (firstn n cs) m_init) key.
Proof. intros I. apply agree_all_sequences, increasing_firstn; exact I. Qed.

(* ---------- where the timestamps matter ----------
   Without expiry commands the raft timestamp reaches the data only as the generation (ValueVersion) that
   wait_compact gives a collection created while no meta key exists (prepareCollKeyForWrite / renewOnExpired).
   Under local_deletion the Map model does not look at it at all: *)
Lemma map_step_local_ts ts ts' c s : map_step false ts c s = map_step false ts' c s.
Proof.
  destruct c; reflexivity.
Qed.

Fixpoint renum (n : Z) (cs : list (Z * cmd)) : list (Z * cmd) :=
  match cs with [] => [] | (_, c) :: r => (n, c) :: renum (n + 1) r end.
Lemma renum_increasing cs : forall n, increasing (n - 1) (renum n cs).
Proof. induction cs as [|[t c] r IH]; intros n; cbn; [exact I|]. split; [lia|]. replace n with (n + 1 - 1) at 1 by lia. apply IH. Qed.
Lemma renum_length cs : forall n, length (renum n cs) = length cs.
Proof. induction cs as [|[t c] r IH]; intros n; cbn; [reflexivity|]. rewrite IH; reflexivity. Qed.
Lemma renum_map_run cs : forall n s, map_run false (renum n cs) s = map_run false cs s.
Proof.
  induction cs as [|[t c] r IH]; intros n s; cbn [renum map_run fold_left fst snd]; [reflexivity|].
  rewrite (map_step_local_ts n t c s). apply IH.
Qed.


Theorem rep_local_any_timestamps cs : exists clock, RepS false clock (map_run false cs m_init).
Proof.
  exists (last_ts 0 (renum 1 cs)). rewrite <- (renum_map_run cs 1). apply rep_all_sequences. apply (renum_increasing cs 1).
Qed.
Theorem agree_local_any_timestamps cs key : all_agree (map_run false cs m_init) key.
Proof. destruct (rep_local_any_timestamps cs) as [clock R]. eapply reps_all_agree; exact R. Qed.

(* ---------- the pre-fix definitions break it (vm_compute witnesses; inputs of corpus/C09) ---------- *)
Local Open Scope N_scope.
Definition k_ts : bytes := [116; 58; 115].   (* "t:s" *)
Definition b_m : bytes := [109]. Definition b_x : bytes := [120]. Definition b_y : bytes := [121].
Definition b_a : bytes := [97]. Definition b_b : bytes := [98]. Definition b_c : bytes := [99]. Definition b_f : bytes := [102].
Definition b_1 : bytes := [49]. Definition b_2 : bytes := [50]. Definition b_3 : bytes := [51].
Local Close Scope N_scope.

Definition after_sadd_pre : scoll := fst (sadd_pre false 1 k_ts [b_m; b_m] empty_coll).
Lemma sadd_pre_breaks : scard k_ts after_sadd_pre = RInt 2 /\ smembers k_ts after_sadd_pre = rbulks [b_m].
Proof. vm_compute. split; reflexivity. Qed.

Definition after_srem_pre : scoll :=
  fst (srem_pre k_ts [b_m; b_m] (fst (sadd false 1 k_ts [b_m; b_x; b_y] empty_coll))).
Lemma srem_pre_breaks : scard k_ts after_srem_pre = RInt 1 /\
  sismember k_ts b_x after_srem_pre = RInt 1 /\ sismember k_ts b_y after_srem_pre = RInt 1.
Proof. vm_compute. repeat split; reflexivity. Qed.

Definition after_hmset_pre : hcoll := fst (hmset_pre false 1 k_ts [(b_f, b_1); (b_f, b_2)] empty_coll).
Lemma hmset_pre_breaks : hlen k_ts after_hmset_pre = RInt 2 /\ hkeys k_ts after_hmset_pre = rbulks [b_f].
Proof. vm_compute. split; reflexivity. Qed.

Definition after_hdel_pre : hcoll :=
  fst (hdel_pre k_ts [b_a; b_a] (fst (hmset false 1 k_ts [(b_a, b_1); (b_b, b_2); (b_c, b_3)] empty_coll))).
Lemma hdel_pre_breaks : hlen k_ts after_hdel_pre = RInt 1 /\ hkeys k_ts after_hdel_pre = rbulks [b_b; b_c].
Proof. vm_compute. split; reflexivity. Qed.

Definition after_zadd_pre : zcoll := fst (zadd_pre false 1 k_ts [(SFin 1, b_m); (SFin 2, b_m)] empty_zcoll).
Lemma zadd_pre_breaks :
  zquery k_ts ZQcard after_zadd_pre = RInt 2 /\
  zquery k_ts (ZQrange false 0 (-1) false) after_zadd_pre = rbulks [b_m; b_m] /\
  zquery k_ts (ZQrangebylex None None false false 0 (-1)) after_zadd_pre = rbulks [b_m].
Proof. vm_compute. repeat split; reflexivity. Qed.

Definition after_zrem_pre : zcoll :=
  fst (zrem_pre k_ts [b_m; b_m] (fst (zstep false 1 k_ts (ZCadd [(SFin 1, b_m); (SFin 2, b_x); (SFin 3, b_y)]) empty_zcoll))).
Lemma zrem_pre_breaks :
  zquery k_ts ZQcard after_zrem_pre = RInt 1 /\
  zquery k_ts (ZQrange false 0 (-1) false) after_zrem_pre = rbulks [b_x] /\
  zquery k_ts (ZQrangebylex None None false false 0 (-1)) after_zrem_pre = rbulks [b_x; b_y].
Proof. vm_compute. repeat split; reflexivity. Qed.

Definition after_zincrby_pre : zcoll :=
  fst (zincrby_pre false 2 k_ts (SFin 0) b_m (fst (zstep false 1 k_ts (ZCadd [(SFin 1, b_m)]) empty_zcoll))).
Lemma zincrby_pre_breaks :
  zquery k_ts ZQcard after_zincrby_pre = RInt 1 /\
  zquery k_ts (ZQscore b_m) after_zincrby_pre = RFloat (SFin 1) /\
  zquery k_ts (ZQrange false 0 (-1) false) after_zincrby_pre = RArr [].
Proof. vm_compute. repeat split; reflexivity. Qed.

Definition after_ltrim_pre : lcoll :=
  fst (ltrim_pre k_ts (-3) (-3) (fst (lstep false 1 k_ts (LCpush true [b_a]) empty_lcoll))).
Lemma ltrim_pre_breaks :
  lquery k_ts LQlen after_ltrim_pre = RInt 1 /\ lquery k_ts (LQrange 0 (-1)) after_ltrim_pre = RArr [].
Proof. vm_compute. split; reflexivity. Qed.

(* the same inputs on the repaired definitions *)
Lemma sadd_fixed_ok : let c := fst (sadd false 1 k_ts [b_m; b_m] empty_coll) in
  scard k_ts c = RInt 1 /\ smembers k_ts c = rbulks [b_m].
Proof. vm_compute. split; reflexivity. Qed.
Lemma ltrim_fixed_ok :
  let l := fst (lstep false 2 k_ts (LCtrim (-3) (-3)) (fst (lstep false 1 k_ts (LCpush true [b_a]) empty_lcoll))) in
  lquery k_ts LQlen l = RInt 0 /\ lquery k_ts (LQrange 0 (-1)) l = RArr [].
Proof. vm_compute. split; reflexivity. Qed.

(* under wait_compact EQUAL timestamps break the agreement (open finding of C10: generation = ts collision) *)
Definition equal_ts_hash : list (Z * cmd) :=
  [ (5, CHset true k_ts b_a b_1); (5, CHclear k_ts); (5, CHset true k_ts b_b b_1) ].
Lemma equal_ts_breaks_agree :
  let c := alook empty_coll k_ts (m_hash (map_run true equal_ts_hash m_init)) in
  hlen k_ts c = RInt 1 /\ hkeys k_ts c = rbulks [b_a; b_b].
Proof. vm_compute. split; reflexivity. Qed.
