(* Data/Spec.v — the simple reference model C08 names: Redis semantics of the collection commands
   on ZanRedisDB's per-type keyspaces.  One value per (type, "table:key"):
       hash = association list field -> value      set  = list of members (no repetition)
       zset = association list member -> score     list = list of values
   A key EXISTS iff its value is non-empty (removing the last element removes the key).
   Written from the Redis command reference; ZanRedisDB's documented deviations (doc/user-guide.md):
     * key format namespace:table:real-key, every data type its own keyspace (user-guide "注意事项"
       items 1 and 5): one Spec value per type and key, no WRONGTYPE errors;
     * SPOP / SRANDMEMBER return members in key (byte) order (user-guide, Set table: "按顺序返回");
     * bulk reads (HGETALL/HKEYS/HVALS/SMEMBERS/LRANGE/ZRANGE...) fail beyond 5000 elements
       (user-guide item 6);
     * enumeration order of hashes and sets is unspecified in Redis; Spec fixes it to byte order of
       the field / member (what a sorted store yields).
   Extension commands *CLEAR / *KEYEXIST as described there.  Expiry commands are not in this model.
   No proofs in this file. *)
From ZV Require Export Data.Base.
From ZV Require Import Data.Consts.
Open Scope Z_scope.

Definition fst_leb {V} (a b : bytes * V) : bool := bytes_leb (fst a) (fst b).
Definition sorted_pairs {V} (l : list (bytes * V)) : list (bytes * V) := isort fst_leb l.
Definition size_of {A} (l : list A) : Z := Z.of_nat (length l).

(* =========================== hash =========================== *)
Definition shash := list (bytes * bytes).

Definition hset (nx : bool) (key f x : bytes) (h : shash) : shash * reply :=
  if negb (value_ok x) || negb (key_ok key) || negb (subkey_ok f) then (h, RErr)
  else match aget bytes_eqb f h with
       | Some _ => if nx then (h, RInt 0) else (aput bytes_eqb f x h, RInt 0)
       | None => (aput bytes_eqb f x h, RInt 1)
       end.

Definition hmset (key : bytes) (fvs : list (bytes * bytes)) (h : shash) : shash * reply :=
  if too_many fvs then (h, RErr)
  else match fvs with
  | [] => (h, RNil)
  | _ => if negb (key_ok key) || negb (forallb (fun fv => subkey_ok (fst fv) && value_ok (snd fv)) fvs) then (h, RErr)
         else (fold_left (fun h fv => aput bytes_eqb (fst fv) (snd fv) h) fvs h, RNil)
  end.

(* HDEL: fields removed one after the other, each counted when it was present at that moment *)
Fixpoint del_loop {V} (fs : list bytes) (h : list (bytes * V)) : list (bytes * V) * Z :=
  match fs with
  | [] => (h, 0)
  | f :: r => if amem bytes_eqb f h
              then let '(h', n) := del_loop r (adel bytes_eqb f h) in (h', n + 1)
              else del_loop r h
  end.
Definition hdel (key : bytes) (fs : list bytes) (h : shash) : shash * reply :=
  if too_many fs then (h, RErr)
  else match fs with
  | [] => (h, RInt 0)
  | _ => if negb (key_ok key) || negb (forallb subkey_ok fs) then (h, RErr)
         else let '(h', n) := del_loop fs h in (h', RInt n)
  end.

(* HINCRBY: Redis refuses a non-integer value and an overflowing sum *)
Definition hincrby (key f : bytes) (delta : Z) (h : shash) : shash * reply :=
  if negb (key_ok key) || negb (subkey_ok f) then (h, RErr)
  else match (match aget bytes_eqb f h with Some b => parse_int64 b | None => Some 0 end) with
       | None => (h, RErr)
       | Some n0 =>
           if negb (in_int64 (n0 + delta)) then (h, RErr)
           else (aput bytes_eqb f (format_int (n0 + delta)) h, RInt (n0 + delta))
       end.

Definition hclear (key : bytes) (h : shash) : shash * reply :=
  if negb (key_ok key) then (h, RErr)
  else match h with [] => (h, RInt 0) | _ => ([], RInt 1) end.

Definition hlen (key : bytes) (h : shash) : reply :=
  if negb (key_ok key) then RInt 0 else RInt (size_of h).
Definition hget (key f : bytes) (h : shash) : reply :=
  if negb (key_ok key) || negb (subkey_ok f) then RErr else ropt (aget bytes_eqb f h).
Definition hexists (key f : bytes) (h : shash) : reply :=
  if negb (key_ok key) || negb (subkey_ok f) then RInt 0 else rbool (amem bytes_eqb f h).
Definition hmget (key : bytes) (fs : list bytes) (h : shash) : reply :=
  if too_many fs || negb (key_ok key) || negb (forallb subkey_ok fs) then RArr []
  else RArr (map (fun f => ropt (aget bytes_eqb f h)) fs).
Definition henum (key : bytes) (h : shash) : option (list (bytes * bytes)) :=
  if negb (key_ok key) then None
  else if max_batch_num <? size_of h then None
  else Some (sorted_pairs h).
Definition hgetall (key : bytes) (h : shash) : reply :=
  match henum key h with
  | None => RErr
  | Some l => RArr (flat_map (fun fv => [RBulk (fst fv); RBulk (snd fv)]) l)
  end.
Definition hkeys (key : bytes) (h : shash) : reply :=
  match henum key h with None => RErr | Some l => rbulks (map fst l) end.
Definition hvals (key : bytes) (h : shash) : reply :=
  match henum key h with None => RErr | Some l => rbulks (map snd l) end.
Definition hkeyexist (key : bytes) (h : shash) : reply :=
  if negb (key_ok key) then RErr else rbool (negb (Nat.eqb (length h) 0)).

(* =========================== set =========================== *)
(* a set is an association list member -> tt, so that it shares the list machinery of hashes *)
Definition sset := list (bytes * unit).

Fixpoint sadd_loop (ms : list bytes) (s : sset) : sset * Z :=
  match ms with
  | [] => (s, 0)
  | m :: r => if amem bytes_eqb m s then sadd_loop r s
              else let '(s', n) := sadd_loop r (aput bytes_eqb m tt s) in (s', n + 1)
  end.
Definition sadd (key : bytes) (ms : list bytes) (s : sset) : sset * reply :=
  if too_many ms then (s, RErr)
  else if negb (key_ok key) || negb (forallb subkey_ok ms) then (s, RErr)
  else let '(s', n) := sadd_loop ms s in (s', RInt n).

Definition srem (key : bytes) (ms : list bytes) (s : sset) : sset * reply :=
  match ms with
  | [] => (s, RInt 0)
  | _ => if too_many ms then (s, RErr)
         else if negb (key_ok key) || negb (forallb subkey_ok ms) then (s, RErr)
         else let '(s', n) := del_loop ms s in (s', RInt n)
  end.

Definition sorted_members (s : sset) : list bytes := map fst (sorted_pairs s).
Definition smembers_n (key : bytes) (num : Z) (s : sset) : option (list bytes) :=
  if max_batch_num <? num then None
  else if num <=? 0 then None
  else if negb (key_ok key) then None
  else Some (firstn (Z.to_nat num) (sorted_members s)).

(* SPOP [count]: the first members in byte order (documented deviation) *)
Definition spop (key : bytes) (count : option Z) (s : sset) : sset * reply :=
  let n := match count with Some n => n | None => 1 end in
  match smembers_n key n s with
  | None => (s, RErr)
  | Some vals =>
      let '(s', _) := del_loop vals s in
      (s', match count with
           | Some _ => rbulks vals
           | None => match vals with x :: _ => RBulk x | [] => RNil end
           end)
  end.

Definition sclear (key : bytes) (s : sset) : sset * reply :=
  if negb (key_ok key) then (s, RErr)
  else match s with [] => (s, RInt 0) | _ => ([], RInt 1) end.

Definition scard (key : bytes) (s : sset) : reply :=
  if negb (key_ok key) then RErr else RInt (size_of s).
Definition sismember (key m : bytes) (s : sset) : reply :=
  if negb (key_ok key) then RErr
  else match s with
       | [] => RInt 0
       | _ => if negb (subkey_ok m) then RErr else rbool (amem bytes_eqb m s)
       end.
Definition smembers (key : bytes) (s : sset) : reply :=
  if negb (key_ok key) then RErr
  else if max_batch_num <? size_of s then RErr
  else rbulks (sorted_members s).
Definition srandmember (key : bytes) (count : Z) (s : sset) : reply :=
  match smembers_n key count s with Some l => rbulks l | None => RErr end.
Definition skeyexist (key : bytes) (s : sset) : reply :=
  if negb (key_ok key) then RErr else rbool (negb (Nat.eqb (length s) 0)).
