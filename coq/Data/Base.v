(* Data/Base.v — shared vocabulary of the data-mapping models (Spec.v, Map.v): association
   lists, sorting, replies, integer and score text conversions, redis key splitting.
   Transcribed helpers:
     rockredis/t_table.go  extractTableFromRedisKey
     common/limit.go       CheckKey, CheckSubKey, CheckKeySubKey
     rockredis/util.go     StrInt64 (strconv.ParseInt base 10, 64 bit), FormatInt64ToSlice
     strconv.ParseFloat    restricted to integer and infinity literals (the generated score pool)
   No proofs in this file. *)
From ZV Require Export Common.Bytes.
From ZV Require Import Data.Consts.
From Coq Require Export ZArith.
Open Scope Z_scope.

(* ---------- replies (projected observables) ---------- *)
(* scores: integer-valued doubles (exact), -0 identified with +0 (the harness prints both alike),
   and the two infinities. NaN is rejected by the code (node.getScorePairs, rockredis.ZIncrBy). *)
Inductive score := SNInf | SFin (z : Z) | SPInf.

Inductive reply :=
| RNil                       (* nil / null bulk *)
| RInt (z : Z)
| RBulk (b : bytes)
| RArr (l : list reply)
| RFloat (s : score)
| RErr                       (* any error (the harness maps every error to one token) *)
| RFault.                    (* a repair path of the code for corrupted data was entered (fixListKey);
                                never printed by the harness: reaching it is a visible mismatch *)

Definition rbulks (l : list bytes) : reply := RArr (map RBulk l).
Definition ropt (o : option bytes) : reply := match o with Some b => RBulk b | None => RNil end.
Definition rbool (b : bool) : reply := RInt (if b then 1 else 0).

(* ---------- association lists ---------- *)
Section AMap.
  Context {K V : Type}.
  Variable eqb : K -> K -> bool.

  Fixpoint aget (k : K) (m : list (K * V)) : option V :=
    match m with
    | [] => None
    | (k', v) :: r => if eqb k k' then Some v else aget k r
    end.

  (* replace in place, or append at the end *)
  Fixpoint aput (k : K) (v : V) (m : list (K * V)) : list (K * V) :=
    match m with
    | [] => [(k, v)]
    | (k', v') :: r => if eqb k k' then (k', v) :: r else (k', v') :: aput k v r
    end.

  Fixpoint adel (k : K) (m : list (K * V)) : list (K * V) :=
    match m with
    | [] => []
    | (k', v') :: r => if eqb k k' then r else (k', v') :: adel k r
    end.

  Definition amem (k : K) (m : list (K * V)) : bool :=
    match aget k m with Some _ => true | None => false end.
End AMap.

(* ---------- sorting (insertion sort by a boolean "less or equal") ---------- *)
Section Sort.
  Context {A : Type}.
  Variable leb : A -> A -> bool.
  Fixpoint insert_sorted (x : A) (l : list A) : list A :=
    match l with
    | [] => [x]
    | y :: r => if leb x y then x :: y :: r else y :: insert_sorted x r
    end.
  Definition isort (l : list A) : list A := fold_right insert_sorted [] l.
End Sort.

(* ---------- keys ---------- *)
(* versioned element key: (generation, sub key). Under the local-deletion policy the generation is 0. *)
Definition vkey := (Z * bytes)%type.
Definition vkey_eqb (a b : vkey) : bool := (fst a =? fst b) && bytes_eqb (snd a) (snd b).

(* extractTableFromRedisKey: split at the first ':' ; None = errTableName *)
Fixpoint split_table (key : bytes) : option (bytes * bytes) :=
  match key with
  | [] => None
  | x :: r => if (x =? table_sep)%N then Some ([], r)
              else match split_table r with
                   | Some (t, k) => Some (x :: t, k)
                   | None => None
                   end
  end.

(* what every collection command demands of "table:key": a separator, a non-empty table
   (GetCollVersionKey) and a real key of 1..MaxKeySize bytes (checkKeySize on the real key);
   commands that call checkKeySize on the full key first are subsumed (full key longer than real key
   — sizes near the 10 KB limit are outside the generated pools). *)
Definition blen (b : bytes) : Z := Z.of_nat (length b).
Definition key_ok (key : bytes) : bool :=
  match split_table key with
  | Some (t, k) => negb (Nat.eqb (length t) 0) && negb (Nat.eqb (length k) 0)
                   && (blen key <=? max_key_size)
  | None => false
  end.
Definition subkey_ok (f : bytes) : bool := blen f <=? max_subkey_len.
Definition value_ok (v : bytes) : bool := blen v <=? max_value_size.

(* ---------- int64 text ---------- *)
Definition int64_min : Z := - 9223372036854775808.
Definition int64_max : Z := 9223372036854775807.
Definition in_int64 (z : Z) : bool := (int64_min <=? z) && (z <=? int64_max).
(* Go's wrap-around on int64 overflow *)
Definition wrap64 (z : Z) : Z := (z + 9223372036854775808) mod 18446744073709551616 - 9223372036854775808.

Definition is_digit (b : N) : bool := ((48 <=? b) && (b <=? 57))%N.
Fixpoint digits_val (acc : Z) (l : bytes) : option Z :=
  match l with
  | [] => Some acc
  | d :: r => if is_digit d then digits_val (acc * 10 + Z.of_N (d - 48)) r else None
  end.
(* strconv.ParseInt(s, 10, 64): optional sign, at least one digit, only digits, in range *)
Definition parse_int64 (s : bytes) : option Z :=
  let '(neg, ds) := match s with
                    | 45%N :: r => (true, r)
                    | 43%N :: r => (false, r)
                    | _ => (false, s)
                    end in
  match ds with
  | [] => None
  | _ => match digits_val 0 ds with
         | Some v => let z := if neg then - v else v in
                     if in_int64 z then Some z else None
         | None => None
         end
  end.

(* decimal digits of a non-negative number, fuelled by the number of bits (enough digits) *)
Fixpoint pos_digits (fuel : nat) (z : Z) (acc : bytes) : bytes :=
  match fuel with
  | O => acc
  | S f => let acc' := (Z.to_N (z mod 10) + 48)%N :: acc in
           if z / 10 =? 0 then acc' else pos_digits f (z / 10) acc'
  end.
Definition format_int (z : Z) : bytes :=
  if z <? 0 then 45%N :: pos_digits 80 (- z) [] else pos_digits 80 z [].

(* ---------- scores ---------- *)
Definition lower (b : N) : N := if ((65 <=? b) && (b <=? 90))%N then (b + 32)%N else b.
Definition is_inf_word (s : bytes) : bool :=
  let l := map lower s in
  bytes_eqb l [105; 110; 102]%N || bytes_eqb l [105; 110; 102; 105; 110; 105; 116; 121]%N.

(* round an integer to the nearest double (53 significant bits, ties to even) *)
Definition round53 (z : Z) : Z :=
  let a := Z.abs z in
  if a <? 9007199254740992 then z
  else let e := Z.log2 a - 52 in
       let q := Z.shiftr a e in
       let r := a - Z.shiftl q e in
       let half := Z.shiftl 1 (e - 1) in
       let q' := if (half <? r) || ((r =? half) && Z.odd q) then q + 1 else q in
       let v := Z.shiftl q' e in
       if z <? 0 then - v else v.

(* strconv.ParseFloat restricted to: [+-]digits , [+-]inf , [+-]infinity (case-insensitive).
   None = not a float of that shape (the generator never produces other shapes). *)
Definition parse_score (s : bytes) : option score :=
  let '(neg, body) := match s with
                      | 45%N :: r => (true, r)
                      | 43%N :: r => (false, r)
                      | _ => (false, s)
                      end in
  if is_inf_word body then Some (if neg then SNInf else SPInf)
  else match body with
       | [] => None
       | _ => match digits_val 0 body with
              | Some v => Some (SFin (round53 (if neg then - v else v)))
              | None => None
              end
       end.

Definition score_eqb (a b : score) : bool :=
  match a, b with
  | SNInf, SNInf | SPInf, SPInf => true
  | SFin x, SFin y => x =? y
  | _, _ => false
  end.
Definition score_ltb (a b : score) : bool :=
  match a, b with
  | SNInf, SNInf => false
  | SNInf, _ => true
  | _, SNInf => false
  | SFin x, SFin y => x <? y
  | SFin _, SPInf => true
  | SPInf, _ => false
  end.
Definition score_leb (a b : score) : bool := score_ltb a b || score_eqb a b.

(* IEEE addition of two such scores; None = NaN (inf + -inf) *)
Definition score_add (a b : score) : option score :=
  match a, b with
  | SNInf, SPInf | SPInf, SNInf => None
  | SNInf, _ | _, SNInf => Some SNInf
  | SPInf, _ | _, SPInf => Some SPInf
  | SFin x, SFin y => Some (SFin (round53 (x + y)))
  end.

(* IEEE-754 binary64 bit pattern of a score (for printing); finite values are integers that are
   exactly representable (round53 was applied) *)
Definition score_bits (s : score) : Z :=
  match s with
  | SPInf => 9218868437227405312                     (* 0x7ff0000000000000 *)
  | SNInf => 18442240474082181120                    (* 0xfff0000000000000 *)
  | SFin z =>
      if z =? 0 then 0
      else let a := Z.abs z in
           let e := Z.log2 a in
           let mant := if e <=? 52 then Z.shiftl a (52 - e) else Z.shiftr a (e - 52) in
           let bits := Z.shiftl (e + 1023) 52 + (mant - 4503599627370496) in
           if z <? 0 then bits + 9223372036854775808 else bits
  end.

Definition too_many {A} (l : list A) : bool := max_batch_num <? Z.of_nat (length l).

(* list helpers *)
Fixpoint bytes_mem (x : bytes) (l : list bytes) : bool :=
  match l with [] => false | y :: r => bytes_eqb x y || bytes_mem x r end.
(* first occurrences only *)
Fixpoint dedup (seen : list bytes) (l : list bytes) : list bytes :=
  match l with
  | [] => []
  | x :: r => if bytes_mem x seen then dedup seen r else x :: dedup (x :: seen) r
  end.
(* keep the last occurrence of every key of a pair list *)
Fixpoint last_wins {V} (l : list (bytes * V)) : list (bytes * V) :=
  match l with
  | [] => []
  | (k, v) :: r => if bytes_mem k (map fst r) then last_wins r else (k, v) :: last_wins r
  end.
