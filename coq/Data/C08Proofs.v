(* Data/C08Proofs.v — property C08 assembled for strings, hashes and sets: every command sequence (with
   strictly increasing timestamps) made of the KV / hash / set commands gives, command by command, the
   same reply in the Map model (rockredis algorithm) and in the Spec model (Redis reference), and the
   stored records stay related by the abstraction.  Spec-level sanity lemmas. *)
From ZV Require Import Common.Bytes Common.BytesFacts Data.Consts Data.Base Data.BaseFacts Data.MapEq Data.Map Data.MapZ Data.MapL Data.MapK
  Data.Spec Data.SpecZ Data.SpecL Data.SpecK Data.Run Data.RepColl Data.RepHS Data.RepL Data.RepZ Data.RepState
  Data.RefHS Data.RefCmd Data.RefK Data.RepRead Data.RefL Data.RefZ Data.PreFix Data.C09Proofs Data.ExpFacts.
From Coq Require Import Lia ZifyBool.
Open Scope Z_scope.

Section Seq.
  Variable compact : bool.

  (* related records at the same keys, in the same order *)
  Inductive rel2 {A B} (P : A -> B -> Prop) : list (bytes * A) -> list (bytes * B) -> Prop :=
  | rel2_nil : rel2 P [] []
  | rel2_cons k a b la lb : P a b -> rel2 P la lb -> rel2 P ((k, a) :: la) ((k, b) :: lb).

  Lemma rel2_alook {A B} (P : A -> B -> Prop) da db k la lb : P da db -> rel2 P la lb -> P (alook da k la) (alook db k lb).
  Proof.
    intros Pd R. unfold alook. induction R as [|k2 a b la lb Pab R IH]; cbn; [exact Pd|].
    destruct (bytes_eqb k k2); [exact Pab|exact IH].
  Qed.
  Lemma rel2_aput {A B} (P : A -> B -> Prop) k a b la lb : P a b -> rel2 P la lb ->
    rel2 P (aput bytes_eqb k a la) (aput bytes_eqb k b lb).
  Proof.
    intros Pab R. induction R as [|k2 a2 b2 la lb P2 R IH]; cbn; [constructor; [exact Pab|constructor]|].
    destruct (bytes_eqb k k2); constructor; auto.
  Qed.
  Lemma rel2_mono {A B} (P Q : A -> B -> Prop) la lb : (forall a b, P a b -> Q a b) -> rel2 P la lb -> rel2 Q la lb.
  Proof. intros H R. induction R; constructor; auto. Qed.

  Record simS (clock : Z) (ms : mstate) (ss : sstate) : Prop := {
    ss_rep : RepS compact clock ms;
    ss_hash : rel2 (simx (@sim bytes)) (m_hash ms) (s_hash ss);
    ss_set : rel2 (simx (@sim unit)) (m_set ms) (s_set ss);
    ss_zset : rel2 (simx simz) (m_zset ms) (s_zset ss);
    ss_list : rel2 (simx (fun l a => abs_l l = a)) (m_list ms) (s_list ss);
    ss_kv : m_kv ms = s_kv ss;
    ss_kvnd : NoDup (map fst (m_kv ms)) }.

  Lemma sim_empty {V} : @sim V empty_coll [].
  Proof. unfold sim, abs_c. cbn. apply meq_refl. constructor. Qed.
  Lemma simx_empty {R A} (S : R -> list A -> Prop) r : S r [] -> simx S (x0 r) (x0 []).
  Proof. intros H. split; [reflexivity|exact H]. Qed.

  Lemma simS_init : simS 0 m_init s_init.
  Proof. constructor; cbn; [apply RepS_init|constructor|constructor|constructor|constructor|reflexivity|constructor]. Qed.

  (* ---------- the hypotheses of ExpFacts.Ref for the three record types ---------- *)
  Lemma nonempty_length {A} (a : list A) : nonempty a = negb (Nat.eqb (length a) 0).
  Proof. destruct a; reflexivity. Qed.
  Lemma forget_c_sim {V} (c : coll V) : sim (forget_c c) (@nil (bytes * V)).
  Proof. unfold sim, abs_c, exists_coll. cbn [forget_c c_meta]. apply meq_refl. constructor. Qed.
  Lemma live_c_sim {V} clock (c : coll V) a : RepC compact clock c -> sim c a -> exists_coll c = nonempty a.
  Proof. intros R S. rewrite nonempty_length. apply (sim_exists compact clock); assumption. Qed.
  Lemma live_z_sim clock z a : RepZ compact clock z -> simz z a -> live_z z = nonempty a.
  Proof. intros [R _] S. apply (live_c_sim clock); assumption. Qed.
  Lemma live_l_abs clock l a : RepL compact clock l -> abs_l l = a -> l_exists l = nonempty a.
  Proof.
    intros R <-. unfold l_exists. destruct (l_meta l) as [m|] eqn:E.
    - rewrite (abs_some l m E). destruct (rl_meta _ _ _ R m E) as (hle & _).
      destruct (Z.to_nat (lm_tail m - lm_head m + 1)) eqn:N; [lia|reflexivity].
    - rewrite (abs_none l E). reflexivity.
  Qed.

  (* commands that return early on an expired header create nothing on an absent key *)
  Lemma del_loop_nil {V} fs : del_loop fs (@nil (bytes * V)) = ([], 0).
  Proof. induction fs as [|f r IH]; cbn; [reflexivity|exact IH]. Qed.
  Lemma firstn_nil' {A} n : firstn n (@nil A) = [].
  Proof. destruct n; reflexivity. Qed.
  Lemma skipn_nil' {A} n : skipn n (@nil A) = [].
  Proof. destruct n; reflexivity. Qed.
  Ltac emp := repeat match goal with
    | |- context [del_loop ?fs []] => rewrite (del_loop_nil fs)
    | |- context [if ?b then _ else _] => destruct b
    | |- context [match ?o with Some _ => _ | None => _ end] => destruct o
    | |- context [let '(_, _) := ?p in _] => destruct p
    | |- context [match ?l with [] => _ | _ :: _ => _ end] => destruct l
    end; cbn [fst]; try reflexivity.
  Lemma hdel_nil key fs : fst (Spec.hdel key fs []) = [].
  Proof. unfold Spec.hdel. emp. Qed.
  Lemma hclear_nil key : fst (Spec.hclear key []) = [].
  Proof. unfold Spec.hclear. emp. Qed.
  Lemma srem_nil key ms : fst (Spec.srem key ms []) = [].
  Proof. unfold Spec.srem. emp. Qed.
  Lemma sclear_nil key : fst (Spec.sclear key []) = [].
  Proof. unfold Spec.sclear. emp. Qed.
  Lemma spop_nil key n : fst (Spec.spop key n []) = [].
  Proof. unfold Spec.spop, smembers_n, sorted_members, sorted_pairs. cbn [map isort fold_right]. rewrite firstn_nil'. emp. Qed.
  Lemma zguard_nil key c : z_renews c = false -> fst (SpecZ.zstep key c []) = [].
  Proof.
    destruct c; cbn [z_renews]; try discriminate; intros _; cbn [SpecZ.zstep]; unfold remove_members, zsorted, slice;
      cbn [map isort fold_right filter]; rewrite ?skipn_nil', ?firstn_nil'; cbn [map]; emp.
  Qed.
  Lemma lguard_nil key c : l_renews c = false -> fst (SpecL.lstep key c []) = [].
  Proof.
    destruct c; cbn [l_renews]; try discriminate; intros _; cbn [SpecL.lstep List.rev]; unfold lslice;
      rewrite ?skipn_nil', ?firstn_nil'; emp.
    - destruct (Z.to_nat z); reflexivity.
    - rewrite skipn_nil', firstn_nil'. reflexivity.
  Qed.

  (* every list stays within B sequence numbers of the initial one; B grows by at most MAX_BATCH_NUM per command *)
  Definition LBS (B : Z) (ms : mstate) : Prop := all_recs (XP (LB B)) (m_list ms).

  Lemma LBS_init : LBS 0 m_init.
  Proof. intros k v []. Qed.
  Lemma LB_forget B l : LB B (forget_l l).
  Proof. intros m E. discriminate. Qed.

  Lemma map_step_LB clock now ts c B ms : RepS compact clock ms -> LBS B ms -> 0 <= B ->
    LBS (B + max_batch_num) (fst (map_step compact now ts c ms)).
  Proof.
    intros Rs A PB.
    assert (Keep : LBS (B + max_batch_num) ms).
    { eapply all_recs_mono; [|exact A]. intros v; apply LB_mono. unfold max_batch_num; lia. }
    assert (LL : forall key (f : xr lcoll -> xr lcoll * reply),
               (forall v, (RepL compact clock (x_r v) /\ InSpace (x_r v)) /\ LB B (x_r v) -> LB (B + max_batch_num) (x_r (fst (f v)))) ->
               LBS (B + max_batch_num) (fst (let '(m, r) := aupd (x0 empty_lcoll) key f (m_list ms) in
                             (Build_mstate (m_hash ms) (m_set ms) (m_zset ms) m (m_kv ms), r)))).
    { intros key f Hf.
      pose proof (aupd_recs (fun v => (RepL compact clock (x_r v) /\ InSpace (x_r v)) /\ LB B (x_r v)) (XP (LB (B + max_batch_num))) (x0 empty_lcoll) key
                            f (m_list ms)) as H.
      destruct (aupd (x0 empty_lcoll) key f (m_list ms)) as [m r]. cbn [fst m_list] in *.
      apply H.
      + intros v [_ Hv]. eapply LB_mono; [|exact Hv]. unfold max_batch_num; lia.
      + split; [split; [apply RepL_empty|apply InSpace_empty]|apply LB_empty].
      + exact Hf.
      + intros k v Hin. split; [apply (rs_list _ _ _ Rs k v Hin)|apply (A k v Hin)]. }
    destruct c; cbn [map_step]; try exact Keep;
      try (match goal with |- context [aupd ?d ?k ?f ?m] => destruct (aupd d k f m) end; exact Keep).
    - destruct (negb (key_ok key)); [exact Keep|].
      destruct t; try (match goal with |- context [aupd ?d ?k ?f ?m] => destruct (aupd d k f m) end; exact Keep).
      apply LL. intros v [_ Hv]. rewrite xexpire_r. eapply LB_mono; [|exact Hv]. unfold max_batch_num; lia.
    - destruct (negb (key_ok key)); [exact Keep|].
      destruct t; try (match goal with |- context [aupd ?d ?k ?f ?m] => destruct (aupd d k f m) end; exact Keep).
      apply LL. intros v [_ Hv]. rewrite xpersist_r. eapply LB_mono; [|exact Hv]. unfold max_batch_num; lia.
    - destruct (negb (key_ok key)); exact Keep.
    - apply LL. intros v Hv.
      assert (Hf : forall r, (RepL compact clock r /\ InSpace r) /\ LB B r -> LB (B + max_batch_num) (fst (MapL.lstep compact ts key c r)))
        by (intros r [[Rr Sr] Br]; apply (lstep_LB compact clock); auto).
      assert (Mo : forall r, (RepL compact clock r /\ InSpace r) /\ LB B r -> LB (B + max_batch_num) r)
        by (intros r [_ Br]; eapply LB_mono; [|exact Br]; unfold max_batch_num; lia).
      destruct (l_renews c).
      + apply (xrenew_inv l_exists forget_l compact (fun r => (RepL compact clock r /\ InSpace r) /\ LB B r) (LB (B + max_batch_num))); auto.
        intros Cc r [[Rr _] _]. split; [split; [apply forget_l_rep; assumption|intros m Hm; discriminate]|apply LB_forget].
      + apply (xguard_inv l_exists compact (fun r => (RepL compact clock r /\ InSpace r) /\ LB B r) (LB (B + max_batch_num))); auto.
    - destruct (MapK.kstep compact ts c (m_kv ms)). exact Keep.
  Qed.

  (* a list command refines (within the bound a push has room) *)
  Lemma lstep_fref clock ts key c bnd : 0 <= clock < ts -> 0 <= bnd -> bnd + max_batch_num < seq_room ->
    fref (fun l => (RepL compact clock l /\ InSpace l) /\ LB bnd l) (fun l => RepL compact ts l /\ InSpace l) (fun l a => abs_l l = a)
         (MapL.lstep compact ts key c) (SpecL.lstep key c).
  Proof.
    intros L PB Room l a [[RL IS] HB] AB. subst a.
    split; [|split]; [| |split; [apply (lstep_rep compact clock); auto|apply (lstep_space compact clock); auto]]; destruct c.
    1, 8: apply (lpush_ref compact clock); auto; intros TM;
      (destruct vs as [|x0' r0] eqn:EV;
       [unfold push_in_bounds, push_last, seq_room in *; cbn [length]; change (Z.of_nat 0) with 0;
        unfold l_size, l_head, l_tail; destruct (l_meta l) as [m0|] eqn:E0;
        [destruct (HB m0 E0) as [a1 a2]; destruct (rl_meta _ _ _ RL m0 E0) as (hle & _);
         assert (0 <? lm_tail m0 - lm_head m0 + 1 = true) as -> by lia; unfold max_batch_num in *; destruct tail; cbv iota; lia
        |change (0 <? 0) with false; cbv iota; unfold max_batch_num in *; destruct tail; cbv iota; lia]
       |rewrite <- EV; apply (LB_push_in_bounds compact clock bnd); auto; rewrite EV; [exact TM|discriminate]]).
    all: try (apply (lpop_ref compact clock); auto).
    all: try (apply (lset_ref compact clock); auto).
    all: try (apply (ltrim_ref compact clock); auto).
    all: try (apply (lclear_ref compact clock); auto).
    all: try (rewrite (lfixkey_noop compact clock ts key l RL IS); reflexivity).
    all: reflexivity.
  Qed.

  Lemma zstep_fref clock ts key c : 0 <= clock < ts ->
    fref (RepZ compact clock) (RepZ compact ts) simz (MapZ.zstep compact ts key c) (SpecZ.zstep key c).
  Proof.
    intros L z a RZ' SZ.
    assert (W : zref (MapZ.zstep compact ts key c) (SpecZ.zstep key c) z a).
    { destruct c.
      - apply (zadd_ref compact clock); auto.
      - apply (zincrby_ref compact clock); auto.
      - apply (zrem_ref compact clock); auto.
      - apply (zremrangebyrank_ref compact clock); auto.
      - apply (zremrangebyscore_ref compact clock); auto.
      - apply (zremrangebylex_ref compact clock); auto.
      - apply (zclear_ref compact clock); auto.
      - split; [reflexivity|exact SZ].
      - unfold zref. rewrite (zfixkey_noop compact clock ts key z RZ'). split; [reflexivity|exact SZ]. }
    destruct W as [W1 W2]. split; [exact W1|split; [exact W2|apply (zstep_rep compact clock); auto]].
  Qed.

  (* one command: equal replies, related successor states *)
  Theorem step_ref clock now ts c bnd ms ss : simS clock ms ss -> 0 <= clock < ts ->
    LBS bnd ms -> 0 <= bnd -> bnd + max_batch_num < seq_room ->
    snd (map_step compact now ts c ms) = snd (spec_step compact now ts c ss) /\
    simS ts (fst (map_step compact now ts c ms)) (fst (spec_step compact now ts c ss)).
  Proof.
    intros S L LBm PB Room. pose proof (map_step_rep compact clock now ts c ms (ss_rep _ _ _ S) L) as Rn.
    destruct S as [Rs Sh Sst Sz Sl Skv Snd].
    pose proof (rs_hash _ _ _ Rs) as RH. pose proof (rs_set _ _ _ Rs) as RSt.
    pose proof (rs_zset _ _ _ Rs) as RZs. pose proof (rs_list _ _ _ Rs) as RLs.
    assert (LH : forall key, RepC compact clock (x_r (alook (x0 empty_coll) key (m_hash ms))) /\
                             simx (@sim bytes) (alook (x0 empty_coll) key (m_hash ms)) (alook (x0 []) key (s_hash ss))).
    { intros key. split; [apply (alook_rec (XP (RepC compact clock))); [apply RepC_empty|exact RH]
                         |apply rel2_alook; [apply simx_empty, sim_empty|exact Sh]]. }
    assert (LS : forall key, RepC compact clock (x_r (alook (x0 empty_coll) key (m_set ms))) /\
                             simx (@sim unit) (alook (x0 empty_coll) key (m_set ms)) (alook (x0 []) key (s_set ss))).
    { intros key. split; [apply (alook_rec (XP (RepC compact clock))); [apply RepC_empty|exact RSt]
                         |apply rel2_alook; [apply simx_empty, sim_empty|exact Sst]]. }
    assert (LZ : forall key, RepZ compact clock (x_r (alook (x0 empty_zcoll) key (m_zset ms))) /\
                             simx simz (alook (x0 empty_zcoll) key (m_zset ms)) (alook (x0 []) key (s_zset ss))).
    { intros key. split; [apply (alook_rec (XP (RepZ compact clock))); [apply RepZ_empty|exact RZs]
                         |apply rel2_alook; [apply simx_empty, (@sim_empty score)|exact Sz]]. }
    assert (LLs : forall key, ((RepL compact clock (x_r (alook (x0 empty_lcoll) key (m_list ms))) /\
                                InSpace (x_r (alook (x0 empty_lcoll) key (m_list ms)))) /\
                               LB bnd (x_r (alook (x0 empty_lcoll) key (m_list ms)))) /\
                             simx (fun l a => abs_l l = a) (alook (x0 empty_lcoll) key (m_list ms)) (alook (x0 []) key (s_list ss))).
    { intros key. split; [split; [apply (alook_rec (XP (fun l => RepL compact clock l /\ InSpace l))); [split; [apply RepL_empty|apply InSpace_empty]|exact RLs]
                                 |apply (alook_rec (XP (LB bnd))); [apply LB_empty|exact LBm]]
                         |apply rel2_alook; [apply simx_empty; reflexivity|exact Sl]]. }
    (* writes of one record *)
    assert (HW : forall key (mf : xr hcoll -> xr hcoll * reply) (sf : xr shash -> xr shash * reply),
               (snd (mf (alook (x0 empty_coll) key (m_hash ms))) = snd (sf (alook (x0 []) key (s_hash ss))) /\
                simx (@sim bytes) (fst (mf (alook (x0 empty_coll) key (m_hash ms)))) (fst (sf (alook (x0 []) key (s_hash ss))))) ->
               forall Rn' : RepS compact ts (fst (let '(m, r) := aupd (x0 empty_coll) key mf (m_hash ms) in
                                                  (Build_mstate m (m_set ms) (m_zset ms) (m_list ms) (m_kv ms), r))),
               snd (let '(m, r) := aupd (x0 empty_coll) key mf (m_hash ms) in (Build_mstate m (m_set ms) (m_zset ms) (m_list ms) (m_kv ms), r)) =
               snd (let '(m, r) := aupd (x0 []) key sf (s_hash ss) in (Build_sstate m (s_set ss) (s_zset ss) (s_list ss) (s_kv ss), r)) /\
               simS ts (fst (let '(m, r) := aupd (x0 empty_coll) key mf (m_hash ms) in (Build_mstate m (m_set ms) (m_zset ms) (m_list ms) (m_kv ms), r)))
                       (fst (let '(m, r) := aupd (x0 []) key sf (s_hash ss) in (Build_sstate m (s_set ss) (s_zset ss) (s_list ss) (s_kv ss), r)))).
    { intros key mf sf [W1 W2] Rn'. unfold aupd in *.
      destruct (mf (alook (x0 empty_coll) key (m_hash ms))) as [c' r1]. destruct (sf (alook (x0 []) key (s_hash ss))) as [a' r2].
      cbn [fst snd] in *. split; [exact W1|]. constructor; cbn [m_hash m_set m_zset m_list m_kv s_hash s_set s_zset s_list s_kv]; auto.
      apply rel2_aput; assumption. }
    assert (SW : forall key (mf : xr scoll -> xr scoll * reply) (sf : xr sset -> xr sset * reply),
               (snd (mf (alook (x0 empty_coll) key (m_set ms))) = snd (sf (alook (x0 []) key (s_set ss))) /\
                simx (@sim unit) (fst (mf (alook (x0 empty_coll) key (m_set ms)))) (fst (sf (alook (x0 []) key (s_set ss))))) ->
               forall Rn' : RepS compact ts (fst (let '(m, r) := aupd (x0 empty_coll) key mf (m_set ms) in
                                                  (Build_mstate (m_hash ms) m (m_zset ms) (m_list ms) (m_kv ms), r))),
               snd (let '(m, r) := aupd (x0 empty_coll) key mf (m_set ms) in (Build_mstate (m_hash ms) m (m_zset ms) (m_list ms) (m_kv ms), r)) =
               snd (let '(m, r) := aupd (x0 []) key sf (s_set ss) in (Build_sstate (s_hash ss) m (s_zset ss) (s_list ss) (s_kv ss), r)) /\
               simS ts (fst (let '(m, r) := aupd (x0 empty_coll) key mf (m_set ms) in (Build_mstate (m_hash ms) m (m_zset ms) (m_list ms) (m_kv ms), r)))
                       (fst (let '(m, r) := aupd (x0 []) key sf (s_set ss) in (Build_sstate (s_hash ss) m (s_zset ss) (s_list ss) (s_kv ss), r)))).
    { intros key mf sf [W1 W2] Rn'. unfold aupd in *.
      destruct (mf (alook (x0 empty_coll) key (m_set ms))) as [c' r1]. destruct (sf (alook (x0 []) key (s_set ss))) as [a' r2].
      cbn [fst snd] in *. split; [exact W1|]. constructor; cbn [m_hash m_set m_zset m_list m_kv s_hash s_set s_zset s_list s_kv]; auto.
      apply rel2_aput; assumption. }
    assert (ZW : forall key (mf : xr zcoll -> xr zcoll * reply) (sf : xr szset -> xr szset * reply),
               (snd (mf (alook (x0 empty_zcoll) key (m_zset ms))) = snd (sf (alook (x0 []) key (s_zset ss))) /\
                simx simz (fst (mf (alook (x0 empty_zcoll) key (m_zset ms)))) (fst (sf (alook (x0 []) key (s_zset ss))))) ->
               forall Rn' : RepS compact ts (fst (let '(m, r) := aupd (x0 empty_zcoll) key mf (m_zset ms) in
                                                  (Build_mstate (m_hash ms) (m_set ms) m (m_list ms) (m_kv ms), r))),
               snd (let '(m, r) := aupd (x0 empty_zcoll) key mf (m_zset ms) in (Build_mstate (m_hash ms) (m_set ms) m (m_list ms) (m_kv ms), r)) =
               snd (let '(m, r) := aupd (x0 []) key sf (s_zset ss) in (Build_sstate (s_hash ss) (s_set ss) m (s_list ss) (s_kv ss), r)) /\
               simS ts (fst (let '(m, r) := aupd (x0 empty_zcoll) key mf (m_zset ms) in (Build_mstate (m_hash ms) (m_set ms) m (m_list ms) (m_kv ms), r)))
                       (fst (let '(m, r) := aupd (x0 []) key sf (s_zset ss) in (Build_sstate (s_hash ss) (s_set ss) m (s_list ss) (s_kv ss), r)))).
    { intros key mf sf [W1 W2] Rn'. unfold aupd in *.
      destruct (mf (alook (x0 empty_zcoll) key (m_zset ms))) as [c' r1]. destruct (sf (alook (x0 []) key (s_zset ss))) as [a' r2].
      cbn [fst snd] in *. split; [exact W1|]. constructor; cbn [m_hash m_set m_zset m_list m_kv s_hash s_set s_zset s_list s_kv]; auto.
      apply rel2_aput; assumption. }
    assert (LW : forall key (mf : xr lcoll -> xr lcoll * reply) (sf : xr slist -> xr slist * reply),
               (snd (mf (alook (x0 empty_lcoll) key (m_list ms))) = snd (sf (alook (x0 []) key (s_list ss))) /\
                simx (fun l a => abs_l l = a) (fst (mf (alook (x0 empty_lcoll) key (m_list ms)))) (fst (sf (alook (x0 []) key (s_list ss))))) ->
               forall Rn' : RepS compact ts (fst (let '(m, r) := aupd (x0 empty_lcoll) key mf (m_list ms) in
                                                  (Build_mstate (m_hash ms) (m_set ms) (m_zset ms) m (m_kv ms), r))),
               snd (let '(m, r) := aupd (x0 empty_lcoll) key mf (m_list ms) in (Build_mstate (m_hash ms) (m_set ms) (m_zset ms) m (m_kv ms), r)) =
               snd (let '(m, r) := aupd (x0 []) key sf (s_list ss) in (Build_sstate (s_hash ss) (s_set ss) (s_zset ss) m (s_kv ss), r)) /\
               simS ts (fst (let '(m, r) := aupd (x0 empty_lcoll) key mf (m_list ms) in (Build_mstate (m_hash ms) (m_set ms) (m_zset ms) m (m_kv ms), r)))
                       (fst (let '(m, r) := aupd (x0 []) key sf (s_list ss) in (Build_sstate (s_hash ss) (s_set ss) (s_zset ss) m (s_kv ss), r)))).
    { intros key mf sf [W1 W2] Rn'. unfold aupd in *.
      destruct (mf (alook (x0 empty_lcoll) key (m_list ms))) as [c' r1]. destruct (sf (alook (x0 []) key (s_list ss))) as [a' r2].
      cbn [fst snd] in *. split; [exact W1|]. constructor; cbn [m_hash m_set m_zset m_list m_kv s_hash s_set s_zset s_list s_kv]; auto.
      apply rel2_aput; assumption. }
    assert (Keep : simS ts ms ss).
    { constructor; auto. eapply RepS_mono; [|exact Rs]. lia. }
    (* the Ref hypotheses *)
    assert (PQc : forall V (r : coll V), RepC compact clock r -> RepC compact ts r) by (intros V r; apply RepC_mono; lia).
    assert (PQz : forall r, RepZ compact clock r -> RepZ compact ts r) by (intros r; apply RepZ_mono; lia).
    assert (PQl : forall r, (RepL compact clock r /\ InSpace r) /\ LB bnd r -> RepL compact ts r /\ InSpace r)
      by (intros r [[Rr Sr] _]; split; [eapply RepL_mono; [|exact Rr]; lia|exact Sr]).
    assert (Fc : forall V, compact = true -> forall r : coll V, RepC compact clock r -> RepC compact clock (forget_c r))
      by (intros V Cc r; apply forget_c_rep; exact Cc).
    assert (Fz : compact = true -> forall r, RepZ compact clock r -> RepZ compact clock (forget_z r))
      by (intros Cc r; apply forget_z_rep; exact Cc).
    assert (Fl : compact = true -> forall r, (RepL compact clock r /\ InSpace r) /\ LB bnd r ->
                 (RepL compact clock (forget_l r) /\ InSpace (forget_l r)) /\ LB bnd (forget_l r))
      by (intros Cc r [[Rr _] _]; split; [split; [apply forget_l_rep; assumption|intros m Hm; discriminate]|apply LB_forget]).
    assert (SFc : forall V, compact = true -> forall r : coll V, RepC compact clock r -> sim (forget_c r) (@nil (bytes * V)))
      by (intros V _ r _; apply forget_c_sim).
    assert (SFz : compact = true -> forall r, RepZ compact clock r -> simz (forget_z r) [])
      by (intros _ r _; apply (@forget_c_sim score)).
    assert (SFl : compact = true -> forall r, (RepL compact clock r /\ InSpace r) /\ LB bnd r -> abs_l (forget_l r) = [])
      by (intros _ r _; apply abs_none; reflexivity).
    assert (SLc : forall V (r : coll V) a, RepC compact ts r -> sim r a -> exists_coll r = nonempty a)
      by (intros V r a; apply live_c_sim).
    assert (SLz : forall r a, RepZ compact ts r -> simz r a -> live_z r = nonempty a) by (intros r a; apply live_z_sim).
    assert (SLl : forall r a, RepL compact ts r /\ InSpace r -> abs_l r = a -> l_exists r = nonempty a) by (intros r a [Rr _]; apply (live_l_abs ts); exact Rr).
    destruct c; cbn [map_step spec_step] in *.
    - (* *expire *)
      destruct (negb (key_ok key)); [split; [reflexivity|exact Keep]|]. destruct t.
      + destruct (LH key) as [R1 S1]. apply HW; [|exact Rn].
        apply (xexpire_ref exists_coll forget_c compact (RepC compact clock) (RepC compact ts) (@sim bytes)); auto.
      + destruct (LS key) as [R1 S1]. apply SW; [|exact Rn].
        apply (xexpire_ref exists_coll forget_c compact (RepC compact clock) (RepC compact ts) (@sim unit)); auto.
      + destruct (LZ key) as [R1 S1]. apply ZW; [|exact Rn].
        apply (xexpire_ref live_z forget_z compact (RepZ compact clock) (RepZ compact ts) simz); auto.
      + destruct (LLs key) as [R1 S1]. apply LW; [|exact Rn].
        apply (xexpire_ref l_exists forget_l compact (fun l => (RepL compact clock l /\ InSpace l) /\ LB bnd l) (fun l => RepL compact ts l /\ InSpace l) (fun l a => abs_l l = a)); auto.
    - (* *persist *)
      destruct (negb (key_ok key)); [split; [reflexivity|exact Keep]|]. destruct t.
      + destruct (LH key) as [R1 S1]. apply HW; [|exact Rn].
        apply (xpersist_ref exists_coll forget_c compact (RepC compact clock) (RepC compact ts) (@sim bytes)); auto.
      + destruct (LS key) as [R1 S1]. apply SW; [|exact Rn].
        apply (xpersist_ref exists_coll forget_c compact (RepC compact clock) (RepC compact ts) (@sim unit)); auto.
      + destruct (LZ key) as [R1 S1]. apply ZW; [|exact Rn].
        apply (xpersist_ref live_z forget_z compact (RepZ compact clock) (RepZ compact ts) simz); auto.
      + destruct (LLs key) as [R1 S1]. apply LW; [|exact Rn].
        apply (xpersist_ref l_exists forget_l compact (fun l => (RepL compact clock l /\ InSpace l) /\ LB bnd l) (fun l => RepL compact ts l /\ InSpace l) (fun l a => abs_l l = a)); auto.
    - (* *ttl *)
      destruct (negb (key_ok key)); [split; [reflexivity|exact Keep]|]. cbn [fst snd]. split; [|exact Keep]. f_equal. destruct t.
      + destruct (LH key) as [R1 S1].
        apply (xttl_ref exists_coll forget_c compact (RepC compact clock) (RepC compact ts) (@sim bytes)); auto.
      + destruct (LS key) as [R1 S1].
        apply (xttl_ref exists_coll forget_c compact (RepC compact clock) (RepC compact ts) (@sim unit)); auto.
      + destruct (LZ key) as [R1 S1].
        apply (xttl_ref live_z forget_z compact (RepZ compact clock) (RepZ compact ts) simz); auto.
      + destruct (LLs key) as [R1 S1].
        apply (xttl_ref l_exists forget_l compact (fun l => (RepL compact clock l /\ InSpace l) /\ LB bnd l) (fun l => RepL compact ts l /\ InSpace l) (fun l a => abs_l l = a)); auto.
    - split; [reflexivity|exact Keep].
    - (* hset *) destruct (LH key) as [R1 S1]. apply HW; [|exact Rn].
      apply (xrenew_ref exists_coll forget_c compact (RepC compact clock) (RepC compact ts) (@sim bytes)); auto.
      intros r a Rr Sr. destruct (hset_ref compact clock ts nx key f x r a Rr L Sr) as [W1 W2].
      split; [exact W1|split; [exact W2|apply (hset_rep compact clock); auto]].
    - (* hmset *) destruct (LH key) as [R1 S1]. apply HW; [|exact Rn].
      apply (xrenew_ref exists_coll forget_c compact (RepC compact clock) (RepC compact ts) (@sim bytes)); auto.
      intros r a Rr Sr. destruct (hmset_ref compact clock ts key fvs r a Rr L Sr) as [W1 W2].
      split; [exact W1|split; [exact W2|apply (hmset_rep compact clock); auto]].
    - (* hdel *) destruct (LH key) as [R1 S1]. apply HW; [|exact Rn].
      assert (F : fref (RepC compact clock) (RepC compact ts) (@sim bytes) (Map.hdel key fs) (Spec.hdel key fs)).
      { intros r a Rr Sr. destruct (hdel_ref compact clock key fs r a Rr Sr) as [W1 W2].
        split; [exact W1|split; [exact W2|apply PQc, hdel_rep; exact Rr]]. }
      destruct (F empty_coll [] (RepC_empty compact clock) sim_empty) as (E0 & _). replace (snd (Map.hdel key fs empty_coll)) with (snd (Spec.hdel key fs [])) by (symmetry; exact E0).
      apply (xguard_ref exists_coll compact (RepC compact clock) (RepC compact ts) (@sim bytes)); auto. apply hdel_nil.
    - (* hincrby *) destruct (LH key) as [R1 S1]. apply HW; [|exact Rn].
      apply (xrenew_ref exists_coll forget_c compact (RepC compact clock) (RepC compact ts) (@sim bytes)); auto.
      intros r a Rr Sr. destruct (hincrby_ref compact clock ts key f d r a Rr L Sr) as [W1 W2].
      split; [exact W1|split; [exact W2|apply (hincrby_rep compact clock); auto]].
    - (* hclear *) destruct (LH key) as [R1 S1]. apply HW; [|exact Rn].
      assert (F : fref (RepC compact clock) (RepC compact ts) (@sim bytes) (Map.hclear compact ts key) (Spec.hclear key)).
      { intros r a Rr Sr. destruct (hclear_ref compact clock ts key r a Rr Sr) as [W1 W2].
        split; [exact W1|split; [exact W2|apply PQc, hclear_rep; exact Rr]]. }
      destruct (F empty_coll [] (RepC_empty compact clock) sim_empty) as (E0 & _). replace (snd (Map.hclear compact ts key empty_coll)) with (snd (Spec.hclear key [])) by (symmetry; exact E0).
      apply (xguard_ref exists_coll compact (RepC compact clock) (RepC compact ts) (@sim bytes)); auto. apply hclear_nil.
    - destruct (LH key) as [R1 S1]. destruct (xview_ref forget_c compact (RepC compact clock) (@sim bytes) (Fc _) (SFc _) now _ _ R1 S1) as [R2 S2].
      destruct (hash_reads_ref compact clock key _ _ R2 S2) as (a & _). cbn [fst snd]. split; [exact a|exact Keep].
    - destruct (LH key) as [R1 S1]. destruct (xview_ref forget_c compact (RepC compact clock) (@sim bytes) (Fc _) (SFc _) now _ _ R1 S1) as [R2 S2].
      destruct (hash_reads_ref compact clock key _ _ R2 S2) as (_ & a & _). cbn [fst snd]. split; [apply a|exact Keep].
    - destruct (LH key) as [R1 S1]. destruct (xview_ref forget_c compact (RepC compact clock) (@sim bytes) (Fc _) (SFc _) now _ _ R1 S1) as [R2 S2].
      destruct (hash_reads_ref compact clock key _ _ R2 S2) as (_ & _ & a & _). cbn [fst snd]. split; [apply a|exact Keep].
    - destruct (LH key) as [R1 S1]. destruct (xview_ref forget_c compact (RepC compact clock) (@sim bytes) (Fc _) (SFc _) now _ _ R1 S1) as [R2 S2].
      destruct (hash_reads_ref compact clock key _ _ R2 S2) as (_ & _ & _ & a & _). cbn [fst snd]. split; [apply a|exact Keep].
    - destruct (LH key) as [R1 S1]. destruct (xview_ref forget_c compact (RepC compact clock) (@sim bytes) (Fc _) (SFc _) now _ _ R1 S1) as [R2 S2].
      destruct (hash_reads_ref compact clock key _ _ R2 S2) as (_ & _ & _ & _ & a & _). cbn [fst snd]. split; [exact a|exact Keep].
    - destruct (LH key) as [R1 S1]. destruct (xview_ref forget_c compact (RepC compact clock) (@sim bytes) (Fc _) (SFc _) now _ _ R1 S1) as [R2 S2].
      destruct (hash_reads_ref compact clock key _ _ R2 S2) as (_ & _ & _ & _ & _ & a & _). cbn [fst snd]. split; [exact a|exact Keep].
    - destruct (LH key) as [R1 S1]. destruct (xview_ref forget_c compact (RepC compact clock) (@sim bytes) (Fc _) (SFc _) now _ _ R1 S1) as [R2 S2].
      destruct (hash_reads_ref compact clock key _ _ R2 S2) as (_ & _ & _ & _ & _ & _ & a & _). cbn [fst snd]. split; [exact a|exact Keep].
    - destruct (LH key) as [R1 S1]. destruct (xview_ref forget_c compact (RepC compact clock) (@sim bytes) (Fc _) (SFc _) now _ _ R1 S1) as [R2 S2].
      destruct (hash_reads_ref compact clock key _ _ R2 S2) as (_ & _ & _ & _ & _ & _ & _ & a). cbn [fst snd]. split; [exact a|exact Keep].
    - (* sadd *) destruct (LS key) as [R1 S1]. apply SW; [|exact Rn].
      apply (xrenew_ref exists_coll forget_c compact (RepC compact clock) (RepC compact ts) (@sim unit)); auto.
      intros r a Rr Sr. destruct (sadd_ref compact clock ts key ms0 r a Rr L Sr) as [W1 W2].
      split; [exact W1|split; [exact W2|apply (sadd_rep compact clock); auto]].
    - (* srem *) destruct (LS key) as [R1 S1]. apply SW; [|exact Rn].
      assert (F : fref (RepC compact clock) (RepC compact ts) (@sim unit) (Map.srem key ms0) (Spec.srem key ms0)).
      { intros r a Rr Sr. destruct (srem_ref compact clock key ms0 r a Rr Sr) as [W1 W2].
        split; [exact W1|split; [exact W2|apply PQc, srem_rep; exact Rr]]. }
      destruct (F empty_coll [] (RepC_empty compact clock) sim_empty) as (E0 & _). replace (snd (Map.srem key ms0 empty_coll)) with (snd (Spec.srem key ms0 [])) by (symmetry; exact E0).
      apply (xguard_ref exists_coll compact (RepC compact clock) (RepC compact ts) (@sim unit)); auto. apply srem_nil.
    - (* spop *) destruct (LS key) as [R1 S1]. apply SW; [|exact Rn].
      assert (F : fref (RepC compact clock) (RepC compact ts) (@sim unit) (Map.spop key count) (Spec.spop key count)).
      { intros r a Rr Sr. destruct (spop_ref compact clock key count r a Rr Sr) as [W1 W2].
        split; [exact W1|split; [exact W2|apply PQc, spop_rep; exact Rr]]. }
      destruct (F empty_coll [] (RepC_empty compact clock) sim_empty) as (E0 & _). replace (snd (Map.spop key count empty_coll)) with (snd (Spec.spop key count [])) by (symmetry; exact E0).
      apply (xguard_ref exists_coll compact (RepC compact clock) (RepC compact ts) (@sim unit)); auto. apply spop_nil.
    - (* sclear *) destruct (LS key) as [R1 S1]. apply SW; [|exact Rn].
      assert (F : fref (RepC compact clock) (RepC compact ts) (@sim unit) (Map.sclear compact ts key) (Spec.sclear key)).
      { intros r a Rr Sr. destruct (sclear_ref compact clock ts key r a Rr Sr) as [W1 W2].
        split; [exact W1|split; [exact W2|apply PQc, sclear_rep; exact Rr]]. }
      destruct (F empty_coll [] (RepC_empty compact clock) sim_empty) as (E0 & _). replace (snd (Map.sclear compact ts key empty_coll)) with (snd (Spec.sclear key [])) by (symmetry; exact E0).
      apply (xguard_ref exists_coll compact (RepC compact clock) (RepC compact ts) (@sim unit)); auto. apply sclear_nil.
    - destruct (LS key) as [R1 S1]. destruct (xview_ref forget_c compact (RepC compact clock) (@sim unit) (Fc _) (SFc _) now _ _ R1 S1) as [R2 S2].
      destruct (set_reads_ref compact clock key _ _ R2 S2) as (a & _). cbn [fst snd]. split; [exact a|exact Keep].
    - destruct (LS key) as [R1 S1]. destruct (xview_ref forget_c compact (RepC compact clock) (@sim unit) (Fc _) (SFc _) now _ _ R1 S1) as [R2 S2].
      destruct (set_reads_ref compact clock key _ _ R2 S2) as (_ & a & _). cbn [fst snd]. split; [apply a|exact Keep].
    - destruct (LS key) as [R1 S1]. destruct (xview_ref forget_c compact (RepC compact clock) (@sim unit) (Fc _) (SFc _) now _ _ R1 S1) as [R2 S2].
      destruct (set_reads_ref compact clock key _ _ R2 S2) as (_ & _ & a & _). cbn [fst snd]. split; [exact a|exact Keep].
    - destruct (LS key) as [R1 S1]. destruct (xview_ref forget_c compact (RepC compact clock) (@sim unit) (Fc _) (SFc _) now _ _ R1 S1) as [R2 S2].
      destruct (set_reads_ref compact clock key _ _ R2 S2) as (_ & _ & _ & a & _). cbn [fst snd]. split; [apply a|exact Keep].
    - destruct (LS key) as [R1 S1]. destruct (xview_ref forget_c compact (RepC compact clock) (@sim unit) (Fc _) (SFc _) now _ _ R1 S1) as [R2 S2].
      destruct (set_reads_ref compact clock key _ _ R2 S2) as (_ & _ & _ & _ & a). cbn [fst snd]. split; [exact a|exact Keep].
    - (* zset write *)
      destruct (LZ key) as [R1 S1]. apply ZW; [|exact Rn].
      pose proof (zstep_fref clock ts key c L) as F.
      destruct (z_renews c) eqn:ZR.
      + apply (xrenew_ref live_z forget_z compact (RepZ compact clock) (RepZ compact ts) simz); auto.
      + destruct (F empty_zcoll [] (RepZ_empty compact clock) (@sim_empty score)) as (E0 & _).
        replace (snd (MapZ.zstep compact ts key c empty_zcoll)) with (snd (SpecZ.zstep key c [])) by (symmetry; exact E0).
        apply (xguard_ref live_z compact (RepZ compact clock) (RepZ compact ts) simz); auto. apply zguard_nil; exact ZR.
    - (* zset read *)
      destruct (LZ key) as [R1 S1].
      destruct (xview_ref forget_z compact (RepZ compact clock) simz Fz SFz now _ _ R1 S1) as [RZ' SZ].
      cbn [fst snd]. split; [|exact Keep].
      destruct (zpoint_reads_ref compact clock key _ _ RZ' SZ) as (a1 & a2 & a3).
      destruct q.
      + exact a1.
      + exact a2.
      + apply a3.
      + apply (zrange_ref compact clock); auto.
      + apply (zrangebyscore_ref compact clock); auto.
      + apply (zrangebylex_ref compact clock); auto.
      + apply (zcount_ref compact clock); auto.
      + apply (zlexcount_ref compact clock); auto.
      + apply (zrank_ref compact clock); auto.
      + reflexivity.
    - (* list write *)
      destruct (LLs key) as [R1 S1]. apply LW; [|exact Rn].
      pose proof (lstep_fref clock ts key c bnd L PB Room) as F.
      destruct (l_renews c) eqn:LR.
      + apply (xrenew_ref l_exists forget_l compact (fun l => (RepL compact clock l /\ InSpace l) /\ LB bnd l) (fun l => RepL compact ts l /\ InSpace l) (fun l a => abs_l l = a)); auto.
      + destruct (F empty_lcoll [] (conj (conj (RepL_empty compact clock) InSpace_empty) (LB_empty bnd)) eq_refl) as (E0 & _).
        replace (snd (MapL.lstep compact ts key c empty_lcoll)) with (snd (SpecL.lstep key c [])) by (symmetry; exact E0).
        apply (xguard_ref l_exists compact (fun l => (RepL compact clock l /\ InSpace l) /\ LB bnd l) (fun l => RepL compact ts l /\ InSpace l) (fun l a => abs_l l = a)); auto.
        apply lguard_nil; exact LR.
    - (* list read *)
      destruct (LLs key) as [R1 S1].
      destruct (xview_ref forget_l compact (fun l => (RepL compact clock l /\ InSpace l) /\ LB bnd l) (fun l a => abs_l l = a) Fl SFl now _ _ R1 S1) as [[[RL _] _] AB].
      cbn [fst snd]. split; [|exact Keep]. rewrite <- AB.
      destruct (list_reads_ref compact clock key _ RL) as (a1 & a2 & a3).
      destruct q; [exact a1|exact a2|apply (lrange_ref compact clock); exact RL|apply a3|reflexivity].
    - (* kv write *)
      assert (KR : MapK.kstep compact ts c (m_kv ms) = SpecK.kstep compact ts c (s_kv ss)).
      { rewrite <- Skv. apply kstep_ref; exact Snd. }
      rewrite KR. assert (KN : NoDup (map fst (fst (SpecK.kstep compact ts c (s_kv ss))))) by (apply kstep_nodup; rewrite <- Skv; exact Snd).
      rewrite KR in Rn. destruct (SpecK.kstep compact ts c (s_kv ss)) as [m r]. cbn [fst snd] in *. split; [reflexivity|].
      constructor; cbn [m_hash m_set m_zset m_list m_kv s_hash s_set s_zset s_list s_kv]; auto.
    - (* kv read *)
      cbn [fst snd]. rewrite Skv. split; [apply kquery_ref|exact Keep].
  Qed.

  (* replies of a whole sequence; reads inside the sequence use the read clock `now` *)
  Fixpoint map_trace (now : Z) (cs : list (Z * cmd)) (s : mstate) : list reply :=
    match cs with
    | [] => []
    | (ts, c) :: r => let '(s', rp) := map_step compact now ts c s in rp :: map_trace now r s'
    end.
  Fixpoint spec_trace (now : Z) (cs : list (Z * cmd)) (s : sstate) : list reply :=
    match cs with
    | [] => []
    | (ts, c) :: r => let '(s', rp) := spec_step compact now ts c s in rp :: spec_trace now r s'
    end.

  Theorem trace_ref now cs : forall clock B ms ss, simS clock ms ss -> 0 <= clock -> increasing clock cs ->
    LBS B ms -> 0 <= B -> B + Z.of_nat (length cs) * max_batch_num < seq_room ->
    map_trace now cs ms = spec_trace now cs ss /\
    simS (last_ts clock cs) (map_run compact now cs ms) (spec_run compact now cs ss).
  Proof.
    induction cs as [|[ts c] r IH]; intros clock B ms ss S L I LBm PB Room; cbn [map_trace spec_trace map_run spec_run fold_left last_ts].
    - split; [reflexivity|exact S].
    - destruct I as [I1 I2]. cbn [length] in Room.
      assert (MB : 0 < max_batch_num) by (unfold max_batch_num; lia).
      destruct (step_ref clock now ts c B ms ss S ltac:(lia) LBm PB ltac:(nia)) as [E1 S1]. cbn [fst snd].
      pose proof (map_step_LB clock now ts c B ms (ss_rep _ _ _ S) LBm PB) as LB1.
      destruct (map_step compact now ts c ms) as [ms' r1]. destruct (spec_step compact now ts c ss) as [ss' r2]. cbn [fst snd] in *.
      destruct (IH ts (B + max_batch_num) ms' ss' S1 ltac:(lia) I2 LB1 ltac:(lia) ltac:(nia)) as [E2 S2].
      split; [rewrite E1, E2; reflexivity|exact S2].
  Qed.
End Seq.

(* sequences of fewer than seq_room / MAX_BATCH_NUM (about 4.6e14) commands *)
Definition short_enough (cs : list (Z * cmd)) : Prop := Z.of_nat (length cs) * max_batch_num < seq_room.

Theorem all_sequences_ref compact now cs : increasing 0 cs -> short_enough cs ->
  map_trace compact now cs m_init = spec_trace compact now cs s_init.
Proof.
  intros I Sh. apply (trace_ref compact now cs 0 0 m_init s_init); [apply simS_init|lia|exact I|apply LBS_init|lia|exact Sh].
Qed.

(* ---------- the table key counter: both models count the same stored keys ---------- *)
Lemma rel2_count {A B} (P : A -> B -> Prop) (pa : A -> bool) (pb : B -> bool) t la lb :
  rel2 P la lb -> (forall k a b, In (k, a) la -> P a b -> pa a = pb b) -> count_if pa t la = count_if pb t lb.
Proof.
  intros R H. unfold count_if. f_equal. induction R as [|k a b la lb Pab R IH]; [reflexivity|].
  cbn [filter fst snd]. rewrite (H k a b (or_introl eq_refl) Pab).
  assert (IH' : length (filter (fun kv => in_table t (fst kv) && pa (snd kv)) la) =
                length (filter (fun kv => in_table t (fst kv) && pb (snd kv)) lb))
    by (apply IH; intros k' a' b' Hin; apply (H k' a' b'); right; exact Hin).
  destruct (in_table t k && pb b); cbn [length]; rewrite IH'; reflexivity.
Qed.

Theorem table_counts_agree compact clock ms ss t : simS compact clock ms ss ->
  map_table_count t ms = spec_table_count t ss.
Proof.
  intros [Rs Sh Sst Sz Sl Skv _]. unfold map_table_count, spec_table_count. rewrite Skv.
  rewrite (rel2_count _ (fun x : xr hcoll => exists_coll (x_r x)) (fun x : xr shash => nonempty (x_r x)) t _ _ Sh).
  2:{ intros k a b Hin [_ S]. apply (live_c_sim compact clock); [apply (rs_hash _ _ _ Rs k a Hin)|exact S]. }
  rewrite (rel2_count _ (fun x : xr scoll => exists_coll (x_r x)) (fun x : xr sset => nonempty (x_r x)) t _ _ Sst).
  2:{ intros k a b Hin [_ S]. apply (live_c_sim compact clock); [apply (rs_set _ _ _ Rs k a Hin)|exact S]. }
  rewrite (rel2_count _ (fun x => live_z (x_r x)) (fun x : xr szset => nonempty (x_r x)) t _ _ Sz).
  2:{ intros k a b Hin [_ S]. apply (live_z_sim compact clock); [apply (rs_zset _ _ _ Rs k a Hin)|exact S]. }
  rewrite (rel2_count _ (fun x => l_exists (x_r x)) (fun x : xr slist => nonempty (x_r x)) t _ _ Sl).
  2:{ intros k a b Hin [_ S]. apply (live_l_abs compact clock); [apply (proj1 (rs_list _ _ _ Rs k a Hin))|exact S]. }
  reflexivity.
Qed.

(* ---------- where the timestamps matter ----------
   The raft timestamp reaches the data as the generation (ValueVersion) that wait_compact gives a collection
   created while no live meta key exists (prepareCollKeyForWrite / renewOnExpired), as the clock of the expiry
   decision of a write, and as the base of the absolute expiry second of EXPIRE / SETEX.  Under local_deletion
   only the last one is left (the overflow check): the order of the timestamps does not matter there. *)
Lemma simS_local_clock clock clock' ms ss : simS false clock ms ss -> simS false clock' ms ss.
Proof. intros [A B C D E F G]. constructor; auto. apply (RepS_local_clock clock); exact A. Qed.

Definition positive_ts (cs : list (Z * cmd)) : Prop := Forall (fun tc => 0 < fst tc) cs.

Theorem local_trace_ref now cs : forall B clock ms ss, simS false clock ms ss -> positive_ts cs ->
  LBS B ms -> 0 <= B -> B + Z.of_nat (length cs) * max_batch_num < seq_room ->
  map_trace false now cs ms = spec_trace false now cs ss.
Proof.
  induction cs as [|[ts c] r IH]; intros B clock ms ss S Pos LBm PB Room; cbn [map_trace spec_trace]; [reflexivity|].
  inversion Pos as [|? ? P1 P2]; subst. cbn [fst] in P1. cbn [length] in Room.
  assert (MB : 0 < max_batch_num) by (unfold max_batch_num; lia).
  pose proof (simS_local_clock clock (ts - 1) ms ss S) as S'.
  destruct (step_ref false (ts - 1) now ts c B ms ss S' ltac:(lia) LBm PB ltac:(nia)) as [E1 S1].
  pose proof (map_step_LB false (ts - 1) now ts c B ms (ss_rep _ _ _ _ S') LBm PB) as LB1.
  destruct (map_step false now ts c ms) as [ms' r1]. destruct (spec_step false now ts c ss) as [ss' r2]. cbn [fst snd] in *.
  rewrite E1. f_equal. apply (IH (B + max_batch_num) ts); auto; [lia|nia].
Qed.
(* local_deletion: positive timestamps in any order *)
Theorem local_all_sequences_ref now cs : positive_ts cs -> short_enough cs ->
  map_trace false now cs m_init = spec_trace false now cs s_init.
Proof.
  intros Pos Sh. apply (local_trace_ref now cs 0 0); [apply simS_init|exact Pos|apply LBS_init|lia|exact Sh].
Qed.

(* under wait_compact EQUAL timestamps break it (open finding of C10: "wait_compact renewOnExpired version=ts
   collision"): a hash that expires in the second of its creation and is written again at the same timestamp
   gets its old generation back, with the expired field in it *)
Definition equal_ts_expire_cs : list (Z * cmd) :=
  [ (5000000000, CHset false k_ts b_a b_1); (5000000000, CExpire TH k_ts 0);
    (5000000000, CHset false k_ts b_b b_1); (5000000000, QHkeys k_ts) ].
Lemma equal_ts_expire_breaks :
  map_trace true 0 equal_ts_expire_cs m_init <> spec_trace true 0 equal_ts_expire_cs s_init.
Proof. vm_compute. discriminate. Qed.
(* the clear variant of the collision is gone since fix 1dcd66e (a clear at the timestamp of the creation
   removes the elements physically): SADD k a; SCLEAR k; SADD k b; SMEMBERS k at one timestamp *)
Definition equal_ts_cs : list (Z * cmd) :=
  [ (5, CSadd k_ts [b_a]); (5, CSclear k_ts); (5, CSadd k_ts [b_b]); (5, QSmembers k_ts) ].
Lemma equal_ts_clear_fixed : map_trace true 0 equal_ts_cs m_init = spec_trace true 0 equal_ts_cs s_init.
Proof. vm_compute. reflexivity. Qed.

(* ---------- Spec-level sanity lemmas (guards against a wrong reference model) ---------- *)
(* SADD counts a repeated member once *)
Lemma spec_sadd_repeated m r (s : sset) : sadd_loop (m :: m :: r) s = sadd_loop (m :: r) s.
Proof.
  cbn [sadd_loop]. destruct (amem bytes_eqb m s) eqn:E; [reflexivity|].
  assert (amem bytes_eqb m (aput bytes_eqb m tt s) = true) as ->; [|reflexivity].
  unfold amem. rewrite get_put, bytes_eqb_refl. reflexivity.
Qed.
(* HDEL counts a repeated field once *)
Lemma spec_hdel_repeated f r (h : shash) : NoDup (map fst h) -> del_loop (f :: f :: r) h = del_loop (f :: r) h.
Proof.
  intros ND. cbn [del_loop]. destruct (amem bytes_eqb f h) eqn:E; [|reflexivity].
  assert (amem bytes_eqb f (adel bytes_eqb f h) = false) as ->; [|reflexivity].
  unfold amem. rewrite get_del by exact ND. rewrite bytes_eqb_refl. reflexivity.
Qed.
(* removing the last element removes the key *)
Lemma spec_last_field_removes_key key f x : key_ok key = true -> subkey_ok f = true ->
  let h := fst (Spec.hdel key [f] [(f, x)]) in Spec.hkeyexist key h = RInt 0 /\ Spec.hlen key h = RInt 0.
Proof.
  intros K SK. unfold Spec.hdel. cbn [too_many length]. unfold too_many; cbn [length].
  assert (max_batch_num <? Z.of_nat 1 = false) as -> by reflexivity.
  rewrite K. cbn [negb orb forallb]. rewrite SK. cbn [negb andb orb del_loop].
  unfold amem; cbn [aget]. rewrite bytes_eqb_refl. cbn [adel]. rewrite bytes_eqb_refl. cbn.
  unfold Spec.hkeyexist, Spec.hlen. rewrite K. cbn. split; reflexivity.
Qed.
(* the index rule of LRANGE / LTRIM: element i of the result is element start'+i of the list *)
Ltac brk := repeat match goal with
  | H : context [if ?b then _ else _] |- _ => destruct b eqn:?
  | |- context [if ?b then _ else _] => destruct b eqn:?
  end.
Lemma spec_norm_range_bounds len start stop a b : SpecL.norm_range len start stop = Some (a, b) ->
  0 <= a <= b /\ b < len /\
  a = Z.max 0 (if start <? 0 then len + start else start) /\
  b = Z.min (len - 1) (if stop <? 0 then len + stop else stop).
Proof.
  unfold SpecL.norm_range. intros H. brk; cbn [orb] in *; try discriminate; inversion H; subst; lia.
Qed.
Lemma spec_norm_range_empty len start stop : SpecL.norm_range len start stop = None <->
  (Z.min (len - 1) (if stop <? 0 then len + stop else stop) < Z.max 0 (if start <? 0 then len + start else start) \/
   len <= Z.max 0 (if start <? 0 then len + start else start)).
Proof.
  unfold SpecL.norm_range. brk; cbn [orb] in *; (split; [intros H; try discriminate; lia|intros H; try reflexivity; exfalso; lia]).
Qed.
