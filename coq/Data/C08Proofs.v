(* Data/C08Proofs.v — property C08 assembled for strings, hashes and sets: every command sequence (with
   strictly increasing timestamps) made of the KV / hash / set commands gives, command by command, the
   same reply in the Map model (rockredis algorithm) and in the Spec model (Redis reference), and the
   stored records stay related by the abstraction.  Spec-level sanity lemmas. *)
From ZV Require Import Common.Bytes Common.BytesFacts Data.Consts Data.Base Data.BaseFacts Data.MapEq Data.Map Data.MapZ Data.MapL Data.MapK
  Data.Spec Data.SpecZ Data.SpecL Data.SpecK Data.Run Data.RepColl Data.RepHS Data.RepL Data.RepZ Data.RepState
  Data.RefHS Data.RefCmd Data.RefK Data.RepRead Data.RefL Data.RefZ.
From Coq Require Import Lia ZifyBool.
Open Scope Z_scope.

Section Seq.
  Variable compact : bool.

  (* related records at the same keys, in the same order *)
  Inductive rel2 {A B} (P : A -> B -> Prop) : list (bytes * A) -> list (bytes * B) -> Prop :=
  | rel2_nil : rel2 P [] []
  | rel2_cons k a b la lb : P a b -> rel2 P la lb -> rel2 P ((k, a) :: la) ((k, b) :: lb).

  Lemma rel2_alook {A B} (P : A -> B -> Prop) da db k la lb : P da db -> rel2 P la lb -> P (alook da k la) (alook db k lb).
  Proof.
    intros Pd R. unfold alook. induction R as [|k2 a b la lb Pab R IH]; cbn; [exact Pd|].
    destruct (bytes_eqb k k2); [exact Pab|exact IH].
  Qed.
  Lemma rel2_aput {A B} (P : A -> B -> Prop) k a b la lb : P a b -> rel2 P la lb ->
    rel2 P (aput bytes_eqb k a la) (aput bytes_eqb k b lb).
  Proof.
    intros Pab R. induction R as [|k2 a2 b2 la lb P2 R IH]; cbn; [constructor; [exact Pab|constructor]|].
    destruct (bytes_eqb k k2); constructor; auto.
  Qed.
  Lemma rel2_mono {A B} (P Q : A -> B -> Prop) la lb : (forall a b, P a b -> Q a b) -> rel2 P la lb -> rel2 Q la lb.
  Proof. intros H R. induction R; constructor; auto. Qed.

  Record simS (clock : Z) (ms : mstate) (ss : sstate) : Prop := {
    ss_rep : RepS compact clock ms;
    ss_hash : rel2 (@sim bytes) (m_hash ms) (s_hash ss);
    ss_set : rel2 (@sim unit) (m_set ms) (s_set ss);
    ss_zset : rel2 simz (m_zset ms) (s_zset ss);
    ss_list : rel2 (fun l a => abs_l l = a) (m_list ms) (s_list ss);
    ss_kv : m_kv ms = s_kv ss;
    ss_kvnd : NoDup (map fst (m_kv ms)) }.

  Lemma sim_empty {V} : @sim V empty_coll [].
  Proof. unfold sim, abs_c. cbn. apply meq_refl. constructor. Qed.

  Lemma simS_init : simS 0 m_init s_init.
  Proof. constructor; cbn; [apply RepS_init|constructor|constructor|constructor|constructor|reflexivity|constructor]. Qed.

  (* a push must not use up the 2^61 sequence numbers on its side of the list *)
  Definition admissible (ms : mstate) (c : cmd) : Prop :=
    match c with
    | CL key (LCpush tail vs) => push_in_bounds (alook empty_lcoll key (m_list ms)) tail (Z.of_nat (length vs))
    | CZ key (ZCremrangebyrank _ _) | QZ key (ZQrange _ _ _ _) | QZ key (ZQrangebyscore _ _ _ _ _ _) | QZ key (ZQrangebylex _ _ _ _ _ _) =>
        zsize (alook empty_zcoll key (m_zset ms)) <= max_batch_num          (* below the 5000-element bulk limit *)
    | _ => True
    end.

  (* one covered command: equal replies, related successor states *)
  Theorem step_ref clock ts c ms ss : simS clock ms ss -> 0 <= clock < ts -> admissible ms c ->
    snd (map_step compact ts c ms) = snd (spec_step c ss) /\
    simS ts (fst (map_step compact ts c ms)) (fst (spec_step c ss)).
  Proof.
    intros S L Adm. pose proof (map_step_rep compact clock ts c ms (ss_rep _ _ _ S) L) as Rn.
    destruct S as [Rs Sh Sst Sz Sl Skv Snd].
    pose proof (rs_hash _ _ _ Rs) as RH. pose proof (rs_set _ _ _ Rs) as RSt.
    assert (LH : forall key, RepC compact clock (alook empty_coll key (m_hash ms)) /\
                             sim (alook empty_coll key (m_hash ms)) (alook [] key (s_hash ss))).
    { intros key. split; [apply alook_rec; [apply RepC_empty|exact RH]|apply rel2_alook; [apply sim_empty|exact Sh]]. }
    assert (LS : forall key, RepC compact clock (alook empty_coll key (m_set ms)) /\
                             sim (alook empty_coll key (m_set ms)) (alook [] key (s_set ss))).
    { intros key. split; [apply alook_rec; [apply RepC_empty|exact RSt]|apply rel2_alook; [apply sim_empty|exact Sst]]. }
    (* a hash write *)
    assert (HW : forall key (mf : hcoll -> hcoll * reply) (sf : shash -> shash * reply),
               wref ts mf sf (alook empty_coll key (m_hash ms)) (alook [] key (s_hash ss)) ->
               forall Rn' : RepS compact ts (fst (let '(m, r) := aupd empty_coll key mf (m_hash ms) in
                                                  (Build_mstate m (m_set ms) (m_zset ms) (m_list ms) (m_kv ms), r))),
               snd (let '(m, r) := aupd empty_coll key mf (m_hash ms) in (Build_mstate m (m_set ms) (m_zset ms) (m_list ms) (m_kv ms), r)) =
               snd (let '(m, r) := aupd [] key sf (s_hash ss) in (Build_sstate m (s_set ss) (s_zset ss) (s_list ss) (s_kv ss), r)) /\
               simS ts (fst (let '(m, r) := aupd empty_coll key mf (m_hash ms) in (Build_mstate m (m_set ms) (m_zset ms) (m_list ms) (m_kv ms), r)))
                       (fst (let '(m, r) := aupd [] key sf (s_hash ss) in (Build_sstate m (s_set ss) (s_zset ss) (s_list ss) (s_kv ss), r)))).
    { intros key mf sf [W1 W2] Rn'. unfold aupd in *.
      destruct (mf (alook empty_coll key (m_hash ms))) as [c' r1]. destruct (sf (alook [] key (s_hash ss))) as [a' r2].
      cbn [fst snd] in *. split; [exact W1|]. constructor; cbn [m_hash m_set m_zset m_list m_kv s_hash s_set s_zset s_list s_kv]; auto.
      apply rel2_aput; assumption. }
    assert (SW : forall key (mf : scoll -> scoll * reply) (sf : sset -> sset * reply),
               swref mf sf (alook empty_coll key (m_set ms)) (alook [] key (s_set ss)) ->
               forall Rn' : RepS compact ts (fst (let '(m, r) := aupd empty_coll key mf (m_set ms) in
                                                  (Build_mstate (m_hash ms) m (m_zset ms) (m_list ms) (m_kv ms), r))),
               snd (let '(m, r) := aupd empty_coll key mf (m_set ms) in (Build_mstate (m_hash ms) m (m_zset ms) (m_list ms) (m_kv ms), r)) =
               snd (let '(m, r) := aupd [] key sf (s_set ss) in (Build_sstate (s_hash ss) m (s_zset ss) (s_list ss) (s_kv ss), r)) /\
               simS ts (fst (let '(m, r) := aupd empty_coll key mf (m_set ms) in (Build_mstate (m_hash ms) m (m_zset ms) (m_list ms) (m_kv ms), r)))
                       (fst (let '(m, r) := aupd [] key sf (s_set ss) in (Build_sstate (s_hash ss) m (s_zset ss) (s_list ss) (s_kv ss), r)))).
    { intros key mf sf [W1 W2] Rn'. unfold aupd in *.
      destruct (mf (alook empty_coll key (m_set ms))) as [c' r1]. destruct (sf (alook [] key (s_set ss))) as [a' r2].
      cbn [fst snd] in *. split; [exact W1|]. constructor; cbn [m_hash m_set m_zset m_list m_kv s_hash s_set s_zset s_list s_kv]; auto.
      apply rel2_aput; assumption. }
    assert (Keep : simS ts ms ss).
    { constructor; auto. eapply RepS_mono; [|exact Rs]. lia. }
    destruct c; cbn [map_step spec_step] in *.
    - destruct (LH key) as [R1 S1]. apply HW; [apply (hset_ref compact clock); auto|exact Rn].
    - destruct (LH key) as [R1 S1]. apply HW; [apply (hmset_ref compact clock); auto|exact Rn].
    - destruct (LH key) as [R1 S1]. apply HW; [|exact Rn].
      destruct (hdel_ref compact clock key fs _ _ R1 S1) as [A B]. split; assumption.
    - destruct (LH key) as [R1 S1]. apply HW; [apply (hincrby_ref compact clock); auto|exact Rn].
    - destruct (LH key) as [R1 S1]. apply HW; [|exact Rn].
      destruct (hclear_ref compact clock key _ _ R1 S1) as [A B]. split; assumption.
    - destruct (LH key) as [R1 S1]. destruct (hash_reads_ref compact clock key _ _ R1 S1) as (a & _). cbn [fst snd]. split; [exact a|exact Keep].
    - destruct (LH key) as [R1 S1]. destruct (hash_reads_ref compact clock key _ _ R1 S1) as (_ & a & _). cbn [fst snd]. split; [apply a|exact Keep].
    - destruct (LH key) as [R1 S1]. destruct (hash_reads_ref compact clock key _ _ R1 S1) as (_ & _ & a & _). cbn [fst snd]. split; [apply a|exact Keep].
    - destruct (LH key) as [R1 S1]. destruct (hash_reads_ref compact clock key _ _ R1 S1) as (_ & _ & _ & a & _). cbn [fst snd]. split; [apply a|exact Keep].
    - destruct (LH key) as [R1 S1]. destruct (hash_reads_ref compact clock key _ _ R1 S1) as (_ & _ & _ & _ & a & _). cbn [fst snd]. split; [exact a|exact Keep].
    - destruct (LH key) as [R1 S1]. destruct (hash_reads_ref compact clock key _ _ R1 S1) as (_ & _ & _ & _ & _ & a & _). cbn [fst snd]. split; [exact a|exact Keep].
    - destruct (LH key) as [R1 S1]. destruct (hash_reads_ref compact clock key _ _ R1 S1) as (_ & _ & _ & _ & _ & _ & a & _). cbn [fst snd]. split; [exact a|exact Keep].
    - destruct (LH key) as [R1 S1]. destruct (hash_reads_ref compact clock key _ _ R1 S1) as (_ & _ & _ & _ & _ & _ & _ & a). cbn [fst snd]. split; [exact a|exact Keep].
    - destruct (LS key) as [R1 S1]. apply SW; [apply (sadd_ref compact clock); auto|exact Rn].
    - destruct (LS key) as [R1 S1]. apply SW; [apply (srem_ref compact clock); auto|exact Rn].
    - destruct (LS key) as [R1 S1]. apply SW; [apply (spop_ref compact clock); auto|exact Rn].
    - destruct (LS key) as [R1 S1]. apply SW; [apply (sclear_ref compact clock); auto|exact Rn].
    - destruct (LS key) as [R1 S1]. destruct (set_reads_ref compact clock key _ _ R1 S1) as (a & _). cbn [fst snd]. split; [exact a|exact Keep].
    - destruct (LS key) as [R1 S1]. destruct (set_reads_ref compact clock key _ _ R1 S1) as (_ & a & _). cbn [fst snd]. split; [apply a|exact Keep].
    - destruct (LS key) as [R1 S1]. destruct (set_reads_ref compact clock key _ _ R1 S1) as (_ & _ & a & _). cbn [fst snd]. split; [exact a|exact Keep].
    - destruct (LS key) as [R1 S1]. destruct (set_reads_ref compact clock key _ _ R1 S1) as (_ & _ & _ & a & _). cbn [fst snd]. split; [apply a|exact Keep].
    - destruct (LS key) as [R1 S1]. destruct (set_reads_ref compact clock key _ _ R1 S1) as (_ & _ & _ & _ & a). cbn [fst snd]. split; [exact a|exact Keep].
    - (* zset write *)
      assert (RZ' : RepZ compact clock (alook empty_zcoll key (m_zset ms))) by (apply alook_rec; [apply RepZ_empty|apply (rs_zset _ _ _ Rs)]).
      assert (SZ : simz (alook empty_zcoll key (m_zset ms)) (alook [] key (s_zset ss))).
      { apply (rel2_alook simz); [apply (@sim_empty score)|exact Sz]. }
      assert (W : zref (MapZ.zstep compact ts key c) (SpecZ.zstep key c) (alook empty_zcoll key (m_zset ms)) (alook [] key (s_zset ss))).
      { destruct c.
        - apply (zadd_ref compact clock); auto.
        - apply (zincrby_ref compact clock); auto.
        - apply (zrem_ref compact clock); auto.
        - apply (zremrangebyrank_ref compact clock); auto.
        - apply (zremrangebyscore_ref compact clock); auto.
        - apply (zremrangebylex_ref compact clock); auto.
        - apply (zclear_ref compact clock); auto.
        - split; [reflexivity|exact SZ]. }
      destruct W as [W1 W2]. unfold aupd in *.
      destruct (MapZ.zstep compact ts key c (alook empty_zcoll key (m_zset ms))) as [z' r1].
      destruct (SpecZ.zstep key c (alook [] key (s_zset ss))) as [a' r2]. cbn [fst snd] in *.
      split; [exact W1|]. constructor; cbn [m_hash m_set m_zset m_list m_kv s_hash s_set s_zset s_list s_kv]; auto.
      apply rel2_aput; assumption.
    - (* zset read *)
      assert (RZ' : RepZ compact clock (alook empty_zcoll key (m_zset ms))) by (apply alook_rec; [apply RepZ_empty|apply (rs_zset _ _ _ Rs)]).
      assert (SZ : simz (alook empty_zcoll key (m_zset ms)) (alook [] key (s_zset ss))).
      { apply (rel2_alook simz); [apply (@sim_empty score)|exact Sz]. }
      cbn [fst snd]. split; [|exact Keep].
      destruct (zpoint_reads_ref compact clock key _ _ RZ' SZ) as (a1 & a2 & a3).
      destruct q.
      + exact a1.
      + exact a2.
      + apply a3.
      + apply (zrange_ref compact clock); auto.
      + apply (zrangebyscore_ref compact clock); auto.
      + apply (zrangebylex_ref compact clock); auto.
      + apply (zcount_ref compact clock); auto.
      + apply (zlexcount_ref compact clock); auto.
      + apply (zrank_ref compact clock); auto.
      + reflexivity.
    - (* list write *)
      assert (RL : RepL compact clock (alook empty_lcoll key (m_list ms))) by (apply alook_rec; [apply RepL_empty|apply (rs_list _ _ _ Rs)]).
      assert (AB : abs_l (alook empty_lcoll key (m_list ms)) = alook [] key (s_list ss)).
      { apply (rel2_alook (fun l a => abs_l l = a)); [reflexivity|exact Sl]. }
      assert (W : snd (MapL.lstep compact ts key c (alook empty_lcoll key (m_list ms))) = snd (SpecL.lstep key c (alook [] key (s_list ss))) /\
                  abs_l (fst (MapL.lstep compact ts key c (alook empty_lcoll key (m_list ms)))) = fst (SpecL.lstep key c (alook [] key (s_list ss)))).
      { rewrite <- AB. destruct c.
        - apply (lpush_ref compact clock); auto.
        - apply (lpop_ref compact clock); auto.
        - apply (lset_ref compact clock); auto.
        - apply (ltrim_ref compact clock); auto.
        - apply (lclear_ref compact clock); auto.
        - cbn. split; reflexivity. }
      destruct W as [W1 W2]. unfold aupd in *.
      destruct (MapL.lstep compact ts key c (alook empty_lcoll key (m_list ms))) as [l' r1].
      destruct (SpecL.lstep key c (alook [] key (s_list ss))) as [a' r2]. cbn [fst snd] in *.
      split; [exact W1|]. constructor; cbn [m_hash m_set m_zset m_list m_kv s_hash s_set s_zset s_list s_kv]; auto.
      apply rel2_aput; assumption.
    - (* list read *)
      assert (RL : RepL compact clock (alook empty_lcoll key (m_list ms))) by (apply alook_rec; [apply RepL_empty|apply (rs_list _ _ _ Rs)]).
      assert (AB : abs_l (alook empty_lcoll key (m_list ms)) = alook [] key (s_list ss)).
      { apply (rel2_alook (fun l a => abs_l l = a)); [reflexivity|exact Sl]. }
      cbn [fst snd]. split; [|exact Keep]. rewrite <- AB.
      destruct (list_reads_ref compact clock key _ RL) as (a1 & a2 & a3).
      destruct q; [exact a1|exact a2|apply (lrange_ref compact clock); exact RL|apply a3|reflexivity].
    - (* kv write *)
      assert (KR : MapK.kstep ts c (m_kv ms) = SpecK.kstep c (s_kv ss)).
      { rewrite <- Skv. apply kstep_ref; exact Snd. }
      rewrite KR. assert (KN : NoDup (map fst (fst (SpecK.kstep c (s_kv ss))))) by (apply kstep_nodup; rewrite <- Skv; exact Snd).
      rewrite KR in Rn. destruct (SpecK.kstep c (s_kv ss)) as [m r]. cbn [fst snd] in *. split; [reflexivity|].
      constructor; cbn [m_hash m_set m_zset m_list m_kv s_hash s_set s_zset s_list s_kv]; auto.
    - (* kv read *)
      cbn [fst snd]. rewrite Skv. split; [apply kquery_ref|exact Keep].
  Qed.

  (* replies of a whole sequence *)
  Fixpoint map_trace (cs : list (Z * cmd)) (s : mstate) : list reply :=
    match cs with
    | [] => []
    | (ts, c) :: r => let '(s', rp) := map_step compact ts c s in rp :: map_trace r s'
    end.
  Fixpoint spec_trace (cs : list (Z * cmd)) (s : sstate) : list reply :=
    match cs with
    | [] => []
    | (_, c) :: r => let '(s', rp) := spec_step c s in rp :: spec_trace r s'
    end.

  (* admissibility of every command in the state it is applied to *)
  Fixpoint adm_run (cs : list (Z * cmd)) (ms : mstate) : Prop :=
    match cs with
    | [] => True
    | (ts, c) :: r => admissible ms c /\ adm_run r (fst (map_step compact ts c ms))
    end.

  Theorem trace_ref cs : forall clock ms ss, simS clock ms ss -> 0 <= clock -> increasing clock cs ->
    adm_run cs ms ->
    map_trace cs ms = spec_trace cs ss /\ simS (last_ts clock cs) (map_run compact cs ms) (spec_run cs ss).
  Proof.
    induction cs as [|[ts c] r IH]; intros clock ms ss S L I Ad; cbn [map_trace spec_trace map_run spec_run fold_left last_ts].
    - split; [reflexivity|exact S].
    - destruct I as [I1 I2].
      cbn [adm_run] in Ad. destruct Ad as [A1 A2].
      destruct (step_ref clock ts c ms ss S ltac:(lia) A1) as [E1 S1]. cbn [fst snd].
      destruct (map_step compact ts c ms) as [ms' r1]. destruct (spec_step c ss) as [ss' r2]. cbn [fst snd] in *.
      destruct (IH ts ms' ss' S1 ltac:(lia) I2 A2) as [E2 S2]. split; [rewrite E1, E2; reflexivity|exact S2].
  Qed.
End Seq.

Theorem all_sequences_ref compact cs : increasing 0 cs -> adm_run compact cs m_init ->
  map_trace compact cs m_init = spec_trace cs s_init.
Proof. intros I Ad. apply (trace_ref compact cs 0 m_init s_init); [apply simS_init|lia|exact I|exact Ad]. Qed.

(* ---------- Spec-level sanity lemmas (guards against a wrong reference model) ---------- *)
(* SADD counts a repeated member once *)
Lemma spec_sadd_repeated m r (s : sset) : sadd_loop (m :: m :: r) s = sadd_loop (m :: r) s.
Proof.
  cbn [sadd_loop]. destruct (amem bytes_eqb m s) eqn:E; [reflexivity|].
  assert (amem bytes_eqb m (aput bytes_eqb m tt s) = true) as ->; [|reflexivity].
  unfold amem. rewrite get_put, bytes_eqb_refl. reflexivity.
Qed.
(* HDEL counts a repeated field once *)
Lemma spec_hdel_repeated f r (h : shash) : NoDup (map fst h) -> del_loop (f :: f :: r) h = del_loop (f :: r) h.
Proof.
  intros ND. cbn [del_loop]. destruct (amem bytes_eqb f h) eqn:E; [|reflexivity].
  assert (amem bytes_eqb f (adel bytes_eqb f h) = false) as ->; [|reflexivity].
  unfold amem. rewrite get_del by exact ND. rewrite bytes_eqb_refl. reflexivity.
Qed.
(* removing the last element removes the key *)
Lemma spec_last_field_removes_key key f x : key_ok key = true -> subkey_ok f = true ->
  let h := fst (Spec.hdel key [f] [(f, x)]) in Spec.hkeyexist key h = RInt 0 /\ Spec.hlen key h = RInt 0.
Proof.
  intros K SK. unfold Spec.hdel. cbn [too_many length]. unfold too_many; cbn [length].
  assert (max_batch_num <? Z.of_nat 1 = false) as -> by reflexivity.
  rewrite K. cbn [negb orb forallb]. rewrite SK. cbn [negb andb orb del_loop].
  unfold amem; cbn [aget]. rewrite bytes_eqb_refl. cbn [adel]. rewrite bytes_eqb_refl. cbn.
  unfold Spec.hkeyexist, Spec.hlen. rewrite K. cbn. split; reflexivity.
Qed.
(* the index rule of LRANGE / LTRIM: element i of the result is element start'+i of the list *)
Ltac brk := repeat match goal with
  | H : context [if ?b then _ else _] |- _ => destruct b eqn:?
  | |- context [if ?b then _ else _] => destruct b eqn:?
  end.
Lemma spec_norm_range_bounds len start stop a b : SpecL.norm_range len start stop = Some (a, b) ->
  0 <= a <= b /\ b < len /\
  a = Z.max 0 (if start <? 0 then len + start else start) /\
  b = Z.min (len - 1) (if stop <? 0 then len + stop else stop).
Proof.
  unfold SpecL.norm_range. intros H. brk; cbn [orb] in *; try discriminate; inversion H; subst; lia.
Qed.
Lemma spec_norm_range_empty len start stop : SpecL.norm_range len start stop = None <->
  (Z.min (len - 1) (if stop <? 0 then len + stop else stop) < Z.max 0 (if start <? 0 then len + start else start) \/
   len <= Z.max 0 (if start <? 0 then len + start else start)).
Proof.
  unfold SpecL.norm_range. brk; cbn [orb] in *; (split; [intros H; try discriminate; lia|intros H; try reflexivity; exfalso; lia]).
Qed.
