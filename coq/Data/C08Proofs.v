(* Data/C08Proofs.v — property C08 assembled for strings, hashes and sets: every command sequence (with
   strictly increasing timestamps) made of the KV / hash / set commands gives, command by command, the
   same reply in the Map model (rockredis algorithm) and in the Spec model (Redis reference), and the
   stored records stay related by the abstraction.  Spec-level sanity lemmas. *)
From ZV Require Import Common.Bytes Common.BytesFacts Data.Consts Data.Base Data.BaseFacts Data.MapEq Data.Map Data.MapZ Data.MapL Data.MapK
  Data.Spec Data.SpecZ Data.SpecL Data.SpecK Data.Run Data.RepColl Data.RepHS Data.RepL Data.RepZ Data.RepState
  Data.RefHS Data.RefCmd Data.RefK Data.RepRead Data.RefL Data.RefZ Data.PreFix Data.C09Proofs.
From Coq Require Import Lia ZifyBool.
Open Scope Z_scope.

Section Seq.
  Variable compact : bool.

  (* related records at the same keys, in the same order *)
  Inductive rel2 {A B} (P : A -> B -> Prop) : list (bytes * A) -> list (bytes * B) -> Prop :=
  | rel2_nil : rel2 P [] []
  | rel2_cons k a b la lb : P a b -> rel2 P la lb -> rel2 P ((k, a) :: la) ((k, b) :: lb).

  Lemma rel2_alook {A B} (P : A -> B -> Prop) da db k la lb : P da db -> rel2 P la lb -> P (alook da k la) (alook db k lb).
  Proof.
    intros Pd R. unfold alook. induction R as [|k2 a b la lb Pab R IH]; cbn; [exact Pd|].
    destruct (bytes_eqb k k2); [exact Pab|exact IH].
  Qed.
  Lemma rel2_aput {A B} (P : A -> B -> Prop) k a b la lb : P a b -> rel2 P la lb ->
    rel2 P (aput bytes_eqb k a la) (aput bytes_eqb k b lb).
  Proof.
    intros Pab R. induction R as [|k2 a2 b2 la lb P2 R IH]; cbn; [constructor; [exact Pab|constructor]|].
    destruct (bytes_eqb k k2); constructor; auto.
  Qed.
  Lemma rel2_mono {A B} (P Q : A -> B -> Prop) la lb : (forall a b, P a b -> Q a b) -> rel2 P la lb -> rel2 Q la lb.
  Proof. intros H R. induction R; constructor; auto. Qed.

  Record simS (clock : Z) (ms : mstate) (ss : sstate) : Prop := {
    ss_rep : RepS compact clock ms;
    ss_hash : rel2 (@sim bytes) (m_hash ms) (s_hash ss);
    ss_set : rel2 (@sim unit) (m_set ms) (s_set ss);
    ss_zset : rel2 simz (m_zset ms) (s_zset ss);
    ss_list : rel2 (fun l a => abs_l l = a) (m_list ms) (s_list ss);
    ss_kv : m_kv ms = s_kv ss;
    ss_kvnd : NoDup (map fst (m_kv ms)) }.

  Lemma sim_empty {V} : @sim V empty_coll [].
  Proof. unfold sim, abs_c. cbn. apply meq_refl. constructor. Qed.

  Lemma simS_init : simS 0 m_init s_init.
  Proof. constructor; cbn; [apply RepS_init|constructor|constructor|constructor|constructor|reflexivity|constructor]. Qed.

  (* every list stays within B sequence numbers of the initial one; B grows by at most MAX_BATCH_NUM per command *)
  Definition LBS (B : Z) (ms : mstate) : Prop := all_recs (LB B) (m_list ms).

  Lemma LBS_init : LBS 0 m_init.
  Proof. intros k v []. Qed.

  Lemma map_step_LB clock ts c B ms : RepS compact clock ms -> LBS B ms -> 0 <= B ->
    LBS (B + max_batch_num) (fst (map_step compact ts c ms)).
  Proof.
    intros Rs A PB.
    assert (Keep : LBS (B + max_batch_num) ms).
    { eapply all_recs_mono; [|exact A]. intros v; apply LB_mono. unfold max_batch_num; lia. }
    destruct c; cbn [map_step]; try exact Keep;
      try (match goal with |- context [aupd ?d ?k ?f ?m] => destruct (aupd d k f m) end; exact Keep).
    - pose proof (aupd_recs (fun l => RepL compact clock l /\ LB B l) (LB (B + max_batch_num)) empty_lcoll key
                            (MapL.lstep compact ts key c) (m_list ms)) as H.
      destruct (aupd empty_lcoll key (MapL.lstep compact ts key c) (m_list ms)) as [m r]. cbn [fst m_list] in *.
      apply H.
      + intros v [_ Hv]. eapply LB_mono; [|exact Hv]. unfold max_batch_num; lia.
      + split; [apply RepL_empty|apply LB_empty].
      + intros v [Rv Hv]. apply (lstep_LB compact clock); auto.
      + intros k v Hin. split; [apply (rs_list _ _ _ Rs k v Hin)|apply (A k v Hin)].
    - destruct (MapK.kstep ts c (m_kv ms)). exact Keep.
  Qed.

  (* one covered command: equal replies, related successor states *)
  Theorem step_ref clock ts c bnd ms ss : simS clock ms ss -> 0 <= clock < ts ->
    LBS bnd ms -> 0 <= bnd -> bnd + max_batch_num < seq_room ->
    snd (map_step compact ts c ms) = snd (spec_step c ss) /\
    simS ts (fst (map_step compact ts c ms)) (fst (spec_step c ss)).
  Proof.
    intros S L LBm PB Room. pose proof (map_step_rep compact clock ts c ms (ss_rep _ _ _ S) L) as Rn.
    destruct S as [Rs Sh Sst Sz Sl Skv Snd].
    pose proof (rs_hash _ _ _ Rs) as RH. pose proof (rs_set _ _ _ Rs) as RSt.
    assert (LH : forall key, RepC compact clock (alook empty_coll key (m_hash ms)) /\
                             sim (alook empty_coll key (m_hash ms)) (alook [] key (s_hash ss))).
    { intros key. split; [apply alook_rec; [apply RepC_empty|exact RH]|apply rel2_alook; [apply sim_empty|exact Sh]]. }
    assert (LS : forall key, RepC compact clock (alook empty_coll key (m_set ms)) /\
                             sim (alook empty_coll key (m_set ms)) (alook [] key (s_set ss))).
    { intros key. split; [apply alook_rec; [apply RepC_empty|exact RSt]|apply rel2_alook; [apply sim_empty|exact Sst]]. }
    (* a hash write *)
    assert (HW : forall key (mf : hcoll -> hcoll * reply) (sf : shash -> shash * reply),
               wref ts mf sf (alook empty_coll key (m_hash ms)) (alook [] key (s_hash ss)) ->
               forall Rn' : RepS compact ts (fst (let '(m, r) := aupd empty_coll key mf (m_hash ms) in
                                                  (Build_mstate m (m_set ms) (m_zset ms) (m_list ms) (m_kv ms), r))),
               snd (let '(m, r) := aupd empty_coll key mf (m_hash ms) in (Build_mstate m (m_set ms) (m_zset ms) (m_list ms) (m_kv ms), r)) =
               snd (let '(m, r) := aupd [] key sf (s_hash ss) in (Build_sstate m (s_set ss) (s_zset ss) (s_list ss) (s_kv ss), r)) /\
               simS ts (fst (let '(m, r) := aupd empty_coll key mf (m_hash ms) in (Build_mstate m (m_set ms) (m_zset ms) (m_list ms) (m_kv ms), r)))
                       (fst (let '(m, r) := aupd [] key sf (s_hash ss) in (Build_sstate m (s_set ss) (s_zset ss) (s_list ss) (s_kv ss), r)))).
    { intros key mf sf [W1 W2] Rn'. unfold aupd in *.
      destruct (mf (alook empty_coll key (m_hash ms))) as [c' r1]. destruct (sf (alook [] key (s_hash ss))) as [a' r2].
      cbn [fst snd] in *. split; [exact W1|]. constructor; cbn [m_hash m_set m_zset m_list m_kv s_hash s_set s_zset s_list s_kv]; auto.
      apply rel2_aput; assumption. }
    assert (SW : forall key (mf : scoll -> scoll * reply) (sf : sset -> sset * reply),
               swref mf sf (alook empty_coll key (m_set ms)) (alook [] key (s_set ss)) ->
               forall Rn' : RepS compact ts (fst (let '(m, r) := aupd empty_coll key mf (m_set ms) in
                                                  (Build_mstate (m_hash ms) m (m_zset ms) (m_list ms) (m_kv ms), r))),
               snd (let '(m, r) := aupd empty_coll key mf (m_set ms) in (Build_mstate (m_hash ms) m (m_zset ms) (m_list ms) (m_kv ms), r)) =
               snd (let '(m, r) := aupd [] key sf (s_set ss) in (Build_sstate (s_hash ss) m (s_zset ss) (s_list ss) (s_kv ss), r)) /\
               simS ts (fst (let '(m, r) := aupd empty_coll key mf (m_set ms) in (Build_mstate (m_hash ms) m (m_zset ms) (m_list ms) (m_kv ms), r)))
                       (fst (let '(m, r) := aupd [] key sf (s_set ss) in (Build_sstate (s_hash ss) m (s_zset ss) (s_list ss) (s_kv ss), r)))).
    { intros key mf sf [W1 W2] Rn'. unfold aupd in *.
      destruct (mf (alook empty_coll key (m_set ms))) as [c' r1]. destruct (sf (alook [] key (s_set ss))) as [a' r2].
      cbn [fst snd] in *. split; [exact W1|]. constructor; cbn [m_hash m_set m_zset m_list m_kv s_hash s_set s_zset s_list s_kv]; auto.
      apply rel2_aput; assumption. }
    assert (Keep : simS ts ms ss).
    { constructor; auto. eapply RepS_mono; [|exact Rs]. lia. }
    destruct c; cbn [map_step spec_step] in *.
    - destruct (LH key) as [R1 S1]. apply HW; [apply (hset_ref compact clock); auto|exact Rn].
    - destruct (LH key) as [R1 S1]. apply HW; [apply (hmset_ref compact clock); auto|exact Rn].
    - destruct (LH key) as [R1 S1]. apply HW; [|exact Rn].
      destruct (hdel_ref compact clock key fs _ _ R1 S1) as [A B]. split; assumption.
    - destruct (LH key) as [R1 S1]. apply HW; [apply (hincrby_ref compact clock); auto|exact Rn].
    - destruct (LH key) as [R1 S1]. apply HW; [|exact Rn].
      destruct (hclear_ref compact clock key _ _ R1 S1) as [A B]. split; assumption.
    - destruct (LH key) as [R1 S1]. destruct (hash_reads_ref compact clock key _ _ R1 S1) as (a & _). cbn [fst snd]. split; [exact a|exact Keep].
    - destruct (LH key) as [R1 S1]. destruct (hash_reads_ref compact clock key _ _ R1 S1) as (_ & a & _). cbn [fst snd]. split; [apply a|exact Keep].
    - destruct (LH key) as [R1 S1]. destruct (hash_reads_ref compact clock key _ _ R1 S1) as (_ & _ & a & _). cbn [fst snd]. split; [apply a|exact Keep].
    - destruct (LH key) as [R1 S1]. destruct (hash_reads_ref compact clock key _ _ R1 S1) as (_ & _ & _ & a & _). cbn [fst snd]. split; [apply a|exact Keep].
    - destruct (LH key) as [R1 S1]. destruct (hash_reads_ref compact clock key _ _ R1 S1) as (_ & _ & _ & _ & a & _). cbn [fst snd]. split; [exact a|exact Keep].
    - destruct (LH key) as [R1 S1]. destruct (hash_reads_ref compact clock key _ _ R1 S1) as (_ & _ & _ & _ & _ & a & _). cbn [fst snd]. split; [exact a|exact Keep].
    - destruct (LH key) as [R1 S1]. destruct (hash_reads_ref compact clock key _ _ R1 S1) as (_ & _ & _ & _ & _ & _ & a & _). cbn [fst snd]. split; [exact a|exact Keep].
    - destruct (LH key) as [R1 S1]. destruct (hash_reads_ref compact clock key _ _ R1 S1) as (_ & _ & _ & _ & _ & _ & _ & a). cbn [fst snd]. split; [exact a|exact Keep].
    - destruct (LS key) as [R1 S1]. apply SW; [apply (sadd_ref compact clock); auto|exact Rn].
    - destruct (LS key) as [R1 S1]. apply SW; [apply (srem_ref compact clock); auto|exact Rn].
    - destruct (LS key) as [R1 S1]. apply SW; [apply (spop_ref compact clock); auto|exact Rn].
    - destruct (LS key) as [R1 S1]. apply SW; [apply (sclear_ref compact clock); auto|exact Rn].
    - destruct (LS key) as [R1 S1]. destruct (set_reads_ref compact clock key _ _ R1 S1) as (a & _). cbn [fst snd]. split; [exact a|exact Keep].
    - destruct (LS key) as [R1 S1]. destruct (set_reads_ref compact clock key _ _ R1 S1) as (_ & a & _). cbn [fst snd]. split; [apply a|exact Keep].
    - destruct (LS key) as [R1 S1]. destruct (set_reads_ref compact clock key _ _ R1 S1) as (_ & _ & a & _). cbn [fst snd]. split; [exact a|exact Keep].
    - destruct (LS key) as [R1 S1]. destruct (set_reads_ref compact clock key _ _ R1 S1) as (_ & _ & _ & a & _). cbn [fst snd]. split; [apply a|exact Keep].
    - destruct (LS key) as [R1 S1]. destruct (set_reads_ref compact clock key _ _ R1 S1) as (_ & _ & _ & _ & a). cbn [fst snd]. split; [exact a|exact Keep].
    - (* zset write *)
      assert (RZ' : RepZ compact clock (alook empty_zcoll key (m_zset ms))) by (apply alook_rec; [apply RepZ_empty|apply (rs_zset _ _ _ Rs)]).
      assert (SZ : simz (alook empty_zcoll key (m_zset ms)) (alook [] key (s_zset ss))).
      { apply (rel2_alook simz); [apply (@sim_empty score)|exact Sz]. }
      assert (W : zref (MapZ.zstep compact ts key c) (SpecZ.zstep key c) (alook empty_zcoll key (m_zset ms)) (alook [] key (s_zset ss))).
      { destruct c.
        - apply (zadd_ref compact clock); auto.
        - apply (zincrby_ref compact clock); auto.
        - apply (zrem_ref compact clock); auto.
        - apply (zremrangebyrank_ref compact clock); auto.
        - apply (zremrangebyscore_ref compact clock); auto.
        - apply (zremrangebylex_ref compact clock); auto.
        - apply (zclear_ref compact clock); auto.
        - split; [reflexivity|exact SZ]. }
      destruct W as [W1 W2]. unfold aupd in *.
      destruct (MapZ.zstep compact ts key c (alook empty_zcoll key (m_zset ms))) as [z' r1].
      destruct (SpecZ.zstep key c (alook [] key (s_zset ss))) as [a' r2]. cbn [fst snd] in *.
      split; [exact W1|]. constructor; cbn [m_hash m_set m_zset m_list m_kv s_hash s_set s_zset s_list s_kv]; auto.
      apply rel2_aput; assumption.
    - (* zset read *)
      assert (RZ' : RepZ compact clock (alook empty_zcoll key (m_zset ms))) by (apply alook_rec; [apply RepZ_empty|apply (rs_zset _ _ _ Rs)]).
      assert (SZ : simz (alook empty_zcoll key (m_zset ms)) (alook [] key (s_zset ss))).
      { apply (rel2_alook simz); [apply (@sim_empty score)|exact Sz]. }
      cbn [fst snd]. split; [|exact Keep].
      destruct (zpoint_reads_ref compact clock key _ _ RZ' SZ) as (a1 & a2 & a3).
      destruct q.
      + exact a1.
      + exact a2.
      + apply a3.
      + apply (zrange_ref compact clock); auto.
      + apply (zrangebyscore_ref compact clock); auto.
      + apply (zrangebylex_ref compact clock); auto.
      + apply (zcount_ref compact clock); auto.
      + apply (zlexcount_ref compact clock); auto.
      + apply (zrank_ref compact clock); auto.
      + reflexivity.
    - (* list write *)
      assert (RL : RepL compact clock (alook empty_lcoll key (m_list ms))) by (apply alook_rec; [apply RepL_empty|apply (rs_list _ _ _ Rs)]).
      assert (AB : abs_l (alook empty_lcoll key (m_list ms)) = alook [] key (s_list ss)).
      { apply (rel2_alook (fun l a => abs_l l = a)); [reflexivity|exact Sl]. }
      assert (W : snd (MapL.lstep compact ts key c (alook empty_lcoll key (m_list ms))) = snd (SpecL.lstep key c (alook [] key (s_list ss))) /\
                  abs_l (fst (MapL.lstep compact ts key c (alook empty_lcoll key (m_list ms)))) = fst (SpecL.lstep key c (alook [] key (s_list ss)))).
      { rewrite <- AB. destruct c.
        - apply (lpush_ref compact clock); auto. intros TM.
          destruct vs as [|x0 r0].
          + unfold push_in_bounds, push_last, seq_room in *. cbn [length]. change (Z.of_nat 0) with 0.
            pose proof (alook_rec (LB bnd) empty_lcoll key (m_list ms) (LB_empty bnd) LBm) as HB.
            unfold l_size, l_head, l_tail. destruct (l_meta (alook empty_lcoll key (m_list ms))) as [m0|] eqn:E0.
            * destruct (HB m0 E0) as [a1 a2]. destruct (rl_meta _ _ _ RL m0 E0) as (hle & _).
              assert (0 <? lm_tail m0 - lm_head m0 + 1 = true) as -> by lia. unfold max_batch_num in *. destruct tail; cbv iota; lia.
            * change (0 <? 0) with false. cbv iota. unfold max_batch_num in *. destruct tail; cbv iota; lia.
          + apply (LB_push_in_bounds compact clock bnd); auto; [|discriminate].
            apply alook_rec; [apply LB_empty|exact LBm].
        - apply (lpop_ref compact clock); auto.
        - apply (lset_ref compact clock); auto.
        - apply (ltrim_ref compact clock); auto.
        - apply (lclear_ref compact clock); auto.
        - cbn. split; reflexivity. }
      destruct W as [W1 W2]. unfold aupd in *.
      destruct (MapL.lstep compact ts key c (alook empty_lcoll key (m_list ms))) as [l' r1].
      destruct (SpecL.lstep key c (alook [] key (s_list ss))) as [a' r2]. cbn [fst snd] in *.
      split; [exact W1|]. constructor; cbn [m_hash m_set m_zset m_list m_kv s_hash s_set s_zset s_list s_kv]; auto.
      apply rel2_aput; assumption.
    - (* list read *)
      assert (RL : RepL compact clock (alook empty_lcoll key (m_list ms))) by (apply alook_rec; [apply RepL_empty|apply (rs_list _ _ _ Rs)]).
      assert (AB : abs_l (alook empty_lcoll key (m_list ms)) = alook [] key (s_list ss)).
      { apply (rel2_alook (fun l a => abs_l l = a)); [reflexivity|exact Sl]. }
      cbn [fst snd]. split; [|exact Keep]. rewrite <- AB.
      destruct (list_reads_ref compact clock key _ RL) as (a1 & a2 & a3).
      destruct q; [exact a1|exact a2|apply (lrange_ref compact clock); exact RL|apply a3|reflexivity].
    - (* kv write *)
      assert (KR : MapK.kstep ts c (m_kv ms) = SpecK.kstep c (s_kv ss)).
      { rewrite <- Skv. apply kstep_ref; exact Snd. }
      rewrite KR. assert (KN : NoDup (map fst (fst (SpecK.kstep c (s_kv ss))))) by (apply kstep_nodup; rewrite <- Skv; exact Snd).
      rewrite KR in Rn. destruct (SpecK.kstep c (s_kv ss)) as [m r]. cbn [fst snd] in *. split; [reflexivity|].
      constructor; cbn [m_hash m_set m_zset m_list m_kv s_hash s_set s_zset s_list s_kv]; auto.
    - (* kv read *)
      cbn [fst snd]. rewrite Skv. split; [apply kquery_ref|exact Keep].
  Qed.

  (* replies of a whole sequence *)
  Fixpoint map_trace (cs : list (Z * cmd)) (s : mstate) : list reply :=
    match cs with
    | [] => []
    | (ts, c) :: r => let '(s', rp) := map_step compact ts c s in rp :: map_trace r s'
    end.
  Fixpoint spec_trace (cs : list (Z * cmd)) (s : sstate) : list reply :=
    match cs with
    | [] => []
    | (_, c) :: r => let '(s', rp) := spec_step c s in rp :: spec_trace r s'
    end.

  Theorem trace_ref cs : forall clock B ms ss, simS clock ms ss -> 0 <= clock -> increasing clock cs ->
    LBS B ms -> 0 <= B -> B + Z.of_nat (length cs) * max_batch_num < seq_room ->
    map_trace cs ms = spec_trace cs ss /\ simS (last_ts clock cs) (map_run compact cs ms) (spec_run cs ss).
  Proof.
    induction cs as [|[ts c] r IH]; intros clock B ms ss S L I LBm PB Room; cbn [map_trace spec_trace map_run spec_run fold_left last_ts].
    - split; [reflexivity|exact S].
    - destruct I as [I1 I2]. cbn [length] in Room.
      assert (MB : 0 < max_batch_num) by (unfold max_batch_num; lia).
      destruct (step_ref clock ts c B ms ss S ltac:(lia) LBm PB ltac:(nia)) as [E1 S1]. cbn [fst snd].
      pose proof (map_step_LB clock ts c B ms (ss_rep _ _ _ S) LBm PB) as LB1.
      destruct (map_step compact ts c ms) as [ms' r1]. destruct (spec_step c ss) as [ss' r2]. cbn [fst snd] in *.
      destruct (IH ts (B + max_batch_num) ms' ss' S1 ltac:(lia) I2 LB1 ltac:(lia) ltac:(nia)) as [E2 S2].
      split; [rewrite E1, E2; reflexivity|exact S2].
  Qed.
End Seq.

(* sequences of fewer than seq_room / MAX_BATCH_NUM (about 4.6e14) commands *)
Definition short_enough (cs : list (Z * cmd)) : Prop := Z.of_nat (length cs) * max_batch_num < seq_room.

Theorem all_sequences_ref compact cs : increasing 0 cs -> short_enough cs ->
  map_trace compact cs m_init = spec_trace cs s_init.
Proof.
  intros I Sh. apply (trace_ref compact cs 0 0 m_init s_init); [apply simS_init|lia|exact I|apply LBS_init|lia|exact Sh].
Qed.

(* ---------- where the timestamps matter ----------
   Without expiry commands the raft timestamp reaches the data only as the generation (ValueVersion) that
   wait_compact gives a collection created while no meta key exists (prepareCollKeyForWrite / renewOnExpired).
   Under local_deletion the Map model does not look at it at all: *)
Lemma renum_map_trace cs : forall n s, map_trace false (renum n cs) s = map_trace false cs s.
Proof.
  induction cs as [|[t c] r IH]; intros n s; cbn [renum map_trace]; [reflexivity|].
  rewrite (map_step_local_ts n t c s). destruct (map_step false t c s). rewrite IH. reflexivity.
Qed.
Lemma renum_spec_trace cs : forall n s, spec_trace (renum n cs) s = spec_trace cs s.
Proof.
  induction cs as [|[t c] r IH]; intros n s; cbn [renum spec_trace]; [reflexivity|].
  destruct (spec_step c s). rewrite IH. reflexivity.
Qed.
(* local_deletion: arbitrary timestamps *)
Theorem local_all_sequences_ref cs : short_enough cs -> map_trace false cs m_init = spec_trace cs s_init.
Proof.
  intros Sh. rewrite <- (renum_map_trace cs 1), <- (renum_spec_trace cs 1).
  apply all_sequences_ref; [apply (renum_increasing cs 1)|]. unfold short_enough. rewrite renum_length. exact Sh.
Qed.

(* under wait_compact EQUAL timestamps break it: a collection cleared and re-created at the timestamp of its
   creation reuses its generation, and the cleared member is enumerated again (open finding of C10:
   "wait_compact renewOnExpired version=ts collision") *)
Definition equal_ts_cs : list (Z * cmd) :=
  [ (5, CSadd k_ts [b_a]); (5, CSclear k_ts); (5, CSadd k_ts [b_b]); (5, QSmembers k_ts) ].
Lemma equal_ts_breaks : map_trace true equal_ts_cs m_init <> spec_trace equal_ts_cs s_init.
Proof. vm_compute. discriminate. Qed.

(* ---------- Spec-level sanity lemmas (guards against a wrong reference model) ---------- *)
(* SADD counts a repeated member once *)
Lemma spec_sadd_repeated m r (s : sset) : sadd_loop (m :: m :: r) s = sadd_loop (m :: r) s.
Proof.
  cbn [sadd_loop]. destruct (amem bytes_eqb m s) eqn:E; [reflexivity|].
  assert (amem bytes_eqb m (aput bytes_eqb m tt s) = true) as ->; [|reflexivity].
  unfold amem. rewrite get_put, bytes_eqb_refl. reflexivity.
Qed.
(* HDEL counts a repeated field once *)
Lemma spec_hdel_repeated f r (h : shash) : NoDup (map fst h) -> del_loop (f :: f :: r) h = del_loop (f :: r) h.
Proof.
  intros ND. cbn [del_loop]. destruct (amem bytes_eqb f h) eqn:E; [|reflexivity].
  assert (amem bytes_eqb f (adel bytes_eqb f h) = false) as ->; [|reflexivity].
  unfold amem. rewrite get_del by exact ND. rewrite bytes_eqb_refl. reflexivity.
Qed.
(* removing the last element removes the key *)
Lemma spec_last_field_removes_key key f x : key_ok key = true -> subkey_ok f = true ->
  let h := fst (Spec.hdel key [f] [(f, x)]) in Spec.hkeyexist key h = RInt 0 /\ Spec.hlen key h = RInt 0.
Proof.
  intros K SK. unfold Spec.hdel. cbn [too_many length]. unfold too_many; cbn [length].
  assert (max_batch_num <? Z.of_nat 1 = false) as -> by reflexivity.
  rewrite K. cbn [negb orb forallb]. rewrite SK. cbn [negb andb orb del_loop].
  unfold amem; cbn [aget]. rewrite bytes_eqb_refl. cbn [adel]. rewrite bytes_eqb_refl. cbn.
  unfold Spec.hkeyexist, Spec.hlen. rewrite K. cbn. split; reflexivity.
Qed.
(* the index rule of LRANGE / LTRIM: element i of the result is element start'+i of the list *)
Ltac brk := repeat match goal with
  | H : context [if ?b then _ else _] |- _ => destruct b eqn:?
  | |- context [if ?b then _ else _] => destruct b eqn:?
  end.
Lemma spec_norm_range_bounds len start stop a b : SpecL.norm_range len start stop = Some (a, b) ->
  0 <= a <= b /\ b < len /\
  a = Z.max 0 (if start <? 0 then len + start else start) /\
  b = Z.min (len - 1) (if stop <? 0 then len + stop else stop).
Proof.
  unfold SpecL.norm_range. intros H. brk; cbn [orb] in *; try discriminate; inversion H; subst; lia.
Qed.
Lemma spec_norm_range_empty len start stop : SpecL.norm_range len start stop = None <->
  (Z.min (len - 1) (if stop <? 0 then len + stop else stop) < Z.max 0 (if start <? 0 then len + start else start) \/
   len <= Z.max 0 (if start <? 0 then len + start else start)).
Proof.
  unfold SpecL.norm_range. brk; cbn [orb] in *; (split; [intros H; try discriminate; lia|intros H; try reflexivity; exfalso; lia]).
Qed.
