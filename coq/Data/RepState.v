(* Data/RepState.v — the representation invariant lifted to whole states and to every command sequence
   with strictly increasing raft timestamps (fold of map_step from the empty store). *)
From ZV Require Import Common.Bytes Common.BytesFacts Data.Consts Data.Base Data.BaseFacts Data.Map Data.MapZ Data.MapL Data.MapK
  Data.Spec Data.SpecZ Data.SpecL Data.SpecK Data.Run Data.RepColl Data.RepHS Data.RepL Data.RepZ Data.ExpFacts.
From Coq Require Import Lia.
Open Scope Z_scope.

Section ST.
  Variable compact : bool.

  (* every stored record satisfies the invariant of its type *)
  Definition all_recs {V} (P : V -> Prop) (m : list (bytes * V)) : Prop := forall k v, In (k, v) m -> P v.

  (* the invariant of a stored record does not involve its ExpireAt *)
  Definition XP {R} (P : R -> Prop) (x : xr R) : Prop := P (x_r x).

  Record RepS (clock : Z) (s : mstate) : Prop := {
    rs_hash : all_recs (XP (RepC compact clock)) (m_hash s);
    rs_set : all_recs (XP (RepC compact clock)) (m_set s);
    rs_zset : all_recs (XP (RepZ compact clock)) (m_zset s);
    rs_list : all_recs (XP (fun l => RepL compact clock l /\ InSpace l)) (m_list s) }.

  (* the in-memory renewal of an expired header (only under wait_compact) keeps the invariant: the
     element keys of the old generation are garbage below the clock *)
  Lemma forget_c_rep {V} clock (c : coll V) : compact = true -> RepC compact clock c -> RepC compact clock (forget_c c).
  Proof.
    intros C [A B N D E]. constructor; cbn [forget_c c_meta c_elems]; auto.
    - intros m Hm; discriminate.
    - intros _ F. rewrite C in F; discriminate.
  Qed.
  Lemma forget_z_rep clock z : compact = true -> RepZ compact clock z -> RepZ compact clock (forget_z z).
  Proof. intros C [A B]. constructor; cbn [forget_z z_c z_index]; [apply forget_c_rep; assumption|exact B]. Qed.
  Lemma forget_l_rep clock l : compact = true -> RepL compact clock l -> RepL compact clock (forget_l l).
  Proof.
    intros C [A B N D]. constructor; cbn [forget_l l_meta l_elems]; auto.
    - intros m Hm; discriminate.
    - intros _ F. rewrite C in F; discriminate.
  Qed.

  Lemma all_recs_mono {V} (P Q : V -> Prop) m : (forall v, P v -> Q v) -> all_recs P m -> all_recs Q m.
  Proof. intros H A k v Hin. apply H, (A k v Hin). Qed.

  Lemma alook_rec {V} (P : V -> Prop) d k m : P d -> all_recs P m -> P (alook d k m).
  Proof.
    intros Pd A. unfold alook. destruct (aget bytes_eqb k m) as [v|] eqn:E; [|exact Pd].
    apply (A k v). apply (aget_In bytes_eqb); [exact bytes_eqb_eq|exact E].
  Qed.

  Lemma aput_recs {V} (P : V -> Prop) k v m : P v -> all_recs P m -> all_recs P (aput bytes_eqb k v m).
  Proof.
    intros Pv A. induction m as [|[k2 v2] r IH]; cbn.
    - intros k' v' [H|[]]; inversion H; subst; exact Pv.
    - destruct (bytes_eqb k k2).
      + intros k' v' [H|H]; [inversion H; subst; exact Pv|apply (A k' v'); right; exact H].
      + intros k' v' [H|H]; [apply (A k' v'); left; exact H|].
        apply (IH (fun a b Hab => A a b (or_intror Hab)) k' v' H).
  Qed.

  Lemma aupd_recs {V R} (P Q : V -> Prop) d k (f : V -> V * R) m :
    (forall v, P v -> Q v) -> P d -> (forall v, P v -> Q (fst (f v))) -> all_recs P m -> all_recs Q (fst (aupd d k f m)).
  Proof.
    intros PQ Pd Pf A. unfold aupd.
    pose proof (Pf _ (alook_rec P d k m Pd A)) as H. destruct (f (alook d k m)) as [v' r]. cbn [fst] in *.
    apply aput_recs; [exact H|]. eapply all_recs_mono; [exact PQ|exact A].
  Qed.

  Lemma InSpace_empty : InSpace empty_lcoll.
  Proof. intros m Hm. discriminate. Qed.

  Lemma RepS_mono clock clock' s : clock <= clock' -> RepS clock s -> RepS clock' s.
  Proof.
    intros L [A B C D]. constructor.
    - eapply all_recs_mono; [|exact A]. intros v; apply RepC_mono; exact L.
    - eapply all_recs_mono; [|exact B]. intros v; apply RepC_mono; exact L.
    - eapply all_recs_mono; [|exact C]. intros v; apply RepZ_mono; exact L.
    - eapply all_recs_mono; [|exact D]. intros v [Rv Sv]; split; [eapply RepL_mono; [exact L|exact Rv]|exact Sv].
  Qed.

  Lemma RepS_init : RepS 0 m_init.
  Proof. constructor; intros k v []. Qed.

  (* one command (write, read, expiry command or failing) with a timestamp above the clock preserves the invariant *)
  Theorem map_step_rep clock now ts c s : RepS clock s -> 0 <= clock < ts -> RepS ts (fst (map_step compact now ts c s)).
  Proof.
    intros R L. pose proof (RepS_mono clock ts s ltac:(lia) R) as Rm.
    destruct R as [A B C D].
    assert (MH : forall v : hcoll, RepC compact clock v -> RepC compact ts v) by (intros v; apply RepC_mono; lia).
    assert (MZ : forall v, RepZ compact clock v -> RepZ compact ts v) by (intros v; apply RepZ_mono; lia).
    assert (ML : forall v, RepL compact clock v /\ InSpace v -> RepL compact ts v /\ InSpace v)
      by (intros v [Rv Sv]; split; [eapply RepL_mono; [|exact Rv]; lia|exact Sv]).
    assert (MS : forall v : scoll, RepC compact clock v -> RepC compact ts v) by (intros v; apply RepC_mono; lia).
    assert (HH : forall key (f : xr hcoll -> xr hcoll * reply),
               (forall v, XP (RepC compact clock) v -> XP (RepC compact ts) (fst (f v))) ->
               RepS ts (fst (let '(m, r) := aupd (x0 empty_coll) key f (m_hash s) in
                             (Build_mstate m (m_set s) (m_zset s) (m_list s) (m_kv s), r)))).
    { intros key f Hf.
      pose proof (aupd_recs (XP (RepC compact clock)) (XP (RepC compact ts)) (x0 empty_coll) key f (m_hash s) (fun v => MH (x_r v)) (RepC_empty compact clock) Hf A) as H.
      destruct (aupd (x0 empty_coll) key f (m_hash s)) as [m r]. cbn [fst] in *.
      destruct Rm as [_ B' C' D']. constructor; auto. }
    assert (SS : forall key (f : xr scoll -> xr scoll * reply),
               (forall v, XP (RepC compact clock) v -> XP (RepC compact ts) (fst (f v))) ->
               RepS ts (fst (let '(m, r) := aupd (x0 empty_coll) key f (m_set s) in
                             (Build_mstate (m_hash s) m (m_zset s) (m_list s) (m_kv s), r)))).
    { intros key f Hf.
      pose proof (aupd_recs (XP (RepC compact clock)) (XP (RepC compact ts)) (x0 empty_coll) key f (m_set s) (fun v => MS (x_r v)) (RepC_empty compact clock) Hf B) as H.
      destruct (aupd (x0 empty_coll) key f (m_set s)) as [m r]. cbn [fst] in *.
      destruct Rm as [A' _ C' D']. constructor; auto. }
    assert (ZZ : forall key (f : xr zcoll -> xr zcoll * reply),
               (forall v, XP (RepZ compact clock) v -> XP (RepZ compact ts) (fst (f v))) ->
               RepS ts (fst (let '(m, r) := aupd (x0 empty_zcoll) key f (m_zset s) in
                             (Build_mstate (m_hash s) (m_set s) m (m_list s) (m_kv s), r)))).
    { intros key f Hf.
      pose proof (aupd_recs (XP (RepZ compact clock)) (XP (RepZ compact ts)) (x0 empty_zcoll) key f (m_zset s) (fun v => MZ (x_r v)) (RepZ_empty compact clock) Hf C) as H.
      destruct (aupd (x0 empty_zcoll) key f (m_zset s)) as [m r]. cbn [fst] in *.
      destruct Rm as [A' B' _ D']. constructor; auto. }
    assert (LL : forall key (f : xr lcoll -> xr lcoll * reply),
               (forall v, XP (fun l => RepL compact clock l /\ InSpace l) v -> XP (fun l => RepL compact ts l /\ InSpace l) (fst (f v))) ->
               RepS ts (fst (let '(m, r) := aupd (x0 empty_lcoll) key f (m_list s) in
                             (Build_mstate (m_hash s) (m_set s) (m_zset s) m (m_kv s), r)))).
    { intros key f Hf.
      pose proof (aupd_recs (XP (fun l => RepL compact clock l /\ InSpace l)) (XP (fun l => RepL compact ts l /\ InSpace l)) (x0 empty_lcoll) key f (m_list s) (fun v => ML (x_r v)) (conj (RepL_empty compact clock) InSpace_empty) Hf D) as H.
      destruct (aupd (x0 empty_lcoll) key f (m_list s)) as [m r]. cbn [fst] in *.
      destruct Rm as [A' B' C' _]. constructor; auto. }
    assert (FH : compact = true -> forall r : hcoll, RepC compact clock r -> RepC compact clock (forget_c r))
      by (intros Cc r; apply forget_c_rep; exact Cc).
    assert (FS : compact = true -> forall r : scoll, RepC compact clock r -> RepC compact clock (forget_c r))
      by (intros Cc r; apply forget_c_rep; exact Cc).
    assert (FZ : compact = true -> forall r, RepZ compact clock r -> RepZ compact clock (forget_z r))
      by (intros Cc r; apply forget_z_rep; exact Cc).
    assert (FL : compact = true -> forall r, RepL compact clock r /\ InSpace r -> RepL compact clock (forget_l r) /\ InSpace (forget_l r))
      by (intros Cc r [Rr _]; split; [apply forget_l_rep; assumption|intros m Hm; discriminate]).
    destruct c; cbn [map_step]; try exact Rm.
    - (* *expire *)
      destruct (negb (key_ok key)); [exact Rm|].
      destruct t; [apply HH|apply SS|apply ZZ|apply LL]; intros v Rv; unfold XP in *; rewrite xexpire_r; auto.
    - (* *persist *)
      destruct (negb (key_ok key)); [exact Rm|].
      destruct t; [apply HH|apply SS|apply ZZ|apply LL]; intros v Rv; unfold XP in *; rewrite xpersist_r; auto.
    - (* *ttl *)
      destruct (negb (key_ok key)); exact Rm.
    - apply HH. intros v Rv. unfold XP in *. apply (xrenew_inv exists_coll forget_c compact (RepC compact clock) (RepC compact ts)); auto. intros r Rr. apply (hset_rep compact clock); auto.
    - apply HH. intros v Rv. unfold XP in *. apply (xrenew_inv exists_coll forget_c compact (RepC compact clock) (RepC compact ts)); auto. intros r Rr. apply (hmset_rep compact clock); auto.
    - apply HH. intros v Rv. unfold XP in *. apply (xguard_inv exists_coll compact (RepC compact clock) (RepC compact ts)); auto. intros r Rr. apply MH, hdel_rep; exact Rr.
    - apply HH. intros v Rv. unfold XP in *. apply (xrenew_inv exists_coll forget_c compact (RepC compact clock) (RepC compact ts)); auto. intros r Rr. apply (hincrby_rep compact clock); auto.
    - apply HH. intros v Rv. unfold XP in *. apply (xguard_inv exists_coll compact (RepC compact clock) (RepC compact ts)); auto. intros r Rr. apply MH, hclear_rep; exact Rr.
    - apply SS. intros v Rv. unfold XP in *. apply (xrenew_inv exists_coll forget_c compact (RepC compact clock) (RepC compact ts)); auto. intros r Rr. apply (sadd_rep compact clock); auto.
    - apply SS. intros v Rv. unfold XP in *. apply (xguard_inv exists_coll compact (RepC compact clock) (RepC compact ts)); auto. intros r Rr. apply MS, srem_rep; exact Rr.
    - apply SS. intros v Rv. unfold XP in *. apply (xguard_inv exists_coll compact (RepC compact clock) (RepC compact ts)); auto. intros r Rr. apply MS, spop_rep; exact Rr.
    - apply SS. intros v Rv. unfold XP in *. apply (xguard_inv exists_coll compact (RepC compact clock) (RepC compact ts)); auto. intros r Rr. apply MS, sclear_rep; exact Rr.
    - (* zset write *)
      apply ZZ. intros v Rv. unfold XP in *.
      destruct (z_renews c).
      + apply (xrenew_inv live_z forget_z compact (RepZ compact clock) (RepZ compact ts)); auto. intros r Rr. apply (zstep_rep compact clock); auto.
      + apply (xguard_inv live_z compact (RepZ compact clock) (RepZ compact ts)); auto. intros r Rr. apply (zstep_rep compact clock); auto.
    - (* list write *)
      apply LL. intros v Rv. unfold XP in *.
      destruct (l_renews c).
      + apply (xrenew_inv l_exists forget_l compact (fun l => RepL compact clock l /\ InSpace l) (fun l => RepL compact ts l /\ InSpace l)); auto.
        intros r [Rr Sr]. split; [apply (lstep_rep compact clock); auto|apply (lstep_space compact clock); auto].
      + apply (xguard_inv l_exists compact (fun l => RepL compact clock l /\ InSpace l) (fun l => RepL compact ts l /\ InSpace l)); auto.
        intros r [Rr Sr]. split; [apply (lstep_rep compact clock); auto|apply (lstep_space compact clock); auto].
    - (* kv write: the collections are untouched *)
      destruct (MapK.kstep compact ts c (m_kv s)) as [m r]. cbn [fst]. destruct Rm as [A' B' C' D']. constructor; auto.
  Qed.

  (* strictly increasing timestamps above the clock *)
  Fixpoint increasing (clock : Z) (cs : list (Z * cmd)) : Prop :=
    match cs with
    | [] => True
    | (ts, _) :: r => clock < ts /\ increasing ts r
    end.
  Fixpoint last_ts (clock : Z) (cs : list (Z * cmd)) : Z :=
    match cs with [] => clock | (ts, _) :: r => last_ts ts r end.

  Theorem map_run_rep now cs : forall clock s, RepS clock s -> 0 <= clock -> increasing clock cs ->
    RepS (last_ts clock cs) (map_run compact now cs s).
  Proof.
    induction cs as [|[ts c] r IH]; intros clock s R L I; cbn [map_run fold_left last_ts]; [exact R|].
    destruct I as [I1 I2]. apply IH; [|lia|exact I2].
    cbn [fst snd]. apply (map_step_rep clock); [exact R|lia].
  Qed.
End ST.
