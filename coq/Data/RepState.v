(* Data/RepState.v — the representation invariant lifted to whole states and to every command sequence
   with strictly increasing raft timestamps (fold of map_step from the empty store). *)
From ZV Require Import Common.Bytes Common.BytesFacts Data.Consts Data.Base Data.BaseFacts Data.Map Data.MapZ Data.MapL Data.MapK
  Data.Spec Data.SpecZ Data.SpecL Data.SpecK Data.Run Data.RepColl Data.RepHS Data.RepL Data.RepZ.
From Coq Require Import Lia.
Open Scope Z_scope.

Section ST.
  Variable compact : bool.

  (* every stored record satisfies the invariant of its type *)
  Definition all_recs {V} (P : V -> Prop) (m : list (bytes * V)) : Prop := forall k v, In (k, v) m -> P v.

  Record RepS (clock : Z) (s : mstate) : Prop := {
    rs_hash : all_recs (RepC compact clock) (m_hash s);
    rs_set : all_recs (RepC compact clock) (m_set s);
    rs_zset : all_recs (RepZ compact clock) (m_zset s);
    rs_list : all_recs (RepL compact clock) (m_list s) }.

  Lemma all_recs_mono {V} (P Q : V -> Prop) m : (forall v, P v -> Q v) -> all_recs P m -> all_recs Q m.
  Proof. intros H A k v Hin. apply H, (A k v Hin). Qed.

  Lemma alook_rec {V} (P : V -> Prop) d k m : P d -> all_recs P m -> P (alook d k m).
  Proof.
    intros Pd A. unfold alook. destruct (aget bytes_eqb k m) as [v|] eqn:E; [|exact Pd].
    apply (A k v). apply (aget_In bytes_eqb); [exact bytes_eqb_eq|exact E].
  Qed.

  Lemma aput_recs {V} (P : V -> Prop) k v m : P v -> all_recs P m -> all_recs P (aput bytes_eqb k v m).
  Proof.
    intros Pv A. induction m as [|[k2 v2] r IH]; cbn.
    - intros k' v' [H|[]]; inversion H; subst; exact Pv.
    - destruct (bytes_eqb k k2).
      + intros k' v' [H|H]; [inversion H; subst; exact Pv|apply (A k' v'); right; exact H].
      + intros k' v' [H|H]; [apply (A k' v'); left; exact H|].
        apply (IH (fun a b Hab => A a b (or_intror Hab)) k' v' H).
  Qed.

  Lemma aupd_recs {V R} (P Q : V -> Prop) d k (f : V -> V * R) m :
    (forall v, P v -> Q v) -> P d -> (forall v, P v -> Q (fst (f v))) -> all_recs P m -> all_recs Q (fst (aupd d k f m)).
  Proof.
    intros PQ Pd Pf A. unfold aupd.
    pose proof (Pf _ (alook_rec P d k m Pd A)) as H. destruct (f (alook d k m)) as [v' r]. cbn [fst] in *.
    apply aput_recs; [exact H|]. eapply all_recs_mono; [exact PQ|exact A].
  Qed.

  Lemma RepS_mono clock clock' s : clock <= clock' -> RepS clock s -> RepS clock' s.
  Proof.
    intros L [A B C D]. constructor.
    - eapply all_recs_mono; [|exact A]. intros v; apply RepC_mono; exact L.
    - eapply all_recs_mono; [|exact B]. intros v; apply RepC_mono; exact L.
    - eapply all_recs_mono; [|exact C]. intros v; apply RepZ_mono; exact L.
    - eapply all_recs_mono; [|exact D]. intros v; apply RepL_mono; exact L.
  Qed.

  Lemma RepS_init : RepS 0 m_init.
  Proof. constructor; intros k v []. Qed.

  (* one command (write, read or failing) with a timestamp above the clock preserves the invariant *)
  Theorem map_step_rep clock ts c s : RepS clock s -> 0 <= clock < ts -> RepS ts (fst (map_step compact ts c s)).
  Proof.
    intros R L. pose proof (RepS_mono clock ts s ltac:(lia) R) as Rm.
    destruct R as [A B C D].
    assert (MH : forall v : hcoll, RepC compact clock v -> RepC compact ts v) by (intros v; apply RepC_mono; lia).
    assert (MZ : forall v, RepZ compact clock v -> RepZ compact ts v) by (intros v; apply RepZ_mono; lia).
    assert (ML : forall v, RepL compact clock v -> RepL compact ts v) by (intros v; apply RepL_mono; lia).
    assert (MS : forall v : scoll, RepC compact clock v -> RepC compact ts v) by (intros v; apply RepC_mono; lia).
    assert (HH : forall key (f : hcoll -> hcoll * reply),
               (forall v, RepC compact clock v -> RepC compact ts (fst (f v))) ->
               RepS ts (fst (let '(m, r) := aupd empty_coll key f (m_hash s) in
                             (Build_mstate m (m_set s) (m_zset s) (m_list s) (m_kv s), r)))).
    { intros key f Hf.
      pose proof (aupd_recs (RepC compact clock) (RepC compact ts) empty_coll key f (m_hash s) MH (RepC_empty compact clock) Hf A) as H.
      destruct (aupd empty_coll key f (m_hash s)) as [m r]. cbn [fst] in *.
      destruct Rm as [_ B' C' D']. constructor; auto. }
    assert (SS : forall key (f : scoll -> scoll * reply),
               (forall v, RepC compact clock v -> RepC compact ts (fst (f v))) ->
               RepS ts (fst (let '(m, r) := aupd empty_coll key f (m_set s) in
                             (Build_mstate (m_hash s) m (m_zset s) (m_list s) (m_kv s), r)))).
    { intros key f Hf.
      pose proof (aupd_recs (RepC compact clock) (RepC compact ts) empty_coll key f (m_set s) MS (RepC_empty compact clock) Hf B) as H.
      destruct (aupd empty_coll key f (m_set s)) as [m r]. cbn [fst] in *.
      destruct Rm as [A' _ C' D']. constructor; auto. }
    destruct c; cbn [map_step]; try exact Rm.
    - apply HH. intros v Rv. apply (hset_rep compact clock); auto.
    - apply HH. intros v Rv. apply (hmset_rep compact clock); auto.
    - apply HH. intros v Rv. apply MH, hdel_rep; exact Rv.
    - apply HH. intros v Rv. apply (hincrby_rep compact clock); auto.
    - apply HH. intros v Rv. apply MH, hclear_rep; exact Rv.
    - apply SS. intros v Rv. apply (sadd_rep compact clock); auto.
    - apply SS. intros v Rv. apply MS, srem_rep; exact Rv.
    - apply SS. intros v Rv. apply MS, spop_rep; exact Rv.
    - apply SS. intros v Rv. apply MS, sclear_rep; exact Rv.
    - (* zset write *)
      pose proof (aupd_recs (RepZ compact clock) (RepZ compact ts) empty_zcoll key (MapZ.zstep compact ts key c) (m_zset s)
                            MZ (RepZ_empty compact clock) (fun v Rv => zstep_rep compact clock ts key c v Rv L) C) as H.
      destruct (aupd empty_zcoll key (MapZ.zstep compact ts key c) (m_zset s)) as [m r]. cbn [fst] in *.
      destruct Rm as [A' B' _ D']. constructor; auto.
    - (* list write *)
      pose proof (aupd_recs (RepL compact clock) (RepL compact ts) empty_lcoll key (MapL.lstep compact ts key c) (m_list s)
                            ML (RepL_empty compact clock) (fun v Rv => lstep_rep compact clock ts key c v Rv L) D) as H.
      destruct (aupd empty_lcoll key (MapL.lstep compact ts key c) (m_list s)) as [m r]. cbn [fst] in *.
      destruct Rm as [A' B' C' _]. constructor; auto.
    - (* kv write: the collections are untouched *)
      destruct (MapK.kstep ts c (m_kv s)) as [m r]. cbn [fst]. destruct Rm as [A' B' C' D']. constructor; auto.
  Qed.

  (* strictly increasing timestamps above the clock *)
  Fixpoint increasing (clock : Z) (cs : list (Z * cmd)) : Prop :=
    match cs with
    | [] => True
    | (ts, _) :: r => clock < ts /\ increasing ts r
    end.
  Fixpoint last_ts (clock : Z) (cs : list (Z * cmd)) : Z :=
    match cs with [] => clock | (ts, _) :: r => last_ts ts r end.

  Theorem map_run_rep cs : forall clock s, RepS clock s -> 0 <= clock -> increasing clock cs ->
    RepS (last_ts clock cs) (map_run compact cs s).
  Proof.
    induction cs as [|[ts c] r IH]; intros clock s R L I; cbn [map_run fold_left last_ts]; [exact R|].
    destruct I as [I1 I2]. apply IH; [|lia|exact I2].
    cbn [fst snd]. apply (map_step_rep clock); [exact R|lia].
  Qed.
End ST.
