(* Data/MapZ.v — sorted sets in the Map model (structured engine keys, see Map.v):
     z_c      : size meta + member keys   ElemKey ZSetType table key ver member |-> score
     z_index  : score index keys          ScoreKey table key ver score member    (value empty)
   Transcribed (post-fix working tree):
     rockredis/t_zset.go  zSetItem zDelItem ZAdd ZIncrBy ZRem zRemAll zRemRangeBytes zRemRange ZRemRangeByRank
                          ZRemRangeByScore ZRemRangeByLex internalZRemRangeByLex ZClear zIncrSize zParseLimit
                          ZCard ZScore ZCount zrank zRangeBytes zRange ZRangeGeneric ZRangeByLex ZLexCount ZKeyExists
     engine/iterator.go   rangeLimitIterator (offset < 0: empty; count < 0: unlimited)
     node/zset.go         getScoreRange, getLexRange, getScorePairs and the read handlers' argument parsing
   Scores: see Base.v (integer-valued doubles and the infinities; -0 is identified with 0).
   No proofs in this file. *)
From ZV Require Export Data.Base.
From ZV Require Import Data.Consts Data.Map.
Open Scope Z_scope.

Definition sbound := (score * bool)%type.   (* bound, exclusive? *)
Definition zikey := (Z * (score * bytes))%type.   (* generation, score, member *)

Inductive zcmd :=
| ZCadd (ps : list (score * bytes))
| ZCincrby (d : score) (m : bytes)
| ZCrem (ms : list bytes)
| ZCremrangebyrank (start stop : Z)
| ZCremrangebyscore (lo hi : option sbound)       (* None = the bound did not parse (errInvalidRange) *)
| ZCremrangebylex (lo hi : option bytes) (lopen ropen : bool)
| ZCclear
| ZCinvalid                                       (* malformed arguments: the handler returns an error *)
| ZCfixkey.                                       (* ZFIXKEY: the repair command *)
Inductive zqry :=
| ZQcard | ZQkeyexist | ZQscore (m : bytes)
| ZQrange (rev : bool) (start stop : Z) (withscores : bool)
| ZQrangebyscore (rev : bool) (lo hi : sbound) (withscores : bool) (offset count : Z)
| ZQrangebylex (lo hi : option bytes) (lopen ropen : bool) (offset count : Z)
| ZQcount (lo hi : sbound)
| ZQlexcount (lo hi : option bytes) (lopen ropen : bool)
| ZQrank (rev : bool) (m : bytes)
| ZQinvalid.

Record zcoll := { z_c : coll score; z_index : list zikey }.
Definition empty_zcoll : zcoll := {| z_c := empty_coll; z_index := [] |}.

Definition zikey_eqb (a b : zikey) : bool :=
  (fst a =? fst b) && score_eqb (fst (snd a)) (fst (snd b)) && bytes_eqb (snd (snd a)) (snd (snd b)).
Fixpoint imem (k : zikey) (l : list zikey) : bool :=
  match l with [] => false | x :: r => zikey_eqb k x || imem k r end.
Definition iput (k : zikey) (l : list zikey) : list zikey := if imem k l then l else l ++ [k].
Fixpoint idel (k : zikey) (l : list zikey) : list zikey :=
  match l with [] => [] | x :: r => if zikey_eqb k x then r else x :: idel k r end.

(* engine order of the score index inside one generation: score, then member bytes *)
Definition sm_leb (a b : score * bytes) : bool :=
  score_ltb (fst a) (fst b) || (score_eqb (fst a) (fst b) && bytes_leb (snd a) (snd b)).
Definition index_scan (v : Z) (idx : list zikey) : list (score * bytes) :=
  isort sm_leb (map snd (filter (fun k => fst k =? v) idx)).

(* rangeLimitIterator: skip offset entries, then at most count (count < 0: all) *)
Definition clampn {A} (z : Z) (l : list A) : nat := Z.to_nat (Z.min z (Z.of_nat (length l))).
Definition limit {A} (offset count : Z) (l : list A) : list A :=
  if offset <? 0 then []
  else let l' := skipn (clampn offset l) l in
       if count <? 0 then l' else firstn (clampn count l') l'.

Definition in_score (lo hi : sbound) (s : score) : bool :=
  (if snd lo then score_ltb (fst lo) s else score_leb (fst lo) s) &&
  (if snd hi then score_ltb s (fst hi) else score_leb s (fst hi)).
Definition in_lex (lo hi : option bytes) (lopen ropen : bool) (m : bytes) : bool :=
  (match lo with None => true | Some b => if lopen then bytes_ltb b m else bytes_leb b m end) &&
  (match hi with None => true | Some b => if ropen then bytes_ltb m b else bytes_leb m b end).

(* ---------- write batch pieces ---------- *)
(* zSetItem against committed data: (exists?, ops on elems and index) *)
Definition zset_item (v : Z) (committed : zcoll) (sc : score) (m : bytes) (z : zcoll) : zcoll :=
  match eget v m (c_elems (z_c committed)) with
  | Some old =>
      if score_eqb old sc then z
      else {| z_c := Build_coll (c_meta (z_c z)) (eput v m sc (c_elems (z_c z)));
              z_index := iput (v, (sc, m)) (idel (v, (old, m)) (z_index z)) |}
  | None =>
      {| z_c := Build_coll (c_meta (z_c z)) (eput v m sc (c_elems (z_c z)));
         z_index := iput (v, (sc, m)) (z_index z) |}
  end.
(* zDelItem against committed data *)
Definition zdel_item (v : Z) (committed : zcoll) (m : bytes) (z : zcoll) : zcoll :=
  match eget v m (c_elems (z_c committed)) with
  | Some old => {| z_c := Build_coll (c_meta (z_c z)) (edel v m (c_elems (z_c z)));
                   z_index := idel (v, (old, m)) (z_index z) |}
  | None => z
  end.
Definition zwith_size (v : Z) (size : Z) (z : zcoll) : zcoll :=
  {| z_c := Build_coll (set_size v size) (c_elems (z_c z)); z_index := z_index z |}.
Definition zsize (z : zcoll) : Z := st_size (z_c z).
Definition zver (z : zcoll) : Z := st_ver (z_c z).
Definition zexists (z : zcoll) : bool := exists_coll (z_c z).

(* remove the given members (as found by a range scan of committed data), then zIncrSize *)
Definition zremove (ms : list bytes) (z : zcoll) : zcoll * Z :=
  let v := zver z in
  let num := count_old v ms (c_elems (z_c z)) in
  let z' := fold_left (fun acc m => zdel_item v z m acc) ms z in
  (zwith_size v (zsize z - num) z', num).

(* zRemAll: under the lazy clear of wait_compact only the size key goes; otherwise, above RangeDeleteNum
   members, one DeleteRange over the score index [RangeStart, RangeEnd) and one over the member keys
   [zEncodeStartSetKey, zEncodeStopSetKey) of the generation; up to RangeDeleteNum members
   zRemRangeBytes over the whole score index (each member through zDelItem) *)
Definition zidx_delete_range (lo hi : ebound) (idx : list zikey) : list zikey :=
  filter (fun i => negb (in_range lo hi (fst i, snd (snd i)))) idx.
Definition zrem_all (lazy : bool) (z : zcoll) : zcoll * Z :=
  let num := zsize z in
  if num =? 0 then (z, 0)
  else if lazy then ({| z_c := Build_coll None (c_elems (z_c z)); z_index := z_index z |}, num)
  else if range_delete_num <? num then
    ({| z_c := Build_coll None (delete_range (BStart (zver z)) (BStop (zver z)) (c_elems (z_c z)));
        z_index := zidx_delete_range (BStart (zver z)) (BStop (zver z)) (z_index z) |}, num)
  else zremove (map snd (index_scan (zver z) (z_index z))) z.

(* zRemRangeBytes over the index entries selected by sel, with offset / count *)
Definition zrem_range_bytes (lazy : bool) (sel : score * bytes -> bool) (offset count : Z) (z : zcoll) : zcoll * reply :=
  let total := zsize z in
  if total =? 0 then (z, RInt 0)
  else if (offset =? 0) && (total <=? count) then let '(z', n) := zrem_all lazy z in (z', RInt n)
  else if max_batch_num <? count then (z, RErr)
  else
    let picked := limit offset count (filter sel (index_scan (zver z) (z_index z))) in
    let '(z', n) := zremove (map snd picked) z in (z', RInt n).

(* zParseLimit (with the stop clamp of fix 6f14f07); offset -1 = empty *)
Definition zparse_limit (total start stop : Z) : Z * Z :=
  let fin (start stop : Z) :=
    let stop' := if total <=? stop then total - 1 else stop in
    if stop' <? start then (-1, 0) else (start, stop' - start + 1) in
  if (start <? 0) || (stop <? 0) then
    let start1 := if start <? 0 then total + start else start in
    let stop1 := if stop <? 0 then total + stop else stop in
    let start2 := if start1 <? 0 then 0 else start1 in
    if total <=? start2 then (-1, 0) else fin start2 stop1
  else fin start stop.

Definition zstep (compact : bool) (ts : Z) (key : bytes) (c : zcmd) (z : zcoll) : zcoll * reply :=
  match c with
  | ZCinvalid => (z, RErr)
  | ZCfixkey =>
      (* ZFixKey: the stored size against the number of entries ZRANGE 0 -1 finds in the score index, read at
         the entry's timestamp (fix: it read with the wall clock); ZRANGE stops at the stored size, so the size can
         only be lowered; above MAX_BATCH_NUM the range read fails and nothing happens.  The handler drops every
         error and replies nil; the table key counter is not touched. *)
      let n := zsize z in
      if max_batch_num <? n then (z, RNil)
      else let cnt := Z.of_nat (length (firstn (Z.to_nat n) (index_scan (zver z) (z_index z)))) in
           if cnt =? n then (z, RNil) else (zwith_size (zver z) cnt z, RNil)
  | ZCadd ps =>
      match ps with
      | [] => (z, RInt 0)
      | _ =>
        if too_many ps then (z, RErr)
        else if negb (key_ok key) || negb (forallb (fun p => subkey_ok (snd p)) ps) then (z, RErr)
        else
          let v := prep_ver compact ts (z_c z) in
          (* a member repeated in the call is set once, with its last score (fix c18e255) *)
          let ps' := map (fun p => (snd p, fst p)) (last_wins (map (fun p => (snd p, fst p)) ps)) in
          let num := count_new v (map snd ps') (c_elems (z_c z)) in
          let z' := fold_left (fun acc p => zset_item v z (fst p) (snd p) acc) ps' z in
          (zwith_size v (zsize z + num) z', RInt num)
      end
  | ZCincrby d m =>
      if negb (key_ok key) || negb (subkey_ok m) then (z, RErr)
      else
        let v := prep_ver compact ts (z_c z) in
        let old := eget v m (c_elems (z_c z)) in
        match score_add (match old with Some s => s | None => SFin 0 end) d with
        | None => (z, RErr)                      (* NaN result refused (fix in 8abd75b) *)
        | Some sc =>
            let z1 := match old with
                      | None => zwith_size v (zsize z + 1) z
                      | Some _ => z
                      end in
            (* delete the old score key first, then put the new one (fix 701c4ec) *)
            let idx := match old with Some o => idel (v, (o, m)) (z_index z1) | None => z_index z1 end in
            ({| z_c := Build_coll (c_meta (z_c z1)) (eput v m sc (c_elems (z_c z1)));
                z_index := iput (v, (sc, m)) idx |}, RFloat sc)
        end
  | ZCrem ms =>
      match ms with
      | [] => (z, RErr)
      | _ =>
        if too_many ms then (z, RErr)
        else if negb (key_ok key) || negb (forallb subkey_ok ms) then (z, RErr)
        else let '(z', n) := zremove (dedup [] ms) z in (z', RInt n)       (* fix ef745ba *)
      end
  | ZCremrangebyrank start stop =>
      if negb (key_ok key) then (z, RErr)
      else let '(offset, count) := zparse_limit (zsize z) start stop in
           zrem_range_bytes (lazy_clear compact ts (zver z)) (fun _ => true) offset count z
  | ZCremrangebyscore lo hi =>
      match lo, hi with
      | Some l, Some h =>
          if negb (key_ok key) then (z, RErr)
          else zrem_range_bytes (lazy_clear compact ts (zver z)) (fun e => in_score l h (fst e)) 0 (-1) z
      | _, _ => (z, RErr)
      end
  | ZCremrangebylex lo hi lopen ropen =>
      if negb (key_ok key) then (z, RErr)
      else
        match lo, hi with
        | None, None => let '(z', n) := zrem_all (lazy_clear compact ts (zver z)) z in (z', RInt n)
        | _, _ =>
            (* iterate the member keys of the generation in the lex range *)
            let ms := filter (in_lex lo hi lopen ropen) (map fst (scan (zver z) (c_elems (z_c z)))) in
            let '(z', n) := zremove ms z in (z', RInt n)
        end
  | ZCclear =>
      if negb (key_ok key) then (z, RErr)
      else let '(z', n) := zrem_all (lazy_clear compact ts (zver z)) z in (z', RInt (if 0 <? n then 1 else 0))
  end.

(* ---------- reads ---------- *)
Definition pairs_reply (withscores : bool) (l : list (score * bytes)) : reply :=
  RArr (flat_map (fun e => if withscores then [RBulk (snd e); RFloat (fst e)] else [RBulk (snd e)]) l).

(* zRangeBytes over the selected index entries *)
Definition zrange_bytes (precheck : bool) (sel : score * bytes -> bool) (offset count : Z) (rev : bool) (z : zcoll)
  : option (list (score * bytes)) :=
  if offset <? 0 then Some []
  else if max_batch_num <? count then None
  else if (count <? 0) && precheck && (max_batch_num <? zsize z - offset) then None
  else
    let l := filter sel (index_scan (zver z) (z_index z)) in
    let l' := if rev then limit offset count (List.rev l) else limit offset count l in
    if (count <? 0) && (max_batch_num <? Z.of_nat (length l')) then None else Some l'.

Definition zquery (key : bytes) (q : zqry) (z : zcoll) : reply :=
  match q with
  | ZQinvalid => RErr
  | ZQcard => if negb (key_ok key) then RErr else RInt (zsize z)
  | ZQkeyexist => if negb (key_ok key) then RErr else rbool (zexists z)
  | ZQscore m =>
      if negb (key_ok key) || negb (zexists z) then RNil
      else match eget (zver z) m (c_elems (z_c z)) with Some s => RFloat s | None => RNil end
  | ZQrange rev start stop ws =>
      if negb (key_ok key) then RErr
      else if negb (zexists z) then RArr []
      else let '(offset, count) := zparse_limit (zsize z) start stop in
           match zrange_bytes true (fun _ => true) offset count rev z with
           | Some l => pairs_reply ws l
           | None => RErr
           end
  | ZQrangebyscore rev lo hi ws offset count =>
      if negb (key_ok key) then RErr
      else if negb (zexists z) then RArr []
      else let pre := score_eqb (fst lo) SNInf && negb (snd lo) && score_eqb (fst hi) SPInf && negb (snd hi) in
           match zrange_bytes pre (fun e => in_score lo hi (fst e)) offset count rev z with
           | Some l => pairs_reply ws l
           | None => RErr
           end
  | ZQrangebylex lo hi lopen ropen offset count =>
      if max_batch_num <? count then RErr
      else if negb (key_ok key) then RErr
      else if negb (zexists z) then RArr []
      else
        let l := limit offset count (filter (in_lex lo hi lopen ropen) (map fst (scan (zver z) (c_elems (z_c z))))) in
        if (count <? 0) && (max_batch_num <? Z.of_nat (length l)) then RErr else rbulks l
  | ZQcount lo hi =>
      if negb (key_ok key) then RErr
      else if negb (zexists z) then RInt 0
      else RInt (Z.of_nat (length (filter (fun e => in_score lo hi (fst e)) (index_scan (zver z) (z_index z)))))
  | ZQlexcount lo hi lopen ropen =>
      if negb (key_ok key) then RErr
      else if negb (zexists z) then RInt 0
      else RInt (Z.of_nat (length (filter (in_lex lo hi lopen ropen) (map fst (scan (zver z) (c_elems (z_c z)))))))
  | ZQrank rev m =>
      if negb (key_ok key) || negb (subkey_ok m) then RErr
      else if negb (zexists z) then RNil
      else match eget (zver z) m (c_elems (z_c z)) with
           | None => RNil
           | Some s =>
               let l := index_scan (zver z) (z_index z) in
               (* entries up to (forward) / from (reverse) the member's own score key; the last one
                  visited must be the member's key, else -1 *)
               let upto := filter (fun e => if rev then sm_leb (s, m) e else sm_leb e (s, m)) l in
               if existsb (fun e => score_eqb (fst e) s && bytes_eqb (snd e) m) upto
               then RInt (Z.of_nat (length upto) - 1) else RNil
           end
  end.

(* ---------- argument parsing (node/zset.go) ---------- *)
Local Open Scope N_scope.
Definition is_name (n : bytes) (l : list N) : bool := bytes_eqb n l.
Definition lowerb (b : bytes) : bytes := map lower b.
(* getScoreRange, one side.  left = true: "-inf" allowed; right: "+inf" allowed *)
Definition parse_sbound (left : bool) (b : bytes) : option sbound :=
  match b with
  | [] => None
  | _ =>
    if left && bytes_eqb (lowerb b) [45;105;110;102] then Some (SNInf, false)
    else if negb left && bytes_eqb (lowerb b) [43;105;110;102] then Some (SPInf, false)
    else
      let '(op, body) := match b with 40 :: r => (true, r) | _ => (false, b) end in
      match parse_score body with
      | Some (SFin z) => Some (SFin z, op)
      | _ => None      (* infinite bounds are refused, unparsable too *)
      end
  end.
(* getLexRange, one side: Some (bound, open) or None = invalid.  bound None = unbounded *)
Definition parse_lbound (inf : N) (b : bytes) : option (option bytes * bool) :=
  match b with
  | [] => None
  | [c] => if c =? inf then Some (None, false)
           else if c =? 40 then Some (Some [], true)
           else if c =? 91 then Some (Some [], false) else None
  | c :: r => if c =? 40 then Some (Some r, true)
              else if c =? 91 then Some (Some r, false) else None
  end.
Fixpoint score_pairs (l : list bytes) : option (list (score * bytes)) :=
  match l with
  | [] => Some []
  | s :: m :: r => match parse_score s, score_pairs r with
                   | Some sc, Some p => Some ((sc, m) :: p)
                   | _, _ => None
                   end
  | _ => None
  end.
Definition parse_limit (rest : list bytes) : option (Z * Z) :=
  match rest with
  | [] => Some (0%Z, (-1)%Z)
  | [w; o; c] => if bytes_eqb (lowerb w) [108;105;109;105;116]
                 then match parse_int64 o, parse_int64 c with
                      | Some a, Some b => Some (a, b)
                      | _, _ => None
                      end
                 else None
  | _ => None
  end.
Definition is_withscores (b : bytes) : bool := bytes_eqb (lowerb b) [119;105;116;104;115;99;111;114;101;115].

Definition parse_z (n : bytes) (rest : list bytes) : option (zcmd + zqry) :=
  if is_name n [122;97;100;100] then
    match score_pairs rest with Some p => Some (inl (ZCadd p)) | None => Some (inl ZCinvalid) end
  else if is_name n [122;105;110;99;114;98;121] then
    match rest with
    | [d; m] => match parse_score d with Some s => Some (inl (ZCincrby s m)) | None => Some (inl ZCinvalid) end
    | _ => None
    end
  else if is_name n [122;114;101;109] then Some (inl (ZCrem rest))
  else if is_name n [122;114;101;109;114;97;110;103;101;98;121;114;97;110;107] then
    match rest with
    | [a; b] => match parse_int64 a, parse_int64 b with
                | Some x, Some y => Some (inl (ZCremrangebyrank x y))
                | _, _ => Some (inl ZCinvalid)
                end
    | _ => None
    end
  else if is_name n [122;114;101;109;114;97;110;103;101;98;121;115;99;111;114;101] then
    match rest with
    | [a; b] => Some (inl (ZCremrangebyscore (parse_sbound true a) (parse_sbound false b)))
    | _ => None
    end
  else if is_name n [122;114;101;109;114;97;110;103;101;98;121;108;101;120] then
    match rest with
    | [a; b] => match parse_lbound 45 a, parse_lbound 43 b with
                | Some (lo, lop), Some (hi, rop) => Some (inl (ZCremrangebylex lo hi lop rop))
                | _, _ => Some (inl ZCinvalid)
                end
    | _ => None
    end
  else if is_name n [122;99;108;101;97;114] then match rest with [] => Some (inl ZCclear) | _ => None end
  else if is_name n [122;102;105;120;107;101;121] then match rest with [] => Some (inl ZCfixkey) | _ => None end
  else if is_name n [122;99;97;114;100] then match rest with [] => Some (inr ZQcard) | _ => None end
  else if is_name n [122;107;101;121;101;120;105;115;116] then match rest with [] => Some (inr ZQkeyexist) | _ => None end
  else if is_name n [122;115;99;111;114;101] then match rest with [m] => Some (inr (ZQscore m)) | _ => None end
  else if is_name n [122;114;97;110;103;101] || is_name n [122;114;101;118;114;97;110;103;101] then
    let rev := is_name n [122;114;101;118;114;97;110;103;101] in
    match rest with
    | a :: b :: opt =>
        match parse_int64 a, parse_int64 b with
        | Some x, Some y =>
            match opt with
            | [] => Some (inr (ZQrange rev x y false))
            | [w] => if is_withscores w then Some (inr (ZQrange rev x y true)) else Some (inr ZQinvalid)
            | _ => None
            end
        | _, _ => Some (inr ZQinvalid)
        end
    | _ => None
    end
  else if is_name n [122;114;97;110;103;101;98;121;115;99;111;114;101]
       || is_name n [122;114;101;118;114;97;110;103;101;98;121;115;99;111;114;101] then
    let rev := is_name n [122;114;101;118;114;97;110;103;101;98;121;115;99;111;114;101] in
    match rest with
    | a :: b :: opt =>
        let '(lo, hi) := if rev then (parse_sbound true b, parse_sbound false a)
                         else (parse_sbound true a, parse_sbound false b) in
        match lo, hi with
        | Some l, Some h =>
            let '(ws, opt') := match opt with
                               | w :: r => if is_withscores w then (true, r) else (false, opt)
                               | [] => (false, [])
                               end in
            match parse_limit opt' with
            | Some (o, c) => Some (inr (ZQrangebyscore rev l h ws o c))
            | None => Some (inr ZQinvalid)
            end
        | _, _ => Some (inr ZQinvalid)
        end
    | _ => None
    end
  else if is_name n [122;114;97;110;103;101;98;121;108;101;120] then
    match rest with
    | a :: b :: opt =>
        match parse_lbound 45 a, parse_lbound 43 b with
        | Some (lo, lop), Some (hi, rop) =>
            match opt with
            | [] => Some (inr (ZQrangebylex lo hi lop rop 0%Z (-1)%Z))
            | [_; _; _] => match parse_limit opt with
                           | Some (o, c) => Some (inr (ZQrangebylex lo hi lop rop o c))
                           | None => Some (inr ZQinvalid)
                           end
            | _ => None
            end
        | _, _ => Some (inr ZQinvalid)
        end
    | _ => None
    end
  else if is_name n [122;99;111;117;110;116] then
    match rest with
    | [a; b] => match parse_sbound true a, parse_sbound false b with
                | Some l, Some h => Some (inr (ZQcount l h))
                | _, _ => Some (inr ZQinvalid)
                end
    | _ => None
    end
  else if is_name n [122;108;101;120;99;111;117;110;116] then
    match rest with
    | [a; b] => match parse_lbound 45 a, parse_lbound 43 b with
                | Some (lo, lop), Some (hi, rop) => Some (inr (ZQlexcount lo hi lop rop))
                | _, _ => Some (inr ZQinvalid)
                end
    | _ => None
    end
  else if is_name n [122;114;97;110;107] then match rest with [m] => Some (inr (ZQrank false m)) | _ => None end
  else if is_name n [122;114;101;118;114;97;110;107] then match rest with [m] => Some (inr (ZQrank true m)) | _ => None end
  else None.
