(* Data/SpecZ.v — sorted sets in the reference model: Redis semantics on an association list
   member -> score.  Order of a sorted set: score ascending, ties by member bytes (Redis).
   Written from the Redis command reference (ZADD, ZINCRBY, ZREM, ZREMRANGEBY*, ZRANGE, ZREVRANGE,
   ZRANGEBYSCORE, ZREVRANGEBYSCORE, ZRANGEBYLEX, ZCOUNT, ZLEXCOUNT, ZRANK, ZREVRANK, ZSCORE, ZCARD):
     * rank ranges: negative indexes count from the end, start clamped to 0, stop clamped to the last
       rank, empty when start > stop or start >= length;
     * score bounds "(x" exclusive, "-inf" / "+inf"; a NaN score (ZADD nan, ZINCRBY inf + -inf) is an error;
     * LIMIT offset count: negative count = no limit, negative offset = empty.
   ZanRedisDB's documented deviation (user-guide item 6): a bulk read of more than 5000 elements is
   refused — an explicit LIMIT count above 5000, or an unlimited range holding more than 5000.
   Extension commands ZCLEAR / ZKEYEXIST.  No proofs in this file. *)
From ZV Require Export Data.Base.
From ZV Require Import Data.Consts Data.MapZ Data.Spec.
Open Scope Z_scope.

Definition szset := list (bytes * score).

(* members in sorted-set order, as (score, member) *)
Definition zsorted (z : szset) : list (score * bytes) :=
  isort sm_leb (map (fun e => (snd e, fst e)) z).

(* Redis rank-range normalisation: Some (start, stop) inclusive, or None = empty *)
Definition rank_range (len start stop : Z) : option (Z * Z) :=
  let start := if start <? 0 then len + start else start in
  let stop := if stop <? 0 then len + stop else stop in
  let start := if start <? 0 then 0 else start in
  if (stop <? start) || (len <=? start) then None
  else Some (start, if len <=? stop then len - 1 else stop).
Definition slice {A} (start stop : Z) (l : list A) : list A :=
  firstn (Z.to_nat (stop - start + 1)) (skipn (Z.to_nat start) l).

Definition take_limit {A} (offset count : Z) (l : list A) : list A :=
  if offset <? 0 then []
  else let l' := skipn (clampn offset l) l in
       if count <? 0 then l' else firstn (clampn count l') l'.

Fixpoint zadd_loop (ps : list (score * bytes)) (z : szset) : szset * Z :=
  match ps with
  | [] => (z, 0)
  | (sc, m) :: r =>
      if amem bytes_eqb m z then zadd_loop r (aput bytes_eqb m sc z)
      else let '(z', n) := zadd_loop r (aput bytes_eqb m sc z) in (z', n + 1)
  end.

Definition remove_members (ms : list bytes) (z : szset) : szset * Z := del_loop ms z.

Definition zstep (key : bytes) (c : zcmd) (z : szset) : szset * reply :=
  match c with
  | ZCinvalid => (z, RErr)
  | ZCfixkey => (z, RNil)                  (* ZanRedisDB's repair command: nothing to repair in the reference model *)
  | ZCadd ps =>
      match ps with
      | [] => (z, RInt 0)
      | _ => if too_many ps then (z, RErr)
             else if negb (key_ok key) || negb (forallb (fun p => subkey_ok (snd p)) ps) then (z, RErr)
             else let '(z', n) := zadd_loop ps z in (z', RInt n)
      end
  | ZCincrby d m =>
      if negb (key_ok key) || negb (subkey_ok m) then (z, RErr)
      else match score_add (match aget bytes_eqb m z with Some s => s | None => SFin 0 end) d with
           | None => (z, RErr)
           | Some sc => (aput bytes_eqb m sc z, RFloat sc)
           end
  | ZCrem ms =>
      match ms with
      | [] => (z, RErr)
      | _ => if too_many ms then (z, RErr)
             else if negb (key_ok key) || negb (forallb subkey_ok ms) then (z, RErr)
             else let '(z', n) := remove_members ms z in (z', RInt n)
      end
  | ZCremrangebyrank start stop =>
      if negb (key_ok key) then (z, RErr)
      else match rank_range (size_of z) start stop with
           | None => (z, RInt 0)
           | Some (a, b) =>
               (* ZanRedisDB's batch limit (MAX_BATCH_NUM, the 5000 of user-guide item 6) also guards a rank
                  removal that is not the whole set *)
               if (max_batch_num <? b - a + 1) && (b - a + 1 <? size_of z) then (z, RErr)
               else let '(z', n) := remove_members (map snd (slice a b (zsorted z))) z in (z', RInt n)
           end
  | ZCremrangebyscore lo hi =>
      match lo, hi with
      | Some l, Some h =>
          if negb (key_ok key) then (z, RErr)
          else let '(z', n) := remove_members (map snd (filter (fun e => in_score l h (fst e)) (zsorted z))) z in
               (z', RInt n)
      | _, _ => (z, RErr)
      end
  | ZCremrangebylex lo hi lopen ropen =>
      if negb (key_ok key) then (z, RErr)
      else let '(z', n) := remove_members (filter (in_lex lo hi lopen ropen) (map fst z)) z in (z', RInt n)
  | ZCclear =>
      if negb (key_ok key) then (z, RErr)
      else match z with [] => (z, RInt 0) | _ => ([], RInt 1) end
  end.

Definition capped {A} (count : Z) (l : list A) : option (list A) :=
  if max_batch_num <? count then None
  else if (count <? 0) && (max_batch_num <? Z.of_nat (length l)) then None
  else Some l.

Definition zquery (key : bytes) (q : zqry) (z : szset) : reply :=
  match q with
  | ZQinvalid => RErr
  | ZQcard => if negb (key_ok key) then RErr else RInt (size_of z)
  | ZQkeyexist => if negb (key_ok key) then RErr else rbool (negb (Nat.eqb (length z) 0))
  | ZQscore m =>
      if negb (key_ok key) then RNil
      else match aget bytes_eqb m z with Some s => RFloat s | None => RNil end
  | ZQrange rev start stop ws =>
      if negb (key_ok key) then RErr
      else match rank_range (size_of z) start stop with
           | None => RArr []
           | Some (a, b) =>
               let l := slice a b (if rev then List.rev (zsorted z) else zsorted z) in
               if max_batch_num <? Z.of_nat (length l) then RErr else pairs_reply ws l
           end
  | ZQrangebyscore rev lo hi ws offset count =>
      if negb (key_ok key) then RErr
      else match z with
           | [] => RArr []
           | _ =>
             let l := filter (fun e => in_score lo hi (fst e)) (zsorted z) in
             let l' := take_limit offset count (if rev then List.rev l else l) in
             if offset <? 0 then RArr []
             else match capped count l' with Some r => pairs_reply ws r | None => RErr end
           end
  | ZQrangebylex lo hi lopen ropen offset count =>
      if max_batch_num <? count then RErr
      else if negb (key_ok key) then RErr
      else match capped count (take_limit offset count (filter (in_lex lo hi lopen ropen) (map fst (sorted_pairs z)))) with
           | Some r => rbulks r
           | None => RErr
           end
  | ZQcount lo hi =>
      if negb (key_ok key) then RErr
      else RInt (Z.of_nat (length (filter (fun e => in_score lo hi (snd e)) z)))
  | ZQlexcount lo hi lopen ropen =>
      if negb (key_ok key) then RErr
      else RInt (Z.of_nat (length (filter (fun e => in_lex lo hi lopen ropen (fst e)) z)))
  | ZQrank rev m =>
      if negb (key_ok key) || negb (subkey_ok m) then RErr
      else match aget bytes_eqb m z with
           | None => RNil
           | Some s =>
               (* number of members ordered strictly before (after, for ZREVRANK) this one *)
               RInt (Z.of_nat (length (filter (fun e => if rev then negb (sm_leb e (s, m)) else negb (sm_leb (s, m) e))
                                              (map (fun e => (snd e, fst e)) z))))
           end
  end.
