(* Data/RefCmd.v — per-command refinement Map -> Spec for hash and set commands (writes and reads). *)
From ZV Require Import Common.Bytes Common.BytesFacts Data.Consts Data.Base Data.BaseFacts Data.MapEq Data.Map Data.Spec
  Data.RepColl Data.RepHS Data.RefHS.
From Coq Require Import Permutation Lia ZifyBool.
Open Scope Z_scope.

Lemma pos_digits_len fuel : forall z acc, (length (pos_digits fuel z acc) <= fuel + length acc)%nat.
Proof.
  induction fuel as [|n IH]; intros z acc; cbn [pos_digits]; [lia|].
  destruct (z / 10 =? 0); cbn [length]; [lia|]. etransitivity; [apply IH|]. cbn [length]; lia.
Qed.
Lemma format_int_ok z : value_ok (format_int z) = true.
Proof.
  unfold value_ok, blen, format_int.
  pose proof (pos_digits_len 80 (- z) []) as A. pose proof (pos_digits_len 80 z []) as B. cbn [length] in A, B.
  destruct (z <? 0); cbn [length]; unfold max_value_size; lia.
Qed.

Section HashRef.
  Variable compact : bool.
  Notation Rep := (@RepC bytes compact).
  Notation get := (aget bytes_eqb).

  (* a write step refines: same reply, related results *)
  Definition wref (clock' : Z) (mf : hcoll -> hcoll * reply) (sf : shash -> shash * reply) (c : hcoll) (a : shash) : Prop :=
    snd (mf c) = snd (sf a) /\ sim (fst (mf c)) (fst (sf a)) .

  Lemma sim_keep (c : hcoll) a : sim c a -> sim c a. Proof. auto. Qed.

  Lemma hset_ref clock ts nx key f x c a : Rep clock c -> 0 <= clock < ts -> sim c a ->
    wref ts (Map.hset compact ts nx key f x) (Spec.hset nx key f x) c a.
  Proof.
    intros R L S. unfold wref, Map.hset, Spec.hset.
    destruct (negb (value_ok x) || negb (key_ok key) || negb (subkey_ok f)) eqn:G; cbn [fst snd]; [split; [reflexivity|exact S]|].
    assert (SK : subkey_ok f = true).
    { destruct (subkey_ok f); [reflexivity|]. rewrite !orb_true_r in G; discriminate. }
    rewrite (prep_lookup compact clock ts c f R L), (sim_lookup c a f S).
    destruct (get f a) as [old|] eqn:E.
    - destruct nx; cbn [fst snd]; [split; [reflexivity|exact S]|]. split; [reflexivity|].
      apply (ref_put_existing compact clock); auto.
      rewrite emem_lookup, (prep_lookup compact clock ts c f R L), (sim_lookup c a f S), E. reflexivity.
    - cbn [fst snd]. split; [reflexivity|].
      pose proof (ref_put_batch compact clock ts c [(f, x)] a R L) as P. cbn [map fst fold_left snd] in P.
      rewrite count_new_cons in P. rewrite emem_lookup, (prep_lookup compact clock ts c f R L), (sim_lookup c a f S), E in P.
      change (count_new (prep_ver compact ts c) [] (c_elems c)) with 0 in P.
      replace (st_size c + (1 + 0)) with (st_size c + 1) in P by lia.
      apply P; [repeat constructor; tauto|cbn; rewrite SK; reflexivity|exact S].
  Qed.

  Lemma meq_fold_last_wins (fvs : list (bytes * bytes)) (a : shash) : NoDup (map fst a) ->
    meq (fold_left (fun h kv => aput bytes_eqb (fst kv) (snd kv) h) (last_wins fvs) a)
        (fold_left (fun h kv => aput bytes_eqb (fst kv) (snd kv) h) fvs a).
  Proof.
    intros ND. split; [apply nodup_fold_put; exact ND|]. split; [apply nodup_fold_put; exact ND|].
    intros k. rewrite !get_fold_put, alast_last_wins. reflexivity.
  Qed.

  Lemma hmset_ref clock ts key fvs c a : Rep clock c -> 0 <= clock < ts -> sim c a ->
    wref ts (Map.hmset compact ts key fvs) (Spec.hmset key fvs) c a.
  Proof.
    intros R L S. unfold wref, Map.hmset, Spec.hmset.
    destruct (too_many fvs); cbn [fst snd]; [split; [reflexivity|exact S]|].
    destruct fvs as [|fv r]; cbn [fst snd]; [split; [reflexivity|exact S]|]. set (fvs := fv :: r) in *.
    unfold hmset_args_ok.
    destruct (negb (key_ok key) || negb (forallb (fun fv0 => subkey_ok (fst fv0) && value_ok (snd fv0)) fvs)) eqn:G;
      cbn [fst snd]; [split; [reflexivity|exact S]|].
    split; [reflexivity|].
    eapply meq_trans; [|apply meq_fold_last_wins; destruct S as (_ & N & _); exact N].
    apply (ref_put_batch compact clock); auto.
    - apply last_wins_keys_NoDup.
    - apply orb_false_iff in G. destruct G as [_ G]. apply negb_false_iff in G.
      rewrite forallb_forall in G. apply forallb_forall.
      intros k Hk. apply (proj1 (last_wins_keys_In _ _)) in Hk. apply in_map_iff in Hk. destruct Hk as ([k' x'] & <- & Hin).
      specialize (G _ Hin). cbn in G. apply andb_true_iff in G. tauto.
  Qed.

  Lemma hdel_ref clock key fs c a : Rep clock c -> sim c a ->
    wref clock (Map.hdel key fs) (Spec.hdel key fs) c a.
  Proof.
    intros R S. unfold wref, Map.hdel, Spec.hdel.
    destruct (too_many fs); cbn [fst snd]; [split; [reflexivity|exact S]|].
    destruct fs as [|f r]; cbn [fst snd]; [split; [reflexivity|exact S]|]. set (fs := f :: r) in *.
    destruct (negb (key_ok key) || negb (forallb subkey_ok fs)); cbn [fst snd]; [split; [reflexivity|exact S]|].
    assert (NDa : NoDup (map fst a)) by (destruct S as (_ & N & _); exact N).
    rewrite (del_loop_dedup fs [] a NDa) by (intros k []).
    destruct (ref_del_batch compact clock c (dedup [] fs) a R (dedup_NoDup _ _) S) as [S' C'].
    destruct (del_loop (dedup [] fs) a) as [h n]. cbn [fst snd] in *. split; [f_equal; exact C'|exact S'].
  Qed.

  Lemma hincrby_ref clock ts key f d c a : Rep clock c -> 0 <= clock < ts -> sim c a ->
    wref ts (Map.hincrby compact ts key f d) (Spec.hincrby key f d) c a.
  Proof.
    intros R L S. unfold wref, Map.hincrby, Spec.hincrby.
    destruct (negb (key_ok key) || negb (subkey_ok f)) eqn:G; cbn [fst snd]; [split; [reflexivity|exact S]|].
    change (if exists_coll c then eget (st_ver c) f (c_elems c) else None) with (lookup c f).
    rewrite (sim_lookup c a f S).
    destruct (match get f a with Some b => parse_int64 b | None => Some 0 end) as [n0|]; cbn [fst snd]; [|split; [reflexivity|exact S]].
    destruct (negb (in_int64 (n0 + d))); cbn [fst snd]; [split; [reflexivity|exact S]|].
    destruct (hset_ref clock ts false key f (format_int (n0 + d)) c a R L S) as [_ Hs].
    assert (FS : fst (Spec.hset false key f (format_int (n0 + d)) a) = aput bytes_eqb f (format_int (n0 + d)) a).
    { unfold Spec.hset. rewrite format_int_ok. cbn [negb orb]. rewrite G. destruct (get f a); reflexivity. }
    rewrite FS in Hs. destruct (Map.hset compact ts false key f (format_int (n0 + d)) c) as [c' r]. cbn [fst snd] in *.
    split; [reflexivity|exact Hs].
  Qed.
End HashRef.

Section CollReads.
  Context {V : Type}.
  Variable compact : bool.
  Notation Rep := (@RepC V compact).
  Notation get := (aget bytes_eqb).

  Lemma clear_ref clock lazy tests (c : coll V) a : Rep clock c -> sim c a -> sim (clear_coll lazy tests c) (@nil (bytes * V)) \/ c_meta c = None.
  Proof.
    intros R S. unfold clear_coll. destruct (c_meta c) as [m|] eqn:E; [left|right; reflexivity].
    unfold sim, abs_c, exists_coll. cbn [c_meta]. apply meq_refl. constructor.
  Qed.

  Lemma scan_sorted clock (c : coll V) a : Rep clock c -> sim c a ->
    (if exists_coll c then scan (st_ver c) (c_elems c) else []) = isort key_leb a.
  Proof.
    intros R S. rewrite <- (meq_sorted _ _ S). unfold abs_c. destruct (exists_coll c); [|reflexivity].
    unfold scan. apply (isort_map sub_leb key_leb (@strip V)). intros x y. reflexivity.
  Qed.
End CollReads.

Section HashRef2.
  Variable compact : bool.
  Notation Rep := (@RepC bytes compact).
  Notation get := (aget bytes_eqb).

  Lemma hclear_ref clock ts key c a : Rep clock c -> sim c a ->
    wref clock (Map.hclear compact ts key) (Spec.hclear key) c a.
  Proof.
    intros R S. unfold wref, Map.hclear, Spec.hclear.
    destruct (negb (key_ok key)); cbn [fst snd]; [split; [reflexivity|exact S]|].
    pose proof (sim_size compact clock c a R S) as Hs.
    destruct a as [|p a']; cbn [length] in Hs.
    - assert (st_size c =? 0 = true) as -> by lia. cbn [fst snd]. split; [reflexivity|exact S].
    - assert (st_size c =? 0 = false) as -> by lia. cbn [fst snd]. split; [reflexivity|].
      destruct (clear_ref compact clock (lazy_clear compact ts (st_ver c)) true c (p :: a') R S) as [H|H]; [exact H|].
      exfalso. unfold st_size in Hs. rewrite H in Hs. lia.
  Qed.

  (* reads *)
  Lemma hash_reads_ref clock key c a : Rep clock c -> sim c a ->
    Map.hlen key c = Spec.hlen key a /\
    (forall f, Map.hget key f c = Spec.hget key f a) /\
    (forall f, Map.hexists key f c = Spec.hexists key f a) /\
    (forall fs, Map.hmget key fs c = Spec.hmget key fs a) /\
    Map.hgetall key c = Spec.hgetall key a /\
    Map.hkeys key c = Spec.hkeys key a /\
    Map.hvals key c = Spec.hvals key a /\
    Map.hkeyexist key c = Spec.hkeyexist key a.
  Proof.
    intros R S. pose proof (sim_size compact clock c a R S) as Hs. pose proof (sim_exists compact clock c a R S) as He.
    assert (EN : Map.henum key c = Spec.henum key a).
    { unfold Map.henum, Spec.henum, size_of. destruct (negb (key_ok key)); [reflexivity|]. rewrite <- Hs.
      pose proof (scan_sorted compact clock c a R S) as SS. unfold sorted_pairs.
      change (@fst_leb bytes) with (@key_leb bytes). rewrite <- SS.
      destruct (exists_coll c) eqn:E; cbn [negb].
      - reflexivity.
      - assert (st_size c = 0) by (unfold st_size, exists_coll in *; destruct (c_meta c); [discriminate|reflexivity]).
        rewrite H. reflexivity. }
    repeat split.
    - unfold Map.hlen, Spec.hlen, size_of. rewrite Hs. reflexivity.
    - intros f. unfold Map.hget, Spec.hget. destruct (negb (key_ok key) || negb (subkey_ok f)); [reflexivity|].
      rewrite <- (sim_lookup c a f S). unfold lookup. destruct (exists_coll c); reflexivity.
    - intros f. unfold Map.hexists, Spec.hexists. destruct (negb (key_ok key) || negb (subkey_ok f)); [reflexivity|].
      unfold amem. rewrite <- (sim_lookup c a f S). unfold lookup. destruct (exists_coll c); reflexivity.
    - intros fs. unfold Map.hmget, Spec.hmget. destruct (too_many fs || negb (key_ok key) || negb (forallb subkey_ok fs)); [reflexivity|].
      f_equal. apply map_ext. intros f. rewrite <- (sim_lookup c a f S). unfold lookup. destruct (exists_coll c); reflexivity.
    - unfold Map.hgetall, Spec.hgetall. rewrite EN. reflexivity.
    - unfold Map.hkeys, Spec.hkeys. rewrite EN. reflexivity.
    - unfold Map.hvals, Spec.hvals. rewrite EN. reflexivity.
    - unfold Map.hkeyexist, Spec.hkeyexist. rewrite He. reflexivity.
  Qed.
End HashRef2.

Section SetRef.
  Variable compact : bool.
  Notation Rep := (@RepC unit compact).
  Notation get := (aget bytes_eqb).
  Notation mem := (amem bytes_eqb).

  Definition swref (mf : scoll -> scoll * reply) (sf : sset -> sset * reply) (c : scoll) (a : sset) : Prop :=
    snd (mf c) = snd (sf a) /\ sim (fst (mf c)) (fst (sf a)).

  Lemma sadd_loop_spec ms : forall (a : sset), NoDup (map fst a) ->
    NoDup (map fst (fst (sadd_loop ms a))) /\
    (forall g, get g (fst (sadd_loop ms a)) = if bytes_mem g ms then Some tt else get g a).
  Proof.
    induction ms as [|m r IH]; intros a ND; cbn [sadd_loop bytes_mem]; [split; [exact ND|reflexivity]|].
    destruct (mem m a) eqn:E.
    - destruct (IH a ND) as [N1 G1]. split; [exact N1|]. intros g. rewrite G1.
      destruct (bytes_eqb g m) eqn:Q; cbn [orb]; [|reflexivity]. apply bytes_eqb_eq in Q; subst.
      destruct (bytes_mem m r); [reflexivity|]. unfold amem in E. destruct (get m a) as [[]|]; [reflexivity|discriminate].
    - destruct (IH (aput bytes_eqb m tt a) (nodup_aput bytes_eqb bytes_eqb_eq m tt a ND)) as [N1 G1].
      destruct (sadd_loop r (aput bytes_eqb m tt a)) as [h n]. cbn [fst] in *. split; [exact N1|].
      intros g. rewrite G1, get_put. destruct (bytes_eqb g m); cbn [orb]; [|reflexivity]. destruct (bytes_mem g r); reflexivity.
  Qed.

  Lemma filter_ext_in {A} (f g : A -> bool) l : (forall x, In x l -> f x = g x) -> filter f l = filter g l.
  Proof.
    induction l as [|x r IH]; intros H; cbn; [reflexivity|]. rewrite (H x (or_introl eq_refl)), IH; [reflexivity|].
    intros y Hy; apply H; right; exact Hy.
  Qed.

  Lemma sadd_loop_count ms : forall seen (a : sset), NoDup (map fst a) -> (forall k, In k seen -> mem k a = true) ->
    snd (sadd_loop ms a) = Z.of_nat (length (filter (fun m => negb (mem m a)) (dedup seen ms))).
  Proof.
    induction ms as [|m r IH]; intros seen a ND Hs; cbn [sadd_loop dedup]; [reflexivity|].
    destruct (bytes_mem m seen) eqn:M.
    - apply bytes_mem_In in M. rewrite (Hs m M). apply IH; assumption.
    - cbn [filter]. destruct (mem m a) eqn:E; cbn [negb].
      + apply IH; [exact ND|]. intros k [<-|Hk]; [exact E|apply Hs; exact Hk].
      + specialize (IH (m :: seen) (aput bytes_eqb m tt a) (nodup_aput bytes_eqb bytes_eqb_eq m tt a ND)).
        destruct (sadd_loop r (aput bytes_eqb m tt a)) as [h n]. cbn [snd] in *. rewrite IH.
        * cbn [length]. rewrite (filter_ext_in (fun m0 => negb (mem m0 (aput bytes_eqb m tt a))) (fun m0 => negb (mem m0 a))); [lia|].
          intros x Hx. apply dedup_In in Hx. destruct Hx as [_ Hx]. unfold amem. rewrite get_put.
          assert (bytes_eqb x m = false) as -> by (apply bytes_eqb_false_ne; intros ->; apply Hx; left; reflexivity). reflexivity.
        * intros k [<-|Hk]; unfold amem; rewrite get_put.
          -- rewrite bytes_eqb_refl; reflexivity.
          -- destruct (bytes_eqb k m); [reflexivity|]. apply (Hs k Hk).
  Qed.

  Lemma alast_units news g : alast g (map (fun m : bytes => (m, tt)) news) = if bytes_mem g news then Some tt else None.
  Proof.
    induction news as [|m r IH]; cbn; [reflexivity|]. rewrite IH.
    destruct (bytes_mem g r); [rewrite orb_true_r; reflexivity|]. rewrite orb_false_r. reflexivity.
  Qed.

  Lemma sadd_ref clock ts key ms c a : Rep clock c -> 0 <= clock < ts -> sim c a ->
    swref (Map.sadd compact ts key ms) (Spec.sadd key ms) c a.
  Proof.
    intros R L S. unfold swref, Map.sadd, Spec.sadd.
    destruct (too_many ms); cbn [fst snd]; [split; [reflexivity|exact S]|].
    destruct (negb (key_ok key) || negb (forallb subkey_ok ms)) eqn:G; cbn [fst snd]; [split; [reflexivity|exact S]|].
    assert (NDa : NoDup (map fst a)) by (destruct S as (_ & N & _); exact N).
    set (v := prep_ver compact ts c).
    assert (EM : forall m, emem v m (c_elems c) = mem m a).
    { intros m. rewrite emem_lookup. unfold v. rewrite (prep_lookup compact clock ts c m R L), (sim_lookup c a m S). reflexivity. }
    set (news := filter (fun m => negb (emem v m (c_elems c))) (dedup [] ms)).
    assert (NE : news = filter (fun m => negb (mem m a)) (dedup [] ms)).
    { unfold news. apply filter_ext_in. intros x _. rewrite EM; reflexivity. }
    destruct (sadd_loop_spec ms a NDa) as [N1 G1].
    pose proof (sadd_loop_count ms [] a NDa ltac:(intros k []) ) as C1.
    destruct (sadd_loop ms a) as [h n]. cbn [fst snd] in *.
    split; [rewrite C1, <- NE; reflexivity|].
    pose proof (ref_put_batch compact clock ts c (map (fun m => (m, tt)) news) a R L) as P.
    assert (MF : map fst (map (fun m : bytes => (m, tt)) news) = news) by (rewrite map_map; cbn; apply map_id).
    rewrite MF in P. fold v in P.
    rewrite (count_new_all_new v news) in P.
    2:{ intros k Hk. unfold news in Hk. apply filter_In in Hk. destruct Hk as [_ Hk]. apply negb_true_iff in Hk. exact Hk. }
    eapply meq_trans; [apply P|].
    - unfold news. apply NoDup_filter, dedup_NoDup.
    - apply forallb_forall. intros k Hk. unfold news in Hk. apply filter_In in Hk. destruct Hk as [Hk _].
      apply (proj1 (dedup_nil_In _ _)) in Hk. apply orb_false_iff in G. destruct G as [_ G]. apply negb_false_iff in G.
      rewrite forallb_forall in G. apply G; exact Hk.
    - exact S.
    - split; [apply nodup_fold_put; exact NDa|]. split; [exact N1|].
      intros g. rewrite get_fold_put, alast_units, G1.
      destruct (bytes_mem g news) eqn:B1.
      + apply bytes_mem_In in B1. rewrite NE in B1. apply filter_In in B1. destruct B1 as [B1 _].
        apply (proj1 (dedup_nil_In _ _)) in B1. apply bytes_mem_In in B1. rewrite B1. reflexivity.
      + destruct (bytes_mem g ms) eqn:B2; [|reflexivity].
        (* g is an argument but not new: it is already a member *)
        destruct (mem g a) eqn:Ga.
        * unfold amem in Ga. destruct (get g a) as [[]|]; [reflexivity|discriminate].
        * exfalso. assert (In g news).
          { rewrite NE. apply filter_In. split; [apply dedup_nil_In, bytes_mem_In; exact B2|rewrite Ga; reflexivity]. }
          apply bytes_mem_In in H. congruence.
  Qed.

  Lemma srem_ref clock key ms c a : Rep clock c -> sim c a ->
    swref (Map.srem key ms) (Spec.srem key ms) c a.
  Proof.
    intros R S. unfold swref, Map.srem, Spec.srem.
    destruct ms as [|m r]; cbn [fst snd]; [split; [reflexivity|exact S]|]. set (ms := m :: r) in *.
    destruct (too_many ms); cbn [fst snd]; [split; [reflexivity|exact S]|].
    destruct (negb (key_ok key) || negb (forallb subkey_ok ms)); cbn [fst snd]; [split; [reflexivity|exact S]|].
    assert (NDa : NoDup (map fst a)) by (destruct S as (_ & N & _); exact N).
    rewrite (del_loop_dedup ms [] a NDa) by (intros k []).
    destruct (ref_del_batch compact clock c (dedup [] ms) a R (dedup_NoDup _ _) S) as [S' C'].
    unfold srem_body. destruct (del_loop (dedup [] ms) a) as [h n]. cbn [fst snd] in *. split; [f_equal; exact C'|exact S'].
  Qed.

  Lemma sclear_ref clock ts key c a : Rep clock c -> sim c a ->
    swref (Map.sclear compact ts key) (Spec.sclear key) c a.
  Proof.
    intros R S. unfold swref, Map.sclear, Spec.sclear.
    destruct (negb (key_ok key)); cbn [fst snd]; [split; [reflexivity|exact S]|].
    pose proof (sim_size compact clock c a R S) as Hs.
    destruct a as [|p a']; cbn [length] in Hs.
    - assert (st_size c =? 0 = true) as -> by lia. cbn [fst snd]. split; [reflexivity|exact S].
    - assert (st_size c =? 0 = false) as -> by lia. cbn [fst snd]. split; [reflexivity|].
      destruct (clear_ref compact clock (lazy_clear compact ts (st_ver c)) false c (p :: a') R S) as [H|H]; [exact H|].
      exfalso. unfold st_size in Hs. rewrite H in Hs. lia.
  Qed.

  Lemma smembers_n_ref clock key n c a : Rep clock c -> sim c a ->
    Map.smembers_n key n c = Spec.smembers_n key n a.
  Proof.
    intros R S. unfold Map.smembers_n, Spec.smembers_n.
    destruct (max_batch_num <? n); [reflexivity|]. destruct (n <=? 0); [reflexivity|]. destruct (negb (key_ok key)); [reflexivity|].
    pose proof (scan_sorted compact clock c a R S) as SS. unfold sorted_members, sorted_pairs.
    change (@fst_leb unit) with (@key_leb unit). rewrite <- SS.
    destruct (exists_coll c); cbn [negb]; [reflexivity|]. cbn. destruct (Z.to_nat n); reflexivity.
  Qed.

  Lemma set_reads_ref clock key c a : Rep clock c -> sim c a ->
    Map.scard key c = Spec.scard key a /\
    (forall m, Map.sismember key m c = Spec.sismember key m a) /\
    Map.smembers key c = Spec.smembers key a /\
    (forall n, Map.srandmember key n c = Spec.srandmember key n a) /\
    Map.skeyexist key c = Spec.skeyexist key a.
  Proof.
    intros R S. pose proof (sim_size compact clock c a R S) as Hs. pose proof (sim_exists compact clock c a R S) as He.
    repeat split.
    - unfold Map.scard, Spec.scard, size_of. rewrite Hs. reflexivity.
    - intros m. unfold Map.sismember, Spec.sismember. destruct (negb (key_ok key)); [reflexivity|].
      rewrite He. destruct a as [|p a']; cbn [length Nat.eqb negb]; [reflexivity|].
      destruct (negb (subkey_ok m)); [reflexivity|].
      rewrite (emem_sim compact clock c (p :: a') m R S). reflexivity.
    - unfold Map.smembers, Spec.smembers, size_of. destruct (negb (key_ok key)) eqn:K; [reflexivity|]. rewrite <- Hs.
      destruct (st_size c =? 0) eqn:Z0.
      + assert (a = []) by (destruct a; [reflexivity|cbn [length] in Hs; lia]). subst a. cbn.
        destruct (max_batch_num <? st_size c) eqn:Q; [exfalso; unfold max_batch_num in *; lia|reflexivity].
      + rewrite (smembers_n_ref clock key (st_size c) c a R S). unfold Spec.smembers_n. rewrite K.
        destruct (max_batch_num <? st_size c); [reflexivity|].
        assert (st_size c <=? 0 = false) as -> by (pose proof (st_size_nonneg compact clock c R); lia).
        rewrite firstn_all2; [reflexivity|]. unfold sorted_members, sorted_pairs. rewrite map_length, isort_length. lia.
    - intros n. unfold Map.srandmember, Spec.srandmember. rewrite (smembers_n_ref clock key n c a R S). reflexivity.
    - unfold Map.skeyexist, Spec.skeyexist. rewrite He. reflexivity.
  Qed.
End SetRef.

Section SpopRef.
  Variable compact : bool.
  Notation Rep := (@RepC unit compact).

  Lemma In_firstn' {A} n (l : list A) y : In y (firstn n l) -> In y l.
  Proof.
    revert l; induction n as [|n IH]; intros l; cbn; [tauto|]. destruct l as [|x r]; cbn; [tauto|].
    intros [H|H]; [left; exact H|right; apply IH; exact H].
  Qed.

  Lemma spop_ref clock key n c a : Rep clock c -> sim c a ->
    swref (Map.spop key n) (Spec.spop key n) c a.
  Proof.
    intros R S. unfold swref, Map.spop, Spec.spop.
    rewrite (smembers_n_ref compact clock key _ c a R S).
    set (cnt := match n with Some n0 => n0 | None => 1 end).
    destruct (Spec.smembers_n key cnt a) as [vals|] eqn:E; cbn [fst snd]; [|split; [reflexivity|exact S]].
    (* the guards of SRem can not fail on members that were just enumerated *)
    unfold Spec.smembers_n in E.
    destruct (max_batch_num <? cnt) eqn:E1; [discriminate|]. destruct (cnt <=? 0) eqn:E2; [discriminate|].
    destruct (negb (key_ok key)) eqn:K; [discriminate|]. inversion E; subst vals; clear E.
    set (vals := firstn (Z.to_nat cnt) (sorted_members a)).
    destruct (srem_ref compact clock key vals c a R S) as [W1 W2].
    assert (SR : Spec.srem key vals a = (fst (del_loop vals a), RInt (snd (del_loop vals a)))).
    { unfold Spec.srem. destruct vals as [|v0 r0] eqn:EV; [reflexivity|]. rewrite <- EV.
      assert (too_many vals = false) as ->.
      { unfold too_many. assert (length vals <= Z.to_nat cnt)%nat by (unfold vals; apply firstn_le_length). lia. }
      rewrite K. cbn [orb].
      assert (forallb subkey_ok vals = true) as ->.
      { apply forallb_forall. intros m Hm. unfold vals in Hm. apply In_firstn' in Hm.
        unfold sorted_members, sorted_pairs in Hm. apply in_map_iff in Hm. destruct Hm as ([m' u] & <- & Hm). cbn [fst].
        apply isort_In in Hm. apply (aget_In bytes_eqb bytes_eqb_eq) in Hm || idtac.
        assert (G : aget bytes_eqb m' a = Some u).
        { apply (In_aget_nodup bytes_eqb bytes_eqb_eq); [destruct S as (_ & N & _); exact N|exact Hm]. }
        rewrite <- (sim_lookup c a m' S) in G. unfold lookup in G. destruct (exists_coll c); [|discriminate].
        apply (aget_In vkey_eqb vkey_eqb_eq) in G. apply (rc_sub _ _ _ R _ G). }
      cbn [negb]. destruct (del_loop vals a); reflexivity. }
    rewrite SR in W1, W2. cbn [fst snd] in *.
    destruct (Map.srem key vals c) as [c' r]. cbn [fst snd] in *. subst r.
    destruct (del_loop vals a) as [a' k]. cbn [fst snd] in *. split; [reflexivity|exact W2].
  Qed.
End SpopRef.
