(* Data/RepRead.v — property C09 read back from the representation invariant for sorted sets and lists:
   what ZCARD / ZRANGE / ZRANGEBYSCORE / ZRANGEBYLEX / ZSCORE / ZKEYEXIST and LLEN / LRANGE / LINDEX /
   LKEYEXIST report on a record that satisfies RepZ / RepL. *)
From ZV Require Import Common.Bytes Common.BytesFacts Data.Consts Data.Base Data.BaseFacts Data.Map Data.MapZ Data.MapL
  Data.RepColl Data.RepHS Data.RepL Data.RepZ.
From Coq Require Import Permutation Lia ZifyBool.
Open Scope Z_scope.

Lemma filter_all {A} (f : A -> bool) l : (forall x, In x l -> f x = true) -> filter f l = l.
Proof.
  induction l as [|x r IH]; intros H; cbn; [reflexivity|]. rewrite (H x (or_introl eq_refl)), IH; [reflexivity|].
  intros y Hy; apply H; right; exact Hy.
Qed.

Section ZRead.
  Variable compact : bool.

  Lemma index_scan_In clock z v s m : RepZ compact clock z ->
    (In (s, m) (index_scan v (z_index z)) <-> In ((v, m), s) (c_elems (z_c z))).
  Proof.
    intros [Rc [A B C]]. unfold index_scan. rewrite isort_In, in_map_iff. rewrite C. split.
    - intros ([v' [s' m']] & E & H). cbn in E. inversion E; subst. apply filter_In in H. cbn in H.
      destruct H as [H Ev]. apply Z.eqb_eq in Ev; subst. exact H.
    - intros H. exists (v, (s, m)). split; [reflexivity|]. apply filter_In. split; [exact H|cbn; apply Z.eqb_refl].
  Qed.

  Definition zset_agree (key : bytes) (z : zcoll) : Prop :=
    key_ok key = true -> zsize z <= max_batch_num ->
    exists (l : list (score * bytes)) (lm : list bytes),
      zquery key (ZQrange false 0 (-1) true) z = pairs_reply true l /\
      zquery key (ZQrangebyscore false (SNInf, false) (SPInf, false) true 0 (-1)) z = pairs_reply true l /\
      zquery key (ZQrangebylex None None false false 0 (-1)) z = rbulks lm /\
      Permutation lm (map snd l) /\
      zquery key ZQcard z = RInt (Z.of_nat (length l)) /\
      zquery key ZQkeyexist z = rbool (negb (Nat.eqb (length l) 0)) /\
      NoDup (map snd l) /\
      (forall s m, In (s, m) l -> zquery key (ZQscore m) z = RFloat s).

  Lemma limit_all {A} (l : list A) n : Z.of_nat (length l) <= n -> limit 0 n l = l.
  Proof.
    intros H. unfold limit. cbn [Z.ltb Z.compare]. unfold clampn.
    assert (Z.to_nat (Z.min 0 (Z.of_nat (length l))) = 0%nat) as -> by lia. cbn [skipn].
    destruct (n <? 0) eqn:E; [reflexivity|].
    apply firstn_all2. lia.
  Qed.
  Lemma limit_unbounded {A} (l : list A) : limit 0 (-1) l = l.
  Proof.
    unfold limit. cbn [Z.ltb Z.compare]. unfold clampn.
    assert (Z.to_nat (Z.min 0 (Z.of_nat (length l))) = 0%nat) as -> by lia. reflexivity.
  Qed.

  Lemma rep_zset_agree clock key z : RepZ compact clock z -> zset_agree key z.
  Proof.
    intros R K Sz. pose proof R as [Rc Ri]. unfold zquery. rewrite K. cbn [negb].
    unfold zexists, zsize, zver, exists_coll, st_size, st_ver in *.
    destruct (c_meta (z_c z)) as [m|] eqn:E.
    - destruct (rc_meta _ _ _ Rc m E) as (a & b & d).
      set (v := cm_ver m). set (l := index_scan v (z_index z)).
      assert (Len : Z.of_nat (length l) = cm_size m).
      { unfold l, v. rewrite (index_scan_length compact clock z (cm_ver m) R). lia. }
      exists l, (map fst (scan v (c_elems (z_c z)))). cbn [negb].
      (* zparse_limit size 0 (-1) = (0, size) *)
      assert (PL : zparse_limit (cm_size m) 0 (-1) = (0, cm_size m)).
      { unfold zparse_limit. cbn [Z.ltb Z.compare orb].
        assert (cm_size m <=? 0 = false) as -> by lia.
        assert (cm_size m <=? cm_size m + -1 = false) as -> by lia.
        assert (cm_size m + -1 <? 0 = false) as -> by lia. f_equal. lia. }
      rewrite PL. unfold zrange_bytes, zsize, zver, st_size, st_ver. rewrite E. fold v.
      cbn [Z.ltb Z.compare].
      assert (max_batch_num <? cm_size m = false) as -> by lia.
      assert (cm_size m <? 0 = false) as -> by lia. cbn [andb].
      rewrite filter_all by reflexivity. fold l. rewrite limit_all by lia.
      (* by score: everything lies in [-inf, +inf] *)
      assert (FA : filter (fun e : score * bytes => in_score (SNInf, false) (SPInf, false) (fst e)) l = l).
      { apply filter_all. intros [s mm] _. cbn. destruct s; reflexivity. }
      cbn [fst snd score_eqb negb andb]. rewrite FA, limit_unbounded.
      assert (max_batch_num <? cm_size m - 0 = false) as -> by lia.
      assert (max_batch_num <? Z.of_nat (length l) = false) as -> by lia. cbn [andb].
      (* by lex *)
      assert (FL : filter (in_lex None None false false) (map fst (scan v (c_elems (z_c z)))) = map fst (scan v (c_elems (z_c z)))).
      { apply filter_all. intros x _. reflexivity. }
      assert (max_batch_num <? -1 = false) as -> by reflexivity.
      rewrite FL, limit_unbounded.
      assert (LenM : length (map fst (scan v (c_elems (z_c z)))) = length l).
      { rewrite map_length, scan_length. unfold l. rewrite (index_scan_length compact clock z v R). reflexivity. }
      rewrite LenM. assert (max_batch_num <? Z.of_nat (length l) = false) as -> by lia. cbn [andb].
      assert (NDl : NoDup (map snd l)) by (eapply index_scan_members_NoDup; exact R).
      repeat split; auto.
      + apply NoDup_Permutation; [apply scan_keys_NoDup, (rc_nodup _ _ _ Rc)|exact NDl|].
        intros x. rewrite !in_map_iff. split.
        * intros ([f s] & <- & H). apply scan_In in H. exists (s, f). split; [reflexivity|].
          unfold l. apply (index_scan_In clock z v s f R). exact H.
        * intros ([s f] & <- & H). unfold l in H. apply (index_scan_In clock z v s f R) in H.
          exists (f, s). split; [reflexivity|]. apply scan_In. exact H.
      + f_equal. lia.
      + destruct (length l); [lia|reflexivity].
      + intros s mm H. unfold l in H. apply (index_scan_In clock z v s mm R) in H. unfold eget.
        rewrite (In_aget_nodup vkey_eqb vkey_eqb_eq _ _ _ (rc_nodup _ _ _ Rc) H). reflexivity.
    - exists [], []. cbn. repeat split; auto; [constructor|tauto].
  Qed.
End ZRead.

Section LRead.
  Variable compact : bool.

  Fixpoint zseq (start : Z) (n : nat) : list Z :=
    match n with O => [] | S k => start :: zseq (start + 1) k end.
  Lemma zseq_In start n s : In s (zseq start n) <-> start <= s < start + Z.of_nat n.
  Proof.
    revert start; induction n as [|n IH]; intros start; cbn [zseq In]; [lia|].
    rewrite IH. lia.
  Qed.
  Lemma zseq_NoDup start n : NoDup (zseq start n).
  Proof.
    revert start; induction n as [|n IH]; intros start; cbn; [constructor|].
    constructor; [rewrite zseq_In; lia|apply IH].
  Qed.
  Lemma zseq_length start n : length (zseq start n) = n.
  Proof. revert start; induction n as [|n IH]; intros start; cbn; [reflexivity|]. rewrite IH; reflexivity. Qed.

  Lemma lscan_In v lo hi es s x : In (s, x) (lscan v lo hi es) <-> In ((v, s), x) es /\ lo <= s <= hi.
  Proof.
    unfold lscan. rewrite in_map_iff. split.
    - intros ([[v' s'] x'] & E & H). cbn in E. inversion E; subst. apply isort_In, filter_In in H. cbn in H.
      destruct H as [H Hc]. assert (v' = v) by lia. subst. split; [exact H|lia].
    - intros [H Hc]. exists ((v, s), x). split; [reflexivity|]. apply isort_In, filter_In. split; [exact H|cbn; lia].
  Qed.

  Lemma seqs_NoDup v (l : list (skey * bytes)) :
    NoDup (map fst l) -> (forall e, In e l -> fst (fst e) = v) -> NoDup (map (fun e : skey * bytes => snd (fst e)) l).
  Proof.
    induction l as [|e r IH]; intros NG AV; cbn; [constructor|].
    cbn in NG. inversion NG as [|? ? Hn NG']; subst. constructor.
    - intros H. apply Hn. apply in_map_iff in H. destruct H as (e' & E & He'). apply in_map_iff. exists e'. split; [|exact He'].
      pose proof (AV e (or_introl eq_refl)) as A1. pose proof (AV e' (or_intror He')) as A2.
      destruct e as [[a b] c], e' as [[a' b'] c']. cbn in *. subst. reflexivity.
    - apply IH; [exact NG'|]. intros x Hx; apply AV; right; exact Hx.
  Qed.

  Lemma lscan_seqs_NoDup v lo hi es : NoDup (map fst es) -> NoDup (map fst (lscan v lo hi es)).
  Proof.
    intros ND. unfold lscan. rewrite map_map. cbn.
    eapply Permutation_NoDup; [symmetry; apply map_isort_perm|].
    apply (seqs_NoDup v).
    - apply (nodup_kfilter (fun k : skey => (fst k =? v) && (lo <=? snd k) && (snd k <=? hi))); exact ND.
    - intros e He. apply filter_In in He. destruct He as [_ He]. apply andb_true_iff in He. destruct He as [He _].
      apply andb_true_iff in He. destruct He as [He _]. apply Z.eqb_eq in He. exact He.
  Qed.

  (* a list: LLEN = |LRANGE 0 -1|, LKEYEXIST = (count >= 1), every enumerated element is returned by
     LINDEX at an index inside [0, LLEN) *)
  Definition list_agree (key : bytes) (l : lcoll) : Prop :=
    key_ok key = true -> l_size l <= max_batch_num ->
    exists es : list (Z * bytes),
      lquery key (LQrange 0 (-1)) l = rbulks (map snd es) /\
      lquery key LQlen l = RInt (Z.of_nat (length es)) /\
      lquery key LQkeyexist l = rbool (negb (Nat.eqb (length es) 0)) /\
      (forall s x, In (s, x) es ->
         0 <= s - l_head l < Z.of_nat (length es) /\ lquery key (LQindex (s - l_head l)) l = RBulk x).

  Lemma rep_list_agree clock key l : RepL compact clock l -> list_agree key l.
  Proof.
    intros R K Sz. unfold lquery. rewrite K. cbn [negb].
    unfold l_exists, l_size, l_head, l_tail, l_ver in *.
    destruct (l_meta l) as [m|] eqn:E; cbn [negb].
    - destruct (rl_meta _ _ _ R m E) as (hle & vk & pres & conf).
      set (size := lm_tail m - lm_head m + 1) in *.
      set (es := lscan (lm_ver m) (lm_head m) (lm_tail m) (l_elems l)).
      assert (Len : length es = Z.to_nat size).
      { rewrite <- (map_length fst es). rewrite <- (zseq_length (lm_head m) (Z.to_nat size)).
        apply NoDup_incl_length_eq; [apply lscan_seqs_NoDup, (rl_nodup _ _ _ R)|apply zseq_NoDup|].
        intros s. rewrite zseq_In, in_map_iff. split.
        - intros ([s' x] & <- & H). apply lscan_In in H. cbn. unfold size. lia.
        - intros H. assert (P : lmem (lm_ver m) s (l_elems l) = true) by (apply pres; unfold size in H; lia).
          apply lmem_In, in_map_iff in P. destruct P as ([[v' s'] x] & Ee & He). cbn in Ee. inversion Ee; subst.
          exists (s, x). split; [reflexivity|]. apply lscan_In. split; [exact He|unfold size in H; lia]. }
      exists es.
      change (-1 <? 0) with true. rewrite ?Z.ltb_irrefl. cbv iota. rewrite ?Z.ltb_irrefl. cbv iota.
      assert (size + -1 <? 0 = false) as -> by (unfold size; lia).
      assert (size <=? 0 = false) as -> by (unfold size; lia). cbn [orb]. cbv iota.
      assert (size <=? size + -1 = false) as -> by lia.
      assert (max_batch_num <? size + -1 - 0 + 1 = false) as -> by lia.
      replace (lm_head m + 0) with (lm_head m) by lia. fold es.
      rewrite firstn_all2 by lia.
      repeat split.
      + f_equal. unfold size in *. lia.
      + rewrite Len. destruct (Z.to_nat size) eqn:Q; [unfold size in *; lia|reflexivity].
      + apply lscan_In in H. unfold size in *. lia.
      + apply lscan_In in H. unfold size in *. lia.
      + apply lscan_In in H. destruct H as [H Hr].
        assert (0 <=? s - lm_head m = true) as -> by lia.
        replace (lm_head m + (s - lm_head m)) with s by lia.
        assert ((s <? lm_head m) || (lm_tail m <? s) = false) as -> by lia.
        unfold lget. rewrite (In_aget_nodup skey_eqb skey_eqb_eq _ _ _ (rl_nodup _ _ _ R) H). reflexivity.
    - exists []. cbn. repeat split; auto; tauto.
  Qed.
End LRead.
