(* Data/Batch.v — the concrete handlers of the Map model as an instance of the batching model of
   property C07 (coq/Determ/Model.v), and the hypotheses of its batch-equivalence theorem discharged
   for them.

   Instance:
     store   := Run.mstate                         (the Map model, expiry included)
     W       := wop: the write batch of one command at the level of stored records: the new record of
                the hash it touched, the new value / the deletion of the string it touched; a command
                that is never batched hands over its whole successor state (it is always applied to the
                committed store it was computed from)
     handler := Run.parse_cmd on (name, primary key, remaining arguments) followed by Run.map_step at the
                entry's timestamp; an error reply is Fail (abort class: the model does not single out
                errTooMuchBatchSize, which is the stronger reading), otherwise Ok (write batch, reply)
   A request of Determ.Model carries its name, primary key and argument count; the remaining argument
   bytes and the timestamp are "the rest of the entry" there (rbody): here they are two arbitrary
   functions rest_of / ts_of of the request.

   Discharged (mechanism: dupCheckMap => the members of a batch have pairwise different primary keys;
   DM.batch_cand = a batchable name and, for DEL, exactly one key):
     data_isolation  — SET / SETEX / single-key DEL / HMSET on different primary keys do not change each
                       other's outcome (reply and write batch), read clock, policy and timestamps arbitrary;
     data_no_abort   — a batchable command that passes isValidBatchableWrite (transcribed: valid_batchable)
                       never fails in the Map model, so it can never abort a batch;
     dhandler_ok / dhandler_fail — the instance is the Map model: Ok carries map_step's reply and its write
                       batch applied to the store gives map_step's successor state;
     data_batch_equiv / data_batch_equiv_replies / data_partition_independent — Determ.Proofs.batch_equiv,
                       batch_equiv_replies and partition_independent instantiated: NO hypothesis left on the
                       handlers (a request whose rvalid bit or argument count contradicts its own argument
                       list — not an entry the node can build — is given no handler: `consistent`).
   Transcribed: node/state_machine.go isValidBatchableWrite, kvbatchOperator.IsBatchable (del with more
   than one key is never batched), rockredis.IsBatchableWrite (set setex del hmset). *)
From Coq Require Import List NArith ZArith Bool Lia.
From ZV Require Import Common.Bytes Common.BytesFacts Data.Consts Data.Base Data.BaseFacts Data.MapEq Data.Exp Data.ExpFacts
  Data.Map Data.MapZ Data.MapL Data.MapK Data.Run.
From ZV Require Determ.Consts Determ.Model Determ.Proofs.
Import ListNotations.
Module DM := ZV.Determ.Model.
Module DC := ZV.Determ.Consts.
Module DP := ZV.Determ.Proofs.
Open Scope Z_scope.

(* ---------- write batches at the level of records ---------- *)
Inductive wop :=
| WHash (key : bytes) (x : xr hcoll)
| WKput (k : bytes) (v : kvrec)
| WKdel (k : bytes)
| WAll (s : mstate).

Definition apply_w (s : mstate) (w : wop) : mstate :=
  match w with
  | WHash key x => Build_mstate (aput bytes_eqb key x (m_hash s)) (m_set s) (m_zset s) (m_list s) (m_kv s)
  | WKput k v => Build_mstate (m_hash s) (m_set s) (m_zset s) (m_list s) (aput bytes_eqb k v (m_kv s))
  | WKdel k => Build_mstate (m_hash s) (m_set s) (m_zset s) (m_list s) (adel bytes_eqb k (m_kv s))
  | WAll s' => s'
  end.

(* the write batch of a command, read off its successor state *)
Definition writes_of (c : cmd) (s' : mstate) : list wop :=
  match c with
  | CHmset key _ => [WHash key (alook (x0 empty_coll) key (m_hash s'))]
  | CK (KCset k _) | CK (KCsetex k _ _) | CK (KCsetopt k _ _ _ _) =>
      match aget bytes_eqb k (m_kv s') with Some v => [WKput k v] | None => [] end
  | CK (KCdel [k]) => if key_ok k then [WKdel k] else []
  | _ => [WAll s']
  end.

Definition is_fail (r : reply) : bool := match r with RErr | RFault => true | _ => false end.

(* the four batchable shapes *)
Definition batch_shape (c : cmd) : bool :=
  match c with
  | CHmset _ _ | CK (KCset _ _) | CK (KCsetex _ _ _) | CK (KCsetopt _ _ _ _ _) | CK (KCdel [_]) => true
  | _ => false
  end.
Definition pk_of (c : cmd) : bytes :=
  match c with
  | CHmset key _ => key
  | CK (KCset k _) | CK (KCsetex k _ _) | CK (KCsetopt k _ _ _ _) | CK (KCdel [k]) => k
  | _ => []
  end.

(* ---------- what the four batchable names parse to ---------- *)
Local Open Scope N_scope.
Definition n_set : bytes := [115;101;116].
Definition n_setex : bytes := [115;101;116;101;120].
Definition n_del : bytes := [100;101;108].
Definition n_hmset : bytes := [104;109;115;101;116].
Lemma parse_set key rest :
  parse_cmd (n_set :: key :: rest) =
  match rest with
  | [] => None
  | [v] => Some (CK (KCset key v))
  | v :: opts => match set_opts opts 0%Z false false with
                 | Some (d, nx, xx) => Some (CK (KCsetopt key v d nx xx))
                 | None => Some (CK KCinvalid)
                 end
  end.
Proof.
  destruct rest as [|v [|w r]]; try reflexivity.
  unfold parse_cmd, n_set. cbn -[set_opts]. destruct (set_opts (w :: r) 0%Z false false) as [[[d nx] xx]|]; reflexivity.
Qed.
Lemma parse_setex key rest : parse_cmd (n_setex :: key :: rest) =
  match rest with
  | [d; v] => match parse_int64 d with Some z => Some (CK (KCsetex key z v)) | None => Some (CK KCinvalid) end
  | _ => None
  end.
Proof.
  destruct rest as [|d [|v [|w r]]]; try reflexivity.
  unfold parse_cmd, n_setex. cbn -[parse_int64]. destruct (parse_int64 d); reflexivity.
Qed.
Lemma parse_del key rest : parse_cmd (n_del :: key :: rest) = Some (CK (KCdel (key :: rest))).
Proof. reflexivity. Qed.
Lemma parse_hmset key rest :
  parse_cmd (n_hmset :: key :: rest) = match pairs_of rest with Some p => Some (CHmset key p) | None => None end.
Proof. reflexivity. Qed.
Local Close Scope N_scope.

Lemma batchable_names (q : DM.req) : DM.name_batchable q = true ->
  DM.rname q = n_del \/ DM.rname q = n_hmset \/ DM.rname q = n_set \/ DM.rname q = n_setex.
Proof.
  unfold DM.name_batchable. intros H. apply DP.mem_bytes_in in H. unfold DC.batchable_cmds in H.
  cbn [In] in H. destruct H as [H|[H|[H|[H|[]]]]]; rewrite <- H; auto.
Qed.

(* isValidBatchableWrite, in the vocabulary of the Map model (key_ok / subkey_ok / value_ok are the
   model's CheckKey / CheckKeySubKey / MaxValueSize tests); SET with options does not parse here *)
Definition valid_ttl (ts d : Z) : bool := (0 <? d) && (d <? max_u32 - 1 - sec_of ts).
Definition valid_batchable (name key : bytes) (rest : list bytes) (ts : Z) : bool :=
  key_ok key &&
  (if bytes_eqb name n_set then
     match rest with
     | [] => true
     | [v] => value_ok v
     | v :: opts => value_ok v && match set_opts opts 0 false false with
                                  | Some (d, _, _) => (d =? 0) || valid_ttl ts d
                                  | None => false
                                  end
     end
   else if bytes_eqb name n_setex then
     match rest with
     | [d; v] => value_ok v && match parse_int64 d with Some z => valid_ttl ts z | None => false end
     | _ => false
     end
   else if bytes_eqb name n_hmset then
     match pairs_of rest with Some fvs => negb (too_many fvs) && hmset_args_ok fvs | None => false end
   else true).

Section Inst.
  Variable compact : bool.
  Variable now : Z.
  Variable ts_of : DM.req -> Z.
  Variable rest_of : DM.req -> list bytes.

  Definition args_of (q : DM.req) : list bytes := DM.rname q :: DM.rpk q :: rest_of q.
  (* the two fields of a request that repeat information of its argument list agree with it: rvalid is
     isValidBatchableWrite of the arguments (only the direction that matters), and a request of at most
     two words has no argument after its key.  The node computes both from the arguments; a request value
     that contradicts itself is not an entry the node can build and is given no handler here. *)
  Definition consistent (q : DM.req) : bool :=
    (if DM.rvalid q then valid_batchable (DM.rname q) (DM.rpk q) (rest_of q) (ts_of q) else true) &&
    (if (DM.rnargs q <=? 2)%N then match rest_of q with [] => true | _ => false end else true).
  Definition cmd_of (q : DM.req) : option cmd := if consistent q then parse_cmd (args_of q) else None.

  Definition dhandler (q : DM.req) (s : mstate) : DM.outcome wop reply :=
    match cmd_of q with
    | None => DM.NoHandler
    | Some c =>
        let '(s', r) := map_step compact now (ts_of q) c s in
        if is_fail r then DM.Fail r true else DM.Ok (writes_of c s') r
    end.

  Definition commit (s : mstate) (ws : list wop) : mstate := DM.commit_ws mstate wop apply_w s ws.

  (* ---------- the instance is the Map model ---------- *)
  Lemma alook_aput_eq {V} (d : V) k v m : alook d k (aput bytes_eqb k v m) = v.
  Proof. unfold alook. rewrite (aget_aput_eq bytes_eqb bytes_eqb_eq). reflexivity. Qed.
  Lemma alook_aput_ne {V} (d : V) k k' v m : k <> k' -> alook d k' (aput bytes_eqb k v m) = alook d k' m.
  Proof. intros N. unfold alook. rewrite (aget_aput_ne bytes_eqb bytes_eqb_eq) by exact N. reflexivity. Qed.

  Lemma writes_exact ts c s : is_fail (snd (map_step compact now ts c s)) = false ->
    commit s (writes_of c (fst (map_step compact now ts c s))) = fst (map_step compact now ts c s).
  Proof.
    intros NF. destruct c; try reflexivity.
    - (* hmset *)
      cbn [map_step] in *. unfold aupd in *.
      destruct (xrenew exists_coll forget_c compact ts (Map.hmset compact ts key fvs) (alook (x0 empty_coll) key (m_hash s))) as [x' r].
      cbn [fst snd writes_of m_hash]. rewrite alook_aput_eq. reflexivity.
    - (* strings *)
      cbn [map_step] in *. destruct (MapK.kstep compact ts c (m_kv s)) as [m' r] eqn:EK. cbn [fst snd] in *.
      destruct c; try reflexivity; cbn [writes_of m_kv].
      + (* set *) cbn [MapK.kstep] in EK. destruct (negb (key_ok k) || negb (value_ok v)).
        * injection EK as <- <-. discriminate.
        * injection EK as <- <-. rewrite (aget_aput_eq bytes_eqb bytes_eqb_eq). reflexivity.
      + (* del *) destruct ks as [|k [|k2 ks]]; try reflexivity.
        cbn [MapK.kstep dedup bytes_mem fold_left] in EK. injection EK as <- <-.
        destruct (key_ok k); [reflexivity|destruct s; reflexivity].
      + (* setex *) cbn [MapK.kstep] in EK.
        repeat match type of EK with context [if ?b then _ else _] => destruct b end;
          injection EK as <- <-; try discriminate; rewrite (aget_aput_eq bytes_eqb bytes_eqb_eq); reflexivity.
      + (* set with options *) cbn [MapK.kstep] in EK.
        assert (Same : match aget bytes_eqb k (m_kv s) with Some v0 => commit s [WKput k v0] | None => commit s [] end = s).
        { destruct (aget bytes_eqb k (m_kv s)) as [v0|] eqn:G; unfold commit; cbn [DM.commit_ws fold_left apply_w].
          - rewrite (aput_same bytes_eqb k v0 (m_kv s) G). destruct s; reflexivity.
          - reflexivity. }
        destruct (kget compact ts k (m_kv s));
        repeat match type of EK with context [if ?b then _ else _] => destruct b end;
          injection EK as <- <-; try discriminate; try (rewrite (aget_aput_eq bytes_eqb bytes_eqb_eq); reflexivity);
          (destruct (aget bytes_eqb k (m_kv s)); rewrite Same; destruct s; reflexivity).
  Qed.

  Theorem dhandler_ok q c s : cmd_of q = Some c -> is_fail (snd (map_step compact now (ts_of q) c s)) = false ->
    exists ws, dhandler q s = DM.Ok ws (snd (map_step compact now (ts_of q) c s)) /\
               commit s ws = fst (map_step compact now (ts_of q) c s).
  Proof.
    intros C NF. unfold dhandler. rewrite C. pose proof (writes_exact (ts_of q) c s NF) as W.
    destruct (map_step compact now (ts_of q) c s) as [s' r]. cbn [fst snd] in *. rewrite NF.
    exists (writes_of c s'). split; [reflexivity|exact W].
  Qed.
  Theorem dhandler_fail q c s : cmd_of q = Some c -> is_fail (snd (map_step compact now (ts_of q) c s)) = true ->
    dhandler q s = DM.Fail (snd (map_step compact now (ts_of q) c s)) true.
  Proof.
    intros C F. unfold dhandler. rewrite C. destruct (map_step compact now (ts_of q) c s) as [s' r]. cbn [snd] in *. rewrite F. reflexivity.
  Qed.

  (* ---------- a batchable command parses to a batchable shape on its own primary key ---------- *)
  Lemma cand_shape q c : DM.batch_cand q = true -> cmd_of q = Some c ->
    (batch_shape c = true /\ pk_of c = DM.rpk q) \/ c = CK KCinvalid.
  Proof.
    unfold DM.batch_cand, DM.multi_del, cmd_of, args_of. intros B C. apply andb_true_iff in B. destruct B as [NB ND].
    destruct (consistent q) eqn:CO; [|discriminate]. unfold consistent in CO. apply andb_true_iff in CO. destruct CO as [_ CN].
    destruct (batchable_names q NB) as [E|[E|[E|E]]]; rewrite E in *.
    - (* del: exactly one key *)
      rewrite parse_del in C. injection C as <-.
      assert (rest_of q = []) as ->.
      { unfold n_del, DC.del_name in ND. cbn [DM.bytes_eqb N.eqb Pos.eqb andb] in ND.
        apply negb_true_iff in ND. apply N.ltb_ge in ND. apply N.leb_le in ND. rewrite ND in CN.
        destruct (rest_of q); [reflexivity|discriminate]. }
      left. split; reflexivity.
    - rewrite parse_hmset in C. destruct (pairs_of (rest_of q)); [|discriminate]. injection C as <-. left. split; reflexivity.
    - rewrite parse_set in C. destruct (rest_of q) as [|v [|w r]]; try discriminate; [injection C as <-; left; split; reflexivity|].
      destruct (set_opts (w :: r) 0 false false) as [[[d nx] xx]|]; injection C as <-; [left; split; reflexivity|right; reflexivity].
    - rewrite parse_setex in C. destruct (rest_of q) as [|d [|v [|w r]]]; try discriminate.
      destruct (parse_int64 d); injection C as <-; [left; split; reflexivity|right; reflexivity].
  Qed.

  (* ---------- locality: a batchable shape reads and writes the record of its primary key only ---------- *)
  (* what the outcome of a batchable shape depends on *)
  Definition view_of (c : cmd) (s : mstate) : xr hcoll * option kvrec :=
    match c with
    | CHmset key _ => (alook (x0 empty_coll) key (m_hash s), None)
    | _ => (x0 empty_coll, aget bytes_eqb (pk_of c) (m_kv s))
    end.

  Definition outcome_of ts (c : cmd) (s : mstate) : DM.outcome wop reply :=
    let '(s', r) := map_step compact now ts c s in
    if is_fail r then DM.Fail r true else DM.Ok (writes_of c s') r.

  Lemma klive_get t k (m m2 : kstore) : aget bytes_eqb k m = aget bytes_eqb k m2 ->
    klive compact t k m = klive compact t k m2.
  Proof. unfold klive. intros ->. reflexivity. Qed.

  Lemma outcome_local ts c s s2 : batch_shape c = true -> view_of c s = view_of c s2 ->
    outcome_of ts c s = outcome_of ts c s2.
  Proof.
    intros B V. destruct c; try discriminate B.
    - (* hmset *)
      unfold outcome_of, view_of in *. injection V as V. cbn [map_step]. unfold aupd. rewrite V.
      destruct (xrenew exists_coll forget_c compact ts (Map.hmset compact ts key fvs) (alook (x0 empty_coll) key (m_hash s2))) as [x' r].
      cbn [writes_of m_hash]. rewrite !alook_aput_eq. reflexivity.
    - destruct c; try discriminate B; unfold outcome_of, view_of, pk_of in *; injection V as V; cbn [map_step MapK.kstep].
      + (* set *) destruct (negb (key_ok k) || negb (value_ok v)); [reflexivity|].
        cbv beta iota zeta. cbn [is_fail writes_of m_kv]. rewrite !(aget_aput_eq bytes_eqb bytes_eqb_eq). reflexivity.
      + (* del *) destruct ks as [|k [|k2 ks]]; try discriminate B. cbn [dedup bytes_mem fold_left filter].
        unfold kget. rewrite (klive_get ts k (m_kv s) (m_kv s2) V). cbv beta iota zeta. reflexivity.
      + (* setex *)
        repeat match goal with |- context [if ?b then _ else _] => destruct b end; try reflexivity;
          cbv beta iota zeta; cbn [is_fail writes_of m_kv]; rewrite ?(aget_aput_eq bytes_eqb bytes_eqb_eq); try rewrite V; reflexivity.
      + (* set with options *)
        unfold kget. rewrite (klive_get ts k (m_kv s) (m_kv s2) V).
        destruct (klive compact ts k (m_kv s2)) as [[e0 v0]|];
        repeat match goal with |- context [if ?b then _ else _] => destruct b end; try reflexivity;
          cbv beta iota zeta; cbn [is_fail writes_of m_kv]; rewrite ?(aget_aput_eq bytes_eqb bytes_eqb_eq); try rewrite V; reflexivity.
  Qed.

  (* the write batch of a batchable shape touches the record of its primary key only *)
  Lemma writes_frame ts c s c2 : batch_shape c = true -> batch_shape c2 = true -> pk_of c <> pk_of c2 ->
    forall ws r s0, outcome_of ts c s = DM.Ok ws r -> view_of c2 (commit s0 ws) = view_of c2 s0.
  Proof.
    intros B B2 NE ws r s0 O. unfold outcome_of in O. destruct (map_step compact now ts c s) as [s' r']. destruct (is_fail r'); [discriminate|].
    injection O as <- <-.
    assert (K : forall k v, k <> pk_of c2 -> view_of c2 (apply_w s0 (WKput k v)) = view_of c2 s0).
    { intros k v N. destruct c2; try discriminate B2; cbn [view_of apply_w m_hash m_kv]; [reflexivity|].
      rewrite (aget_aput_ne bytes_eqb bytes_eqb_eq) by exact N. reflexivity. }
    assert (D : forall k, k <> pk_of c2 -> view_of c2 (apply_w s0 (WKdel k)) = view_of c2 s0).
    { intros k N. destruct c2; try discriminate B2; cbn [view_of apply_w m_hash m_kv]; [reflexivity|].
      rewrite (aget_adel_ne bytes_eqb bytes_eqb_eq) by exact N. reflexivity. }
    assert (Hh : forall k x, k <> pk_of c2 -> view_of c2 (apply_w s0 (WHash k x)) = view_of c2 s0).
    { intros k x N. destruct c2; try discriminate B2; cbn [view_of apply_w m_hash m_kv pk_of] in *; [|reflexivity].
      rewrite alook_aput_ne by exact N. reflexivity. }
    destruct c; try discriminate B; cbn [writes_of pk_of] in *.
    - unfold commit. cbn [DM.commit_ws fold_left]. apply Hh; exact NE.
    - destruct c; try discriminate B; cbn [writes_of pk_of] in *.
      + destruct (aget bytes_eqb k (m_kv s')); unfold commit; cbn [DM.commit_ws fold_left]; [apply K; exact NE|reflexivity].
      + destruct ks as [|k [|k2 ks]]; try discriminate B. cbn [pk_of] in NE.
        destruct (key_ok k); unfold commit; cbn [DM.commit_ws fold_left]; [apply D; exact NE|reflexivity].
      + destruct (aget bytes_eqb k (m_kv s')); unfold commit; cbn [DM.commit_ws fold_left]; [apply K; exact NE|reflexivity].
      + destruct (aget bytes_eqb k (m_kv s')); unfold commit; cbn [DM.commit_ws fold_left]; [apply K; exact NE|reflexivity].
  Qed.

  Lemma dhandler_outcome q c s : cmd_of q = Some c -> dhandler q s = outcome_of (ts_of q) c s.
  Proof. intros C. unfold dhandler, outcome_of. rewrite C. reflexivity. Qed.

  (* the command a malformed SETEX duration parses to fails whatever the store *)
  Lemma invalid_outcome ts s s2 : outcome_of ts (CK KCinvalid) s = outcome_of ts (CK KCinvalid) s2.
  Proof. reflexivity. Qed.

  (* ---------- (H1) isolation of the members of a batch ---------- *)
  Theorem data_isolation q q' s' ws r s :
    DM.batch_cand q = true -> DM.batch_cand q' = true -> DM.rpk q <> DM.rpk q' ->
    dhandler q' s' = DM.Ok ws r -> dhandler q (commit s ws) = dhandler q s.
  Proof.
    intros B B' NE O.
    destruct (cmd_of q) as [c|] eqn:C; [|unfold dhandler; rewrite C; reflexivity].
    rewrite !(dhandler_outcome q c) by exact C.
    destruct (cmd_of q') as [c'|] eqn:C'; [|unfold dhandler in O; rewrite C' in O; discriminate].
    rewrite (dhandler_outcome q' c' s' C') in O.
    destruct (cand_shape q c B C) as [[Sh Pk]|E0]; [|subst c; apply invalid_outcome].
    destruct (cand_shape q' c' B' C') as [[Sh' Pk']|E0]; [|subst c'; discriminate O].
    apply outcome_local; [exact Sh|].
    apply (writes_frame (ts_of q') c' s' c Sh' Sh) with (r := r); [rewrite Pk, Pk'; intros E; apply NE; symmetry; exact E|exact O].
  Qed.

  (* ---------- (H2) a valid batchable command never fails ---------- *)

  Lemma xrenew_reply {R} live forget ts (f : R -> R * reply) x :
    (forall r, snd (f r) = snd (f (x_r x))) -> snd (xrenew live forget compact ts f x) = snd (f (x_r x)).
  Proof.
    intros H. unfold xrenew. destruct (dead compact (x_exp x) ts).
    - pose proof (H (forget (x_r x))) as E. destruct (f (forget (x_r x))) as [r' rep]. cbn [snd] in *.
      destruct (live r'); cbn [snd]; exact E.
    - destruct (f (x_r x)) as [r' rep]. reflexivity.
  Qed.

  Theorem data_no_abort q s e : DM.batch_cand q = true -> DM.rvalid q = true -> dhandler q s <> DM.Fail e true.
  Proof.
    intros B V.
    destruct (cmd_of q) as [c|] eqn:C; [|unfold dhandler; rewrite C; discriminate].
    rewrite (dhandler_outcome q c s C). unfold outcome_of.
    unfold DM.batch_cand in B. apply andb_true_iff in B. destruct B as [NB ND].
    unfold cmd_of, args_of in C.
    destruct (consistent q) eqn:CO; [|discriminate]. unfold consistent in CO. apply andb_true_iff in CO. destruct CO as [Val _].
    rewrite V in Val. unfold valid_batchable in Val.
    apply andb_true_iff in Val. destruct Val as [K Val].
    assert (NF : is_fail (snd (map_step compact now (ts_of q) c s)) = false);
      [|destruct (map_step compact now (ts_of q) c s) as [s1 r1]; cbn [snd] in NF; rewrite NF; discriminate].
    destruct (batchable_names q NB) as [E|[E|[E|E]]]; rewrite E in *.
    - rewrite parse_del in C. injection C as <-. cbn [map_step MapK.kstep].
      destruct (MapK.kstep compact (ts_of q) (KCdel (DM.rpk q :: rest_of q)) (m_kv s)) eqn:EK. cbn [MapK.kstep] in EK.
      injection EK as <- <-. reflexivity.
    - rewrite parse_hmset in C. cbn [bytes_eqb] in Val.
      replace (bytes_eqb n_hmset n_set) with false in Val by reflexivity.
      replace (bytes_eqb n_hmset n_setex) with false in Val by reflexivity.
      replace (bytes_eqb n_hmset n_hmset) with true in Val by reflexivity.
      destruct (pairs_of (rest_of q)) as [fvs|]; [|discriminate]. injection C as <-.
      apply andb_true_iff in Val. destruct Val as [TM AO]. apply negb_true_iff in TM.
      cbn [map_step]. unfold aupd.
      assert (HR : forall r : hcoll, snd (Map.hmset compact (ts_of q) (DM.rpk q) fvs r) = RNil).
      { intros r. unfold Map.hmset. rewrite TM. destruct fvs; [reflexivity|]. rewrite K, AO. reflexivity. }
      pose proof (xrenew_reply exists_coll forget_c (ts_of q) (Map.hmset compact (ts_of q) (DM.rpk q) fvs)
                               (alook (x0 empty_coll) (DM.rpk q) (m_hash s)) (fun r => eq_trans (HR r) (eq_sym (HR _)))) as XR.
      destruct (xrenew exists_coll forget_c compact (ts_of q) (Map.hmset compact (ts_of q) (DM.rpk q) fvs)
                       (alook (x0 empty_coll) (DM.rpk q) (m_hash s))) as [x' r']. cbn [snd] in *. rewrite XR, HR. reflexivity.
    - rewrite parse_set in C. replace (bytes_eqb n_set n_set) with true in Val by reflexivity.
      destruct (rest_of q) as [|v [|w r]]; try discriminate.
      + injection C as <-. cbn [map_step MapK.kstep]. rewrite K, Val. reflexivity.
      + apply andb_true_iff in Val. destruct Val as [VO TT].
        destruct (set_opts (w :: r) 0 false false) as [[[d nx] xx]|]; [|discriminate]. injection C as <-.
        cbn [map_step]. destruct (MapK.kstep compact (ts_of q) (KCsetopt (DM.rpk q) v d nx xx) (m_kv s)) as [m' r'] eqn:EK. cbn [snd].
        cbn [MapK.kstep] in EK. rewrite K, VO in EK. cbn [negb] in EK.
        assert (OV : 0 <? d = true -> when_overflows (sec_of (ts_of q) + d) = false /\ (int64_max <? sec_of (ts_of q) + d) = false).
        { intros P. unfold valid_ttl, when_overflows, int64_max, max_u32 in *. lia. }
        destruct (0 <? d) eqn:PD; [destruct (OV eq_refl) as [O1 O2]; rewrite O1, O2 in EK|];
          destruct (kget compact (ts_of q) (DM.rpk q) (m_kv s)); destruct nx, xx, compact; injection EK as <- <-; reflexivity.
    - rewrite parse_setex in C.
      replace (bytes_eqb n_setex n_set) with false in Val by reflexivity.
      replace (bytes_eqb n_setex n_setex) with true in Val by reflexivity.
      destruct (rest_of q) as [|d [|v [|w r]]]; try discriminate.
      apply andb_true_iff in Val. destruct Val as [VO TT].
      destruct (parse_int64 d) as [z|]; [|discriminate]. injection C as <-.
      unfold valid_ttl in TT. apply andb_true_iff in TT. destruct TT as [T1 T2].
      cbn [map_step MapK.kstep]. rewrite K, VO. cbn [negb orb].
      assert (z <=? 0 = false) as -> by lia.
      unfold when_overflows, int64_max.
      assert (max_u32 - 1 <=? sec_of (ts_of q) + z = false) as -> by lia.
      assert (9223372036854775807 <? sec_of (ts_of q) + z = false) as -> by (unfold max_u32 in *; lia).
      destruct compact; reflexivity.
  Qed.

  (* ---------- C07's theorems for the concrete handlers ---------- *)
  Variable other_exec : DM.req -> mstate -> mstate * reply.     (* custom / schema requests: arbitrary *)
  Variable parse_err : DM.req -> reply.
  Variable conflicts : DM.req -> mstate -> bool.

  Definition batched := DM.apply_batched mstate wop reply apply_w dhandler other_exec parse_err RErr RNil conflicts.
  Definition alone := DM.seq_run mstate wop reply apply_w dhandler other_exec parse_err RErr.

  (* any partition of a log into batch-operator lifetimes and ApplyRaftRequest calls = one request at a time:
     same final Map state, same replies (as a multiset of (request id, reply)); a Go panic (a one-word
     command) happens in both or in neither *)
  Theorem data_batch_equiv rp so p s :
    DP.same_result mstate reply (batched rp false so s p) (alone s (DM.flatten p)).
  Proof.
    apply (DP.batch_equiv mstate wop reply apply_w dhandler other_exec parse_err RErr RNil conflicts).
    - intros q q' s' ws r s0. apply data_isolation.
    - intros q s0 e. apply data_no_abort.
  Qed.

  (* ... and every client gets the reply its request gets when applied alone *)
  Theorem data_batch_equiv_replies rp so p s s1 o1 e1 s2 o2 :
    NoDup (map DM.rid (DM.flatten p)) ->
    batched rp false so s p = Some (s1, o1, e1) -> alone s (DM.flatten p) = Some (s2, o2) ->
    s1 = s2 /\ forall id, DM.reply_of reply id o1 = DM.reply_of reply id o2.
  Proof.
    apply (DP.batch_equiv_replies mstate wop reply apply_w dhandler other_exec parse_err RErr RNil conflicts).
    - intros q q' s' ws r s0. apply data_isolation.
    - intros q s0 e. apply data_no_abort.
  Qed.

  (* two replicas that group the same log differently (live apply, replay after a restart) end with the
     same Map state and the same replies *)
  Theorem data_partition_independent rp1 rp2 so p1 p2 s : DM.flatten p1 = DM.flatten p2 ->
    DP.same_result2 mstate reply (batched rp1 false so s p1) (batched rp2 false so s p2).
  Proof.
    apply (DP.partition_independent mstate wop reply apply_w dhandler other_exec parse_err RErr RNil conflicts).
    - intros q q' s' ws r s0. apply data_isolation.
    - intros q s0 e. apply data_no_abort.
  Qed.
End Inst.

(* ---------- non-vacuity: a batch really forms, over the real handlers ---------- *)
(* SET t:a, SET t:b, HMSET t:a f v, SET t:a delivered in one ApplyRaftRequest call: the first three join
   one batch (different primary keys, or another type's record of the same key cuts it: dupCheckMap is
   by key), the fourth finds t:a in dupCheckMap, commits the batch and runs alone; state and replies are
   those of the one-at-a-time run, and the strings / the hash are in the resulting Map state *)
Local Open Scope N_scope.
Definition ex_rest (q : DM.req) : list bytes := if DM.rnargs q <=? 2 then [] else if DM.rnargs q <=? 3 then [[DM.rbody q]] else [[102]; [DM.rbody q]].
Definition ex_ts (q : DM.req) : Z := Z.of_N (DM.rid q) + 1.
Definition ex_log : list DM.req :=
  [ DM.mkReq 0 DM.KRedis n_set [116;58;97] 3 49 true;
    DM.mkReq 1 DM.KRedis n_set [116;58;98] 3 50 true;
    DM.mkReq 2 DM.KRedis n_hmset [116;58;99] 4 51 true;
    DM.mkReq 3 DM.KRedis n_set [116;58;97] 3 52 true ].
Example data_ex_batch :
  match batched true 0 ex_ts ex_rest (fun _ s => (s, RNil)) (fun _ => RErr) (fun _ _ => false) false false false m_init
                [[DM.mkCall false ex_log]] with
  | Some (s, o, evs) =>
      evs = [DM.EQ true; DM.EB; DM.EK; DM.ER; DM.EQ true; DM.EK; DM.ER; DM.EQ true; DM.EK; DM.ER;
             DM.EQ false; DM.EC true; DM.EC false; DM.ESep]
      /\ o = [(0, RInt 1); (1, RInt 1); (2, RNil); (3, RInt 1)]
      /\ alone true 0 ex_ts ex_rest (fun _ s => (s, RNil)) (fun _ => RErr) m_init ex_log = Some (s, o)
      /\ MapK.kquery true 0 (KQmget [[116;58;97]; [116;58;98]]) (m_kv s) = RArr [RBulk [52]; RBulk [50]]
      /\ snd (map_step true 0 9 (QHget [116;58;99] [102]) s) = RBulk [51]
  | None => False
  end.
Proof. vm_compute. repeat split. Qed.
