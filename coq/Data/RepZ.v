(* Data/RepZ.v — the representation invariant of a sorted set (MapZ.v): the member keys satisfy the
   collection invariant RepC (stored size = number of member keys of the current generation), and the
   member -> score keys and the score index keys are in bijection.  Preserved by every zset command. *)
From ZV Require Import Common.Bytes Common.BytesFacts Data.Consts Data.Base Data.BaseFacts Data.Map Data.MapZ Data.RepColl Data.RepHS.
From Coq Require Import Permutation Lia ZifyBool.
Open Scope Z_scope.

Lemma score_eqb_eq a b : score_eqb a b = true <-> a = b.
Proof.
  destruct a, b; cbn; try (split; [discriminate|intros H; inversion H]); try tauto.
  rewrite Z.eqb_eq. split; [intros ->; reflexivity|intros H; inversion H; reflexivity].
Qed.
Lemma zikey_eqb_eq (a b : zikey) : zikey_eqb a b = true <-> a = b.
Proof.
  destruct a as [v [s m]], b as [v' [s' m']]; unfold zikey_eqb; cbn.
  rewrite !andb_true_iff, Z.eqb_eq, score_eqb_eq, bytes_eqb_eq. split.
  - intros [[-> ->] ->]; reflexivity.
  - intros H; inversion H; auto.
Qed.

Lemma imem_In k l : imem k l = true <-> In k l.
Proof.
  induction l as [|x r IH]; cbn; [split; [discriminate|tauto]|].
  rewrite orb_true_iff, zikey_eqb_eq, IH. split; intros [H|H]; auto.
Qed.
Lemma In_iput k l x : In x (iput k l) <-> x = k \/ In x l.
Proof.
  unfold iput. destruct (imem k l) eqn:E.
  - apply imem_In in E. split; [auto|intros [->|H]; auto].
  - rewrite in_app_iff; cbn. split; [intros [H|[H|[]]]; auto|intros [H|H]; auto].
Qed.
Lemma NoDup_iput k l : NoDup l -> NoDup (iput k l).
Proof.
  intros ND. unfold iput. destruct (imem k l) eqn:E; [exact ND|].
  apply nodup_snoc; [exact ND|]. intros H. apply imem_In in H. congruence.
Qed.
Lemma In_idel k l x : NoDup l -> (In x (idel k l) <-> In x l /\ x <> k).
Proof.
  intros ND. induction l as [|y r IH]; cbn; [tauto|].
  inversion ND as [|? ? Hn ND']; subst. destruct (zikey_eqb k y) eqn:E.
  - apply zikey_eqb_eq in E; subst y. split.
    + intros H. split; [right; exact H|intros ->; contradiction].
    + intros [[H|H] N]; [congruence|exact H].
  - assert (k <> y) by (intros ->; destruct (zikey_eqb_eq y y) as [_ Q]; rewrite Q in E; [discriminate|reflexivity]).
    cbn. rewrite (IH ND'). split.
    + intros [H0|[H0 N]]; [split; [left; exact H0|congruence]|split; [right; exact H0|exact N]].
    + intros [[H0|H0] N]; [left; exact H0|right; split; assumption].
Qed.
Lemma NoDup_idel k l : NoDup l -> NoDup (idel k l).
Proof.
  induction l as [|y r IH]; cbn; intros ND; [constructor|].
  inversion ND as [|? ? Hn ND']; subst. destruct (zikey_eqb k y); [exact ND'|].
  constructor; [|apply IH; exact ND']. intros H. apply In_idel in H; [|exact ND']. tauto.
Qed.

Lemma swap_swap {A B} (l : list (A * B)) :
  map (fun p : B * A => (snd p, fst p)) (map (fun p : A * B => (snd p, fst p)) l) = l.
Proof. induction l as [|[a b] r IH]; cbn; [reflexivity|]. rewrite IH; reflexivity. Qed.

Lemma NoDup_incl_length_eq {A} (l l' : list A) : NoDup l -> NoDup l' -> (forall x, In x l <-> In x l') -> length l = length l'.
Proof. intros N N' H. apply Permutation_length, NoDup_Permutation; auto. Qed.

Lemma filter_nil' {A} (f : A -> bool) l : (forall e, In e l -> f e = false) -> filter f l = [].
Proof.
  induction l as [|x r IH]; intros H; cbn; [reflexivity|]. rewrite (H x (or_introl eq_refl)). apply IH. intros e He; apply H; right; exact He.
Qed.

Section RZ.
  Variable compact : bool.

  (* the two indexes agree *)
  Record IdxInv (es : list (vkey * score)) (idx : list zikey) : Prop := {
    ii_keys : NoDup (map fst es);
    ii_idx : NoDup idx;
    ii_bij : forall v m s, In ((v, m), s) es <-> In (v, (s, m)) idx }.

  Record RepZ (clock : Z) (z : zcoll) : Prop := {
    rz_c : RepC compact clock (z_c z);
    rz_i : IdxInv (c_elems (z_c z)) (z_index z) }.

  Lemma RepZ_mono clock clock' z : clock <= clock' -> RepZ clock z -> RepZ clock' z.
  Proof. intros L [A B]. constructor; [eapply RepC_mono; eauto|exact B]. Qed.
  Lemma RepZ_empty clock : RepZ clock empty_zcoll.
  Proof.
    constructor; [apply RepC_empty|]. constructor; cbn; [constructor|constructor|tauto].
  Qed.

  (* ---------- single index steps ---------- *)
  Lemma idx_put_new v m sc es idx : IdxInv es idx -> eget v m es = None ->
    IdxInv (eput v m sc es) (iput (v, (sc, m)) idx).
  Proof.
    intros [A B C] G. constructor.
    - apply (nodup_aput vkey_eqb vkey_eqb_eq); exact A.
    - apply NoDup_iput; exact B.
    - intros v' m' s'. unfold eput. rewrite (In_aput vkey_eqb vkey_eqb_eq _ _ _ _ A), In_iput, <- C. cbn [fst].
      split.
      + intros [H|[H N]]; [inversion H; subst; left; reflexivity|right; exact H].
      + intros [H|H]; [inversion H; subst; left; reflexivity|right; split; [exact H|]].
        intros Hk. inversion Hk; subst. apply (In_aget_nodup vkey_eqb vkey_eqb_eq _ _ _ A) in H.
        unfold eget in G. congruence.
  Qed.

  Lemma idx_update v m old sc es idx : IdxInv es idx -> eget v m es = Some old ->
    IdxInv (eput v m sc es) (iput (v, (sc, m)) (idel (v, (old, m)) idx)).
  Proof.
    intros [A B C] G. constructor.
    - apply (nodup_aput vkey_eqb vkey_eqb_eq); exact A.
    - apply NoDup_iput, NoDup_idel; exact B.
    - intros v' m' s'. unfold eput. rewrite (In_aput vkey_eqb vkey_eqb_eq _ _ _ _ A), In_iput, (In_idel _ _ _ B), <- C. cbn [fst].
      split.
      + intros [H|[H N]]; [inversion H; subst; left; reflexivity|right; split; [exact H|]].
        intros Hk. inversion Hk; subst. apply N; reflexivity.
      + intros [H|[H N]]; [inversion H; subst; left; reflexivity|right; split; [exact H|]].
        intros Hk. inversion Hk; subst. apply N.
        apply (In_aget_nodup vkey_eqb vkey_eqb_eq _ _ _ A) in H. unfold eget in G. rewrite G in H. inversion H; reflexivity.
  Qed.

  Lemma idx_del v m old es idx : IdxInv es idx -> eget v m es = Some old ->
    IdxInv (edel v m es) (idel (v, (old, m)) idx).
  Proof.
    intros [A B C] G. constructor.
    - apply (nodup_adel vkey_eqb); exact A.
    - apply NoDup_idel; exact B.
    - intros v' m' s'. unfold edel. rewrite (In_adel vkey_eqb vkey_eqb_eq _ _ _ A), (In_idel _ _ _ B), <- C. cbn [fst].
      split.
      + intros [H N]. split; [exact H|]. intros Hk. inversion Hk; subst. apply N; reflexivity.
      + intros [H N]. split; [exact H|]. intros Hk. inversion Hk; subst. apply N.
        apply (In_aget_nodup vkey_eqb vkey_eqb_eq _ _ _ A) in H. unfold eget in G. rewrite G in H. inversion H; reflexivity.
  Qed.

  (* ---------- the fold of zSetItem over distinct members ---------- *)
  Definition zs_fold (v : Z) (cm : zcoll) (ps : list (score * bytes)) (z : zcoll) : zcoll :=
    fold_left (fun acc p => zset_item v cm (fst p) (snd p) acc) ps z.

  Lemma eget_eput_other {V} v m m' (x : V) es : m' <> m -> eget v m' (eput v m x es) = eget v m' es.
  Proof.
    intros N. unfold eget, eput. apply (aget_aput_ne vkey_eqb vkey_eqb_eq). intros H; inversion H; congruence.
  Qed.
  Lemma eget_edel_other {V} v m m' (es : list (vkey * V)) : m' <> m -> eget v m' (edel v m es) = eget v m' es.
  Proof.
    intros N. unfold eget, edel. apply (aget_adel_ne vkey_eqb vkey_eqb_eq). intros H; inversion H; congruence.
  Qed.

  Lemma zset_item_meta v cm sc m z : c_meta (z_c (zset_item v cm sc m z)) = c_meta (z_c z).
  Proof. unfold zset_item. destruct (eget v m (c_elems (z_c cm))) as [old|]; [destruct (score_eqb old sc)|]; reflexivity. Qed.

  Lemma zs_fold_spec v cm ps : NoDup (map snd ps) -> forall z,
    (forall p, In p ps -> eget v (snd p) (c_elems (z_c z)) = eget v (snd p) (c_elems (z_c cm))) ->
    IdxInv (c_elems (z_c z)) (z_index z) ->
    let z' := zs_fold v cm ps z in
    c_meta (z_c z') = c_meta (z_c z) /\
    c_elems (z_c z') = put_all v (map (fun p => (snd p, fst p)) ps) (c_elems (z_c z)) /\
    IdxInv (c_elems (z_c z')) (z_index z').
  Proof.
    induction ps as [|[sc m] r IH]; intros ND z Hg I; cbn [zs_fold fold_left map].
    - split; [reflexivity|split; [reflexivity|exact I]].
    - cbn [map snd] in ND. inversion ND as [|? ? Hn ND']; subst.
      cbn [fst snd].
      assert (Hm : eget v m (c_elems (z_c z)) = eget v m (c_elems (z_c cm))) by (apply (Hg (sc, m)); left; reflexivity).
      set (z1 := zset_item v cm sc m z).
      assert (E1 : c_elems (z_c z1) = eput v m sc (c_elems (z_c z)) /\ IdxInv (c_elems (z_c z1)) (z_index z1)).
      { unfold z1, zset_item. rewrite <- Hm. destruct (eget v m (c_elems (z_c z))) as [old|] eqn:G.
        - destruct (score_eqb old sc) eqn:Q.
          + apply score_eqb_eq in Q; subst old. split; [|exact I].
            unfold eput. symmetry. apply (aput_same vkey_eqb). exact G.
          + cbn [z_c z_index c_elems]. split; [reflexivity|apply idx_update; auto].
        - cbn [z_c z_index c_elems]. split; [reflexivity|apply idx_put_new; auto]. }
      destruct E1 as [E1 I1].
      specialize (IH ND' z1).
      assert (Hg1 : forall p, In p r -> eget v (snd p) (c_elems (z_c z1)) = eget v (snd p) (c_elems (z_c cm))).
      { intros p Hp. rewrite E1, eget_eput_other; [apply Hg; right; exact Hp|].
        intros Heq. apply Hn. rewrite <- Heq. apply in_map; exact Hp. }
      destruct (IH Hg1 I1) as (a & b & c). fold (zs_fold v cm r z1). split; [|split].
      + rewrite a. apply zset_item_meta.
      + rewrite b, E1. reflexivity.
      + exact c.
  Qed.

  (* ---------- the fold of zDelItem over distinct members ---------- *)
  Definition zd_fold (v : Z) (cm : zcoll) (ms : list bytes) (z : zcoll) : zcoll :=
    fold_left (fun acc m => zdel_item v cm m acc) ms z.

  Lemma zd_fold_spec v cm ms : NoDup ms -> forall z,
    (forall m, In m ms -> eget v m (c_elems (z_c z)) = eget v m (c_elems (z_c cm))) ->
    IdxInv (c_elems (z_c z)) (z_index z) ->
    let z' := zd_fold v cm ms z in
    c_meta (z_c z') = c_meta (z_c z) /\
    c_elems (z_c z') = del_some v (c_elems (z_c cm)) ms (c_elems (z_c z)) /\
    IdxInv (c_elems (z_c z')) (z_index z').
  Proof.
    induction ms as [|m r IH]; intros ND z Hg I; cbn [zd_fold fold_left].
    - split; [reflexivity|split; [reflexivity|exact I]].
    - inversion ND as [|? ? Hn ND']; subst.
      assert (Hm : eget v m (c_elems (z_c z)) = eget v m (c_elems (z_c cm))) by (apply Hg; left; reflexivity).
      set (z1 := zdel_item v cm m z).
      assert (E1 : c_meta (z_c z1) = c_meta (z_c z) /\
                   c_elems (z_c z1) = (if emem v m (c_elems (z_c cm)) then edel v m (c_elems (z_c z)) else c_elems (z_c z)) /\
                   IdxInv (c_elems (z_c z1)) (z_index z1)).
      { unfold z1, zdel_item. rewrite emem_eget. rewrite <- Hm. destruct (eget v m (c_elems (z_c z))) as [old|] eqn:G.
        - cbn [z_c z_index c_elems c_meta]. split; [reflexivity|split; [reflexivity|apply idx_del; auto]].
        - split; [reflexivity|split; [reflexivity|exact I]]. }
      destruct E1 as (M1 & E1 & I1).
      specialize (IH ND' z1).
      assert (Hg1 : forall m', In m' r -> eget v m' (c_elems (z_c z1)) = eget v m' (c_elems (z_c cm))).
      { intros m' Hp. rewrite E1. destruct (emem v m (c_elems (z_c cm))).
        - rewrite eget_edel_other; [apply Hg; right; exact Hp|]. intros Heq; subst; contradiction.
        - apply Hg; right; exact Hp. }
      destruct (IH Hg1 I1) as (a & b & c). fold (zd_fold v cm r z1). split; [|split].
      + rewrite a. exact M1.
      + rewrite b, E1. unfold del_some. cbn [fold_left]. reflexivity.
      + exact c.
  Qed.

  (* zremove over distinct members preserves the invariant *)
  Lemma zremove_rep clock ms z : RepZ clock z -> NoDup ms -> RepZ clock (fst (zremove ms z)).
  Proof.
    intros [Rc Ri] ND. unfold zremove. cbn [fst].
    destruct (zd_fold_spec (zver z) z ms ND z (fun _ _ => eq_refl) Ri) as (a & b & c).
    fold (zd_fold (zver z) z ms z). set (z' := zd_fold (zver z) z ms z) in *.
    unfold zwith_size. constructor; cbn [z_c z_index].
    - rewrite b. unfold zsize, zver. apply rep_del_batch; auto.
    - cbn [c_elems]. exact c.
  Qed.

  (* members listed by a scan of one generation of the score index are distinct *)
  Lemma index_scan_members_NoDup clock z v : RepZ clock z -> NoDup (map snd (index_scan v (z_index z))).
  Proof.
    intros [Rc [A B C]]. unfold index_scan.
    eapply Permutation_NoDup; [symmetry; apply map_isort_perm|].
    rewrite map_map.
    assert (G : forall l : list zikey, NoDup l -> (forall k, In k l -> In k (z_index z)) ->
                NoDup (map (fun k : zikey => snd (snd k)) (filter (fun k : zikey => fst k =? v) l))).
    { induction l as [|k r IH]; intros NDl Hin; cbn; [constructor|].
      inversion NDl as [|? ? Hn NDl']; subst.
      destruct (fst k =? v) eqn:E; [|apply IH; auto; intros x Hx; apply Hin; right; exact Hx].
      cbn. constructor; [|apply IH; auto; intros x Hx; apply Hin; right; exact Hx].
      intros H. apply in_map_iff in H. destruct H as (k' & Ek & Hk'). apply filter_In in Hk'. destruct Hk' as [Hk' Ev].
      apply Z.eqb_eq in E, Ev. destruct k as [v1 [s1 m1]], k' as [v2 [s2 m2]]. cbn in *. subst v1 v2 m2.
      assert (I1 : In (v, (s1, m1)) (z_index z)) by (apply Hin; left; reflexivity).
      assert (I2 : In (v, (s2, m1)) (z_index z)) by (apply Hin; right; exact Hk').
      apply C in I1. apply C in I2.
      apply (In_aget_nodup vkey_eqb vkey_eqb_eq _ _ _ A) in I1. apply (In_aget_nodup vkey_eqb vkey_eqb_eq _ _ _ A) in I2.
      rewrite I1 in I2. inversion I2; subst. contradiction. }
    apply G; auto.
  Qed.

  Lemma NoDup_map_filter {A B} (f : A -> B) (p : A -> bool) l : NoDup (map f l) -> NoDup (map f (filter p l)).
  Proof.
    induction l as [|x r IH]; cbn; intros ND; [constructor|].
    inversion ND as [|? ? Hn ND']; subst. destruct (p x); cbn; [|auto].
    constructor; [|auto]. intros H. apply Hn. apply in_map_iff in H. destruct H as (y & E & Hy).
    apply filter_In in Hy. rewrite <- E. apply in_map; tauto.
  Qed.
  Lemma In_firstn {A} n (l : list A) y : In y (firstn n l) -> In y l.
  Proof.
    revert l; induction n as [|n IH]; intros l; cbn; [tauto|]. destruct l as [|x r]; cbn; [tauto|].
    intros [H|H]; [left; exact H|right; apply IH; exact H].
  Qed.
  Lemma NoDup_map_firstn {A B} (f : A -> B) n l : NoDup (map f l) -> NoDup (map f (firstn n l)).
  Proof.
    revert l; induction n as [|n IH]; intros l ND; cbn; [constructor|].
    destruct l as [|x r]; cbn; [constructor|]. cbn in ND. inversion ND as [|? ? Hn ND']; subst.
    constructor; [|auto]. intros H. apply Hn. apply in_map_iff in H. destruct H as (y & E & Hy).
    rewrite <- E. apply in_map. eapply In_firstn; exact Hy.
  Qed.
  Lemma NoDup_map_skipn {A B} (f : A -> B) n l : NoDup (map f l) -> NoDup (map f (skipn n l)).
  Proof.
    revert l; induction n as [|n IH]; intros l ND; cbn; [exact ND|].
    destruct l as [|x r]; cbn; [constructor|]. cbn in ND. inversion ND; subst. auto.
  Qed.
  Lemma NoDup_map_limit {A B} (f : A -> B) o c l : NoDup (map f l) -> NoDup (map f (limit o c l)).
  Proof.
    intros ND. unfold limit. destruct (o <? 0); [constructor|].
    destruct (c <? 0); [apply NoDup_map_skipn; exact ND|apply NoDup_map_firstn, NoDup_map_skipn; exact ND].
  Qed.

  Lemma rep_meta_none clock (c : coll score) : RepC compact clock c -> compact = true ->
    RepC compact clock (Build_coll None (c_elems c)).
  Proof.
    intros [a b c0 d e] C. constructor; cbn [c_meta c_elems]; auto; [discriminate|]. intros _ F. congruence.
  Qed.

  Definition entry_of (e : vkey * score) : zikey := (fst (fst e), (snd e, snd (fst e))).

  Lemma index_gen_length clock z v : RepZ clock z ->
    length (filter (fun k : zikey => fst k =? v) (z_index z)) = length (gen_elems v (c_elems (z_c z))).
  Proof.
    intros [Rc [A B C]]. symmetry.
    rewrite <- (map_length entry_of (gen_elems v (c_elems (z_c z)))).
    apply NoDup_incl_length_eq.
    - (* entry_of is injective on entries *)
      assert (NG : NoDup (gen_elems v (c_elems (z_c z)))).
      { apply NoDup_filter. eapply NoDup_map_inv. exact A. }
      apply FinFun.Injective_map_NoDup; [|exact NG].
      intros [[a b] c] [[a' b'] c'] H. unfold entry_of in H. cbn in H. inversion H; reflexivity.
    - apply NoDup_filter; exact B.
    - intros [v' [s m]]. rewrite in_map_iff, filter_In. cbn [fst]. split.
      + intros ([[a b] c] & E & H). unfold entry_of in E. cbn in E. inversion E; subst.
        apply gen_In in H. cbn in H. destruct H as [H ->]. split; [apply C; exact H|apply Z.eqb_refl].
      + intros [H E]. apply Z.eqb_eq in E; subst v'. apply C in H. exists ((v, m), s). split; [reflexivity|].
        apply gen_In. cbn. auto.
  Qed.

  Lemma index_scan_length clock z v : RepZ clock z ->
    length (index_scan v (z_index z)) = length (gen_elems v (c_elems (z_c z))).
  Proof.
    intros R. unfold index_scan. rewrite isort_length, map_length. eapply index_gen_length; exact R.
  Qed.

  (* ZFIXKEY on a record that satisfies the invariant finds as many index entries as the stored size: nothing to repair *)
  Lemma zfixkey_noop clock ts key z : RepZ clock z -> MapZ.zstep compact ts key ZCfixkey z = (z, RNil).
  Proof.
    intros R. cbn [MapZ.zstep]. destruct (max_batch_num <? zsize z); [reflexivity|].
    assert (L : Z.of_nat (length (index_scan (zver z) (z_index z))) = zsize z).
    { rewrite (index_scan_length clock z (zver z) R). destruct R as [Rc _].
      unfold zsize, zver, st_size, st_ver. destruct (c_meta (z_c z)) as [m|] eqn:E.
      - destruct (rc_meta _ _ _ Rc m E) as (_ & b & _). lia.
      - assert (G0 : forall b, b = compact -> gen_elems 0 (c_elems (z_c z)) = []).
        { intros b Hb. destruct b.
          - (* generation 0 never exists under wait_compact *)
            unfold gen_elems. apply filter_nil'. intros e He. pose proof (rc_vers _ _ _ Rc e He) as X.
            unfold ver_ok in X. rewrite <- Hb in X. unfold vkey in *. lia.
          - rewrite (rc_none _ _ _ Rc E (eq_sym Hb)). reflexivity. }
        rewrite (G0 compact eq_refl). reflexivity. }
    rewrite firstn_length. assert (Z.of_nat (Nat.min (Z.to_nat (zsize z)) (length (index_scan (zver z) (z_index z)))) =? zsize z = true) as -> by lia.
    reflexivity.
  Qed.

  (* the two DeleteRange calls of zRemAll remove exactly the member keys and the score-index keys of the
     generation: the invariant (and the bijection between the two) survives *)
  Lemma zrange_clear_rep clock z m : RepZ clock z -> c_meta (z_c z) = Some m ->
    RepZ clock {| z_c := Build_coll None (delete_range (BStart (cm_ver m)) (BStop (cm_ver m)) (c_elems (z_c z)));
                  z_index := zidx_delete_range (BStart (cm_ver m)) (BStop (cm_ver m)) (z_index z) |}.
  Proof.
    intros [Rc Ri] E. rewrite delete_range_exact. constructor; cbn [z_c z_index].
    - pose proof (rep_clear compact clock false false (z_c z) ltac:(discriminate) Rc) as H.
      rewrite (clear_coll_eq false false (z_c z) (rc_nodup _ _ _ Rc)), E in H. exact H.
    - destruct Ri as [K I B]. constructor; cbn [c_elems].
      + unfold drop_gen. apply (nodup_kfilter (fun k : vkey => negb (fst k =? cm_ver m))). exact K.
      + apply NoDup_filter. exact I.
      + intros v mm sc. unfold drop_gen, zidx_delete_range. rewrite !filter_In. cbn [fst snd]. rewrite in_range_gen. cbn [fst].
        rewrite (B v mm sc). reflexivity.
  Qed.

  Lemma zrem_all_rep clock lazy z : (lazy = true -> compact = true) -> RepZ clock z -> RepZ clock (fst (zrem_all lazy z)).
  Proof.
    intros LZ R. unfold zrem_all. destruct (zsize z =? 0) eqn:Z0; [exact R|].
    pose proof (zremove_rep clock (map snd (index_scan (zver z) (z_index z))) z R (index_scan_members_NoDup clock z _ R)) as HR.
    destruct lazy; cbn [fst].
    - constructor; cbn [z_c z_index c_elems]; [apply rep_meta_none; [apply (rz_c _ _ R)|apply LZ; reflexivity]|apply (rz_i _ _ R)].
    - destruct (range_delete_num <? zsize z); cbn [fst]; [|exact HR].
      unfold zsize, zver, st_size, st_ver in *. destruct (c_meta (z_c z)) as [m|] eqn:E; [|discriminate Z0].
      apply zrange_clear_rep; assumption.
  Qed.

  Lemma zrem_range_bytes_rep clock lazy sel offset count z : (lazy = true -> compact = true) ->
    RepZ clock z -> RepZ clock (fst (zrem_range_bytes lazy sel offset count z)).
  Proof.
    intros LZ R. unfold zrem_range_bytes. destruct (zsize z =? 0); [exact R|].
    destruct ((offset =? 0) && (zsize z <=? count)).
    - pose proof (zrem_all_rep clock lazy z LZ R) as H. destruct (zrem_all lazy z); exact H.
    - destruct (max_batch_num <? count); [exact R|].
      pose proof (zremove_rep clock (map snd (limit offset count (filter sel (index_scan (zver z) (z_index z))))) z R) as H.
      destruct (zremove _ z) as [z' n]. cbn [fst] in *. apply H.
      apply NoDup_map_limit, NoDup_map_filter. eapply index_scan_members_NoDup; exact R.
  Qed.

  (* ---------- every zset command preserves the invariant ---------- *)
  Theorem zstep_rep clock ts key c z : RepZ clock z -> 0 <= clock < ts -> RepZ ts (fst (zstep compact ts key c z)).
  Proof.
    intros R L. assert (Rm : RepZ ts z) by (eapply RepZ_mono; [|exact R]; lia).
    assert (FX : c = ZCfixkey -> RepZ ts (fst (zstep compact ts key c z)))
      by (intros ->; rewrite (zfixkey_noop ts ts key z Rm); exact Rm).
    destruct c as [ps|d m|ms|start stop|lo hi|lo hi lopen ropen| | |]; cbn [zstep]; try exact Rm; try (apply FX; reflexivity).
    - (* zadd *)
      destruct ps as [|p0 r0]; [exact Rm|]. set (ps := p0 :: r0) in *.
      destruct (too_many ps); [exact Rm|].
      destruct (negb (key_ok key) || negb (forallb (fun p => subkey_ok (snd p)) ps)) eqn:G; [exact Rm|].
      cbn [fst]. destruct R as [Rc Ri].
      set (v := prep_ver compact ts (z_c z)).
      set (lw := last_wins (map (fun p : score * bytes => (snd p, fst p)) ps)).
      set (ps' := map (fun p : bytes * score => (snd p, fst p)) lw).
      assert (MS : map snd ps' = map fst lw) by (unfold ps'; rewrite map_map; reflexivity).
      assert (ND : NoDup (map snd ps')) by (rewrite MS; apply last_wins_keys_NoDup).
      destruct (zs_fold_spec v z ps' ND z (fun _ _ => eq_refl) Ri) as (a & b & c).
      fold (zs_fold v z ps' z). set (z' := zs_fold v z ps' z) in *.
      assert (PM : map (fun p : score * bytes => (snd p, fst p)) ps' = lw).
      { unfold ps'. apply swap_swap. }
      rewrite PM in b.
      unfold zwith_size. constructor; cbn [z_c z_index c_elems].
      + rewrite b, MS. unfold zsize. apply (rep_put_batch compact clock); auto.
        * apply last_wins_keys_NoDup.
        * apply forallb_forall. intros k Hk. apply (proj1 (last_wins_keys_In _ _)) in Hk.
          rewrite map_map in Hk. apply in_map_iff in Hk. destruct Hk as (p & Ep & Hp). cbn in Ep. subst k.
          apply orb_false_iff in G. destruct G as [_ G]. apply negb_false_iff in G. rewrite forallb_forall in G. apply G; exact Hp.
      + exact c.
    - (* zincrby *)
      destruct (negb (key_ok key) || negb (subkey_ok m)) eqn:G; [exact Rm|].
      assert (SK : subkey_ok m = true).
      { destruct (subkey_ok m); [reflexivity|]. rewrite orb_true_r in G; discriminate. }
      destruct R as [Rc Ri]. set (v := prep_ver compact ts (z_c z)).
      destruct (eget v m (c_elems (z_c z))) as [old|] eqn:E.
      + destruct (score_add old d) as [sc|]; [|exact Rm]. cbn [fst z_c z_index c_meta c_elems].
        constructor; cbn [z_c z_index c_elems].
        * apply (rep_put_existing compact clock); auto. rewrite emem_eget. fold v. rewrite E; reflexivity.
        * apply idx_update; auto.
      + destruct (score_add (SFin 0) d) as [sc|]; [|exact Rm]. cbn [fst].
        unfold zwith_size; cbn [z_c z_index c_meta c_elems].
        constructor; cbn [z_c z_index c_elems].
        * pose proof (rep_put_batch compact clock ts (z_c z) [(m, sc)] Rc L) as P. cbn [map fst] in P. fold v in P.
          rewrite count_new_cons in P. rewrite emem_eget, E in P.
          change (count_new v [] (c_elems (z_c z))) with 0 in P.
          replace (st_size (z_c z) + (1 + 0)) with (zsize z + 1) in P by (unfold zsize; lia).
          apply P; [repeat constructor; tauto|cbn; rewrite SK; reflexivity].
        * apply idx_put_new; auto.
    - (* zrem *)
      destruct ms as [|m0 r0]; [exact Rm|]. destruct (too_many (m0 :: r0)); [exact Rm|].
      destruct (negb (key_ok key) || negb (forallb subkey_ok (m0 :: r0))); [exact Rm|].
      pose proof (zremove_rep ts (dedup [] (m0 :: r0)) z Rm (dedup_NoDup _ _)) as H.
      destruct (zremove (dedup [] (m0 :: r0)) z); exact H.
    - (* zremrangebyrank *)
      destruct (negb (key_ok key)); [exact Rm|].
      destruct (zparse_limit (zsize z) start stop) as [offset count]. apply zrem_range_bytes_rep; [apply lazy_clear_compact|exact Rm].
    - (* zremrangebyscore *)
      destruct lo as [l|]; [|exact Rm]. destruct hi as [h|]; [|exact Rm].
      destruct (negb (key_ok key)); [exact Rm|]. apply zrem_range_bytes_rep; [apply lazy_clear_compact|exact Rm].
    - (* zremrangebylex *)
      destruct (negb (key_ok key)); [exact Rm|].
      assert (Hrm : forall ms', NoDup ms' -> RepZ ts (fst (let '(z', n) := zremove ms' z in (z', RInt n)))).
      { intros ms' ND. pose proof (zremove_rep ts ms' z Rm ND) as H. destruct (zremove ms' z); exact H. }
      assert (Hall : RepZ ts (fst (let '(z', n) := zrem_all (lazy_clear compact ts (zver z)) z in (z', RInt n)))).
      { pose proof (zrem_all_rep ts _ z (lazy_clear_compact compact ts (zver z)) Rm) as H. destruct (zrem_all (lazy_clear compact ts (zver z)) z); exact H. }
      assert (NDs : NoDup (filter (in_lex lo hi lopen ropen) (map fst (scan (zver z) (c_elems (z_c z)))))).
      { apply NoDup_filter. apply scan_keys_NoDup. destruct Rm as [Rc _]. apply (rc_nodup _ _ _ Rc). }
      destruct lo, hi; auto.
    - (* zclear *)
      destruct (negb (key_ok key)); [exact Rm|].
      pose proof (zrem_all_rep ts _ z (lazy_clear_compact compact ts (zver z)) Rm) as H. destruct (zrem_all (lazy_clear compact ts (zver z)) z); exact H.
  Qed.
End RZ.
