(* Data/BaseFacts.v — lemmas about the association lists, sorting and argument de-duplication of Base.v *)
From ZV Require Import Common.Bytes Common.BytesFacts Data.Base.
From Coq Require Import Permutation Sorting.Sorted Lia ZifyBool.
Open Scope Z_scope.

(* ---------- key equalities ---------- *)
Lemma vkey_eqb_eq (a b : vkey) : vkey_eqb a b = true <-> a = b.
Proof.
  destruct a as [v f], b as [v' f']; unfold vkey_eqb; cbn.
  rewrite andb_true_iff, Z.eqb_eq, bytes_eqb_eq. split.
  - intros [-> ->]; reflexivity.
  - intros H; inversion H; auto.
Qed.

Lemma bytes_mem_In x l : bytes_mem x l = true <-> In x l.
Proof.
  induction l as [|y r IH]; cbn; [split; [discriminate|tauto]|].
  rewrite orb_true_iff, bytes_eqb_eq, IH. split; intros [H|H]; auto.
Qed.

(* ---------- association lists over a key type with a reflecting equality ---------- *)
Section AMapFacts.
  Context {K V : Type}.
  Variable eqb : K -> K -> bool.
  Hypothesis eqb_eq : forall a b, eqb a b = true <-> a = b.

  Lemma eqb_refl k : eqb k k = true.
  Proof. apply eqb_eq; reflexivity. Qed.
  Lemma eqb_neq a b : a <> b -> eqb a b = false.
  Proof. intros H; destruct (eqb a b) eqn:E; [apply eqb_eq in E; contradiction|reflexivity]. Qed.
  Lemma eqb_false a b : eqb a b = false -> a <> b.
  Proof. intros E ->; rewrite eqb_refl in E; discriminate. Qed.

  Lemma aget_In k v (m : list (K * V)) : aget eqb k m = Some v -> In (k, v) m.
  Proof.
    induction m as [|[k' v'] r IH]; cbn; [discriminate|].
    destruct (eqb k k') eqn:E.
    - apply eqb_eq in E; subst; intros H; inversion H; auto.
    - intros H; right; auto.
  Qed.

  Lemma aget_None_notin k (m : list (K * V)) : aget eqb k m = None <-> ~ In k (map fst m).
  Proof.
    induction m as [|[k' v'] r IH]; cbn; [tauto|].
    destruct (eqb k k') eqn:E.
    - apply eqb_eq in E; subst; split; [discriminate|intros H; exfalso; apply H; auto].
    - apply eqb_false in E. rewrite IH. split; intros H; [intros [H1|H1]; [congruence|auto]|tauto].
  Qed.

  Lemma In_aget_nodup k v (m : list (K * V)) : NoDup (map fst m) -> In (k, v) m -> aget eqb k m = Some v.
  Proof.
    induction m as [|[k' v'] r IH]; cbn; [tauto|].
    intros ND [H|H].
    - inversion H; subst; rewrite eqb_refl; reflexivity.
    - inversion ND as [|? ? Hn ND']; subst.
      destruct (eqb k k') eqn:E.
      + apply eqb_eq in E; subst. exfalso; apply Hn. apply (in_map fst) in H; exact H.
      + auto.
  Qed.

  Lemma amem_In k (m : list (K * V)) : amem eqb k m = true <-> In k (map fst m).
  Proof.
    unfold amem. destruct (aget eqb k m) eqn:E.
    - split; [intros _|reflexivity]. apply aget_In in E. apply (in_map fst) in E; exact E.
    - split; [discriminate|]. intros H. apply aget_None_notin in E; contradiction.
  Qed.

  Lemma aget_aput_eq k v (m : list (K * V)) : aget eqb k (aput eqb k v m) = Some v.
  Proof.
    induction m as [|[k' v'] r IH]; cbn; [rewrite eqb_refl; reflexivity|].
    destruct (eqb k k') eqn:E; cbn; rewrite E; auto.
  Qed.

  Lemma aget_aput_ne k k' v (m : list (K * V)) : k <> k' -> aget eqb k' (aput eqb k v m) = aget eqb k' m.
  Proof.
    intros N. induction m as [|[k2 v2] r IH]; cbn.
    - rewrite (eqb_neq k' k); auto.
    - destruct (eqb k k2) eqn:E; cbn.
      + apply eqb_eq in E; subst. rewrite (eqb_neq k' k2); auto.
      + rewrite IH; reflexivity.
  Qed.

  Lemma keys_aput k v (m : list (K * V)) :
    map fst (aput eqb k v m) = if amem eqb k m then map fst m else map fst m ++ [k].
  Proof.
    unfold amem. induction m as [|[k' v'] r IH]; cbn; [reflexivity|].
    destruct (eqb k k') eqn:E; cbn; [reflexivity|].
    rewrite IH. destruct (aget eqb k r); reflexivity.
  Qed.

  Lemma length_aput k v (m : list (K * V)) :
    length (aput eqb k v m) = (length m + (if amem eqb k m then 0 else 1))%nat.
  Proof.
    rewrite <- (map_length fst), keys_aput. destruct (amem eqb k m); rewrite ?app_length, map_length; cbn; lia.
  Qed.


  Lemma nodup_snoc (l : list K) k : NoDup l -> ~ In k l -> NoDup (l ++ [k]).
  Proof.
    induction l as [|x r IH]; cbn; intros ND N; [constructor; [tauto|constructor]|].
    inversion ND; subst. constructor.
    - rewrite in_app_iff; cbn. intros [H|[H|[]]]; [contradiction|subst; tauto].
    - apply IH; tauto.
  Qed.

  Lemma nodup_aput k v (m : list (K * V)) : NoDup (map fst m) -> NoDup (map fst (aput eqb k v m)).
  Proof.
    intros ND. rewrite keys_aput. destruct (amem eqb k m) eqn:E; [exact ND|].
    apply nodup_snoc; auto. intros H; apply amem_In in H; congruence.
  Qed.

  Lemma amem_aput k k' v (m : list (K * V)) :
    amem eqb k' (aput eqb k v m) = eqb k' k || amem eqb k' m.
  Proof.
    unfold amem. destruct (eqb k' k) eqn:E.
    - apply eqb_eq in E; subst. rewrite aget_aput_eq; reflexivity.
    - rewrite aget_aput_ne; [reflexivity|]. apply eqb_false in E; congruence.
  Qed.

  (* adel *)
  Lemma aget_adel_ne k k' (m : list (K * V)) : k <> k' -> aget eqb k' (adel eqb k m) = aget eqb k' m.
  Proof.
    intros N. induction m as [|[k2 v2] r IH]; cbn; [reflexivity|].
    destruct (eqb k k2) eqn:E; cbn.
    - apply eqb_eq in E; subst. rewrite (eqb_neq k' k2); auto.
    - rewrite IH; reflexivity.
  Qed.

  Lemma keys_adel_incl k (m : list (K * V)) x : In x (map fst (adel eqb k m)) -> In x (map fst m).
  Proof.
    induction m as [|[k2 v2] r IH]; cbn; [tauto|].
    destruct (eqb k k2); cbn; [auto|]. intros [H|H]; auto.
  Qed.

  Lemma nodup_adel k (m : list (K * V)) : NoDup (map fst m) -> NoDup (map fst (adel eqb k m)).
  Proof.
    induction m as [|[k2 v2] r IH]; cbn; intros ND; [constructor|].
    inversion ND; subst. destruct (eqb k k2); cbn; [assumption|].
    constructor; [|auto]. intros H; apply keys_adel_incl in H; contradiction.
  Qed.

  Lemma aget_adel_eq k (m : list (K * V)) : NoDup (map fst m) -> aget eqb k (adel eqb k m) = None.
  Proof.
    induction m as [|[k2 v2] r IH]; cbn; intros ND; [reflexivity|].
    inversion ND; subst. destruct (eqb k k2) eqn:E; cbn.
    - apply eqb_eq in E; subst. apply aget_None_notin; assumption.
    - rewrite E; auto.
  Qed.

  Lemma length_adel k (m : list (K * V)) :
    length (adel eqb k m) = (length m - (if amem eqb k m then 1 else 0))%nat.
  Proof.
    unfold amem. induction m as [|[k2 v2] r IH]; cbn; [reflexivity|].
    destruct (eqb k k2) eqn:E; cbn; [lia|].
    rewrite IH. destruct (aget eqb k r) eqn:G; [|lia].
    destruct r; cbn in *; [discriminate|lia].
  Qed.

  Lemma amem_adel k k' (m : list (K * V)) : NoDup (map fst m) ->
    amem eqb k' (adel eqb k m) = negb (eqb k' k) && amem eqb k' m.
  Proof.
    intros ND. unfold amem. destruct (eqb k' k) eqn:E.
    - apply eqb_eq in E; subst. rewrite aget_adel_eq; auto.
    - rewrite aget_adel_ne; [reflexivity|]. apply eqb_false in E; congruence.
  Qed.

  (* filtering on a property of the key commutes with put / delete *)
  Variable P : K -> bool.
  Definition kfilter (m : list (K * V)) := filter (fun e => P (fst e)) m.

  Lemma aget_kfilter k (m : list (K * V)) : P k = true -> aget eqb k (kfilter m) = aget eqb k m.
  Proof.
    intros Pk. unfold kfilter in *. induction m as [|[k2 v2] r IH]; cbn; [reflexivity|].
    destruct (P k2) eqn:E; cbn.
    - destruct (eqb k k2); auto.
    - destruct (eqb k k2) eqn:E2; [apply eqb_eq in E2; subst; congruence|auto].
  Qed.

  Lemma kfilter_aput_in k v (m : list (K * V)) : P k = true -> kfilter (aput eqb k v m) = aput eqb k v (kfilter m).
  Proof.
    intros Pk. unfold kfilter in *. induction m as [|[k2 v2] r IH]; cbn; [rewrite Pk; reflexivity|].
    destruct (eqb k k2) eqn:E; cbn.
    - apply eqb_eq in E; subst. rewrite Pk; cbn. rewrite eqb_refl; reflexivity.
    - destruct (P k2) eqn:E2; cbn; [rewrite E, IH; reflexivity|exact IH].
  Qed.

  Lemma kfilter_aput_out k v (m : list (K * V)) : P k = false -> kfilter (aput eqb k v m) = kfilter m.
  Proof.
    intros Pk. unfold kfilter in *. induction m as [|[k2 v2] r IH]; cbn; [rewrite Pk; reflexivity|].
    destruct (eqb k k2) eqn:E; cbn.
    - apply eqb_eq in E; subst. rewrite Pk; reflexivity.
    - destruct (P k2); cbn; rewrite IH; reflexivity.
  Qed.

  Lemma kfilter_adel_in k (m : list (K * V)) : P k = true -> kfilter (adel eqb k m) = adel eqb k (kfilter m).
  Proof.
    intros Pk. unfold kfilter in *. induction m as [|[k2 v2] r IH]; cbn; [reflexivity|].
    destruct (eqb k k2) eqn:E; cbn.
    - apply eqb_eq in E; subst. rewrite Pk; cbn. rewrite eqb_refl; reflexivity.
    - destruct (P k2) eqn:E2; cbn; [rewrite E, IH; reflexivity|exact IH].
  Qed.

  Lemma kfilter_adel_out k (m : list (K * V)) : P k = false -> kfilter (adel eqb k m) = kfilter m.
  Proof.
    intros Pk. unfold kfilter in *. induction m as [|[k2 v2] r IH]; cbn; [reflexivity|].
    destruct (eqb k k2) eqn:E; cbn.
    - apply eqb_eq in E; subst. rewrite Pk; reflexivity.
    - destruct (P k2); cbn; rewrite IH; reflexivity.
  Qed.

  Lemma nodup_kfilter (m : list (K * V)) : NoDup (map fst m) -> NoDup (map fst (kfilter m)).
  Proof.
    unfold kfilter.
    induction m as [|[k2 v2] r IH]; cbn; intros ND; [constructor|].
    inversion ND; subst. destruct (P k2); cbn; [|auto].
    constructor; [|auto]. intros H. apply H1.
    clear - H. induction r as [|[a b] r IH]; cbn in *; [tauto|].
    destruct (P a); cbn in *; [destruct H; auto|auto].
  Qed.
End AMapFacts.

(* ---------- insertion sort ---------- *)
Section SortFacts.
  Context {A : Type}.
  Variable leb : A -> A -> bool.

  Lemma insert_perm x l : Permutation (insert_sorted leb x l) (x :: l).
  Proof.
    induction l as [|y r IH]; cbn; [reflexivity|].
    destruct (leb x y); [reflexivity|].
    rewrite IH. apply perm_swap.
  Qed.
  Lemma isort_perm l : Permutation (isort leb l) l.
  Proof.
    induction l as [|x r IH]; cbn; [reflexivity|].
    rewrite insert_perm, IH; reflexivity.
  Qed.
  Lemma isort_length l : length (isort leb l) = length l.
  Proof. apply Permutation_length, isort_perm. Qed.
  Lemma isort_In x l : In x (isort leb l) <-> In x l.
  Proof. split; apply Permutation_in; [apply isort_perm|symmetry; apply isort_perm]. Qed.
  Lemma isort_nil l : isort leb l = [] <-> l = [].
  Proof.
    split; intros H; [|subst; reflexivity].
    apply length_zero_iff_nil. rewrite <- isort_length, H; reflexivity.
  Qed.
End SortFacts.

Lemma map_isort_perm {A B} (leb : A -> A -> bool) (f : A -> B) l :
  Permutation (map f (isort leb l)) (map f l).
Proof. apply Permutation_map, isort_perm. Qed.

Lemma nodup_map_isort {A B} (leb : A -> A -> bool) (f : A -> B) l :
  NoDup (map f l) -> NoDup (map f (isort leb l)).
Proof. intros H. eapply Permutation_NoDup; [symmetry; apply map_isort_perm|exact H]. Qed.

(* ---------- de-duplication of arguments ---------- *)
Lemma dedup_In seen l x : In x (dedup seen l) <-> (In x l /\ ~ In x seen).
Proof.
  revert seen; induction l as [|y r IH]; intros seen; cbn; [tauto|].
  destruct (bytes_mem y seen) eqn:E.
  - apply bytes_mem_In in E. rewrite IH. split; [intros [H N]; auto|].
    intros [[H|H] N]; [subst; contradiction|auto].
  - assert (~ In y seen) by (intros H; apply bytes_mem_In in H; congruence).
    cbn. rewrite IH. cbn. split.
    + intros [H1|[H1 H2]]; [subst; auto|]. split; [auto|tauto].
    + intros [[H1|H1] N]; [auto|]. destruct (list_eq_dec N.eq_dec y x) as [->|Ne]; [auto|].
      right; split; [auto|]. intros [H2|H2]; [congruence|contradiction].
Qed.

Lemma dedup_NoDup seen l : NoDup (dedup seen l).
Proof.
  revert seen; induction l as [|y r IH]; intros seen; cbn; [constructor|].
  destruct (bytes_mem y seen); [apply IH|].
  constructor; [|apply IH]. intros H. apply dedup_In in H. destruct H as [_ N]. apply N; left; reflexivity.
Qed.

Lemma dedup_nil_In l x : In x (dedup [] l) <-> In x l.
Proof. rewrite dedup_In; cbn; tauto. Qed.

Lemma last_wins_keys_NoDup {V} (l : list (bytes * V)) : NoDup (map fst (last_wins l)).
Proof.
  induction l as [|[k v] r IH]; cbn; [constructor|].
  destruct (bytes_mem k (map fst r)) eqn:E; [exact IH|].
  cbn. constructor; [|exact IH].
  intros H. assert (In k (map fst r)).
  { clear - H. induction r as [|[a b] r IH]; cbn in *; [tauto|].
    destruct (bytes_mem a (map fst r)) eqn:E; [right; auto|]. cbn in H. destruct H; auto. }
  apply bytes_mem_In in H0; congruence.
Qed.

Lemma last_wins_keys_In {V} (l : list (bytes * V)) k : In k (map fst (last_wins l)) <-> In k (map fst l).
Proof.
  induction l as [|[a b] r IH]; cbn; [tauto|].
  destruct (bytes_mem a (map fst r)) eqn:E.
  - rewrite IH. apply bytes_mem_In in E. split; [auto|]. intros [H|H]; [subst; auto|auto].
  - cbn. rewrite IH; tauto.
Qed.

(* ---------- membership after put / delete (unique keys) ---------- *)
Section AMapIn.
  Context {K V : Type}.
  Variable eqb : K -> K -> bool.
  Hypothesis eqb_eq : forall a b, eqb a b = true <-> a = b.

  Lemma In_aput k v (m : list (K * V)) e : NoDup (map fst m) ->
    (In e (aput eqb k v m) <-> e = (k, v) \/ (In e m /\ fst e <> k)).
  Proof.
    intros ND. induction m as [|[k2 v2] r IH]; cbn.
    - split; [intros [H|[]]; left; auto|intros [H|[[] _]]; left; auto].
    - inversion ND as [|? ? Hn ND']; subst. destruct (eqb k k2) eqn:E.
      + apply eqb_eq in E; subst k2. cbn. split.
        * intros [H|H]; [left; auto|right; split; [right; exact H|]].
          intros Hk. apply Hn. rewrite <- Hk. apply in_map; exact H.
        * intros [H|[[H|H] N]]; [left; auto| |right; exact H]. subst e; cbn in N; contradiction.
      + assert (k <> k2) by (intros ->; rewrite (eqb_refl eqb eqb_eq) in E; discriminate).
        cbn. rewrite (IH ND'). split.
        * intros [H0|[H0|[H0 N]]]; [right; split; [left; exact H0|subst e; cbn; congruence]|left; exact H0|right; split; [right; exact H0|exact N]].
        * intros [H0|[[H0|H0] N]]; [right; left; exact H0|left; exact H0|right; right; split; assumption].
  Qed.

  Lemma In_adel k (m : list (K * V)) e : NoDup (map fst m) ->
    (In e (adel eqb k m) <-> In e m /\ fst e <> k).
  Proof.
    intros ND. induction m as [|[k2 v2] r IH]; cbn; [tauto|].
    inversion ND as [|? ? Hn ND']; subst. destruct (eqb k k2) eqn:E.
    - apply eqb_eq in E; subst k2. split.
      + intros H. split; [right; exact H|]. intros Hk. apply Hn. rewrite <- Hk. apply in_map; exact H.
      + intros [[H|H] N]; [subst e; cbn in N; contradiction|exact H].
    - assert (k <> k2) by (intros ->; rewrite (eqb_refl eqb eqb_eq) in E; discriminate).
      cbn. rewrite (IH ND'). split.
      + intros [H0|[H0 N]]; [split; [left; exact H0|subst e; cbn; congruence]|split; [right; exact H0|exact N]].
      + intros [[H0|H0] N]; [left; exact H0|right; split; assumption].
  Qed.

  Lemma aput_same k v (m : list (K * V)) : aget eqb k m = Some v -> aput eqb k v m = m.
  Proof.
    induction m as [|[k2 v2] r IH]; cbn; [discriminate|].
    destruct (eqb k k2) eqn:E; [intros H; inversion H; reflexivity|intros H; rewrite IH; auto].
  Qed.
End AMapIn.

(* ---------- the sorted enumeration is canonical ---------- *)
Section SortCanon.
  Context {A : Type}.
  Variable leb : A -> A -> bool.
  Hypothesis leb_total : forall a b, leb a b = true \/ leb b a = true.
  Hypothesis leb_trans : forall a b c, leb a b = true -> leb b c = true -> leb a c = true.

  Definition le_all (x : A) (l : list A) : Prop := forall y, In y l -> leb x y = true.
  Inductive ssorted : list A -> Prop :=
  | ss_nil : ssorted []
  | ss_cons x l : le_all x l -> ssorted l -> ssorted (x :: l).

  Lemma insert_ssorted x l : ssorted l -> ssorted (insert_sorted leb x l).
  Proof.
    induction 1 as [|y r Hy Hs IH]; cbn; [constructor; [intros ? []|constructor]|].
    destruct (leb x y) eqn:E.
    - constructor; [|constructor; assumption].
      intros z [<-|Hz]; [exact E|]. eapply leb_trans; [exact E|apply Hy; exact Hz].
    - constructor; [|exact IH].
      intros z Hz. apply (Permutation_in _ (insert_perm leb x r)) in Hz. destruct Hz as [<-|Hz]; [|apply Hy; exact Hz].
      destruct (leb_total x y) as [H|H]; [congruence|exact H].
  Qed.
  Lemma isort_ssorted l : ssorted (isort leb l).
  Proof. induction l as [|x r IH]; cbn; [constructor|apply insert_ssorted; exact IH]. Qed.

  (* equal elements are the only ones that are mutually <= (on the lists considered) *)
  Lemma ssorted_perm_eq l l' :
    (forall a b, In a l -> In b l -> leb a b = true -> leb b a = true -> a = b) ->
    ssorted l -> ssorted l' -> Permutation l l' -> l = l'.
  Proof.
    revert l'. induction l as [|x r IH]; intros l' AS S S' P.
    - apply Permutation_nil in P; subst; reflexivity.
    - destruct l' as [|y r']; [symmetry in P; apply Permutation_nil in P; discriminate|].
      inversion S as [|? ? Hx Sr]; subst. inversion S' as [|? ? Hy Sr']; subst.
      assert (Exy : x = y).
      { assert (Iy : In y (x :: r)) by (eapply Permutation_in; [symmetry; exact P|left; reflexivity]).
        assert (Ix : In x (y :: r')) by (eapply Permutation_in; [exact P|left; reflexivity]).
        destruct Iy as [E|Iy]; [exact E|]. destruct Ix as [E|Ix]; [symmetry; exact E|].
        apply AS; [left; reflexivity|right; exact Iy|apply Hx; exact Iy|apply Hy; exact Ix]. }
      subst y. f_equal. apply IH; auto.
      + intros a b Ha Hb. apply AS; right; assumption.
      + eapply Permutation_cons_inv; exact P.
  Qed.

  Lemma isort_canonical l l' :
    (forall a b, In a l -> In b l -> leb a b = true -> leb b a = true -> a = b) ->
    Permutation l l' -> isort leb l = isort leb l'.
  Proof.
    intros AS P. apply ssorted_perm_eq; try apply isort_ssorted.
    - intros a b Ha Hb. apply AS; [apply (proj1 (isort_In leb a l)); exact Ha|apply (proj1 (isort_In leb b l)); exact Hb].
    - rewrite (isort_perm leb l), (isort_perm leb l'). exact P.
  Qed.
End SortCanon.

(* order facts for byte strings *)
Lemma bytes_leb_total a b : bytes_leb a b = true \/ bytes_leb b a = true.
Proof.
  unfold bytes_leb. rewrite (bytes_cmp_antisym a b). destruct (bytes_cmp a b); cbn; auto.
Qed.
Lemma bytes_leb_antisym a b : bytes_leb a b = true -> bytes_leb b a = true -> a = b.
Proof.
  unfold bytes_leb. rewrite (bytes_cmp_antisym a b). destruct (bytes_cmp a b) eqn:E; cbn; try discriminate.
  intros _ _. apply bytes_cmp_eq; exact E.
Qed.
Lemma bytes_leb_trans a b c : bytes_leb a b = true -> bytes_leb b c = true -> bytes_leb a c = true.
Proof.
  unfold bytes_leb. destruct (bytes_cmp a b) eqn:E1; try discriminate; destruct (bytes_cmp b c) eqn:E2; try discriminate; intros _ _.
  - apply bytes_cmp_eq in E1, E2. subst. rewrite (proj2 (bytes_cmp_eq c c) eq_refl). reflexivity.
  - apply bytes_cmp_eq in E1. subst. rewrite E2. reflexivity.
  - apply bytes_cmp_eq in E2. subst. rewrite E1. reflexivity.
  - rewrite (bytes_cmp_trans_lt a b c E1 E2). reflexivity.
Qed.

(* ---------- deleting key by key what a range scan returned = filtering the range out ---------- *)
Section DeleteEach.
  Context {K V : Type}.
  Variable eqb : K -> K -> bool.
  Hypothesis eqb_eq : forall a b, eqb a b = true <-> a = b.

  Lemma filter_true {A} (l : list A) : filter (fun _ => true) l = l.
  Proof. induction l as [|x r IH]; cbn; [reflexivity|rewrite IH; reflexivity]. Qed.
  Lemma filter_and {A} (p q : A -> bool) (l : list A) : filter p (filter q l) = filter (fun x => q x && p x) l.
  Proof.
    induction l as [|x r IH]; cbn; [reflexivity|]. destruct (q x); cbn; [destruct (p x); rewrite IH; reflexivity|exact IH].
  Qed.

  Lemma adel_filter k (m : list (K * V)) : NoDup (map fst m) ->
    adel eqb k m = filter (fun e => negb (eqb k (fst e))) m.
  Proof.
    induction m as [|[k' v'] r IH]; intros ND; cbn [adel filter map fst] in *; [reflexivity|].
    inversion ND as [|? ? Hn ND']; subst. destruct (eqb k k') eqn:E; cbn [negb].
    - apply eqb_eq in E; subst k'. symmetry. rewrite <- (filter_true r) at 2. apply filter_ext_in.
      intros [k2 v2] Hin. cbn [fst]. destruct (eqb k k2) eqn:E2; [|reflexivity].
      apply eqb_eq in E2; subst k2. exfalso. apply Hn. apply in_map_iff. exists (k, v2). auto.
    - rewrite IH by exact ND'. reflexivity.
  Qed.

  Lemma fold_adel_filter ks : forall (m : list (K * V)), NoDup (map fst m) ->
    fold_left (fun acc k => adel eqb k acc) ks m = filter (fun e => negb (existsb (fun k => eqb k (fst e)) ks)) m.
  Proof.
    induction ks as [|k ks IH]; intros m ND; cbn [fold_left existsb negb]; [symmetry; apply filter_true|].
    rewrite IH by (apply (nodup_adel eqb); exact ND). rewrite (adel_filter k m ND), filter_and.
    apply filter_ext. intros e. destruct (eqb k (fst e)); reflexivity.
  Qed.

  (* iterate the keys satisfying a predicate of the key and delete each of them *)
  Lemma delete_each_filter (P : K -> bool) (m : list (K * V)) : NoDup (map fst m) ->
    fold_left (fun acc k => adel eqb k acc) (map fst (filter (fun e => P (fst e)) m)) m = filter (fun e => negb (P (fst e))) m.
  Proof.
    intros ND. rewrite fold_adel_filter by exact ND. apply filter_ext_in. intros e He. f_equal.
    destruct (P (fst e)) eqn:Pe.
    - apply existsb_exists. exists (fst e). split; [|apply eqb_eq; reflexivity].
      apply in_map. apply filter_In. split; [exact He|exact Pe].
    - destruct (existsb _ _) eqn:X; [|reflexivity]. apply existsb_exists in X. destruct X as (k & Hk & Ek).
      apply eqb_eq in Ek. subst k. apply in_map_iff in Hk. destruct Hk as (e' & E' & He'). apply filter_In in He'.
      destruct He' as [_ P']. rewrite E' in P'. congruence.
  Qed.
End DeleteEach.
