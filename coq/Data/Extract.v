(* Data/Extract.v — extraction of the data-mapping models (ExtrOcamlBasic only) *)
From Coq Require Import ExtrOcamlBasic.
From ZV Require Import Data.Base Data.Run.
Extraction Language OCaml.
Extraction "model.ml" Z.of_N N.of_nat Nat.add m_init s_init map_step spec_step parse_cmd map_observe spec_observe map_table_count spec_table_count map_engine_counts
  format_int score_bits.
