(* Data/RepColl.v — the representation invariant of a size-counted collection (hash, set; reused by
   zset for its member index) and its preservation by the generic write batches of Map.v. *)
From ZV Require Import Common.Bytes Common.BytesFacts Data.Consts Data.Base Data.BaseFacts Data.Map.
From Coq Require Import Permutation Lia ZifyBool.
Open Scope Z_scope.

Section RepC.
  Context {V : Type}.
  Variable compact : bool.

  Definition ver_ok (clock v : Z) : Prop := if compact then 0 < v <= clock else v = 0.

  (* Rep: element keys unique; stored size = number of element keys of the current generation, never 0;
     under local_deletion no element key without a meta key; generations bounded by the clock
     (wait_compact) or 0 (local_deletion) *)
  Record RepC (clock : Z) (c : coll V) : Prop := {
    rc_nodup : NoDup (map fst (c_elems c));
    rc_meta : forall m, c_meta c = Some m ->
        0 < cm_size m /\ cm_size m = Z.of_nat (length (gen_elems (cm_ver m) (c_elems c))) /\ ver_ok clock (cm_ver m);
    rc_none : c_meta c = None -> compact = false -> c_elems c = [];
    rc_vers : forall e, In e (c_elems c) -> ver_ok clock (fst (fst e));
    rc_sub : forall e, In e (c_elems c) -> subkey_ok (snd (fst e)) = true }.

  Lemma ver_ok_mono clock clock' v : clock <= clock' -> ver_ok clock v -> ver_ok clock' v.
  Proof. unfold ver_ok; destruct compact; lia. Qed.

  Lemma RepC_mono clock clock' c : clock <= clock' -> RepC clock c -> RepC clock' c.
  Proof.
    intros L [A B C D E]. constructor; auto.
    - intros m Hm. destruct (B m Hm) as (b1 & b2 & b3). repeat split; auto. eapply ver_ok_mono; eauto.
    - intros e He. eapply ver_ok_mono; eauto.
  Qed.

  Lemma RepC_empty clock : RepC clock (@empty_coll V).
  Proof. constructor; cbn; [constructor|discriminate|auto|tauto|tauto]. Qed.

  (* ---------- facts about one generation ---------- *)
  Definition inv (v : Z) : vkey -> bool := fun k => fst k =? v.
  Lemma gen_elems_kfilter v (es : list (vkey * V)) : gen_elems v es = kfilter (inv v) es.
  Proof. reflexivity. Qed.

  Definition gsize (v : Z) (es : list (vkey * V)) : Z := Z.of_nat (length (gen_elems v es)).

  Lemma emem_gen v f (es : list (vkey * V)) : emem v f (gen_elems v es) = emem v f es.
  Proof.
    unfold emem, amem. rewrite gen_elems_kfilter, (aget_kfilter vkey_eqb vkey_eqb_eq); [reflexivity|].
    unfold inv; cbn. apply Z.eqb_refl.
  Qed.

  Lemma gsize_eput v f x (es : list (vkey * V)) :
    gsize v (eput v f x es) = gsize v es + (if emem v f es then 0 else 1).
  Proof.
    unfold gsize, eput. rewrite !gen_elems_kfilter, (kfilter_aput_in vkey_eqb vkey_eqb_eq).
    2:{ unfold inv; cbn; apply Z.eqb_refl. }
    rewrite (length_aput vkey_eqb). rewrite <- gen_elems_kfilter.
    change (amem vkey_eqb (v, f) (gen_elems v es)) with (emem v f (gen_elems v es)). rewrite emem_gen.
    destruct (emem v f es); lia.
  Qed.

  Lemma gsize_eput_other v v' f x (es : list (vkey * V)) : v' <> v -> gsize v (eput v' f x es) = gsize v es.
  Proof.
    intros N. unfold gsize, eput. rewrite !gen_elems_kfilter, (kfilter_aput_out vkey_eqb vkey_eqb_eq); [reflexivity|].
    unfold inv; cbn. apply Z.eqb_neq; exact N.
  Qed.

  Lemma gsize_edel v f (es : list (vkey * V)) : NoDup (map fst es) ->
    gsize v (edel v f es) = gsize v es - (if emem v f es then 1 else 0).
  Proof.
    intros ND. unfold gsize, edel. rewrite !gen_elems_kfilter, (kfilter_adel_in vkey_eqb vkey_eqb_eq).
    2:{ unfold inv; cbn; apply Z.eqb_refl. }
    rewrite (length_adel vkey_eqb). rewrite <- gen_elems_kfilter.
    change (amem vkey_eqb (v, f) (gen_elems v es)) with (emem v f (gen_elems v es)). rewrite emem_gen.
    destruct (emem v f es) eqn:E; [|lia].
    assert (0 < length (gen_elems v es))%nat.
    { rewrite <- emem_gen in E. unfold emem in E. apply (amem_In vkey_eqb vkey_eqb_eq) in E.
      destruct (gen_elems v es); cbn in *; [tauto|lia]. }
    lia.
  Qed.

  Lemma emem_eput v f g x (es : list (vkey * V)) : emem v g (eput v f x es) = bytes_eqb g f || emem v g es.
  Proof.
    unfold emem, eput. rewrite (amem_aput vkey_eqb vkey_eqb_eq). unfold vkey_eqb; cbn.
    rewrite Z.eqb_refl; reflexivity.
  Qed.

  Lemma emem_edel v f g (es : list (vkey * V)) : NoDup (map fst es) ->
    emem v g (edel v f es) = negb (bytes_eqb g f) && emem v g es.
  Proof.
    intros ND. unfold emem, edel. rewrite (amem_adel vkey_eqb vkey_eqb_eq); [|exact ND]. unfold vkey_eqb; cbn.
    rewrite Z.eqb_refl; reflexivity.
  Qed.

  Lemma bytes_eqb_false_ne a b : a <> b -> bytes_eqb a b = false.
  Proof. intros N. destruct (bytes_eqb a b) eqn:E; [apply bytes_eqb_eq in E; contradiction|reflexivity]. Qed.

  (* ---------- a batch of puts over distinct sub keys ---------- *)
  Lemma count_new_cons v f fs (es : list (vkey * V)) :
    count_new v (f :: fs) es = (if emem v f es then 0 else 1) + count_new v fs es.
  Proof. unfold count_new; cbn [filter]. destruct (emem v f es); cbn [negb length]; lia. Qed.
  Lemma count_old_cons v f fs (es : list (vkey * V)) :
    count_old v (f :: fs) es = (if emem v f es then 1 else 0) + count_old v fs es.
  Proof. unfold count_old; cbn [filter]. destruct (emem v f es); cbn [length]; lia. Qed.

  Lemma count_new_ext v fs (es es' : list (vkey * V)) :
    (forall f, In f fs -> emem v f es' = emem v f es) -> count_new v fs es' = count_new v fs es.
  Proof.
    induction fs as [|f r IH]; intros H; [reflexivity|].
    rewrite !count_new_cons, H, IH; [reflexivity| |left; reflexivity].
    intros g Hg; apply H; right; exact Hg.
  Qed.

  Lemma gsize_put_all v kvs (es : list (vkey * V)) : NoDup (map fst kvs) ->
    gsize v (put_all v kvs es) = gsize v es + count_new v (map fst kvs) es.
  Proof.
    revert es; induction kvs as [|[k x] r IH]; intros es ND; cbn.
    - unfold count_new; cbn; lia.
    - inversion ND as [|? ? Hn ND']; subst. unfold put_all in *; cbn. rewrite IH; [|exact ND'].
      rewrite gsize_eput, count_new_cons.
      rewrite (count_new_ext v (map fst r) es (eput v k x es)); [lia|].
      intros g Hg. rewrite emem_eput, bytes_eqb_false_ne; [reflexivity|]. intros ->; contradiction.
  Qed.

  Lemma put_all_nodup v kvs (es : list (vkey * V)) : NoDup (map fst es) -> NoDup (map fst (put_all v kvs es)).
  Proof.
    revert es; induction kvs as [|[k x] r IH]; intros es ND; cbn; [exact ND|].
    unfold put_all in *; cbn. apply IH. apply (nodup_aput vkey_eqb vkey_eqb_eq); exact ND.
  Qed.

  Lemma put_all_In v kvs (es : list (vkey * V)) e :
    In e (put_all v kvs es) -> In e es \/ (fst (fst e) = v /\ In (snd (fst e)) (map fst kvs)).
  Proof.
    revert es; induction kvs as [|[k x] r IH]; intros es; cbn [map fst]; [cbn; auto|].
    change (put_all v ((k, x) :: r) es) with (put_all v r (eput v k x es)). intros H. apply IH in H.
    destruct H as [H|[H1 H2]]; [|right; split; [exact H1|right; exact H2]].
    clear IH. unfold eput in H. induction es as [|[k2 v2] es IH]; cbn in *.
    - destruct H as [<-|[]]; right; cbn; auto.
    - destruct (vkey_eqb (v, k) k2) eqn:E.
      + apply vkey_eqb_eq in E; subst. destruct H as [<-|H]; [right; cbn; auto|left; right; exact H].
      + destruct H as [<-|H]; [left; left; reflexivity|]. destruct (IH H) as [G|G]; [left; right; exact G|right; exact G].
  Qed.

  Lemma put_all_length_ge v kvs (es : list (vkey * V)) : (length es <= length (put_all v kvs es))%nat.
  Proof.
    revert es; induction kvs as [|[k x] r IH]; intros es; cbn; [lia|].
    unfold put_all in *; cbn. etransitivity; [|apply IH]. unfold eput. rewrite (length_aput vkey_eqb). lia.
  Qed.

  Lemma put_all_nil_iff v kvs (es : list (vkey * V)) : put_all v kvs es = [] -> kvs = [] /\ es = [].
  Proof.
    intros H. pose proof (put_all_length_ge v kvs es) as L. rewrite H in L. cbn in L.
    assert (es = []) by (destruct es; cbn in *; [reflexivity|lia]). subst es. split; [|reflexivity].
    destruct kvs as [|[k x] r]; [reflexivity|]. exfalso.
    change (put_all v ((k, x) :: r) []) with (put_all v r (eput v k x [])) in H.
    pose proof (put_all_length_ge v r (eput v k x [])) as L2. rewrite H in L2. cbn in L2. lia.
  Qed.

  (* ---------- a batch of deletes over distinct sub keys ---------- *)
  Lemma gsize_del_some v cm ks (es : list (vkey * V)) : NoDup ks -> NoDup (map fst es) ->
    (forall f, In f ks -> emem v f es = emem v f cm) ->
    gsize v (del_some v cm ks es) = gsize v es - count_old v ks cm.
  Proof.
    revert es; induction ks as [|k r IH]; intros es NDk ND Hm; cbn.
    - unfold count_old; cbn; lia.
    - inversion NDk as [|? ? Hn NDk']; subst. unfold del_some in *; cbn. rewrite count_old_cons.
      assert (Ek : emem v k es = emem v k cm) by (apply Hm; left; reflexivity).
      destruct (emem v k cm) eqn:E.
      + rewrite IH; [| exact NDk' | apply (nodup_adel vkey_eqb); exact ND |].
        * rewrite gsize_edel, Ek; [lia|exact ND].
        * intros f Hf. rewrite emem_edel; [|exact ND]. rewrite bytes_eqb_false_ne; [apply Hm; right; exact Hf|].
          intros ->; contradiction.
      + rewrite IH; [lia| exact NDk' | exact ND |]. intros f Hf; apply Hm; right; exact Hf.
  Qed.

  Lemma del_some_nodup v cm ks (es : list (vkey * V)) : NoDup (map fst es) -> NoDup (map fst (del_some v cm ks es)).
  Proof.
    revert es; induction ks as [|k r IH]; intros es ND; cbn; [exact ND|].
    unfold del_some in *; cbn. destruct (emem v k cm); apply IH; [apply (nodup_adel vkey_eqb)|]; exact ND.
  Qed.

  Lemma del_some_In v cm ks (es : list (vkey * V)) e : In e (del_some v cm ks es) -> In e es.
  Proof.
    revert es; induction ks as [|k r IH]; intros es; cbn; [auto|].
    unfold del_some in *; cbn. intros H. destruct (emem v k cm); apply IH in H; [|exact H].
    clear IH. unfold edel in H. induction es as [|[k2 v2] es IH]; cbn in *; [exact H|].
    destruct (vkey_eqb (v, k) k2); [right; exact H|]. destruct H as [H|H]; [left; exact H|right; auto].
  Qed.

  (* all elements in one generation: the whole list is that generation *)
  Lemma gen_all v (es : list (vkey * V)) : (forall e, In e es -> fst (fst e) = v) -> gen_elems v es = es.
  Proof.
    unfold gen_elems, vkey in *. induction es as [|e r IH]; intros H; cbn [filter]; [reflexivity|].
    rewrite (H e (or_introl eq_refl)), Z.eqb_refl, IH; [reflexivity|]. intros x Hx; apply H; right; exact Hx.
  Qed.
  Lemma gen_none v (es : list (vkey * V)) : (forall e, In e es -> fst (fst e) <> v) -> gen_elems v es = [].
  Proof.
    unfold gen_elems, vkey in *. induction es as [|e r IH]; intros H; cbn [filter]; [reflexivity|].
    destruct (fst (fst e) =? v) eqn:E; [apply Z.eqb_eq in E; exfalso; eapply H; [left; reflexivity|exact E]|].
    apply IH. intros x Hx; apply H; right; exact Hx.
  Qed.

  (* ---------- the three generic batch shapes preserve Rep ---------- *)
  Lemma st_size_rep clock c : RepC clock c -> st_size c = gsize (st_ver c) (c_elems c) \/ (c_meta c = None /\ st_size c = 0).
  Proof.
    intros R. unfold st_size, st_ver. destruct (c_meta c) as [m|] eqn:E; [left|right; auto].
    destruct (rc_meta _ _ R m E) as (_ & H & _). exact H.
  Qed.

  Lemma st_size_nonneg clock c : RepC clock c -> 0 <= st_size c.
  Proof.
    intros R. unfold st_size. destruct (c_meta c) as [m|] eqn:E; [|lia].
    destruct (rc_meta _ _ R m E); lia.
  Qed.

  (* the generation a write works on holds exactly the stored number of elements *)
  Lemma prep_gsize clock ts c : RepC clock c -> 0 <= clock < ts ->
    gsize (prep_ver compact ts c) (c_elems c) = st_size c /\ ver_ok ts (prep_ver compact ts c).
  Proof.
    intros R L. unfold prep_ver, st_size. destruct (c_meta c) as [m|] eqn:E.
    - destruct (rc_meta _ _ R m E) as (_ & H & Hv). split; [symmetry; exact H|].
      eapply ver_ok_mono; [|exact Hv]. lia.
    - destruct compact eqn:C.
      + split.
        * unfold gsize. rewrite gen_none; [reflexivity|]. intros e He.
          pose proof (rc_vers _ _ R e He) as Hv. unfold ver_ok in Hv. rewrite C in Hv. lia.
        * unfold ver_ok; rewrite C. lia.
      + split; [|unfold ver_ok; rewrite C; reflexivity].
        rewrite (rc_none _ _ R E C). reflexivity.
  Qed.

  Lemma count_new_nil v ks : count_new v ks (@nil (vkey * V)) = Z.of_nat (length ks).
  Proof.
    induction ks as [|k r IH]; [reflexivity|]. rewrite count_new_cons, IH. cbn [length].
    change (emem v k (@nil (vkey * V))) with false. cbv iota. lia.
  Qed.
  Lemma count_new_nonneg v ks (es : list (vkey * V)) : 0 <= count_new v ks es.
  Proof. unfold count_new; lia. Qed.
  Lemma count_old_nonneg v ks (es : list (vkey * V)) : 0 <= count_old v ks es.
  Proof. unfold count_old; lia. Qed.
  Lemma del_some_nil v cm ks : del_some v cm ks (@nil (vkey * V)) = [].
  Proof.
    induction ks as [|k r IH]; [reflexivity|]. unfold del_some in *; cbn. destruct (emem v k cm); exact IH.
  Qed.

  Lemma meta_none_size0 clock c : RepC clock c -> st_size c <= 0 -> c_meta c = None.
  Proof.
    intros R L. unfold st_size in L. destruct (c_meta c) as [m|] eqn:E; [|reflexivity].
    destruct (rc_meta _ _ R m E); lia.
  Qed.

  (* shape A: a batch of puts over distinct sub keys into the generation being written *)
  Lemma rep_put_batch clock ts c kvs :
    RepC clock c -> 0 <= clock < ts -> NoDup (map fst kvs) -> forallb subkey_ok (map fst kvs) = true ->
    RepC ts (Build_coll (set_size (prep_ver compact ts c)
                                  (st_size c + count_new (prep_ver compact ts c) (map fst kvs) (c_elems c)))
                        (put_all (prep_ver compact ts c) kvs (c_elems c))).
  Proof.
    intros R L ND SK. destruct (prep_gsize clock ts c R L) as [G Vok].
    set (v := prep_ver compact ts c) in *.
    pose proof (count_new_nonneg v (map fst kvs) (c_elems c)) as Cn.
    pose proof (st_size_nonneg clock c R) as Sn.
    constructor; cbn [c_meta c_elems].
    - apply put_all_nodup, (rc_nodup _ _ R).
    - intros m Hm. unfold set_size in Hm.
      destruct (st_size c + count_new v (map fst kvs) (c_elems c) <=? 0) eqn:E; [discriminate|].
      inversion Hm; subst m; cbn [cm_size cm_ver]. repeat split; [lia| |exact Vok].
      fold (gsize v (put_all v kvs (c_elems c))). rewrite gsize_put_all; [lia|exact ND].
    - intros Hm C. unfold set_size in Hm.
      destruct (st_size c + count_new v (map fst kvs) (c_elems c) <=? 0) eqn:E; [|discriminate].
      assert (S0 : st_size c = 0) by lia.
      pose proof (meta_none_size0 clock c R ltac:(lia)) as Mn.
      pose proof (rc_none _ _ R Mn C) as En. rewrite En in *.
      rewrite count_new_nil in E. rewrite map_length in E.
      destruct kvs; [reflexivity|cbn [length] in E; lia].
    - intros e He. apply put_all_In in He. destruct He as [He|[He _]].
      + eapply ver_ok_mono; [|apply (rc_vers _ _ R e He)]. lia.
      + rewrite He; exact Vok.
    - intros e He. apply put_all_In in He. destruct He as [He|[_ He]].
      + apply (rc_sub _ _ R e He).
      + rewrite forallb_forall in SK. apply SK; exact He.
  Qed.

  (* shape A': one put onto a sub key that already exists; the meta key is not touched *)
  Lemma rep_put_existing clock ts c f x :
    RepC clock c -> 0 <= clock < ts -> emem (prep_ver compact ts c) f (c_elems c) = true -> subkey_ok f = true ->
    RepC ts (Build_coll (c_meta c) (eput (prep_ver compact ts c) f x (c_elems c))).
  Proof.
    intros R L M SK. destruct (prep_gsize clock ts c R L) as [G Vok].
    set (v := prep_ver compact ts c) in *.
    constructor; cbn [c_meta c_elems].
    - apply (nodup_aput vkey_eqb vkey_eqb_eq), (rc_nodup _ _ R).
    - intros m Hm. destruct (rc_meta _ _ R m Hm) as (a & b & d). repeat split; [exact a| |eapply ver_ok_mono; [|exact d]; lia].
      assert (v = cm_ver m) by (unfold v, prep_ver; rewrite Hm; reflexivity).
      rewrite <- H in *. fold (gsize v (eput v f x (c_elems c))). fold (gsize v (c_elems c)) in b. rewrite gsize_eput, M. lia.
    - intros Hm C. exfalso. rewrite (rc_none _ _ R Hm C) in M. discriminate.
    - intros e He. change (eput v f x (c_elems c)) with (put_all v [(f, x)] (c_elems c)) in He.
      apply put_all_In in He. destruct He as [He|[He _]].
      + eapply ver_ok_mono; [|apply (rc_vers _ _ R e He)]. lia.
      + rewrite He; exact Vok.
    - intros e He. change (eput v f x (c_elems c)) with (put_all v [(f, x)] (c_elems c)) in He.
      apply put_all_In in He. destruct He as [He|[_ He]].
      + apply (rc_sub _ _ R e He).
      + cbn in He. destruct He as [<-|[]]. exact SK.
  Qed.

  (* shape B: a batch of deletes over distinct sub keys of the stored generation *)
  Lemma rep_del_batch clock c ks :
    RepC clock c -> NoDup ks ->
    RepC clock (Build_coll (set_size (st_ver c) (st_size c - count_old (st_ver c) ks (c_elems c)))
                           (del_some (st_ver c) (c_elems c) ks (c_elems c))).
  Proof.
    intros R ND. set (v := st_ver c) in *.
    pose proof (count_old_nonneg v ks (c_elems c)) as Cn.
    pose proof (rc_nodup _ _ R) as NDe.
    assert (GS : gsize v (del_some v (c_elems c) ks (c_elems c)) = gsize v (c_elems c) - count_old v ks (c_elems c)).
    { apply gsize_del_some; auto. }
    constructor; cbn [c_meta c_elems].
    - apply del_some_nodup; exact NDe.
    - intros m Hm. unfold set_size in Hm.
      destruct (st_size c - count_old v ks (c_elems c) <=? 0) eqn:E; [discriminate|].
      inversion Hm; subst m; cbn [cm_size cm_ver].
      destruct (c_meta c) as [m0|] eqn:E0.
      + destruct (rc_meta _ _ R m0 E0) as (a & b & d).
        assert (v = cm_ver m0) by (unfold v, st_ver; rewrite E0; reflexivity).
        assert (st_size c = cm_size m0) by (unfold st_size; rewrite E0; reflexivity).
        repeat split; [lia| |rewrite H; exact d].
        fold (gsize v (del_some v (c_elems c) ks (c_elems c))). rewrite GS, H. fold (gsize (cm_ver m0) (c_elems c)) in b. lia.
      + exfalso. unfold st_size in E. rewrite E0 in E. lia.
    - intros Hm C. unfold set_size in Hm.
      destruct (st_size c - count_old v ks (c_elems c) <=? 0) eqn:E; [|discriminate].
      destruct (c_meta c) as [m0|] eqn:E0.
      + destruct (rc_meta _ _ R m0 E0) as (a & b & d). unfold ver_ok in d. rewrite C in d.
        assert (Hv : v = 0) by (unfold v, st_ver; rewrite E0; exact d).
        assert (st_size c = cm_size m0) by (unfold st_size; rewrite E0; reflexivity).
        assert (A0 : forall e, In e (c_elems c) -> fst (fst e) = v).
        { intros e He. pose proof (rc_vers _ _ R e He) as X. unfold ver_ok in X. rewrite C in X. lia. }
        assert (A1 : forall e, In e (del_some v (c_elems c) ks (c_elems c)) -> fst (fst e) = v).
        { intros e He. apply A0. eapply del_some_In; exact He. }
        unfold gsize in GS. rewrite (gen_all v _ A1), (gen_all v _ A0) in GS.
        rewrite d, <- Hv in b. rewrite (gen_all v _ A0) in b.
        destruct (del_some v (c_elems c) ks (c_elems c)); [reflexivity|cbn [length] in GS; lia].
      + rewrite (rc_none _ _ R E0 C). apply del_some_nil.
    - intros e He. apply (rc_vers _ _ R e). eapply del_some_In; exact He.
    - intros e He. apply (rc_sub _ _ R e). eapply del_some_In; exact He.
  Qed.

  (* shape C: clear *)
  Lemma lazy_clear_compact ts v : lazy_clear compact ts v = true -> compact = true.
  Proof. unfold lazy_clear. destruct compact; [reflexivity|discriminate]. Qed.

  (* ---------- the two ways of removing a generation remove exactly its element keys ---------- *)
  Lemma in_range_gen v (k : vkey) : in_range (BStart v) (BStop v) k = (fst k =? v).
  Proof. unfold in_range, bound_le, lt_bound. lia. Qed.
  (* the end key of the range is the STOP key: with the start key as end the range is empty *)
  Lemma in_range_start_start v (k : vkey) : in_range (BStart v) (BStart v) k = false.
  Proof. unfold in_range, bound_le, lt_bound. lia. Qed.

  Theorem delete_range_exact v (es : list (vkey * V)) : delete_range (BStart v) (BStop v) es = drop_gen v es.
  Proof. unfold delete_range, drop_gen. apply filter_ext. intros e. rewrite in_range_gen. reflexivity. Qed.
  Theorem delete_range_to_start_deletes_nothing v (es : list (vkey * V)) : delete_range (BStart v) (BStart v) es = es.
  Proof.
    unfold delete_range. rewrite <- (filter_true es) at 2. apply filter_ext. intros e. rewrite in_range_start_start. reflexivity.
  Qed.
  Theorem delete_each_exact v (es : list (vkey * V)) : NoDup (map fst es) -> delete_each (BStart v) (BStop v) es = drop_gen v es.
  Proof.
    intros ND. unfold delete_each, drop_gen.
    rewrite (delete_each_filter vkey_eqb vkey_eqb_eq (in_range (BStart v) (BStop v)) es ND).
    apply filter_ext. intros e. rewrite in_range_gen. reflexivity.
  Qed.
  (* every size takes exactly one of the two ways (hDeleteAll tests them independently) *)
  Theorem clear_elems_tests_exact size v (es : list (vkey * V)) : NoDup (map fst es) -> clear_elems_tests size v es = drop_gen v es.
  Proof.
    intros ND. unfold clear_elems_tests. destruct (size <=? range_delete_num) eqn:A; destruct (range_delete_num <? size) eqn:B; try lia.
    - apply delete_each_exact; exact ND.
    - apply delete_range_exact.
  Qed.
  Theorem clear_elems_else_exact size v (es : list (vkey * V)) : NoDup (map fst es) -> clear_elems_else size v es = drop_gen v es.
  Proof.
    intros ND. unfold clear_elems_else. destruct (range_delete_num <? size); [apply delete_range_exact|apply delete_each_exact; exact ND].
  Qed.

  Lemma clear_coll_eq lazy tests (c : coll V) : NoDup (map fst (c_elems c)) ->
    clear_coll lazy tests c =
    match c_meta c return coll V with None => c | Some m => Build_coll None (if lazy then c_elems c else drop_gen (cm_ver m) (c_elems c)) end.
  Proof.
    intros ND. unfold clear_coll. destruct (c_meta c) as [m|]; [|reflexivity]. destruct lazy; [reflexivity|].
    destruct tests; [rewrite clear_elems_tests_exact|rewrite clear_elems_else_exact]; auto.
  Qed.

  Lemma rep_clear clock lazy tests (c : coll V) : (lazy = true -> compact = true) -> RepC clock c -> RepC clock (clear_coll lazy tests c).
  Proof.
    intros LZ R. rewrite (clear_coll_eq lazy tests c (rc_nodup _ _ R)). destruct (c_meta c) as [m|] eqn:E; [|exact R].
    constructor; cbn [c_meta c_elems].
    - destruct lazy; [apply (rc_nodup _ _ R)|].
      unfold drop_gen. apply (nodup_kfilter (fun k : vkey => negb (fst k =? cm_ver m))), (rc_nodup _ _ R).
    - discriminate.
    - intros _ C. destruct lazy; [rewrite (LZ eq_refl) in C; discriminate|]. unfold drop_gen.
      destruct (rc_meta _ _ R m E) as (_ & _ & d). unfold ver_ok in d. rewrite C in d.
      assert (A0 : forall e, In e (c_elems c) -> fst (fst e) = 0).
      { intros e He. pose proof (rc_vers _ _ R e He) as X. unfold ver_ok in X. rewrite C in X. exact X. }
      rewrite d. clear - A0. induction (c_elems c) as [|e r IH]; [reflexivity|]. cbn [filter].
      unfold vkey in *. rewrite (A0 e (or_introl eq_refl)). cbn. apply IH. intros x Hx; apply A0; right; exact Hx.
    - intros e He. apply (rc_vers _ _ R e). destruct lazy; [exact He|].
      unfold drop_gen in He. apply filter_In in He. tauto.
    - intros e He. apply (rc_sub _ _ R e). destruct lazy; [exact He|].
      unfold drop_gen in He. apply filter_In in He. tauto.
  Qed.
End RepC.
