(* Data/MapL.v — lists in the Map model (structured engine keys, see Map.v):
     l_meta  : LMeta key   MetaKey ListType table key  |->  (generation, head seq, tail seq)
     l_elems : element keys SeqKey table key ver seq   |->  value
   Transcribed (post-fix working tree):
     rockredis/t_list.go  lpush LPush RPush lpop LPop RPop ltrim2 LTrim lDelete LClear LSet lSetMeta parseListMeta
                          lHeaderAndMeta LIndex LLen LRange LKeyExists
   The repair path fixListKey (entered when a push would overwrite an element, a pop finds no element
   at the head/tail, or the new meta would have a negative size) is the explicit outcome RFault.
   No proofs in this file. *)
From ZV Require Export Data.Base.
From ZV Require Import Data.Consts Data.Map.
Open Scope Z_scope.

Inductive lcmd :=
| LCpush (tail : bool) (vs : list bytes)      (* tail = true: RPUSH *)
| LCpop (tail : bool)
| LCset (i : Z) (v : bytes)
| LCtrim (start stop : Z)
| LCclear
| LCinvalid
| LCfixkey.                                       (* LFIXKEY: the repair command (scanfixListKey) *)
Inductive lqry := LQlen | LQkeyexist | LQrange (start stop : Z) | LQindex (i : Z) | LQinvalid.

Record lmeta := { lm_ver : Z; lm_head : Z; lm_tail : Z }.
Definition skey := (Z * Z)%type.                      (* generation, sequence *)
Definition skey_eqb (a b : skey) : bool := (fst a =? fst b) && (snd a =? snd b).
Record lcoll := { l_meta : option lmeta; l_elems : list (skey * bytes) }.
Definition empty_lcoll : lcoll := {| l_meta := None; l_elems := [] |}.

(* parseListMeta of the stored meta (absent: both at the initial sequence, size 0) *)
Definition l_head (l : lcoll) : Z := match l_meta l with Some m => lm_head m | None => list_initial_seq end.
Definition l_tail (l : lcoll) : Z := match l_meta l with Some m => lm_tail m | None => list_initial_seq end.
Definition l_size (l : lcoll) : Z := match l_meta l with Some m => lm_tail m - lm_head m + 1 | None => 0 end.
Definition l_ver (l : lcoll) : Z := match l_meta l with Some m => lm_ver m | None => 0 end.
Definition l_prep_ver (compact : bool) (ts : Z) (l : lcoll) : Z :=
  match l_meta l with Some m => lm_ver m | None => if compact then ts else 0 end.
Definition l_exists (l : lcoll) : bool := match l_meta l with Some _ => true | None => false end.

Definition lget (v s : Z) (es : list (skey * bytes)) : option bytes := aget skey_eqb (v, s) es.
Definition lput (v s : Z) (x : bytes) (es : list (skey * bytes)) := aput skey_eqb (v, s) x es.
Definition ldel (v s : Z) (es : list (skey * bytes)) := adel skey_eqb (v, s) es.

(* lSetMeta: None = negative size (errListSeq) *)
Definition lset_meta (v head tail : Z) : option (option lmeta) :=
  let size := tail - head + 1 in
  if size <? 0 then None
  else if size =? 0 then Some None
  else Some (Some {| lm_ver := v; lm_head := head; lm_tail := tail |}).

(* element keys of one generation with sequence in [lo, hi], in key order *)
Definition seq_leb (a b : skey * bytes) : bool := snd (fst a) <=? snd (fst b).
Definition lscan (v lo hi : Z) (es : list (skey * bytes)) : list (Z * bytes) :=
  map (fun e => (snd (fst e), snd e))
      (isort seq_leb (filter (fun e => (fst (fst e) =? v) && (lo <=? snd (fst e)) && (snd (fst e) <=? hi)) es)).
Definition ldrop_range (v lo hi : Z) (es : list (skey * bytes)) : list (skey * bytes) :=
  filter (fun e => negb ((fst (fst e) =? v) && (lo <=? snd (fst e)) && (snd (fst e) <=? hi))) es.

(* sequences seq, seq+delta, ... for n pushed values *)
Fixpoint push_seqs (seq delta : Z) (vs : list bytes) : list (Z * bytes) :=
  match vs with [] => [] | x :: r => (seq, x) :: push_seqs (seq + delta) delta r end.

(* the sequence numbers a scan returned are continuous *)
Fixpoint contiguous (l : list Z) : bool :=
  match l with
  | a :: (b :: _) as r => (a + 1 =? b) && contiguous r
  | _ => true
  end.

(* lDelete: meta deleted; under wait_compact with a generation below the clearing timestamp the element
   keys are left to the compaction filter; otherwise the element keys head..tail go: with one
   DeleteRange [key head, key tail) when the list has more than RangeDeleteNum elements, key by key over
   the closed range [key head, key tail] otherwise; the key of tail is deleted afterwards in both cases
   ("delete range is [left, right), so we need delete end") *)
Definition lin_range (v lo hi : Z) (closed : bool) (k : skey) : bool :=
  (fst k =? v) && (lo <=? snd k) && (if closed then snd k <=? hi else snd k <? hi).
Definition ldelete_range (v lo hi : Z) (es : list (skey * bytes)) : list (skey * bytes) :=
  filter (fun e => negb (lin_range v lo hi false (fst e))) es.
Definition ldelete_each (v lo hi : Z) (es : list (skey * bytes)) : list (skey * bytes) :=
  fold_left (fun acc k => adel skey_eqb k acc) (map fst (filter (fun e => lin_range v lo hi true (fst e)) es)) es.
Definition lclear_elems (size v head tail : Z) (es : list (skey * bytes)) : list (skey * bytes) :=
  ldel v tail (if range_delete_num <? size then ldelete_range v head tail es else ldelete_each v head tail es).
Definition ldelete (lazy : bool) (l : lcoll) : lcoll * Z :=
  match l_meta l with
  | None => (l, 0)
  | Some m =>
      let size := l_size l in
      if size =? 0 then (l, 0)
      else ({| l_meta := None;
               l_elems := if lazy then l_elems l else lclear_elems size (lm_ver m) (lm_head m) (lm_tail m) (l_elems l) |}, size)
  end.

Definition lstep (compact : bool) (ts : Z) (key : bytes) (c : lcmd) (l : lcoll) : lcoll * reply :=
  match c with
  | LCinvalid => (l, RErr)
  | LCfixkey =>
      (* scanfixListKey: walk the element keys of the generation between listMinSeq and listMaxSeq; if they are
         continuous and head / tail of the meta are not the first / last one found, rewrite the meta (no key of
         the generation at all: delete it).  The handler drops every error and replies nil. *)
      match l_meta l with
      | None => (l, RNil)
      | Some m =>
          let seqs := map fst (lscan (lm_ver m) list_min_seq list_max_seq (l_elems l)) in
          if negb (contiguous seqs) then (l, RNil)
          else
            let fh := hd 0 seqs in
            let ft := last seqs 0 in
            if (lm_head m =? fh) && (lm_tail m =? ft) then (l, RNil)
            else match seqs with
                 | [] => if l_size l =? 0 then (l, RNil) else ({| l_meta := None; l_elems := l_elems l |}, RNil)
                 | _ => match lset_meta (lm_ver m) fh ft with
                        | Some m' => ({| l_meta := m'; l_elems := l_elems l |}, RNil)
                        | None => (l, RNil)
                        end
                 end
      end
  | LCpush tail vs =>
      if too_many vs then (l, RErr)
      else if negb (key_ok key) then (l, RErr)
      else
        let v := l_prep_ver compact ts l in
        let size := l_size l in
        match vs with
        | [] => (l, RInt size)
        | _ =>
          let delta := if tail then 1 else -1 in
          let seq0 := if tail then l_tail l else l_head l in
          let seq := if 0 <? size then seq0 + delta else seq0 in
          let cnt := Z.of_nat (length vs) in
          let last := seq + (cnt - 1) * delta in
          if (last <=? list_min_seq) || (list_max_seq <=? last) then (l, RErr)
          else
            let puts := push_seqs seq delta vs in
            if existsb (fun p => match lget v (fst p) (l_elems l) with Some _ => true | None => false end) puts
            then (l, RFault)
            else
              let es := fold_left (fun es p => lput v (fst p) (snd p) es) puts (l_elems l) in
              let head := if tail then l_head l else last in
              let tl := if tail then last else l_tail l in
              match lset_meta v head tl with
              | Some m => ({| l_meta := m; l_elems := es |}, RInt (size + cnt))
              | None => (l, RFault)
              end
        end
  | LCpop tail =>
      if negb (key_ok key) then (l, RErr)
      else if negb (l_exists l) then (l, RNil)
      else if l_size l =? 0 then (l, RNil)
      else
        let v := l_ver l in
        let seq := if tail then l_tail l else l_head l in
        match lget v seq (l_elems l) with
        | None => (l, RFault)
        | Some x =>
            let head := if tail then l_head l else l_head l + 1 in
            let tl := if tail then l_tail l - 1 else l_tail l in
            match lset_meta v head tl with
            | Some m => ({| l_meta := m; l_elems := ldel v seq (l_elems l) |}, RBulk x)
            | None => (l, RFault)
            end
        end
  | LCset i x =>
      if negb (key_ok key) then (l, RErr)
      else if negb (l_exists l) then (l, RErr)
      else if l_size l =? 0 then (l, RErr)
      else
        let seq := if 0 <=? i then l_head l + i else l_tail l + i + 1 in
        if (seq <? l_head l) || (l_tail l <? seq) then (l, RErr)
        else ({| l_meta := l_meta l; l_elems := lput (l_ver l) seq x (l_elems l) |}, RNil)
  | LCtrim start stop =>
      if negb (key_ok key) then (l, RErr)
      else if negb (l_exists l) then (l, RNil)
      else
        let llen := l_size l in
        let v := l_ver l in
        let head := l_head l in
        let start := if start <? 0 then llen + start else start in
        let stop := if stop <? 0 then llen + stop else stop in
        let start := if start <? 0 then 0 else start in            (* clamp first (fix 28dbe2d) *)
        if (llen <=? start) || (stop <? start) then (fst (ldelete (lazy_clear compact ts (l_ver l)) l), RNil)
        else
          let stop := if llen <=? stop then llen - 1 else stop in
          (* delete [head, head+start) and (head+stop, head+llen) key by key *)
          let es := filter (fun e => negb ((fst (fst e) =? v) &&
                                           (((head <=? snd (fst e)) && (snd (fst e) <? head + start)) ||
                                            ((head + stop <? snd (fst e)) && (snd (fst e) <? head + llen))))) (l_elems l) in
          match lset_meta v (head + start) (head + stop) with
          | Some m => ({| l_meta := m; l_elems := es |}, RNil)
          | None => (l, RFault)
          end
  | LCclear =>
      if negb (key_ok key) then (l, RErr)
      else let '(l', n) := ldelete (lazy_clear compact ts (l_ver l)) l in (l', RInt (if 0 <? n then 1 else 0))
  end.

Definition lquery (key : bytes) (q : lqry) (l : lcoll) : reply :=
  match q with
  | LQinvalid => RErr
  | LQlen => if negb (key_ok key) then RErr else RInt (l_size l)
  | LQkeyexist => if negb (key_ok key) then RErr else rbool (l_exists l)
  | LQindex i =>
      if negb (key_ok key) || negb (l_exists l) then RNil
      else let seq := if 0 <=? i then l_head l + i else l_tail l + i + 1 in
           if (seq <? l_head l) || (l_tail l <? seq) then RNil
           else ropt (lget (l_ver l) seq (l_elems l))
  | LQrange start stop =>
      if negb (key_ok key) then RErr
      else if negb (l_exists l) then RArr []
      else
        let llen := l_size l in
        let start := if start <? 0 then llen + start else start in
        let stop := if stop <? 0 then llen + stop else stop in
        let start := if start <? 0 then 0 else start in
        if (stop <? start) || (llen <=? start) then RArr []
        else
          let stop := if llen <=? stop then llen - 1 else stop in
          let limit := stop - start + 1 in
          if max_batch_num <? limit then RErr
          else
            let l' := lscan (l_ver l) (l_head l + start) (l_tail l) (l_elems l) in
            rbulks (map snd (firstn (Z.to_nat (Z.min limit (Z.of_nat (length l')))) l'))
  end.

(* ---------- argument parsing (node/list.go) ---------- *)
Local Open Scope N_scope.
Definition lname (n : bytes) (l : list N) : bool := bytes_eqb n l.
Definition parse_l (n : bytes) (rest : list bytes) : option (lcmd + lqry) :=
  if lname n [108;102;105;120;107;101;121] then match rest with [] => Some (inl LCfixkey) | _ => None end
  else if lname n [108;112;117;115;104] then Some (inl (LCpush false rest))
  else if lname n [114;112;117;115;104] then Some (inl (LCpush true rest))
  else if lname n [108;112;111;112] then match rest with [] => Some (inl (LCpop false)) | _ => None end
  else if lname n [114;112;111;112] then match rest with [] => Some (inl (LCpop true)) | _ => None end
  else if lname n [108;115;101;116] then
    match rest with
    | [i; x] => match parse_int64 i with Some z => Some (inl (LCset z x)) | None => Some (inl LCinvalid) end
    | _ => None
    end
  else if lname n [108;116;114;105;109] then
    match rest with
    | [a; b] => match parse_int64 a, parse_int64 b with
                | Some x, Some y => Some (inl (LCtrim x y))
                | _, _ => Some (inl LCinvalid)
                end
    | _ => None
    end
  else if lname n [108;99;108;101;97;114] then match rest with [] => Some (inl LCclear) | _ => None end
  else if lname n [108;108;101;110] then match rest with [] => Some (inr LQlen) | _ => None end
  else if lname n [108;107;101;121;101;120;105;115;116] then match rest with [] => Some (inr LQkeyexist) | _ => None end
  else if lname n [108;105;110;100;101;120] then
    match rest with
    | [i] => match parse_int64 i with Some z => Some (inr (LQindex z)) | None => Some (inr LQinvalid) end
    | _ => None
    end
  else if lname n [108;114;97;110;103;101] then
    match rest with
    | [a; b] => match parse_int64 a, parse_int64 b with
                | Some x, Some y => Some (inr (LQrange x y))
                | _, _ => Some (inr LQinvalid)
                end
    | _ => None
    end
  else None.
