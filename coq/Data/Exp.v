(* Data/Exp.v — expiry for the two data models: the header field ExpireAt of a stored record and what
   the commands do with it.

   A stored record (collection meta value, KV value) carries the value header {ExpireAt, ValueVersion};
   ValueVersion is the generation kept in the records of Map.v / MapL.v / MapZ.v (cm_ver, lm_ver),
   ExpireAt is kept NEXT to the record here:  xr R = (record, ExpireAt second, 0 = none).  The header
   lives in the meta value: when the meta key is deleted the header is gone (xfix).

   Transcribed (post-fix working tree):
     rockredis/t_ttl_compact.go  headerMetaValue.isExpired / ttl, renewOnExpired, rawExpireAt, ExpireAt, delExpire
     rockredis/t_ttl_l.go        localExpiration: isExpired = false, ttl = -1, ExpireAt(when = 0) = error,
                                 rawExpireAt writes the time index only (swept in the background: property C10)
     rockredis/t_collections.go  prepareCollKeyForWrite (renew on expired), GetCollVersionKey (Expired flag),
                                 collHeaderMeta, collExpire, collPersist, expireWhen
     rockredis/t_ttl.go          KVTtl HashTtl ListTtl SetTtl ZSetTtl
   The write handlers come in two shapes:
     xrenew  — prepareCollKeyForWrite: an expired header is renewed in memory (ExpireAt 0, no user data,
               generation ts) and the command runs on that; the meta key is rewritten (with the renewed
               header) exactly when the command stores something;
     xguard  — GetCollVersionKey / *HeaderMeta + `if IsNotExistOrExpired / Expired return`: the command
               replies what it replies on a missing key and writes nothing.
   Reads take the wall clock `now` of the serving node (time.Now()), writes the raft entry timestamp.
   Under local_deletion no header is stored: nothing is ever expired for a command, *EXPIRE only
   answers whether the key exists, *TTL is -1 and *PERSIST is refused (documented: user-guide.md).
   No proofs in this file. *)
From ZV Require Export Data.Base.
Open Scope Z_scope.

Definition ns_per_sec : Z := 1000000000.
Definition sec_of (t : Z) : Z := Z.quot t ns_per_sec.
Definition max_u32 : Z := 4294967295.

(* headerMetaValue.isExpired (wait_compact only; timestamp 0 = unknown: never expired) *)
Definition dead (compact : bool) (e t : Z) : bool :=
  compact && negb (e =? 0) && negb (t =? 0) && (e - sec_of t <=? 0).
(* headerMetaValue.ttl *)
Definition ttl_of (e t : Z) : Z :=
  if e =? 0 then -1 else if e - sec_of t <=? 0 then -1 else e - sec_of t.
(* expireWhen: the absolute second of EXPIRE key duration at ts; a second not after the epoch is
   stored as second 1 (already expired for every real timestamp) *)
Definition expire_when (ts dur : Z) : Z := if sec_of ts + dur <=? 0 then 1 else sec_of ts + dur.
(* rawExpireAt refuses a second that does not fit the header field *)
Definition when_overflows (w : Z) : bool := max_u32 - 1 <=? w.

Record xr (R : Type) := { x_r : R; x_exp : Z }.
Arguments x_r {R}. Arguments x_exp {R}. Arguments Build_xr {R}.

Section X.
  Context {R : Type}.
  Variable live : R -> bool.       (* the meta key exists *)
  Variable forget : R -> R.        (* the record as a command sees it when the header is expired *)
  Variable compact : bool.

  Definition xfix (r : R) (e : Z) : xr R := Build_xr r (if live r then e else 0).

  Definition xrenew (ts : Z) (f : R -> R * reply) (x : xr R) : xr R * reply :=
    if dead compact (x_exp x) ts then
      let '(r', rep) := f (forget (x_r x)) in
      if live r' then (Build_xr r' 0, rep)
      else (x, rep)                (* nothing created (every failing command): nothing written *)
    else let '(r', rep) := f (x_r x) in (xfix r' (x_exp x), rep).

  Definition xguard (ts : Z) (absent : reply) (f : R -> R * reply) (x : xr R) : xr R * reply :=
    if dead compact (x_exp x) ts then (x, absent)
    else let '(r', rep) := f (x_r x) in (xfix r' (x_exp x), rep).

  Definition xview (now : Z) (x : xr R) : R :=
    if dead compact (x_exp x) now then forget (x_r x) else x_r x.

  (* collExpire + ExpireAt *)
  Definition xexpire (ts dur : Z) (x : xr R) : xr R * reply :=
    if dead compact (x_exp x) ts || negb (live (x_r x)) then (x, RInt 0)
    else
      let w := expire_when ts dur in
      if compact then
        if when_overflows w then (x, RErr) else (Build_xr (x_r x) w, RInt 1)
      else if int64_max <? sec_of ts + dur then (x, RErr) else (x, RInt 1).
  (* collPersist + ExpireAt(0) *)
  Definition xpersist (ts : Z) (x : xr R) : xr R * reply :=
    if dead compact (x_exp x) ts || negb (live (x_r x)) then (x, RInt 0)
    else if compact then (Build_xr (x_r x) 0, RInt 1) else (x, RErr).
  (* *Ttl *)
  Definition xttl (now : Z) (x : xr R) : reply :=
    if compact && live (x_r x) then RInt (ttl_of (x_exp x) now) else RInt (-1).
End X.

(* ---------- the same for the reference model: a value is a list, the absent value is [] ---------- *)
Section SX.
  Context {A : Type}.
  Variable compact : bool.

  Definition nonempty (a : list A) : bool := match a with [] => false | _ => true end.
  (* the value a command with clock t finds *)
  Definition sview (t : Z) (x : xr (list A)) : list A := if dead compact (x_exp x) t then [] else x_r x.

  (* a write: runs on the value it finds; the result keeps the expiry of a present key, starts without
     one on an absent key; an empty result is an absent key (no expiry); when an absent-by-expiry key
     is not re-created its entry stays as it is *)
  Definition swrite (ts : Z) (sf : list A -> list A * reply) (x : xr (list A)) : xr (list A) * reply :=
    let gone := dead compact (x_exp x) ts in
    let '(a', rep) := sf (sview ts x) in
    if gone && negb (nonempty a') then (x, rep)
    else (Build_xr a' (if nonempty a' then (if gone then 0 else x_exp x) else 0), rep).

  Definition sexpire (ts dur : Z) (x : xr (list A)) : xr (list A) * reply :=
    match sview ts x with
    | [] => (x, RInt 0)
    | a =>
      if compact then
        if when_overflows (expire_when ts dur) then (x, RErr) else (Build_xr a (expire_when ts dur), RInt 1)
      else if int64_max <? sec_of ts + dur then (x, RErr) else (x, RInt 1)
    end.
  Definition spersist (ts : Z) (x : xr (list A)) : xr (list A) * reply :=
    match sview ts x with
    | [] => (x, RInt 0)
    | a => if compact then (Build_xr a 0, RInt 1) else (x, RErr)
    end.
  Definition sttl (now : Z) (x : xr (list A)) : reply :=
    if compact then match sview now x with [] => RInt (-1) | _ => RInt (ttl_of (x_exp x) now) end
    else RInt (-1).
End SX.
