(* Data/RefK.v — refinement Map -> Spec for strings (KV): both models keep one association list
   key -> value; every command gives the same reply and the same list. *)
From ZV Require Import Common.Bytes Common.BytesFacts Data.Consts Data.Base Data.BaseFacts Data.MapEq Data.MapK Data.SpecK.
From Coq Require Import Lia ZifyBool.
Open Scope Z_scope.

Lemma beq_false_ne a b : a <> b -> bytes_eqb a b = false.
Proof. intros N. destruct (bytes_eqb a b) eqn:E; [apply bytes_eqb_eq in E; contradiction|reflexivity]. Qed.

Lemma adel_absent {V} k (m : list (bytes * V)) : amem bytes_eqb k m = false -> adel bytes_eqb k m = m.
Proof.
  unfold amem. induction m as [|[k2 v2] r IH]; cbn; [reflexivity|].
  destruct (bytes_eqb k k2); [discriminate|]. intros H. rewrite IH; [reflexivity|exact H].
Qed.

Lemma del_keys_dedup ks : forall seen (m : list (bytes * bytes)), NoDup (map fst m) ->
  (forall k, In k seen -> key_ok k && amem bytes_eqb k m = false) ->
  del_keys ks m = del_keys (dedup seen ks) m.
Proof.
  induction ks as [|k r IH]; intros seen m ND Hs; cbn [del_keys dedup]; [reflexivity|].
  destruct (bytes_mem k seen) eqn:M.
  - apply bytes_mem_In in M. rewrite (Hs k M). apply IH; assumption.
  - cbn [del_keys]. destruct (key_ok k && amem bytes_eqb k m) eqn:E.
    + rewrite (IH (k :: seen) (adel bytes_eqb k m)); [reflexivity|apply (nodup_adel bytes_eqb); exact ND|].
      intros x [<-|Hx]; unfold amem; rewrite get_del by exact ND.
      * rewrite bytes_eqb_refl. apply andb_false_r.
      * destruct (bytes_eqb x k); [apply andb_false_r|]. apply (Hs x Hx).
    + apply IH; [exact ND|]. intros x [<-|Hx]; [exact E|apply Hs; exact Hx].
Qed.

Lemma del_keys_nodup ks : NoDup ks -> forall (m : list (bytes * bytes)), NoDup (map fst m) ->
  del_keys ks m =
  (fold_left (fun m k => if key_ok k then adel bytes_eqb k m else m) ks m,
   Z.of_nat (length (filter (fun k => key_ok k && amem bytes_eqb k m) ks))).
Proof.
  induction ks as [|k r IH]; intros NDk m ND; cbn [del_keys fold_left filter]; [reflexivity|].
  inversion NDk as [|? ? Hn NDk']; subst.
  destruct (key_ok k && amem bytes_eqb k m) eqn:E.
  - apply andb_true_iff in E. destruct E as [K A]. rewrite K.
    rewrite (IH NDk' (adel bytes_eqb k m)); [|apply (nodup_adel bytes_eqb); exact ND].
    assert (FE : filter (fun k0 => key_ok k0 && amem bytes_eqb k0 (adel bytes_eqb k m)) r =
                 filter (fun k0 => key_ok k0 && amem bytes_eqb k0 m) r).
    { clear IH NDk NDk'. induction r as [|x l IHl]; cbn; [reflexivity|].
      assert (amem bytes_eqb x (adel bytes_eqb k m) = amem bytes_eqb x m) as ->.
      { unfold amem. rewrite get_del by exact ND.
        assert (bytes_eqb x k = false) as -> by (apply beq_false_ne; intros ->; apply Hn; left; reflexivity). reflexivity. }
      rewrite IHl; [reflexivity|]. intros H; apply Hn; right; exact H. }
    rewrite FE. cbn [length]. f_equal. lia.
  - rewrite (IH NDk' m ND). f_equal.
    destruct (key_ok k) eqn:K; [|reflexivity]. cbn [andb] in E. rewrite (adel_absent k m E). reflexivity.
Qed.

Theorem kstep_ref ts c (m : list (bytes * bytes)) : NoDup (map fst m) ->
  MapK.kstep ts c m = SpecK.kstep c m.
Proof.
  intros ND. destruct c as [k v|k v|k v|k d|k v|k off v|ks|]; cbn [MapK.kstep SpecK.kstep]; unfold kget, kstore, kvrec in *; try reflexivity.
  - (* setnx *) unfold kget, amem. destruct (negb (value_ok v) || negb (key_ok k)); [reflexivity|]. destruct (aget bytes_eqb k m); reflexivity.
  - (* append *) unfold kget. destruct (negb (key_ok k)); [reflexivity|].
    destruct (aget bytes_eqb k m) as [old|]; destruct v; reflexivity.
  - (* setrange *) unfold kget. destruct ((off <? 0) || (max_value_size <? off)); [reflexivity|].
    destruct v as [|b v']; [destruct (negb (key_ok k)); [reflexivity|]; destruct (aget bytes_eqb k m); reflexivity|].
    destruct (max_value_size <? blen (b :: v') + off); [reflexivity|]. cbn [orb]. destruct (negb (key_ok k)); reflexivity.
  - (* del *)
    rewrite (del_keys_dedup ks [] m ND) by (intros k []).
    rewrite (del_keys_nodup (dedup [] ks) (dedup_NoDup _ _) m ND). reflexivity.
Qed.

Lemma kstep_nodup c (m : list (bytes * bytes)) : NoDup (map fst m) -> NoDup (map fst (fst (SpecK.kstep c m))).
Proof.
  intros ND. assert (P : forall k v, NoDup (map fst (aput bytes_eqb k v m))) by (intros; apply (nodup_aput bytes_eqb bytes_eqb_eq); exact ND).
  destruct c as [k v|k v|k v|k d|k v|k off v|ks|]; cbn [SpecK.kstep]; try exact ND.
  - destruct (negb (key_ok k) || negb (value_ok v)); cbn [fst]; auto.
  - destruct (negb (value_ok v) || negb (key_ok k)); cbn [fst]; auto. destruct (amem bytes_eqb k m); cbn [fst]; auto.
  - destruct (negb (value_ok v) || negb (key_ok k)); cbn [fst]; auto.
  - destruct (negb (key_ok k)); cbn [fst]; auto.
    destruct (match aget bytes_eqb k m with Some b => parse_int64 b | None => Some 0 end); cbn [fst]; auto.
    destruct (negb (in_int64 (z + d))); cbn [fst]; auto.
  - destruct (negb (key_ok k)); cbn [fst]; auto.
    destruct (aget bytes_eqb k m); destruct v; cbn [fst]; auto;
      match goal with |- context [if ?b then _ else _] => destruct b end; cbn [fst]; auto.
  - destruct ((off <? 0) || (max_value_size <? off)); [exact ND|].
    destruct v; [destruct (negb (key_ok k)); exact ND|].
    destruct ((max_value_size <? blen (n :: v) + off) || negb (key_ok k)); cbn [fst]; auto.
  - rewrite (del_keys_dedup ks [] m ND) by (intros k []).
    rewrite (del_keys_nodup (dedup [] ks) (dedup_NoDup _ _) m ND). cbn [fst].
    generalize (dedup [] ks). intros l. revert m ND P. induction l as [|x l IH]; intros m ND P; cbn; [exact ND|].
    apply IH.
    + destruct (key_ok x); [apply (nodup_adel bytes_eqb); exact ND|exact ND].
    + intros k v. apply (nodup_aput bytes_eqb bytes_eqb_eq). destruct (key_ok x); [apply (nodup_adel bytes_eqb); exact ND|exact ND].
Qed.

Lemma kquery_ref q (m : list (bytes * bytes)) : MapK.kquery q m = SpecK.kquery q m.
Proof. destruct q; reflexivity. Qed.
