(* Data/RefK.v — refinement Map -> Spec for strings (KV): both models keep one association list
   key -> value; every command gives the same reply and the same list. *)
From ZV Require Import Common.Bytes Common.BytesFacts Data.Consts Data.Base Data.BaseFacts Data.MapEq Data.Exp Data.ExpFacts Data.MapK Data.SpecK.
From Coq Require Import Lia ZifyBool.
Open Scope Z_scope.

Lemma beq_false_ne a b : a <> b -> bytes_eqb a b = false.
Proof. intros N. destruct (bytes_eqb a b) eqn:E; [apply bytes_eqb_eq in E; contradiction|reflexivity]. Qed.

Lemma adel_absent {V} k (m : list (bytes * V)) : amem bytes_eqb k m = false -> adel bytes_eqb k m = m.
Proof.
  unfold amem. induction m as [|[k2 v2] r IH]; cbn; [reflexivity|].
  destruct (bytes_eqb k k2); [discriminate|]. intros H. rewrite IH; [reflexivity|exact H].
Qed.

Section K.
  Variable compact : bool.

  Lemma present_klive t k (m : kstore) : present compact t k m = klive compact t k m.
  Proof. reflexivity. Qed.
  Lemma live_some t k (m : kstore) :
    match kget compact t k m with Some _ => true | None => false end = is_present compact t m k.
  Proof.
    unfold kget, is_present, klive, present, kstore, sstore, kvrec, sval in *. destruct (aget bytes_eqb k m) as [[e v]|]; [|reflexivity].
    destruct (dead compact e t); reflexivity.
  Qed.
  Lemma present_amem t k (m : sstore) : is_present compact t m k = true -> amem bytes_eqb k m = true.
  Proof. unfold is_present, present, amem, kstore, sstore, kvrec, sval in *. destruct (aget bytes_eqb k m); [reflexivity|discriminate]. Qed.
  Lemma present_adel t k x (m : sstore) : NoDup (map fst m) -> x <> k ->
    is_present compact t (adel bytes_eqb k m) x = is_present compact t m x.
  Proof.
    intros ND N. unfold is_present, present, kstore, sstore, kvrec, sval in *.
    rewrite get_del by exact ND. rewrite (beq_false_ne x k N). reflexivity.
  Qed.

  Lemma del_keys_dedup t ks : forall seen (m : sstore), NoDup (map fst m) ->
    (forall k, In k seen -> key_ok k && amem bytes_eqb k m = false) ->
    del_keys compact t ks m = del_keys compact t (dedup seen ks) m.
  Proof.
    induction ks as [|k r IH]; intros seen m ND Hs; cbn [del_keys dedup]; [reflexivity|].
    destruct (bytes_mem k seen) eqn:M.
    - apply bytes_mem_In in M. rewrite (Hs k M). apply IH; assumption.
    - cbn [del_keys]. destruct (key_ok k && amem bytes_eqb k m) eqn:E.
      + rewrite (IH (k :: seen) (adel bytes_eqb k m)); [reflexivity|apply (nodup_adel bytes_eqb); exact ND|].
        intros x [<-|Hx]; unfold amem; rewrite get_del by exact ND.
        * rewrite bytes_eqb_refl. apply andb_false_r.
        * destruct (bytes_eqb x k); [apply andb_false_r|]. apply (Hs x Hx).
      + apply IH; [exact ND|]. intros x [<-|Hx]; [exact E|apply Hs; exact Hx].
  Qed.

  Lemma del_keys_nodup t ks : NoDup ks -> forall (m : sstore), NoDup (map fst m) ->
    del_keys compact t ks m =
    (fold_left (fun m k => if key_ok k then adel bytes_eqb k m else m) ks m,
     Z.of_nat (length (filter (fun k => key_ok k && is_present compact t m k) ks))).
  Proof.
    induction ks as [|k r IH]; intros NDk m ND; cbn [del_keys fold_left filter]; [reflexivity|].
    inversion NDk as [|? ? Hn NDk']; subst.
    destruct (key_ok k && amem bytes_eqb k m) eqn:E.
    - apply andb_true_iff in E. destruct E as [K A]. rewrite K.
      rewrite (IH NDk' (adel bytes_eqb k m)); [|apply (nodup_adel bytes_eqb); exact ND].
      assert (FE : filter (fun k0 => key_ok k0 && is_present compact t (adel bytes_eqb k m) k0) r =
                   filter (fun k0 => key_ok k0 && is_present compact t m k0) r).
      { clear IH NDk NDk'. induction r as [|x l IHl]; cbn [filter]; [reflexivity|].
        rewrite (present_adel t k x m ND) by (intros ->; apply Hn; left; reflexivity).
        rewrite IHl; [reflexivity|]. intros H; apply Hn; right; exact H. }
      rewrite FE. cbn [andb]. destruct (is_present compact t m k); cbn [length]; f_equal; lia.
    - rewrite (IH NDk' m ND).
      assert (key_ok k && is_present compact t m k = false) as ->.
      { destruct (key_ok k); [|reflexivity]. cbn [andb] in *. destruct (is_present compact t m k) eqn:P; [|reflexivity].
        rewrite (present_amem t k m P) in E. discriminate. }
      f_equal. destruct (key_ok k) eqn:K; [|reflexivity]. cbn [andb] in E. rewrite (adel_absent k m E). reflexivity.
  Qed.

  Ltac kv := unfold kget, kexp, value_at, expiry_at, is_present, klive, present, kstore, sstore, kvrec, sval in *.

  Theorem kstep_ref ts c (m : kstore) : NoDup (map fst m) ->
    MapK.kstep compact ts c m = SpecK.kstep compact ts c m.
  Proof.
    intros ND. destruct c as [k v|k v|k v|k d|k v|k off v|ks|k dur v|k dur|k|k v dur nx xx|]; cbn [MapK.kstep SpecK.kstep]; try reflexivity.
    - (* setnx *) destruct (negb (value_ok v) || negb (key_ok k)); [reflexivity|]. rewrite <- live_some.
      destruct (kget compact ts k m); reflexivity.
    - (* append *) destruct (negb (key_ok k)); [reflexivity|]. kv.
      destruct (aget bytes_eqb k m) as [[e old]|]; [destruct (dead compact e ts)|]; destruct v; reflexivity.
    - (* setrange *) destruct ((off <? 0) || (max_value_size <? off)); [reflexivity|]. kv.
      destruct v as [|b v']; [destruct (negb (key_ok k)); [reflexivity|];
        destruct (aget bytes_eqb k m) as [[e old]|]; [destruct (dead compact e ts)|]; reflexivity|].
      destruct (max_value_size <? blen (b :: v') + off); [reflexivity|]. cbn [orb]. destruct (negb (key_ok k)); reflexivity.
    - (* del *)
      rewrite (del_keys_dedup ts ks [] m ND) by (intros k []).
      rewrite (del_keys_nodup ts (dedup [] ks) (dedup_NoDup _ _) m ND).
      do 4 f_equal. apply filter_ext. intros k. rewrite live_some. reflexivity.
    - (* setex *) destruct (dur <=? 0); [reflexivity|]. cbn [orb]. destruct (negb (key_ok k) || negb (value_ok v)); reflexivity.
    - (* set with options *)
      destruct (negb (value_ok v)); [reflexivity|]. cbn [orb]. destruct (negb (key_ok k)); [reflexivity|].
      rewrite <- live_some. destruct (kget compact ts k m); destruct nx, xx; cbn [andb orb negb]; reflexivity.
  Qed.

  Lemma kstep_nodup ts c (m : sstore) : NoDup (map fst m) -> NoDup (map fst (fst (SpecK.kstep compact ts c m))).
  Proof.
    intros ND. assert (P : forall k v, NoDup (map fst (aput bytes_eqb k v m))) by (intros; apply (nodup_aput bytes_eqb bytes_eqb_eq); exact ND).
    destruct c as [k v|k v|k v|k d|k v|k off v|ks|k dur v|k dur|k|k v dur nx xx|]; cbn [SpecK.kstep]; try exact ND;
      try (repeat match goal with
                  | |- context [if ?b then _ else _] => destruct b
                  | |- context [match ?o with Some _ => _ | None => _ end] => destruct o
                  | |- context [let '(_, _) := ?p in _] => destruct p
                  | |- context [match ?l with [] => _ | _ :: _ => _ end] => destruct l
                  end; cbn [fst]; auto; fail).
    - rewrite (del_keys_dedup ts ks [] m ND) by (intros k []).
      rewrite (del_keys_nodup ts (dedup [] ks) (dedup_NoDup _ _) m ND). cbn [fst].
      generalize (dedup [] ks). intros l. revert m ND P. induction l as [|x l IH]; intros m ND P; cbn; [exact ND|].
      apply IH.
      + destruct (key_ok x); [apply (nodup_adel bytes_eqb); exact ND|exact ND].
      + intros k v. apply (nodup_aput bytes_eqb bytes_eqb_eq). destruct (key_ok x); [apply (nodup_adel bytes_eqb); exact ND|exact ND].
  Qed.

  Lemma kquery_ref now q (m : kstore) : MapK.kquery compact now q m = SpecK.kquery compact now q m.
  Proof.
    destruct q; cbn [MapK.kquery SpecK.kquery]; try reflexivity.
    - (* exists *) destruct keys as [|k [|k2 r]]; try reflexivity.
      + rewrite live_some. reflexivity.
      + do 3 f_equal. apply filter_ext. intros x. rewrite live_some. reflexivity.
    - (* ttl *) destruct (negb compact); [reflexivity|]. destruct (negb (key_ok key)); [reflexivity|]. kv.
      destruct (aget bytes_eqb key m) as [[e v]|]; [|reflexivity].
      destruct (dead compact e now) eqn:D; [|reflexivity]. rewrite (dead_ttl _ _ _ D). reflexivity.
  Qed.
End K.
