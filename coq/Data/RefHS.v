(* Data/RefHS.v — refinement Map -> Spec for hashes and sets (property C08): the abstraction of a stored
   collection record is the association list of its current generation; every hash / set command of
   Map.v, run on a record that satisfies RepC, gives the reply of the Spec command and a record whose
   abstraction is (as a finite map) the Spec result. *)
From ZV Require Import Common.Bytes Common.BytesFacts Data.Consts Data.Base Data.BaseFacts Data.MapEq Data.Map Data.Spec
  Data.RepColl Data.RepHS.
From Coq Require Import Permutation Lia ZifyBool.
Open Scope Z_scope.

Section Ref.
  Context {V : Type}.
  Variable compact : bool.
  Notation Rep := (@RepC V compact).

  Definition strip (e : vkey * V) : bytes * V := (snd (fst e), snd e).
  Definition abs_c (c : coll V) : list (bytes * V) :=
    if exists_coll c then map strip (gen_elems (st_ver c) (c_elems c)) else [].
  Definition lookup (c : coll V) (g : bytes) : option V :=
    if exists_coll c then eget (st_ver c) g (c_elems c) else None.
  Definition sim (c : coll V) (a : list (bytes * V)) : Prop := meq (abs_c c) a.

  Lemma strip_get v g (es : list (vkey * V)) : aget bytes_eqb g (map strip (gen_elems v es)) = eget v g es.
  Proof.
    unfold eget, gen_elems. induction es as [|[[v' f] x] r IH]; cbn; [reflexivity|].
    unfold vkey_eqb at 1; cbn. destruct (v' =? v) eqn:E; cbn.
    - apply Z.eqb_eq in E; subst. rewrite Z.eqb_refl; cbn. destruct (bytes_eqb g f); [reflexivity|exact IH].
    - assert (v =? v' = false) as -> by lia. cbn. exact IH.
  Qed.

  Lemma abs_get c g : aget bytes_eqb g (abs_c c) = lookup c g.
  Proof. unfold abs_c, lookup. destruct (exists_coll c); [apply strip_get|reflexivity]. Qed.

  Lemma abs_nodup clock c : Rep clock c -> NoDup (map fst (abs_c c)).
  Proof.
    intros R. unfold abs_c. destruct (exists_coll c); [|constructor].
    rewrite map_map. cbn. apply (subkeys_NoDup (st_ver c)).
    - rewrite gen_elems_kfilter. apply nodup_kfilter, (rc_nodup _ _ _ R).
    - intros e He. apply gen_In in He. tauto.
  Qed.

  Lemma abs_length clock c : Rep clock c -> Z.of_nat (length (abs_c c)) = st_size c.
  Proof.
    intros R. unfold abs_c, exists_coll, st_size, st_ver. destruct (c_meta c) as [m|] eqn:E; [|reflexivity].
    rewrite map_length. destruct (rc_meta _ _ _ R m E) as (_ & H & _). symmetry; exact H.
  Qed.

  Lemma sim_intro clock c a : Rep clock c -> NoDup (map fst a) -> (forall g, lookup c g = aget bytes_eqb g a) -> sim c a.
  Proof.
    intros R ND H. split; [eapply abs_nodup; exact R|]. split; [exact ND|]. intros g. rewrite abs_get. apply H.
  Qed.
  Lemma sim_lookup c a g : sim c a -> lookup c g = aget bytes_eqb g a.
  Proof. intros (_ & _ & H). rewrite <- abs_get. apply H. Qed.
  Lemma sim_size clock c a : Rep clock c -> sim c a -> st_size c = Z.of_nat (length a).
  Proof. intros R S. rewrite <- (abs_length clock c R). f_equal. apply meq_length; exact S. Qed.
  Lemma sim_exists clock c a : Rep clock c -> sim c a -> exists_coll c = negb (Nat.eqb (length a) 0).
  Proof.
    intros R S. pose proof (sim_size clock c a R S) as H. unfold exists_coll, st_size in *.
    destruct (c_meta c) as [m|] eqn:E.
    - destruct (rc_meta _ _ _ R m E) as (p & _). destruct (length a); [lia|reflexivity].
    - destruct (length a); [reflexivity|lia].
  Qed.

  (* the generation a write works on sees exactly the abstraction *)
  Lemma prep_lookup clock ts c g : Rep clock c -> 0 <= clock < ts -> eget (prep_ver compact ts c) g (c_elems c) = lookup c g.
  Proof.
    intros R L. unfold lookup, prep_ver, exists_coll, st_ver. destruct (c_meta c) as [m|] eqn:E; [reflexivity|].
    destruct (eget _ g (c_elems c)) as [x|] eqn:G; [exfalso|reflexivity].
    apply (aget_In vkey_eqb vkey_eqb_eq) in G.
    pose proof (rc_vers _ _ _ R _ G) as Hv. pose proof (rc_none _ _ _ R E) as Hn. unfold ver_ok in Hv. cbn in Hv.
    destruct compact.
    - lia.
    - rewrite (Hn eq_refl) in G. destruct G.
  Qed.

  Lemma eget_put_all v kvs : forall (es : list (vkey * V)) g,
    eget v g (put_all v kvs es) = match alast g kvs with Some x => Some x | None => eget v g es end.
  Proof.
    induction kvs as [|[k x] r IH]; intros es g; [reflexivity|].
    change (put_all v ((k, x) :: r) es) with (put_all v r (eput v k x es)). rewrite IH. cbn [alast].
    destruct (alast g r); [reflexivity|]. unfold eget, eput.
    destruct (bytes_eqb g k) eqn:E.
    - apply bytes_eqb_eq in E; subst. apply (aget_aput_eq vkey_eqb vkey_eqb_eq).
    - apply (aget_aput_ne vkey_eqb vkey_eqb_eq). intros H; inversion H; subst. rewrite bytes_eqb_refl in E; discriminate.
  Qed.

  Lemma eget_del_some v cm ks : NoDup ks -> forall (es : list (vkey * V)) g, NoDup (map fst es) ->
    (forall f, In f ks -> emem v f es = emem v f cm) ->
    eget v g (del_some v cm ks es) = if bytes_mem g ks && emem v g cm then None else eget v g es.
  Proof.
    induction ks as [|k r IH]; intros NDk es g ND Hm; [reflexivity|].
    inversion NDk as [|? ? Hn NDk']; subst. cbn [bytes_mem].
    change (del_some v cm (k :: r) es) with (del_some v cm r (if emem v k cm then edel v k es else es)).
    assert (Ek : emem v k es = emem v k cm) by (apply Hm; left; reflexivity).
    destruct (emem v k cm) eqn:E.
    - rewrite IH; [|exact NDk'|apply (nodup_adel vkey_eqb); exact ND|].
      + destruct (bytes_eqb g k) eqn:Q.
        * apply bytes_eqb_eq in Q; subst. cbn. rewrite E.
          destruct (bytes_mem k r && true); [reflexivity|]. unfold eget, edel. apply (aget_adel_eq vkey_eqb vkey_eqb_eq); exact ND.
        * cbn. destruct (bytes_mem g r && emem v g cm); [reflexivity|]. unfold eget, edel.
          apply (aget_adel_ne vkey_eqb vkey_eqb_eq). intros H; inversion H; subst. rewrite bytes_eqb_refl in Q; discriminate.
      + intros f Hf. rewrite emem_edel; [|exact ND].
        assert (bytes_eqb f k = false) as -> by (apply bytes_eqb_false_ne; intros ->; contradiction).
        cbn. apply Hm; right; exact Hf.
    - rewrite IH; [|exact NDk'|exact ND|intros f Hf; apply Hm; right; exact Hf].
      destruct (bytes_eqb g k) eqn:Q; cbn; [|reflexivity].
      apply bytes_eqb_eq in Q; subst. rewrite E. cbn. rewrite andb_false_r. reflexivity.
  Qed.

  (* ---------- Spec side: what the loops do to lookups ---------- *)
  Notation get := (aget bytes_eqb).

  Lemma del_loop_spec ks : forall (a : list (bytes * V)), NoDup (map fst a) ->
    NoDup (map fst (fst (del_loop ks a))) /\
    (forall g, get g (fst (del_loop ks a)) = if bytes_mem g ks then None else get g a).
  Proof.
    induction ks as [|k r IH]; intros a ND; cbn [del_loop bytes_mem]; [split; [exact ND|reflexivity]|].
    destruct (amem bytes_eqb k a) eqn:E.
    - destruct (IH (adel bytes_eqb k a) (nodup_adel bytes_eqb k a ND)) as [N1 G1].
      destruct (del_loop r (adel bytes_eqb k a)) as [h n]. cbn [fst] in *. split; [exact N1|].
      intros g. rewrite G1, get_del by exact ND. destruct (bytes_eqb g k) eqn:Q; cbn [orb]; [|reflexivity].
      destruct (bytes_mem g r); reflexivity.
    - destruct (IH a ND) as [N1 G1]. split; [exact N1|]. intros g. rewrite G1.
      destruct (bytes_eqb g k) eqn:Q; cbn [orb]; [|reflexivity]. apply bytes_eqb_eq in Q; subst.
      destruct (bytes_mem k r); [reflexivity|]. unfold amem in E. destruct (get k a); [discriminate|reflexivity].
  Qed.

  Lemma del_loop_count ks : NoDup ks -> forall (a : list (bytes * V)), NoDup (map fst a) ->
    snd (del_loop ks a) = Z.of_nat (length (filter (fun k => amem bytes_eqb k a) ks)).
  Proof.
    induction ks as [|k r IH]; intros NDk a ND; cbn [del_loop filter]; [reflexivity|].
    inversion NDk as [|? ? Hn NDk']; subst.
    assert (Hf : forall b : list (bytes * V), (forall f, In f r -> amem bytes_eqb f b = amem bytes_eqb f a) ->
                 filter (fun k0 => amem bytes_eqb k0 b) r = filter (fun k0 => amem bytes_eqb k0 a) r).
    { intros b H. clear - H. induction r as [|x r IH]; cbn; [reflexivity|]. rewrite (H x (or_introl eq_refl)), IH; [reflexivity|].
      intros f Hf; apply H; right; exact Hf. }
    destruct (amem bytes_eqb k a) eqn:E.
    - specialize (IH NDk' (adel bytes_eqb k a) (nodup_adel bytes_eqb k a ND)).
      destruct (del_loop r (adel bytes_eqb k a)) as [h n]. cbn [snd] in *. rewrite IH. cbn [length].
      rewrite (Hf (adel bytes_eqb k a)); [lia|].
      intros f Hfr. unfold amem. rewrite get_del by exact ND.
      assert (bytes_eqb f k = false) as -> by (apply bytes_eqb_false_ne; intros ->; contradiction). reflexivity.
    - apply IH; assumption.
  Qed.

  Lemma del_loop_dedup ks : forall seen (a : list (bytes * V)), NoDup (map fst a) ->
    (forall k, In k seen -> amem bytes_eqb k a = false) ->
    del_loop ks a = del_loop (dedup seen ks) a.
  Proof.
    induction ks as [|k r IH]; intros seen a ND Hs; cbn [del_loop dedup]; [reflexivity|].
    destruct (bytes_mem k seen) eqn:M.
    - apply bytes_mem_In in M. rewrite (Hs k M). apply IH; assumption.
    - cbn [del_loop]. destruct (amem bytes_eqb k a) eqn:E.
      + rewrite (IH (k :: seen) (adel bytes_eqb k a)); [reflexivity|apply (nodup_adel bytes_eqb); exact ND|].
        intros x [<-|Hx].
        * unfold amem. rewrite get_del by exact ND. rewrite bytes_eqb_refl. reflexivity.
        * unfold amem. rewrite get_del by exact ND. destruct (bytes_eqb x k); [reflexivity|]. apply Hs; exact Hx.
      + apply IH; [exact ND|]. intros x [<-|Hx]; [exact E|apply Hs; exact Hx].
  Qed.
End Ref.

Section Ref2.
  Context {V : Type}.
  Variable compact : bool.
  Notation Rep := (@RepC V compact).
  Notation get := (aget bytes_eqb).

  (* looking up a sub key of the STORED generation agrees with the abstraction even without a meta key *)
  Lemma stored_lookup clock (c : coll V) g : Rep clock c -> eget (st_ver c) g (c_elems c) = lookup c g.
  Proof.
    intros R. unfold lookup, exists_coll, st_ver. destruct (c_meta c) as [m|] eqn:E; [reflexivity|].
    destruct (eget 0 g (c_elems c)) as [x|] eqn:G; [exfalso|reflexivity].
    apply (aget_In vkey_eqb vkey_eqb_eq) in G.
    pose proof (rc_vers _ _ _ R _ G) as Hv. pose proof (rc_none _ _ _ R E) as Hn. unfold ver_ok in Hv. cbn in Hv.
    destruct compact; [lia|]. rewrite (Hn eq_refl) in G. destruct G.
  Qed.

  Lemma emem_lookup v g (es : list (vkey * V)) : emem v g es = match eget v g es with Some _ => true | None => false end.
  Proof. reflexivity. Qed.

  Lemma put_batch_exists clock ts (c : coll V) (kvs : list (bytes * V)) : Rep clock c -> 0 <= clock < ts -> kvs <> [] ->
    0 < st_size c + count_new (prep_ver compact ts c) (map fst kvs) (c_elems c).
  Proof.
    intros R L N. destruct (prep_gsize compact clock ts c R L) as [G _].
    pose proof (st_size_nonneg compact clock c R) as Sn.
    destruct kvs as [|[k x] r]; [congruence|]. cbn [map fst]. rewrite count_new_cons.
    pose proof (count_new_nonneg (prep_ver compact ts c) (map fst r) (c_elems c)) as Cn.
    destruct (emem (prep_ver compact ts c) k (c_elems c)) eqn:E; [|lia].
    assert (0 < gsize (prep_ver compact ts c) (c_elems c)); [|lia].
    rewrite <- emem_gen in E. unfold emem in E. apply (amem_In vkey_eqb vkey_eqb_eq) in E. unfold gsize.
    destruct (gen_elems (prep_ver compact ts c) (c_elems c)); cbn in *; [tauto|lia].
  Qed.

  (* shape A *)
  Lemma ref_put_batch clock ts (c : coll V) (kvs : list (bytes * V)) a :
    Rep clock c -> 0 <= clock < ts -> NoDup (map fst kvs) -> forallb subkey_ok (map fst kvs) = true -> sim c a ->
    sim (Build_coll (set_size (prep_ver compact ts c) (st_size c + count_new (prep_ver compact ts c) (map fst kvs) (c_elems c)))
                    (put_all (prep_ver compact ts c) kvs (c_elems c)))
        (fold_left (fun h kv => aput bytes_eqb (fst kv) (snd kv) h) kvs a).
  Proof.
    intros R L ND SK S. pose proof (rep_put_batch compact clock ts c kvs R L ND SK) as R'.
    apply (sim_intro compact ts); [exact R'| |].
    - apply nodup_fold_put. destruct S as (_ & N & _); exact N.
    - intros g. rewrite get_fold_put. unfold lookup at 1. cbn [exists_coll st_ver c_meta c_elems].
      destruct kvs as [|kv r].
      + cbn [map fst alast put_all fold_left]. change (count_new (prep_ver compact ts c) [] (c_elems c)) with 0.
        replace (st_size c + 0) with (st_size c) by lia. rewrite <- (sim_lookup c a g S).
        unfold set_size, lookup, exists_coll, st_size, st_ver, prep_ver.
        destruct (c_meta c) as [m|] eqn:E; [|reflexivity].
        destruct (rc_meta _ _ _ R m E) as (p & _). assert (cm_size m <=? 0 = false) as -> by lia. reflexivity.
      + pose proof (put_batch_exists clock ts c (kv :: r) R L ltac:(discriminate)) as P.
        unfold set_size. set (n := st_size c + count_new (prep_ver compact ts c) (map fst (kv :: r)) (c_elems c)) in *.
        assert (n <=? 0 = false) as -> by lia. cbn [cm_ver].
        rewrite eget_put_all. destruct (alast g (kv :: r)); [reflexivity|].
        rewrite (prep_lookup compact clock ts c g R L). apply sim_lookup; exact S.
  Qed.

  (* shape A' *)
  Lemma ref_put_existing clock ts (c : coll V) f x a :
    Rep clock c -> 0 <= clock < ts -> emem (prep_ver compact ts c) f (c_elems c) = true -> subkey_ok f = true -> sim c a ->
    sim (Build_coll (c_meta c) (eput (prep_ver compact ts c) f x (c_elems c))) (aput bytes_eqb f x a).
  Proof.
    intros R L M SK S. pose proof (rep_put_existing compact clock ts c f x R L M SK) as R'.
    apply (sim_intro compact ts); [exact R'| |].
    - apply (nodup_aput bytes_eqb bytes_eqb_eq). destruct S as (_ & N & _); exact N.
    - intros g. rewrite get_put.
      (* the record exists: the field was found in its generation *)
      rewrite emem_lookup, (prep_lookup compact clock ts c f R L) in M.
      unfold lookup, exists_coll in M. destruct (c_meta c) as [m|] eqn:E; [|discriminate].
      assert (PV : prep_ver compact ts c = cm_ver m) by (unfold prep_ver; rewrite E; reflexivity).
      unfold lookup, exists_coll, st_ver. cbn [c_meta c_elems]. rewrite PV.
      change (eput (cm_ver m) f x (c_elems c)) with (put_all (cm_ver m) [(f, x)] (c_elems c)).
      rewrite eget_put_all. cbn [alast]. destruct (bytes_eqb g f); [reflexivity|].
      rewrite <- (sim_lookup c a g S). unfold lookup, exists_coll, st_ver. rewrite E. reflexivity.
  Qed.

  Lemma emem_sim clock (c : coll V) a k : Rep clock c -> sim c a -> emem (st_ver c) k (c_elems c) = amem bytes_eqb k a.
  Proof.
    intros R S. rewrite emem_lookup, (stored_lookup clock c k R), (sim_lookup c a k S). reflexivity.
  Qed.

  Lemma count_old_sim clock (c : coll V) a ks : Rep clock c -> sim c a ->
    count_old (st_ver c) ks (c_elems c) = Z.of_nat (length (filter (fun k => amem bytes_eqb k a) ks)).
  Proof.
    intros R S. unfold count_old. f_equal. f_equal. induction ks as [|k r IH]; cbn; [reflexivity|].
    rewrite (emem_sim clock c a k R S), IH. reflexivity.
  Qed.

  (* shape B *)
  Lemma ref_del_batch clock (c : coll V) ks a :
    Rep clock c -> NoDup ks -> sim c a ->
    sim (Build_coll (set_size (st_ver c) (st_size c - count_old (st_ver c) ks (c_elems c)))
                    (del_some (st_ver c) (c_elems c) ks (c_elems c)))
        (fst (del_loop ks a)) /\
    count_old (st_ver c) ks (c_elems c) = snd (del_loop ks a).
  Proof.
    intros R ND S. pose proof (rep_del_batch compact clock c ks R ND) as R'.
    assert (NDa : NoDup (map fst a)) by (destruct S as (_ & N & _); exact N).
    destruct (del_loop_spec ks a NDa) as [N1 G1].
    split; [|rewrite (count_old_sim clock c a ks R S), (del_loop_count ks ND a NDa); reflexivity].
    apply (sim_intro compact clock); [exact R'|exact N1|].
    intros g. rewrite G1. unfold lookup at 1. cbn [exists_coll st_ver c_meta c_elems].
    set (v := st_ver c) in *. set (n := st_size c - count_old v ks (c_elems c)) in *.
    assert (LK : eget v g (del_some v (c_elems c) ks (c_elems c)) = if bytes_mem g ks then None else get g a).
    { rewrite eget_del_some; [|exact ND|apply (rc_nodup _ _ _ R)|reflexivity].
      rewrite <- (sim_lookup c a g S), <- (stored_lookup clock c g R). fold v.
      destruct (bytes_mem g ks); cbn [andb]; [|reflexivity].
      rewrite emem_lookup. destruct (eget v g (c_elems c)); reflexivity. }
    unfold set_size. destruct (n <=? 0) eqn:E; cbn [cm_ver]; [|exact LK].
    (* no meta key left: nothing of the generation survives *)
    destruct (bytes_mem g ks) eqn:M; [reflexivity|].
    rewrite <- LK.
    destruct (eget v g (del_some v (c_elems c) ks (c_elems c))) as [x|] eqn:G; [exfalso|reflexivity].
    assert (GS : gsize v (del_some v (c_elems c) ks (c_elems c)) = gsize v (c_elems c) - count_old v ks (c_elems c)).
    { apply gsize_del_some; auto. apply (rc_nodup _ _ _ R). }
    assert (0 < gsize v (del_some v (c_elems c) ks (c_elems c))).
    { apply (aget_In vkey_eqb vkey_eqb_eq) in G. unfold gsize.
      assert (In ((v, g), x) (gen_elems v (del_some v (c_elems c) ks (c_elems c)))) by (apply gen_In; cbn; auto).
      destruct (gen_elems v (del_some v (c_elems c) ks (c_elems c))); cbn in *; [tauto|lia]. }
    destruct (st_size_rep compact clock c R) as [Hs|[Hm Hs]].
    - fold v in Hs. unfold n in E. lia.
    - (* no meta key before either: then nothing was stored in generation v *)
      rewrite <- (sim_lookup c a g S) in LK. unfold lookup, exists_coll in LK. rewrite Hm in LK. discriminate.
  Qed.
End Ref2.
