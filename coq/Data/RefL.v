(* Data/RefL.v — refinement Map -> Spec for lists (property C08): the abstraction of a stored list record
   is the sequence of the values at the sequences head..tail of its generation. *)
From ZV Require Import Common.Bytes Common.BytesFacts Data.Consts Data.Base Data.BaseFacts Data.MapEq Data.Map Data.MapL Data.SpecL Data.Spec
  Data.RepColl Data.RepL Data.RepRead.
From Coq Require Import Permutation Lia ZifyBool.
Open Scope Z_scope.

Section LRef.
  Variable compact : bool.
  Notation Rep := (RepL compact).

  Definition lval (v : Z) (es : list (skey * bytes)) (s : Z) : bytes :=
    match lget v s es with Some x => x | None => [] end.
  Definition abs_l (l : lcoll) : list bytes :=
    if l_exists l then map (lval (l_ver l) (l_elems l)) (zseq (l_head l) (Z.to_nat (l_size l))) else [].

  Lemma zseq_app a n m : zseq a (n + m) = zseq a n ++ zseq (a + Z.of_nat n) m.
  Proof.
    revert a; induction n as [|n IH]; intros a; cbn [zseq Nat.add app].
    - replace (a + Z.of_nat 0) with a by lia. reflexivity.
    - rewrite IH. f_equal. f_equal. f_equal. lia.
  Qed.

  Lemma zseq_ssorted (f : Z -> skey * bytes) a n : (forall s, snd (fst (f s)) = s) ->
    ssorted seq_leb (map f (zseq a n)).
  Proof.
    intros Hf. revert a; induction n as [|n IH]; intros a; cbn; constructor; [|apply IH].
    intros y Hy. apply in_map_iff in Hy. destruct Hy as (s & <- & Hs). apply zseq_In in Hs.
    unfold seq_leb. rewrite !Hf. lia.
  Qed.

  (* the range scan of a well-formed list is the canonical enumeration lo, lo+1, ... tail *)
  Lemma lscan_canon_sub clock l m lo : Rep clock l -> l_meta l = Some m -> lm_head m <= lo ->
    lscan (lm_ver m) lo (lm_tail m) (l_elems l) =
    map (fun s => (s, lval (lm_ver m) (l_elems l) s)) (zseq lo (Z.to_nat (lm_tail m - lo + 1))).
  Proof.
    intros R E Hlo. destruct (rl_meta _ _ _ R m E) as (hle & vk & pres & conf).
    pose proof (rl_nodup _ _ _ R) as ND.
    remember (lm_ver m) as v eqn:Ev. remember (l_elems l) as es eqn:Ees. set (n := Z.to_nat (lm_tail m - lo + 1)).
    set (F := filter (fun e : skey * bytes => (fst (fst e) =? v) && (lo <=? snd (fst e)) && (snd (fst e) <=? lm_tail m)) es).
    set (E0 := map (fun s => ((v, s), lval v es s)) (zseq lo n)).
    assert (FIn : forall e, In e F <-> In e es /\ fst (fst e) = v /\ lo <= snd (fst e) <= lm_tail m).
    { intros e. unfold F. rewrite filter_In. split; intros [H1 H2]; (split; [exact H1|]); lia. }
    assert (EQ : isort seq_leb F = E0).
    { apply (ssorted_perm_eq seq_leb).
      - intros a b Ha Hb L1 L2. apply isort_In in Ha, Hb. apply FIn in Ha, Hb.
        destruct Ha as (Ia & Va & _), Hb as (Ib & Vb & _). unfold seq_leb in *.
        destruct a as [[va sa] xa], b as [[vb sb] xb]. cbn in *. subst va vb. assert (sa = sb) by lia. subst sb.
        f_equal. apply (In_aget_nodup skey_eqb skey_eqb_eq _ _ _ ND) in Ia. apply (In_aget_nodup skey_eqb skey_eqb_eq _ _ _ ND) in Ib. congruence.
      - apply isort_ssorted; [intros a b; unfold seq_leb; lia|intros a b c; unfold seq_leb; lia].
      - unfold E0. apply (zseq_ssorted (fun s => ((v, s), lval v es s))). reflexivity.
      - rewrite (isort_perm seq_leb F). apply NoDup_Permutation.
        + unfold F. apply NoDup_filter. eapply NoDup_map_inv; exact ND.
        + unfold E0. apply FinFun.Injective_map_NoDup; [|apply zseq_NoDup]. intros s s' H. inversion H; reflexivity.
        + intros e. rewrite FIn. unfold E0. rewrite in_map_iff. split.
          * intros (Ie & Ve & Re). exists (snd (fst e)). split; [|apply zseq_In; unfold n; lia].
            destruct e as [[ve se] xe]. cbn in *. subst ve. f_equal. unfold lval, lget.
            rewrite (In_aget_nodup skey_eqb skey_eqb_eq _ _ _ ND Ie). reflexivity.
          * intros (s & <- & Hs). apply zseq_In in Hs. cbn [fst snd]. split; [|split; [reflexivity|unfold n in Hs; lia]].
            assert (P : lmem v s es = true) by (apply pres; unfold n in Hs; lia).
            unfold lval, lget. unfold lmem, amem in P. destruct (aget skey_eqb (v, s) es) as [x|] eqn:G; [|discriminate].
            apply (aget_In skey_eqb skey_eqb_eq); exact G. }
    unfold lscan. etransitivity; [apply f_equal; exact EQ|]. unfold E0. rewrite map_map. reflexivity.
  Qed.

  Lemma lscan_canon clock l m : Rep clock l -> l_meta l = Some m ->
    lscan (lm_ver m) (lm_head m) (lm_tail m) (l_elems l) =
    map (fun s => (s, lval (lm_ver m) (l_elems l) s)) (zseq (lm_head m) (Z.to_nat (lm_tail m - lm_head m + 1))).
  Proof. intros R E. apply (lscan_canon_sub clock); auto. lia. Qed.

  Lemma abs_scan clock l : Rep clock l ->
    abs_l l = if l_exists l then map snd (lscan (l_ver l) (l_head l) (l_tail l) (l_elems l)) else [].
  Proof.
    intros R. unfold abs_l, l_exists, l_ver, l_head, l_tail, l_size. destruct (l_meta l) as [m|] eqn:E; [|reflexivity].
    rewrite (lscan_canon clock l m R E), map_map. reflexivity.
  Qed.

  Lemma abs_length clock l : Rep clock l -> Z.of_nat (length (abs_l l)) = l_size l.
  Proof.
    intros R. unfold abs_l, l_exists, l_size. destruct (l_meta l) as [m|] eqn:E; [|reflexivity].
    rewrite map_length, zseq_length. destruct (rl_meta _ _ _ R m E) as (hle & _). lia.
  Qed.

  Lemma abs_nth clock l m i : Rep clock l -> l_meta l = Some m -> 0 <= i < l_size l ->
    nth_error (abs_l l) (Z.to_nat i) = lget (lm_ver m) (lm_head m + i) (l_elems l).
  Proof.
    intros R E Hi. unfold abs_l, l_exists, l_ver, l_head, l_size in *. rewrite E in *.
    destruct (rl_meta _ _ _ R m E) as (hle & vk & pres & conf).
    assert (G : forall n a k, (k < n)%nat -> nth_error (zseq a n) k = Some (a + Z.of_nat k)).
    { induction n as [|n IH]; intros a k Hk; [lia|]. destruct k as [|k]; cbn; [f_equal; lia|].
      rewrite IH by lia. f_equal. lia. }
    rewrite nth_error_map, G by lia. cbn. replace (lm_head m + Z.of_nat (Z.to_nat i)) with (lm_head m + i) by lia.
    unfold lval. assert (P : lmem (lm_ver m) (lm_head m + i) (l_elems l) = true) by (apply pres; lia).
    unfold lmem, amem, lget in *. destruct (aget skey_eqb (lm_ver m, lm_head m + i) (l_elems l)); [reflexivity|discriminate].
  Qed.

  (* ---------- reads ---------- *)
  Lemma list_reads_ref clock key l : Rep clock l ->
    MapL.lquery key LQlen l = SpecL.lquery key LQlen (abs_l l) /\
    MapL.lquery key LQkeyexist l = SpecL.lquery key LQkeyexist (abs_l l) /\
    (forall i, MapL.lquery key (LQindex i) l = SpecL.lquery key (LQindex i) (abs_l l)).
  Proof.
    intros R. pose proof (abs_length clock l R) as AL. split; [|split].
    - unfold MapL.lquery, SpecL.lquery, size_of. rewrite AL. reflexivity.
    - unfold MapL.lquery, SpecL.lquery. destruct (negb (key_ok key)); [reflexivity|]. f_equal.
      unfold l_exists, l_size in *. destruct (l_meta l) as [m|] eqn:E.
      + destruct (rl_meta _ _ _ R m E) as (hle & _). destruct (length (abs_l l)); [lia|reflexivity].
      + destruct (length (abs_l l)); [reflexivity|lia].
    - intros i. unfold MapL.lquery, SpecL.lquery, norm_index, size_of. rewrite AL.
      destruct (negb (key_ok key)); [reflexivity|].
      unfold l_exists. destruct (l_meta l) as [m|] eqn:E; cbn [negb orb].
      + assert (Hs : l_size l = lm_tail m - lm_head m + 1) by (unfold l_size; rewrite E; reflexivity).
        assert (Hh : l_head l = lm_head m) by (unfold l_head; rewrite E; reflexivity).
        assert (Ht : l_tail l = lm_tail m) by (unfold l_tail; rewrite E; reflexivity).
        assert (Hv : l_ver l = lm_ver m) by (unfold l_ver; rewrite E; reflexivity).
        rewrite Hh, Ht, Hv, Hs. destruct (rl_meta _ _ _ R m E) as (hle & _).
        destruct (0 <=? i) eqn:P0.
        * assert (i <? 0 = false) as -> by lia.
          destruct ((lm_head m + i <? lm_head m) || (lm_tail m <? lm_head m + i)) eqn:O.
          -- assert ((i <? 0) || (lm_tail m - lm_head m + 1 <=? i) = true) as -> by lia. reflexivity.
          -- assert ((i <? 0) || (lm_tail m - lm_head m + 1 <=? i) = false) as -> by lia.
             rewrite (abs_nth clock l m i R E) by (rewrite Hs; lia). reflexivity.
        * assert (i <? 0 = true) as -> by lia.
          destruct ((lm_tail m + i + 1 <? lm_head m) || (lm_tail m <? lm_tail m + i + 1)) eqn:O.
          -- assert ((lm_tail m - lm_head m + 1 + i <? 0) || (lm_tail m - lm_head m + 1 <=? lm_tail m - lm_head m + 1 + i) = true) as -> by lia. reflexivity.
          -- assert ((lm_tail m - lm_head m + 1 + i <? 0) || (lm_tail m - lm_head m + 1 <=? lm_tail m - lm_head m + 1 + i) = false) as -> by lia.
             rewrite (abs_nth clock l m (lm_tail m - lm_head m + 1 + i) R E) by (rewrite Hs; lia).
             replace (lm_head m + (lm_tail m - lm_head m + 1 + i)) with (lm_tail m + i + 1) by lia. reflexivity.
      + assert (l_size l = 0) as -> by (unfold l_size; rewrite E; reflexivity).
        destruct (i <? 0); cbn; destruct ((_ <? 0) || (0 <=? _)) eqn:Q; try reflexivity; lia.
  Qed.

  Lemma skipn_map_zseq {B} (f : Z -> B) a n k : (k <= n)%nat ->
    skipn k (map f (zseq a n)) = map f (zseq (a + Z.of_nat k) (n - k)).
  Proof.
    revert a n; induction k as [|k IH]; intros a n Hk; cbn [skipn].
    - replace (a + Z.of_nat 0) with a by lia. replace (n - 0)%nat with n by lia. reflexivity.
    - destruct n as [|n]; [lia|]. cbn [zseq map]. rewrite IH by lia. f_equal. f_equal; lia.
  Qed.
  Lemma firstn_map_zseq {B} (f : Z -> B) a n k : (k <= n)%nat ->
    firstn k (map f (zseq a n)) = map f (zseq a k).
  Proof.
    revert a n; induction k as [|k IH]; intros a n Hk; cbn [firstn]; [reflexivity|].
    destruct n as [|n]; [lia|]. cbn [zseq map]. rewrite IH by lia. reflexivity.
  Qed.

  Lemma lrange_ref clock key start stop l : Rep clock l ->
    MapL.lquery key (LQrange start stop) l = SpecL.lquery key (LQrange start stop) (abs_l l).
  Proof.
    intros R. pose proof (abs_length clock l R) as AL.
    unfold MapL.lquery, SpecL.lquery, norm_range, size_of. rewrite AL.
    destruct (negb (key_ok key)); [reflexivity|].
    unfold l_exists. destruct (l_meta l) as [m|] eqn:E; cbn [negb].
    - assert (Hs : l_size l = lm_tail m - lm_head m + 1) by (unfold l_size; rewrite E; reflexivity).
      assert (Hh : l_head l = lm_head m) by (unfold l_head; rewrite E; reflexivity).
      assert (Ht : l_tail l = lm_tail m) by (unfold l_tail; rewrite E; reflexivity).
      assert (Hv : l_ver l = lm_ver m) by (unfold l_ver; rewrite E; reflexivity).
      destruct (rl_meta _ _ _ R m E) as (hle & _).
      set (llen := l_size l) in *.
      set (start1 := if start <? 0 then llen + start else start).
      set (stop1 := if stop <? 0 then llen + stop else stop).
      set (start2 := if start1 <? 0 then 0 else start1).
      destruct ((stop1 <? start2) || (llen <=? start2)) eqn:Emp; [reflexivity|].
      set (stop2 := if llen <=? stop1 then llen - 1 else stop1).
      assert (B : 0 <= start2 /\ start2 <= stop2 /\ stop2 < llen) by (unfold stop2, start2 in *; destruct (llen <=? stop1) eqn:Q; destruct (start1 <? 0) eqn:Q2; lia).
      destruct (max_batch_num <? stop2 - start2 + 1); [reflexivity|].
      rewrite Hh, Ht, Hv. rewrite (lscan_canon_sub clock l m (lm_head m + start2) R E) by lia.
      unfold abs_l, l_exists. rewrite E. fold llen. unfold l_ver, l_head. rewrite E.
      unfold lslice. rewrite map_length, zseq_length.
      assert (Z.to_nat (Z.min (stop2 - start2 + 1) (Z.of_nat (Z.to_nat (lm_tail m - (lm_head m + start2) + 1)))) = Z.to_nat (stop2 - start2 + 1)) as -> by lia.
      rewrite (firstn_map_zseq (fun s : Z => (s, lval (lm_ver m) (l_elems l) s))) by lia.
      rewrite map_map. cbn [snd].
      rewrite (skipn_map_zseq (lval (lm_ver m) (l_elems l))) by lia.
      rewrite (firstn_map_zseq (lval (lm_ver m) (l_elems l))) by lia.
      replace (lm_head m + Z.of_nat (Z.to_nat start2)) with (lm_head m + start2) by lia. reflexivity.
    - assert (l_size l = 0) as -> by (unfold l_size; rewrite E; reflexivity).
      destruct ((_ <? _) || (0 <=? _)) eqn:Q; [reflexivity|]. exfalso.
      apply orb_false_iff in Q. destruct Q as [_ Q].
      repeat match goal with H : context [if ?b then _ else _] |- _ => destruct b eqn:? end; lia.
  Qed.
End LRef.

Ltac ifs := repeat match goal with
  | H : context [if ?b then _ else _] |- _ => destruct b eqn:?
  | |- context [if ?b then _ else _] => destruct b eqn:?
  end.

Section LWrites.
  Variable compact : bool.
  Notation Rep := (RepL compact).

  Lemma lget_lput v s s' x es : lget v s' (lput v s x es) = if s' =? s then Some x else lget v s' es.
  Proof.
    unfold lget, lput. destruct (s' =? s) eqn:E.
    - apply Z.eqb_eq in E; subst. apply (aget_aput_eq skey_eqb skey_eqb_eq).
    - apply (aget_aput_ne skey_eqb skey_eqb_eq). intros H; inversion H; lia.
  Qed.
  Lemma lget_put_seqs_other v puts : forall es s, ~ In s (map fst puts) ->
    lget v s (put_seqs v puts es) = lget v s es.
  Proof.
    induction puts as [|[s0 x0] r IH]; intros es s Hn; [reflexivity|].
    change (put_seqs v ((s0, x0) :: r) es) with (put_seqs v r (lput v s0 x0 es)).
    rewrite IH by (intros H; apply Hn; right; exact H). rewrite lget_lput.
    destruct (s =? s0) eqn:E; [apply Z.eqb_eq in E; subst; exfalso; apply Hn; left; reflexivity|reflexivity].
  Qed.
  Lemma lget_put_seqs_head v s x r es : ~ In s (map fst r) ->
    lget v s (put_seqs v ((s, x) :: r) es) = Some x.
  Proof.
    intros Hn. change (put_seqs v ((s, x) :: r) es) with (put_seqs v r (lput v s x es)).
    rewrite lget_put_seqs_other by exact Hn. rewrite lget_lput, Z.eqb_refl. reflexivity.
  Qed.
  Lemma push_seqs_fst seq delta vs s : In s (map fst (push_seqs seq delta vs)) ->
    exists i, 0 <= i < Z.of_nat (length vs) /\ s = seq + i * delta.
  Proof.
    intros H. apply push_seqs_exists. apply existsb_exists. apply in_map_iff in H. destruct H as (p & <- & Hp).
    exists p. split; [exact Hp|apply Z.eqb_refl].
  Qed.

  (* values read back after a tail push: the pushed values in order *)
  Lemma pushed_tail v vs : forall seq es,
    map (lval v (put_seqs v (push_seqs seq 1 vs) es)) (zseq seq (length vs)) = vs.
  Proof.
    induction vs as [|x r IH]; intros seq es; [reflexivity|]. cbn [push_seqs length zseq map]. f_equal.
    - unfold lval. rewrite lget_put_seqs_head; [reflexivity|].
      intros H. apply push_seqs_fst in H. destruct H as (i & Hi & Hs). lia.
    - change (put_seqs v ((seq, x) :: push_seqs (seq + 1) 1 r) es) with (put_seqs v (push_seqs (seq + 1) 1 r) (lput v seq x es)).
      apply IH.
  Qed.
  (* after a head push the values at seq-(cnt-1) .. seq are the pushed values reversed *)
  Lemma pushed_head v vs : forall seq es,
    map (lval v (put_seqs v (push_seqs seq (-1) vs) es)) (zseq (seq - Z.of_nat (length vs) + 1) (length vs)) = List.rev vs.
  Proof.
    induction vs as [|x r IH]; intros seq es; [reflexivity|]. cbn [push_seqs length List.rev].
    replace (S (length r)) with (length r + 1)%nat by lia. rewrite zseq_app, map_app. f_equal.
    - change (put_seqs v ((seq, x) :: push_seqs (seq + -1) (-1) r) es) with (put_seqs v (push_seqs (seq + -1) (-1) r) (lput v seq x es)).
      replace (seq - Z.of_nat (length r + 1) + 1) with (seq + -1 - Z.of_nat (length r) + 1) by lia. apply IH.
    - cbn [zseq map]. f_equal. replace (seq - Z.of_nat (length r + 1) + 1 + Z.of_nat (length r)) with seq by lia.
      unfold lval. rewrite lget_put_seqs_head; [reflexivity|].
      intros H. apply push_seqs_fst in H. destruct H as (i & Hi & Hs). lia.
  Qed.

  Lemma map_lval_ext v es es' ss : (forall s, In s ss -> lget v s es' = lget v s es) ->
    map (lval v es') ss = map (lval v es) ss.
  Proof. intros H. apply map_ext_in. intros s Hs. unfold lval. rewrite H; auto. Qed.

  (* the sequence number the last pushed value gets (MapL.lstep, LCpush) *)
  Definition push_last (l : lcoll) (tail : bool) (cnt : Z) : Z :=
    let delta := if tail then 1 else -1 in
    let seq0 := if tail then l_tail l else l_head l in
    let seq := if 0 <? l_size l then seq0 + delta else seq0 in
    seq + (cnt - 1) * delta.
  Definition push_in_bounds (l : lcoll) (tail : bool) (cnt : Z) : Prop :=
    list_min_seq < push_last l tail cnt < list_max_seq.

  (* LPUSH / RPUSH refine, unless the 2^61 sequence numbers on that side of the list are used up *)
  Theorem lpush_ref clock ts key tail vs l : Rep clock l -> 0 <= clock < ts ->
    (too_many vs = false -> push_in_bounds l tail (Z.of_nat (length vs))) ->
    snd (MapL.lstep compact ts key (LCpush tail vs) l) = snd (SpecL.lstep key (LCpush tail vs) (abs_l l)) /\
    abs_l (fst (MapL.lstep compact ts key (LCpush tail vs) l)) = fst (SpecL.lstep key (LCpush tail vs) (abs_l l)).
  Proof.
    intros R L PB0. pose proof (abs_length compact clock l R) as AL.
    cbn [MapL.lstep SpecL.lstep]. destruct (too_many vs); [split; reflexivity|]. pose proof (PB0 eq_refl) as PB. clear PB0.
    destruct (negb (key_ok key)); [split; reflexivity|].
    destruct vs as [|x0 r0].
    { cbn [fst snd]. split; [|destruct tail; cbn [List.rev app]; rewrite ?app_nil_r; reflexivity].
      destruct tail; cbn [List.rev app]; rewrite ?app_nil_r; unfold size_of; rewrite AL; reflexivity. }
    set (vs := x0 :: r0) in *.
    unfold push_in_bounds, push_last in PB.
    set (v := l_prep_ver compact ts l) in *. set (size := l_size l) in *.
    set (delta := if tail then 1 else -1) in *. set (seq0 := if tail then l_tail l else l_head l) in *.
    set (seq := if 0 <? size then seq0 + delta else seq0) in *.
    set (cnt := Z.of_nat (length vs)) in *. set (last := seq + (cnt - 1) * delta) in *.
    assert (cnt_pos : 0 < cnt) by (unfold cnt, vs; cbn [length]; lia).
    assert ((last <=? list_min_seq) || (list_max_seq <=? last) = false) as -> by lia.
    (* no pushed sequence is occupied *)
    assert (Free : forall s, In s (map fst (push_seqs seq delta vs)) -> lget v s (l_elems l) = None).
    { intros s Hs. apply push_seqs_fst in Hs. destruct Hs as (i & Hi & ->). fold cnt in Hi.
      destruct (lget v (seq + i * delta) (l_elems l)) as [x|] eqn:G; [exfalso|reflexivity].
      apply (aget_In skey_eqb skey_eqb_eq) in G.
      unfold v, l_prep_ver, size, l_size, seq, seq0, l_head, l_tail in *. destruct (l_meta l) as [m|] eqn:E.
      - destruct (rl_meta _ _ _ R m E) as (hle & _ & _ & conf). specialize (conf _ G eq_refl). cbn [fst snd] in conf.
        clear - conf hle Hi. subst size delta. ifs; lia.
      - eapply (prep_fresh compact clock ts l R L E _ G). unfold l_prep_ver. rewrite E. reflexivity. }
    assert (EX : existsb (fun p => match lget v (fst p) (l_elems l) with Some _ => true | None => false end) (push_seqs seq delta vs) = false).
    { destruct (existsb _ (push_seqs seq delta vs)) eqn:Q; [|reflexivity]. apply existsb_exists in Q. destruct Q as (p & Hp & Hq).
      rewrite (Free (fst p)) in Hq; [discriminate|apply in_map; exact Hp]. }
    rewrite EX.
    set (head' := if tail then l_head l else last). set (tl' := if tail then last else l_tail l).
    fold (put_seqs v (push_seqs seq delta vs) (l_elems l)).
    (* shape of the new range *)
    assert (Shape : head' <= tl' /\ tl' - head' + 1 = size + cnt /\ 0 <= size).
    { unfold head', tl', last, seq, seq0, delta, size, l_size, l_head, l_tail in *. destruct (l_meta l) as [m|] eqn:E.
      - destruct (rl_meta _ _ _ R m E) as (hle & _). clear - hle cnt_pos. ifs; lia.
      - clear - cnt_pos. ifs; lia. }
    destruct Shape as (Hle & Hsz & Sn).
    unfold lset_meta. assert (tl' - head' + 1 <? 0 = false) as -> by lia. assert (tl' - head' + 1 =? 0 = false) as -> by lia.
    cbn [fst snd]. split.
    { unfold size_of. destruct tail; rewrite app_length, ?rev_length; rewrite Nat2Z.inj_add, AL; fold size cnt; f_equal; lia. }
    unfold abs_l at 1. cbn [l_exists l_meta l_ver l_head l_size l_elems lm_ver lm_head lm_tail].
    rewrite Hsz.
    (* old part and pushed part *)
    assert (Old : map (lval v (put_seqs v (push_seqs seq delta vs) (l_elems l))) (zseq (l_head l) (Z.to_nat size)) = abs_l l).
    { unfold abs_l, l_exists, size, l_size, v, l_prep_ver, l_ver, l_head in *. destruct (l_meta l) as [m|] eqn:E; [|reflexivity].
      apply map_lval_ext. intros s Hs. apply zseq_In in Hs. apply lget_put_seqs_other.
      intros H. apply push_seqs_fst in H. destruct H as (i & Hi & Hse).
      destruct (rl_meta _ _ _ R m E) as (hle & _).
      unfold seq, seq0, delta, l_tail, l_head in Hse. rewrite E in Hse.
      assert (0 <? lm_tail m - lm_head m + 1 = true) as Q by lia. rewrite Q in Hse. destruct tail; lia. }
    destruct tail.
    - (* rpush: old ++ vs *)
      assert (Z.to_nat (size + cnt) = (Z.to_nat size + length vs)%nat) as -> by (unfold cnt; lia).
      rewrite zseq_app, map_app. unfold head'. rewrite Old. f_equal.
      assert (l_head l + Z.of_nat (Z.to_nat size) = seq) as ->.
      { unfold seq, seq0, delta, size, l_size, l_head, l_tail in *. destruct (l_meta l) as [m|] eqn:E.
        - destruct (rl_meta _ _ _ R m E) as (hle & _). assert (0 <? lm_tail m - lm_head m + 1 = true) as Q by lia. rewrite Q. lia.
        - reflexivity. }
      apply pushed_tail.
    - (* lpush: rev vs ++ old *)
      assert (Z.to_nat (size + cnt) = (length vs + Z.to_nat size)%nat) as -> by (unfold cnt; lia).
      rewrite zseq_app, map_app. unfold head'.
      assert (HL : last = seq - Z.of_nat (length vs) + 1) by (unfold last, delta, cnt; lia).
      assert (last + Z.of_nat (length vs) = l_head l \/ size = 0) as [Hh|Hz].
      { unfold seq, seq0, delta, size, l_size, l_head, l_tail in *. destruct (l_meta l) as [m|] eqn:E.
        - destruct (rl_meta _ _ _ R m E) as (hle & _). assert (0 <? lm_tail m - lm_head m + 1 = true) as Q by lia. rewrite Q in *. left. lia.
        - right. reflexivity. }
      + rewrite Hh, Old. f_equal. rewrite HL. apply pushed_head.
      + rewrite Hz. cbn [Z.to_nat zseq map]. rewrite !app_nil_r.
        assert (abs_l l = []) as ->.
        { pose proof AL as AL'. fold size in AL'. rewrite Hz in AL'. destruct (abs_l l); [reflexivity|cbn in AL'; lia]. }
        rewrite app_nil_r. rewrite HL. apply pushed_head.
  Qed.

  Lemma lget_ldel v s s' es : NoDup (map fst es) -> lget v s' (ldel v s es) = if s' =? s then None else lget v s' es.
  Proof.
    intros ND. unfold lget, ldel. destruct (s' =? s) eqn:E.
    - apply Z.eqb_eq in E; subst. apply (aget_adel_eq skey_eqb skey_eqb_eq); exact ND.
    - apply (aget_adel_ne skey_eqb skey_eqb_eq). intros H; inversion H; lia.
  Qed.

  Lemma abs_some l m : l_meta l = Some m ->
    abs_l l = map (lval (lm_ver m) (l_elems l)) (zseq (lm_head m) (Z.to_nat (lm_tail m - lm_head m + 1))).
  Proof. intros E. unfold abs_l, l_exists, l_ver, l_head, l_size. rewrite E. reflexivity. Qed.
  Lemma abs_none l : l_meta l = None -> abs_l l = [].
  Proof. intros E. unfold abs_l, l_exists. rewrite E. reflexivity. Qed.

  Theorem lpop_ref clock ts key tail l : Rep clock l ->
    snd (MapL.lstep compact ts key (LCpop tail) l) = snd (SpecL.lstep key (LCpop tail) (abs_l l)) /\
    abs_l (fst (MapL.lstep compact ts key (LCpop tail) l)) = fst (SpecL.lstep key (LCpop tail) (abs_l l)).
  Proof.
    intros R. cbn [MapL.lstep SpecL.lstep]. destruct (negb (key_ok key)); [split; reflexivity|].
    unfold l_exists. destruct (l_meta l) as [m|] eqn:E; cbn [negb].
    2:{ cbn [fst snd]. rewrite (abs_none l E). destruct tail; cbn; split; reflexivity. }
    destruct (rl_meta _ _ _ R m E) as (hle & vk & pres & conf). pose proof (rl_nodup _ _ _ R) as ND.
    assert (Hs : l_size l = lm_tail m - lm_head m + 1) by (unfold l_size; rewrite E; reflexivity).
    assert (Hh : l_head l = lm_head m) by (unfold l_head; rewrite E; reflexivity).
    assert (Ht : l_tail l = lm_tail m) by (unfold l_tail; rewrite E; reflexivity).
    assert (Hv : l_ver l = lm_ver m) by (unfold l_ver; rewrite E; reflexivity).
    rewrite Hs, Hh, Ht, Hv. assert (lm_tail m - lm_head m + 1 =? 0 = false) as -> by lia.
    set (n := Z.to_nat (lm_tail m - lm_head m + 1)).
    assert (Hn : (n = S (n - 1))%nat) by (unfold n; lia).
    rewrite (abs_some l m E). fold n.
    set (seq := if tail then lm_tail m else lm_head m).
    assert (P : lmem (lm_ver m) seq (l_elems l) = true) by (apply pres; unfold seq; destruct tail; lia).
    unfold lmem, amem in P. fold (lget (lm_ver m) seq (l_elems l)) in P.
    destruct (lget (lm_ver m) seq (l_elems l)) as [x|] eqn:G; [|discriminate].
    assert (LV : lval (lm_ver m) (l_elems l) seq = x) by (unfold lval; rewrite G; reflexivity).
    set (head' := if tail then lm_head m else lm_head m + 1). set (tl' := if tail then lm_tail m - 1 else lm_tail m).
    unfold lset_meta. assert (tl' - head' + 1 <? 0 = false) as -> by (unfold tl', head'; destruct tail; lia).
    (* the values outside the popped sequence are unchanged *)
    assert (KEEP : forall ss, ~ In seq ss -> map (lval (lm_ver m) (ldel (lm_ver m) seq (l_elems l))) ss = map (lval (lm_ver m) (l_elems l)) ss).
    { intros ss Hn'. apply map_lval_ext. intros s Hs'. rewrite lget_ldel by exact ND.
      destruct (s =? seq) eqn:Q; [apply Z.eqb_eq in Q; subst; contradiction|reflexivity]. }
    destruct tail.
    - (* rpop *)
      rewrite Hn. replace (S (n - 1)) with ((n - 1) + 1)%nat by lia. rewrite zseq_app, map_app. cbn [zseq map].
      assert (lm_head m + Z.of_nat (n - 1) = lm_tail m) as -> by (unfold n; lia). unfold seq in LV. rewrite LV.
      rewrite rev_unit. cbn [fst snd]. rewrite rev_involutive.
      destruct (tl' - head' + 1 =? 0) eqn:Z0; cbn [fst snd]; (split; [reflexivity|]).
      + rewrite abs_none by reflexivity. assert ((n - 1 = 0)%nat) as -> by (unfold n, tl', head' in *; lia). reflexivity.
      + rewrite (abs_some _ {| lm_ver := lm_ver m; lm_head := head'; lm_tail := tl' |}) by reflexivity.
        cbn [lm_ver lm_head lm_tail l_elems]. unfold head', tl'.
        assert (Z.to_nat (lm_tail m - 1 - lm_head m + 1) = (n - 1)%nat) as -> by (unfold n; lia).
        apply KEEP. rewrite zseq_In. unfold seq, n. lia.
    - (* lpop *)
      rewrite Hn. cbn [zseq map]. unfold seq in LV. rewrite LV. cbn [fst snd].
      destruct (tl' - head' + 1 =? 0) eqn:Z0; cbn [fst snd]; (split; [reflexivity|]).
      + rewrite abs_none by reflexivity. assert ((n - 1 = 0)%nat) as -> by (unfold n, tl', head' in *; lia). reflexivity.
      + rewrite (abs_some _ {| lm_ver := lm_ver m; lm_head := head'; lm_tail := tl' |}) by reflexivity.
        cbn [lm_ver lm_head lm_tail l_elems]. unfold head', tl'.
        assert (Z.to_nat (lm_tail m - (lm_head m + 1) + 1) = (n - 1)%nat) as -> by (unfold n; lia).
        apply KEEP. rewrite zseq_In. unfold seq, n. lia.
  Qed.

  Theorem lclear_ref clock ts key l : Rep clock l ->
    snd (MapL.lstep compact ts key LCclear l) = snd (SpecL.lstep key LCclear (abs_l l)) /\
    abs_l (fst (MapL.lstep compact ts key LCclear l)) = fst (SpecL.lstep key LCclear (abs_l l)).
  Proof.
    intros R. pose proof (abs_length compact clock l R) as AL.
    cbn [MapL.lstep SpecL.lstep]. destruct (negb (key_ok key)); [split; reflexivity|].
    unfold ldelete. destruct (l_meta l) as [m|] eqn:E.
    - destruct (rl_meta _ _ _ R m E) as (hle & _).
      assert (Hs : l_size l = lm_tail m - lm_head m + 1) by (unfold l_size; rewrite E; reflexivity).
      rewrite Hs in *. assert (lm_tail m - lm_head m + 1 =? 0 = false) as -> by lia. cbn [fst snd].
      assert (0 <? lm_tail m - lm_head m + 1 = true) as -> by lia.
      destruct (abs_l l) as [|y r]; [cbn [length] in AL; lia|]. split; [reflexivity|]. apply abs_none. reflexivity.
    - cbn [fst snd]. rewrite (abs_none l E). split; reflexivity.
  Qed.

  Lemma set_nth_map_zseq (f : Z -> bytes) a n j x : (j < n)%nat ->
    set_nth j x (map f (zseq a n)) = map (fun s => if s =? a + Z.of_nat j then x else f s) (zseq a n).
  Proof.
    revert a j; induction n as [|n IH]; intros a j Hj; [lia|]. cbn [zseq map]. destruct j as [|j]; cbn [set_nth].
    - assert (a =? a + Z.of_nat 0 = true) as -> by lia. f_equal. apply map_ext_in. intros s Hs. apply zseq_In in Hs.
      assert (s =? a + Z.of_nat 0 = false) as -> by lia. reflexivity.
    - assert (a =? a + Z.of_nat (S j) = false) as -> by lia. f_equal. rewrite IH by lia.
      apply map_ext. intros s. replace (a + 1 + Z.of_nat j) with (a + Z.of_nat (S j)) by lia. reflexivity.
  Qed.

  Theorem lset_ref clock ts key i x l : Rep clock l ->
    snd (MapL.lstep compact ts key (LCset i x) l) = snd (SpecL.lstep key (LCset i x) (abs_l l)) /\
    abs_l (fst (MapL.lstep compact ts key (LCset i x) l)) = fst (SpecL.lstep key (LCset i x) (abs_l l)).
  Proof.
    intros R. pose proof (abs_length compact clock l R) as AL.
    cbn [MapL.lstep SpecL.lstep]. destruct (negb (key_ok key)); [split; reflexivity|].
    unfold norm_index, size_of. rewrite AL.
    unfold l_exists. destruct (l_meta l) as [m|] eqn:E; cbn [negb].
    2:{ assert (l_size l = 0) as -> by (unfold l_size; rewrite E; reflexivity). cbn [fst snd].
        assert (((if i <? 0 then 0 + i else i) <? 0) || (0 <=? (if i <? 0 then 0 + i else i)) = true) as -> by (ifs; lia).
        split; reflexivity. }
    destruct (rl_meta _ _ _ R m E) as (hle & vk & pres & conf).
    assert (Hs : l_size l = lm_tail m - lm_head m + 1) by (unfold l_size; rewrite E; reflexivity).
    assert (Hh : l_head l = lm_head m) by (unfold l_head; rewrite E; reflexivity).
    assert (Ht : l_tail l = lm_tail m) by (unfold l_tail; rewrite E; reflexivity).
    assert (Hv : l_ver l = lm_ver m) by (unfold l_ver; rewrite E; reflexivity).
    rewrite Hs, Hh, Ht, Hv. assert (lm_tail m - lm_head m + 1 =? 0 = false) as -> by lia.
    set (size := lm_tail m - lm_head m + 1) in *.
    set (seq := if 0 <=? i then lm_head m + i else lm_tail m + i + 1).
    set (j := if i <? 0 then size + i else i).
    assert (SJ : seq = lm_head m + j) by (unfold seq, j, size; ifs; lia).
    assert (OR : (seq <? lm_head m) || (lm_tail m <? seq) = (j <? 0) || (size <=? j)) by (rewrite SJ; unfold size; lia).
    rewrite OR. destruct ((j <? 0) || (size <=? j)) eqn:O; cbn [fst snd]; [split; reflexivity|]. split; [reflexivity|].
    rewrite (abs_some _ m) by reflexivity. rewrite (abs_some l m E). cbn [l_elems]. fold size.
    rewrite set_nth_map_zseq by lia. apply map_ext. intros s. unfold lval. rewrite lget_lput.
    replace (lm_head m + Z.of_nat (Z.to_nat j)) with seq by lia. destruct (s =? seq); reflexivity.
  Qed.

  Lemma lget_filter v s (P : skey -> bool) es : P (v, s) = true ->
    lget v s (filter (fun e : skey * bytes => P (fst e)) es) = lget v s es.
  Proof. intros H. unfold lget. apply (aget_kfilter skey_eqb skey_eqb_eq P); exact H. Qed.

  Theorem ltrim_ref clock ts key start stop l : Rep clock l ->
    snd (MapL.lstep compact ts key (LCtrim start stop) l) = snd (SpecL.lstep key (LCtrim start stop) (abs_l l)) /\
    abs_l (fst (MapL.lstep compact ts key (LCtrim start stop) l)) = fst (SpecL.lstep key (LCtrim start stop) (abs_l l)).
  Proof.
    intros R. pose proof (abs_length compact clock l R) as AL.
    cbn [MapL.lstep SpecL.lstep]. destruct (negb (key_ok key)); [split; reflexivity|].
    unfold norm_range, size_of. rewrite AL.
    unfold l_exists. destruct (l_meta l) as [m|] eqn:E; cbn [negb].
    2:{ assert (l_size l = 0) as -> by (unfold l_size; rewrite E; reflexivity). cbn [fst snd]. rewrite (abs_none l E).
        split; [ifs; reflexivity|]. ifs; try reflexivity; exfalso; lia. }
    destruct (rl_meta _ _ _ R m E) as (hle & vk & pres & conf).
    assert (Hs : l_size l = lm_tail m - lm_head m + 1) by (unfold l_size; rewrite E; reflexivity).
    assert (Hh : l_head l = lm_head m) by (unfold l_head; rewrite E; reflexivity).
    assert (Hv : l_ver l = lm_ver m) by (unfold l_ver; rewrite E; reflexivity).
    set (llen := l_size l) in *.
    set (start1 := if start <? 0 then llen + start else start).
    set (stop1 := if stop <? 0 then llen + stop else stop).
    set (start2 := if start1 <? 0 then 0 else start1).
    assert (Emp : (llen <=? start2) || (stop1 <? start2) = (stop1 <? start2) || (llen <=? start2)) by apply orb_comm.
    rewrite Emp. destruct ((stop1 <? start2) || (llen <=? start2)) eqn:Q.
    - (* emptied *)
      cbn [fst snd]. split; [reflexivity|]. unfold ldelete. rewrite E. fold llen.
      assert (llen =? 0 = false) as -> by lia. cbn [fst]. apply abs_none. reflexivity.
    - set (stop2 := if llen <=? stop1 then llen - 1 else stop1).
      assert (B : 0 <= start2 /\ start2 <= stop2 /\ stop2 < llen) by (unfold stop2, start2 in *; ifs; lia).
      unfold lset_meta. rewrite Hh, Hv.
      assert (lm_head m + stop2 - (lm_head m + start2) + 1 <? 0 = false) as -> by lia.
      assert (lm_head m + stop2 - (lm_head m + start2) + 1 =? 0 = false) as -> by lia.
      cbn [fst snd]. split; [reflexivity|].
      rewrite (abs_some _ {| lm_ver := lm_ver m; lm_head := lm_head m + start2; lm_tail := lm_head m + stop2 |}) by reflexivity.
      rewrite (abs_some l m E). cbn [lm_ver lm_head lm_tail l_elems].
      unfold lslice.
      rewrite (skipn_map_zseq (lval (lm_ver m) (l_elems l))) by lia.
      rewrite (firstn_map_zseq (lval (lm_ver m) (l_elems l))) by lia.
      replace (lm_head m + Z.of_nat (Z.to_nat start2)) with (lm_head m + start2) by lia.
      replace (Z.to_nat (lm_head m + stop2 - (lm_head m + start2) + 1)) with (Z.to_nat (stop2 - start2 + 1)) by lia.
      apply map_lval_ext. intros s Hs'. apply zseq_In in Hs'.
      apply (lget_filter (lm_ver m) s (fun k : skey => negb ((fst k =? lm_ver m) &&
               (((lm_head m <=? snd k) && (snd k <? lm_head m + start2)) || ((lm_head m + stop2 <? snd k) && (snd k <? lm_head m + llen)))))).
      cbn [fst snd]. rewrite Z.eqb_refl. lia.
  Qed.
End LWrites.

(* ---------- the sequence numbers of a list stay within a distance of the initial one that grows by at most
   MAX_BATCH_NUM per command: pushes never run out of sequence space within 2^61 / 5000 commands ---------- *)
Section LBound.
  Variable compact : bool.

  Definition LB (B : Z) (l : lcoll) : Prop :=
    forall m, l_meta l = Some m -> list_initial_seq - B <= lm_head m /\ lm_tail m <= list_initial_seq + B.
  Definition seq_room : Z := Z.min (list_initial_seq - list_min_seq) (list_max_seq - list_initial_seq).

  Lemma LB_mono B B' l : B <= B' -> LB B l -> LB B' l.
  Proof. intros H A m E. destruct (A m E). lia. Qed.
  Lemma LB_empty B : LB B empty_lcoll.
  Proof. intros m E. discriminate. Qed.

  Lemma lstep_LB clock ts key c B l : RepL compact clock l -> LB B l -> 0 <= B -> (c = LCfixkey -> InSpace l) ->
    LB (B + max_batch_num) (fst (MapL.lstep compact ts key c l)).
  Proof.
    intros R A PB FK. assert (Keep : LB (B + max_batch_num) l) by (eapply LB_mono; [|exact A]; unfold max_batch_num; lia).
    assert (FX : c = LCfixkey -> LB (B + max_batch_num) (fst (MapL.lstep compact ts key c l)))
      by (intros ->; rewrite (lfixkey_noop compact clock ts key l R (FK eq_refl)); exact Keep).
    destruct c as [tail vs|tail|i x|start stop| | |]; cbn [MapL.lstep]; try exact Keep; try (apply FX; reflexivity).
    - destruct (too_many vs) eqn:TM; [exact Keep|]. destruct (negb (key_ok key)); [exact Keep|].
      destruct vs as [|x0 r0] eqn:EV; [exact Keep|]. rewrite <- EV. rewrite <- EV in TM.
      match goal with |- context [if ?b then (l, RErr) else _] => destruct b end; [exact Keep|].
      match goal with |- context [if existsb ?f ?p then _ else _] => destruct (existsb f p) end; [exact Keep|].
      unfold lset_meta.
      match goal with |- context [if ?b then None else _] => destruct b end; [exact Keep|].
      match goal with |- context [if ?b then Some None else _] => destruct b end; cbn [fst l_meta]; [intros m E; discriminate|].
      intros m E. injection E as E1. subst m. cbn [lm_head lm_tail].
      assert (CN : Z.of_nat (length vs) <= max_batch_num) by (unfold too_many in TM; lia).
      assert (C1 : 1 <= Z.of_nat (length vs)) by (rewrite EV; cbn [length]; lia).
      clear EV.
      unfold l_size, l_head, l_tail. destruct (l_meta l) as [m0|] eqn:E0.
      + destruct (A m0 E0) as [a1 a2]. destruct (rl_meta _ _ _ R m0 E0) as (hle & _).
        assert (0 <? lm_tail m0 - lm_head m0 + 1 = true) as -> by lia. destruct tail; cbv iota; lia.
      + change (0 <? 0) with false. cbv iota. destruct tail; cbv iota; lia.
    - destruct (negb (key_ok key)); [exact Keep|]. unfold l_exists, l_size, l_head, l_tail, l_ver.
      destruct (l_meta l) as [m0|] eqn:E0; [|exact Keep]. cbn [negb]. cbv beta iota.
      destruct (lm_tail m0 - lm_head m0 + 1 =? 0); [exact Keep|].
      match goal with |- context [match lget ?a ?b ?c with _ => _ end] => destruct (lget a b c) end; [|exact Keep].
      unfold lset_meta.
      match goal with |- context [if ?b then None else _] => destruct b end; [exact Keep|].
      match goal with |- context [if ?b then Some None else _] => destruct b end; cbn [fst l_meta]; [intros m E; discriminate|].
      intros m E. injection E as E1. subst m. cbn [lm_head lm_tail].
      destruct (A m0 E0) as [a1 a2]. destruct (rl_meta _ _ _ R m0 E0) as (hle & _). destruct tail; unfold max_batch_num; lia.
    - destruct (negb (key_ok key)); [exact Keep|]. unfold l_exists. destruct (l_meta l) as [m0|] eqn:E0; [|exact Keep]. cbn [negb].
      destruct (l_size l =? 0); [exact Keep|].
      match goal with |- context [if ?b then (l, RErr) else _] => destruct b end; [exact Keep|].
      cbn [fst l_meta]. intros m E. injection E as E1. subst m. destruct (A m0 E0). unfold max_batch_num; lia.
    - destruct (negb (key_ok key)); [exact Keep|]. unfold l_exists. destruct (l_meta l) as [m0|] eqn:E0; [|exact Keep]. cbn [negb].
      destruct (A m0 E0) as [a1 a2]. destruct (rl_meta _ _ _ R m0 E0) as (hle & _).
      assert (Hs : l_size l = lm_tail m0 - lm_head m0 + 1) by (unfold l_size; rewrite E0; reflexivity).
      assert (Hh : l_head l = lm_head m0) by (unfold l_head; rewrite E0; reflexivity).
      set (llen := l_size l) in *.
      set (start1 := if start <? 0 then llen + start else start).
      set (stop1 := if stop <? 0 then llen + stop else stop).
      set (start2 := if start1 <? 0 then 0 else start1).
      destruct ((llen <=? start2) || (stop1 <? start2)) eqn:Emp.
      + unfold ldelete. rewrite E0. destruct (l_size l =? 0); cbn [fst l_meta]; [exact Keep|intros m E; discriminate].
      + set (stop2 := if llen <=? stop1 then llen - 1 else stop1).
        assert (Bd : 0 <= start2 /\ start2 <= stop2 /\ stop2 < llen) by (unfold stop2, start2 in *; ifs; lia).
        unfold lset_meta. rewrite Hh.
        assert (lm_head m0 + stop2 - (lm_head m0 + start2) + 1 <? 0 = false) as -> by lia.
        assert (lm_head m0 + stop2 - (lm_head m0 + start2) + 1 =? 0 = false) as -> by lia.
        cbn [fst l_meta]. intros m E. injection E as E1. subst m. cbn [lm_head lm_tail]. unfold max_batch_num. lia.
    - destruct (negb (key_ok key)); [exact Keep|]. unfold ldelete. destruct (l_meta l) as [m0|] eqn:E0; cbn [fst]; [|exact Keep].
      destruct (l_size l =? 0); cbn [fst l_meta]; [exact Keep|intros m E; discriminate].
  Qed.

  (* within the bound a push has room *)
  Lemma LB_push_in_bounds clock B l tail (vs : list bytes) : RepL compact clock l -> LB B l -> 0 <= B -> B + max_batch_num < seq_room ->
    too_many vs = false -> vs <> [] -> push_in_bounds l tail (Z.of_nat (length vs)).
  Proof.
    intros R A PB Room TM NE. unfold push_in_bounds, push_last, seq_room in *.
    assert (CN : Z.of_nat (length vs) <= max_batch_num) by (unfold too_many in TM; lia).
    assert (C1 : 1 <= Z.of_nat (length vs)) by (destruct vs; [congruence|cbn [length]; lia]).
    unfold l_size, l_head, l_tail. destruct (l_meta l) as [m0|] eqn:E0.
    - destruct (A m0 E0) as [a1 a2]. destruct (rl_meta _ _ _ R m0 E0) as (hle & _).
      assert (0 <? lm_tail m0 - lm_head m0 + 1 = true) as -> by lia. destruct tail; cbv iota; lia.
    - change (0 <? 0) with false. cbv iota. destruct tail; cbv iota; lia.
  Qed.
End LBound.
