(* Data/Map.v — the rockredis algorithm for hash / set / zset / list collections at the level of
   STRUCTURED engine keys (byte encodings and their injectivity are property C12's subject):

     MetaKey  ty table key              |->  c_meta  of the record stored at (ty, "table:key")
     ElemKey  ty table key ver sub      |->  entry ((ver, sub), value) of c_elems of that record
     ScoreKey table key ver score mem   |->  entry (ver, score, mem) of z_index
     SeqKey   table key ver seq         |->  entry ((ver, seq), value) of l_elems

   i.e. the engine's flat key space curried by (type, table:key).  `ver` is the generation
   (ValueVersion) that the wait_compact policy puts into element keys; it is 0 under local_deletion.
   Every write command has the shape of the Go code: read COMMITTED data of the record, build the
   write batch from it (an argument repeated in the call is therefore looked up against the same
   committed data every time), apply the batch.  A command that returns an error leaves the record
   unchanged (the write batch is cleared: `defer wb.Clear()` / kvbatchOperator.AbortBatchForError).

   Transcribed (post-fix working tree):
     rockredis/t_collections.go  prepareCollKeyForWrite, GetCollVersionKey, collKeyExists
     rockredis/t_ttl_compact.go  renewOnExpired, encodeToVersionKey   (t_ttl_l.go for local_deletion)
     rockredis/t_hash.go   hSetField HSet HMset HDel HIncrBy HClear hDeleteAll HLen HGet HExist HMget HGetAll HKeys HValues HKeyExists
     rockredis/t_set.go    SAdd SRem SPop SClear sDelete sIncrSize SCard SIsMember SMembers SRandMembers sMembersN SKeyExists
     rockredis/t_zset.go   (see MapZ.v)      rockredis/t_list.go (see MapL.v)
   Expiry: the ExpireAt field of the header is kept next to each record (Exp.v, Run.v); the handlers
   below are what runs on a live (or, for the renewing handlers, renewed) header.
   Not modelled here: table key counters, secondary hash indexes, slow-log/metrics side effects.
   No proofs in this file. *)
From ZV Require Export Data.Base.
From ZV Require Import Data.Consts.
Open Scope Z_scope.

Record cmeta := { cm_ver : Z; cm_size : Z }.
Record coll (V : Type) := { c_meta : option cmeta; c_elems : list (vkey * V) }.
Arguments c_meta {V}. Arguments c_elems {V}. Arguments Build_coll {V}.

Definition empty_coll {V} : coll V := Build_coll None [].

Section Generic.
  Context {V : Type}.

  (* stored size: 0 when the meta key is absent *)
  Definition st_size (c : coll V) : Z := match c_meta c with Some m => cm_size m | None => 0 end.
  (* GetCollVersionKey: generation of the existing header, 0 for a fresh header *)
  Definition st_ver (c : coll V) : Z := match c_meta c with Some m => cm_ver m | None => 0 end.
  (* prepareCollKeyForWrite: IsNotExistOrExpired => renewOnExpired (wait_compact: ValueVersion := ts) *)
  Definition prep_ver (compact : bool) (ts : Z) (c : coll V) : Z :=
    match c_meta c with Some m => cm_ver m | None => if compact then ts else 0 end.
  Definition exists_coll (c : coll V) : bool := match c_meta c with Some _ => true | None => false end.

  (* *IncrSize: size <= 0 deletes the meta key, otherwise it is rewritten with the header *)
  Definition set_size (v : Z) (size : Z) : option cmeta :=
    if size <=? 0 then None else Some {| cm_ver := v; cm_size := size |}.

  (* range scan over the element keys of one generation, in key order (sub key bytes ascending) *)
  Definition gen_elems (v : Z) (es : list (vkey * V)) : list (vkey * V) :=
    filter (fun e => fst (fst e) =? v) es.
  Definition sub_leb (a b : vkey * V) : bool := bytes_leb (snd (fst a)) (snd (fst b)).
  Definition scan (v : Z) (es : list (vkey * V)) : list (bytes * V) :=
    map (fun e => (snd (fst e), snd e)) (isort sub_leb (gen_elems v es)).
  (* delete every element key of one generation (range delete / iterate-and-delete) *)
  Definition drop_gen (v : Z) (es : list (vkey * V)) : list (vkey * V) :=
    filter (fun e => negb (fst (fst e) =? v)) es.

  Definition eget (v : Z) (f : bytes) (es : list (vkey * V)) : option V := aget vkey_eqb (v, f) es.
  Definition eput (v : Z) (f : bytes) (x : V) (es : list (vkey * V)) := aput vkey_eqb (v, f) x es.
  Definition edel (v : Z) (f : bytes) (es : list (vkey * V)) := adel vkey_eqb (v, f) es.
  Definition emem (v : Z) (f : bytes) (es : list (vkey * V)) : bool := amem vkey_eqb (v, f) es.

  (* number of arguments that are not stored (committed data) *)
  Definition count_new (v : Z) (fs : list bytes) (es : list (vkey * V)) : Z :=
    Z.of_nat (length (filter (fun f => negb (emem v f es)) fs)).
  Definition count_old (v : Z) (fs : list bytes) (es : list (vkey * V)) : Z :=
    Z.of_nat (length (filter (fun f => emem v f es) fs)).

  (* the puts of one write batch *)
  Definition put_all (v : Z) (kvs : list (bytes * V)) (es : list (vkey * V)) : list (vkey * V) :=
    fold_left (fun es kv => eput v (fst kv) (snd kv) es) kvs es.
  (* the deletes of one write batch: the sub keys found in the COMMITTED data *)
  Definition del_some (v : Z) (committed : list (vkey * V)) (ks : list bytes) (es : list (vkey * V)) : list (vkey * V) :=
    fold_left (fun es f => if emem v f committed then edel v f es else es) ks es.

  (* ---------- removing every element key of one generation, as the code does it ----------
     The element keys of generation v of one collection are the engine keys in [start v, stop v), with the
     bound keys *EncodeStartKey / *EncodeStopKey (collVerKeyInfo.RangeStart / RangeEnd): start v sorts
     below every element key of v, stop v above all of them and below the next generation (byte level:
     property C12, C12_hash_clear_exact and friends). *)
  Inductive ebound := BStart (v : Z) | BStop (v : Z).
  Definition bound_le (b : ebound) (k : vkey) : bool :=        (* b <= k in engine order *)
    match b with BStart v => v <=? fst k | BStop v => v <? fst k end.
  Definition lt_bound (k : vkey) (b : ebound) : bool :=        (* k < b in engine order *)
    match b with BStart v => fst k <? v | BStop v => fst k <=? v end.
  Definition in_range (lo hi : ebound) (k : vkey) : bool := bound_le lo k && lt_bound k hi.
  (* wb.DeleteRange(lo, hi): every key in [lo, hi) *)
  Definition delete_range (lo hi : ebound) (es : list (vkey * V)) : list (vkey * V) :=
    filter (fun e => negb (in_range lo hi (fst e))) es.
  (* iterator over [lo, hi) + wb.Delete of every key it returns *)
  Definition delete_each (lo hi : ebound) (es : list (vkey * V)) : list (vkey * V) :=
    fold_left (fun acc k => adel vkey_eqb k acc) (map fst (filter (fun e => in_range lo hi (fst e)) es)) es.

  (* hDeleteAll: two independent tests on the size (no hash index on the table) *)
  Definition clear_elems_tests (size v : Z) (es : list (vkey * V)) : list (vkey * V) :=
    let es1 := if size <=? range_delete_num then delete_each (BStart v) (BStop v) es else es in
    if range_delete_num <? size then delete_range (BStart v) (BStop v) es1 else es1.
  (* sDelete: if size > RangeDeleteNum then DeleteRange else iterate *)
  Definition clear_elems_else (size v : Z) (es : list (vkey * V)) : list (vkey * V) :=
    if range_delete_num <? size then delete_range (BStart v) (BStop v) es else delete_each (BStart v) (BStop v) es.

  (* *Clear / *DeleteAll of an existing collection: meta deleted; the element keys are left to the
     compaction filter (lazy) under wait_compact when the generation is below the timestamp of the
     clearing entry (fix 1dcd66e: a collection re-created at this same timestamp would get the same
     generation number), otherwise removed: key by key up to RangeDeleteNum elements, with one
     DeleteRange above *)
  Definition lazy_clear (compact : bool) (ts v : Z) : bool := compact && (v <? ts).
  Definition clear_coll (lazy : bool) (tests : bool) (c : coll V) : coll V :=
    match c_meta c with
    | None => c
    | Some m => Build_coll None (if lazy then c_elems c
                                 else if tests then clear_elems_tests (cm_size m) (cm_ver m) (c_elems c)
                                 else clear_elems_else (cm_size m) (cm_ver m) (c_elems c))
    end.
End Generic.


(* =========================== hash =========================== *)
Definition hcoll := coll bytes.

(* hSetField (HSet / HSetNX): reply = created *)
Definition hset (compact : bool) (ts : Z) (nx : bool) (key f x : bytes) (c : hcoll) : hcoll * reply :=
  if negb (value_ok x) || negb (key_ok key) || negb (subkey_ok f) then (c, RErr)
  else
    let v := prep_ver compact ts c in
    match eget v f (c_elems c) with
    | Some old =>
        if nx then (c, RInt 0)
        else (Build_coll (c_meta c) (eput v f x (c_elems c)), RInt 0)
    | None =>
        (Build_coll (set_size v (st_size c + 1)) (eput v f x (c_elems c)), RInt 1)
    end.

(* HMset: a field repeated in the call is written once with its last value (fix 7596a18) *)
Definition hmset_args_ok (fvs : list (bytes * bytes)) : bool :=
  forallb (fun fv => subkey_ok (fst fv) && value_ok (snd fv)) fvs.
Definition hmset (compact : bool) (ts : Z) (key : bytes) (fvs : list (bytes * bytes)) (c : hcoll) : hcoll * reply :=
  if too_many fvs then (c, RErr)
  else match fvs with
  | [] => (c, RNil)
  | _ =>
    if negb (key_ok key) || negb (hmset_args_ok fvs) then (c, RErr)
    else
      let v := prep_ver compact ts c in
      let fvs' := last_wins fvs in
      let num := count_new v (map fst fvs') (c_elems c) in
      (Build_coll (set_size v (st_size c + num)) (put_all v fvs' (c_elems c)), RNil)
  end.

(* HDel: a field repeated in the call is deleted once (fix 54b348f) *)
Definition hdel (key : bytes) (fs : list bytes) (c : hcoll) : hcoll * reply :=
  if too_many fs then (c, RErr)
  else match fs with
  | [] => (c, RInt 0)
  | _ =>
    if negb (key_ok key) || negb (forallb subkey_ok fs) then (c, RErr)
    else
      let v := st_ver c in
      let fs' := dedup [] fs in
      let num := count_old v fs' (c_elems c) in
      (Build_coll (set_size v (st_size c - num)) (del_some v (c_elems c) fs' (c_elems c)), RInt num)
  end.

(* HIncrBy: the old value must parse as int64 and the sum must not overflow *)
Definition hincrby (compact : bool) (ts : Z) (key f : bytes) (delta : Z) (c : hcoll) : hcoll * reply :=
  if negb (key_ok key) || negb (subkey_ok f) then (c, RErr)
  else
    let old := if exists_coll c then eget (st_ver c) f (c_elems c) else None in
    match (match old with Some b => parse_int64 b | None => Some 0 end) with
    | None => (c, RErr)
    | Some n0 =>
        let n := n0 + delta in
        if negb (in_int64 n) then (c, RErr)          (* overflow refused (fix baea47e) *)
        else let '(c', _) := hset compact ts false key f (format_int n) c in
             (c', RInt n)
    end.

(* HClear *)
Definition hclear (compact : bool) (ts : Z) (key : bytes) (c : hcoll) : hcoll * reply :=
  if negb (key_ok key) then (c, RErr)
  else if st_size c =? 0 then (c, RInt 0)
  else (clear_coll (lazy_clear compact ts (st_ver c)) true c, RInt 1).

(* reads *)
Definition hlen (key : bytes) (c : hcoll) : reply :=
  if negb (key_ok key) then RInt 0 else RInt (st_size c).         (* handler maps an error to 0 *)
Definition hget (key f : bytes) (c : hcoll) : reply :=
  if negb (key_ok key) || negb (subkey_ok f) then RErr
  else if exists_coll c then ropt (eget (st_ver c) f (c_elems c)) else RNil.
Definition hexists (key f : bytes) (c : hcoll) : reply :=
  if negb (key_ok key) || negb (subkey_ok f) then RInt 0
  else if exists_coll c then rbool (emem (st_ver c) f (c_elems c)) else RInt 0.
Definition hmget (key : bytes) (fs : list bytes) (c : hcoll) : reply :=
  (* errors of HMget are dropped by the handler: it prints the (empty) partial result *)
  if too_many fs || negb (key_ok key) || negb (forallb subkey_ok fs) then RArr []
  else RArr (map (fun f => if exists_coll c then ropt (eget (st_ver c) f (c_elems c)) else RNil) fs).
Definition henum (key : bytes) (c : hcoll) : option (list (bytes * bytes)) :=
  if negb (key_ok key) then None
  else if negb (exists_coll c) then Some []
  else if max_batch_num <? st_size c then None
  else Some (scan (st_ver c) (c_elems c)).
Definition hgetall (key : bytes) (c : hcoll) : reply :=
  match henum key c with
  | None => RErr
  | Some l => RArr (flat_map (fun fv => [RBulk (fst fv); RBulk (snd fv)]) l)
  end.
Definition hkeys (key : bytes) (c : hcoll) : reply :=
  match henum key c with None => RErr | Some l => rbulks (map fst l) end.
Definition hvals (key : bytes) (c : hcoll) : reply :=
  match henum key c with None => RErr | Some l => rbulks (map snd l) end.
Definition hkeyexist (key : bytes) (c : hcoll) : reply :=
  if negb (key_ok key) then RErr else rbool (exists_coll c).

(* =========================== set =========================== *)
Definition scoll := coll unit.

(* SAdd: a member repeated in the call is added once (fix d9969a1) *)
Definition sadd (compact : bool) (ts : Z) (key : bytes) (ms : list bytes) (c : scoll) : scoll * reply :=
  if too_many ms then (c, RErr)
  else if negb (key_ok key) || negb (forallb subkey_ok ms) then (c, RErr)
  else
    let v := prep_ver compact ts c in
    let ms' := dedup [] ms in
    let news := filter (fun m => negb (emem v m (c_elems c))) ms' in      (* only new members are put *)
    let num := Z.of_nat (length news) in
    (Build_coll (set_size v (st_size c + num)) (put_all v (map (fun m => (m, tt)) news) (c_elems c)), RInt num).

(* SRem: a member repeated in the call is removed once (fix e608abf) *)
Definition srem_body (ms : list bytes) (c : scoll) : scoll * Z :=
  let v := st_ver c in
  let ms' := dedup [] ms in
  let num := count_old v ms' (c_elems c) in
  (Build_coll (set_size v (st_size c - num)) (del_some v (c_elems c) ms' (c_elems c)), num).
Definition srem (key : bytes) (ms : list bytes) (c : scoll) : scoll * reply :=
  match ms with
  | [] => (c, RInt 0)
  | _ =>
    if too_many ms then (c, RErr)
    else if negb (key_ok key) || negb (forallb subkey_ok ms) then (c, RErr)
    else let '(c', n) := srem_body ms c in (c', RInt n)
  end.

(* sMembersN: at most num members in key order; None = error *)
Definition smembers_n (key : bytes) (num : Z) (c : scoll) : option (list bytes) :=
  if max_batch_num <? num then None
  else if num <=? 0 then None
  else if negb (key_ok key) then None
  else if negb (exists_coll c) then Some []
  else Some (firstn (Z.to_nat num) (map fst (scan (st_ver c) (c_elems c)))).

(* SPop: the first count members in key order, removed through SRem *)
Definition spop (key : bytes) (count : option Z) (c : scoll) : scoll * reply :=
  let n := match count with Some n => n | None => 1 end in
  match smembers_n key n c with
  | None => (c, RErr)
  | Some vals =>
      let '(c', r) := srem key vals c in
      match r with
      | RErr => (c, RErr)
      | _ => (c', match count with
                  | Some _ => rbulks vals
                  | None => match vals with x :: _ => RBulk x | [] => RNil end
                  end)
      end
  end.

Definition sclear (compact : bool) (ts : Z) (key : bytes) (c : scoll) : scoll * reply :=
  if negb (key_ok key) then (c, RErr)
  else if st_size c =? 0 then (c, RInt 0)
  else (clear_coll (lazy_clear compact ts (st_ver c)) false c, RInt 1).

Definition scard (key : bytes) (c : scoll) : reply :=
  if negb (key_ok key) then RErr else RInt (st_size c).
Definition sismember (key m : bytes) (c : scoll) : reply :=
  if negb (key_ok key) then RErr
  else if negb (exists_coll c) then RInt 0
  else if negb (subkey_ok m) then RErr
  else rbool (emem (st_ver c) m (c_elems c)).
Definition smembers (key : bytes) (c : scoll) : reply :=
  if negb (key_ok key) then RErr
  else if st_size c =? 0 then RArr []
  else match smembers_n key (st_size c) c with Some l => rbulks l | None => RErr end.
Definition srandmember (key : bytes) (count : Z) (c : scoll) : reply :=
  match smembers_n key count c with Some l => rbulks l | None => RErr end.
Definition skeyexist (key : bytes) (c : scoll) : reply :=
  if negb (key_ok key) then RErr else rbool (exists_coll c).
