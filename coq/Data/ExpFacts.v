(* Data/ExpFacts.v — facts about the expiry wrappers of Exp.v that do not depend on the record type:
   a property of records that survives the handlers and the in-memory renewal survives the wrapped
   handlers; the expiry commands do not touch the record. *)
From ZV Require Import Common.Bytes Data.Base Data.Exp.
From Coq Require Import Lia ZifyBool.
Open Scope Z_scope.

Lemma dead_compact compact e t : dead compact e t = true -> compact = true.
Proof. unfold dead. destruct compact; cbn; [reflexivity|discriminate]. Qed.
Lemma dead_local e t : dead false e t = false.
Proof. reflexivity. Qed.
Lemma dead_zero compact t : dead compact 0 t = false.
Proof. unfold dead. destruct compact; reflexivity. Qed.
(* clocks do not go back: expired stays expired *)
Lemma dead_mono compact e t t' : 0 < t <= t' -> dead compact e t = true -> dead compact e t' = true.
Proof.
  unfold dead, sec_of, ns_per_sec. intros L H. destruct compact; cbn in *; [|discriminate].
  assert (Z.quot t 1000000000 <= Z.quot t' 1000000000) by (apply Z.quot_le_mono; lia).
  lia.
Qed.

Section Same.
  Context {R : Type}.
  Variable live : R -> bool.
  Variable compact : bool.
  Lemma xexpire_r ts dur x : x_r (fst (xexpire live compact ts dur x)) = x_r x.
  Proof.
    unfold xexpire. destruct (dead compact (x_exp x) ts || negb (live (x_r x))); [reflexivity|].
    destruct compact; [destruct (when_overflows _)|destruct (_ <? _)]; reflexivity.
  Qed.
  Lemma xpersist_r ts x : x_r (fst (xpersist live compact ts x)) = x_r x.
  Proof.
    unfold xpersist. destruct (dead compact (x_exp x) ts || negb (live (x_r x))); [reflexivity|].
    destruct compact; reflexivity.
  Qed.

End Same.

Section Inv.
  Context {R : Type}.
  Variable live : R -> bool.
  Variable forget : R -> R.
  Variable compact : bool.
  Variables P Q : R -> Prop.
  Hypothesis PQ : forall r, P r -> Q r.
  Hypothesis Pforget : compact = true -> forall r, P r -> P (forget r).

  Lemma xrenew_inv ts f x : (forall r, P r -> Q (fst (f r))) -> P (x_r x) ->
    Q (x_r (fst (xrenew live forget compact ts f x))).
  Proof.
    intros Hf Px. unfold xrenew. destruct (dead compact (x_exp x) ts) eqn:D.
    - pose proof (Hf _ (Pforget (dead_compact _ _ _ D) _ Px)) as H.
      destruct (f (forget (x_r x))) as [r' rep]. cbn [fst] in H.
      destruct (live r'); cbn [fst x_r]; auto.
    - pose proof (Hf _ Px) as H. destruct (f (x_r x)) as [r' rep]. cbn [fst] in *. exact H.
  Qed.

  Lemma xguard_inv ts absent f x : (forall r, P r -> Q (fst (f r))) -> P (x_r x) ->
    Q (x_r (fst (xguard live compact ts absent f x))).
  Proof.
    intros Hf Px. unfold xguard. destruct (dead compact (x_exp x) ts); cbn [fst]; auto.
    pose proof (Hf _ Px) as H. destruct (f (x_r x)) as [r' rep]. cbn [fst] in *. exact H.
  Qed.

  Lemma xview_inv now x : P (x_r x) -> P (xview forget compact now x).
  Proof.
    intros Px. unfold xview. destruct (dead compact (x_exp x) now) eqn:D; [|exact Px].
    apply Pforget; [eapply dead_compact; exact D|exact Px].
  Qed.
End Inv.

Lemma dead_ttl compact e t : dead compact e t = true -> ttl_of e t = -1.
Proof.
  unfold dead, ttl_of. intros H. destruct compact; cbn in H; [|discriminate].
  destruct (e =? 0); [reflexivity|]. destruct (e - sec_of t <=? 0) eqn:E; [reflexivity|lia].
Qed.

(* ---------- refinement: the wrapped handlers of the Map model against the write rule of the Spec ---------- *)
Section Ref.
  Context {R A : Type}.
  Variable live : R -> bool.
  Variable forget : R -> R.
  Variable compact : bool.
  Variables P Q : R -> Prop.               (* invariant before (clock) / after (ts) *)
  Variable S : R -> list A -> Prop.        (* abstraction relation *)
  Hypothesis PQ : forall r, P r -> Q r.
  Hypothesis Pforget : compact = true -> forall r, P r -> P (forget r).
  Hypothesis Sforget : compact = true -> forall r, P r -> S (forget r) [].
  Hypothesis Slive : forall r a, Q r -> S r a -> live r = nonempty a.

  Definition simx (x : xr R) (y : xr (list A)) : Prop := x_exp x = x_exp y /\ S (x_r x) (x_r y).

  Definition fref (f : R -> R * reply) (sf : list A -> list A * reply) : Prop :=
    forall r a, P r -> S r a -> snd (f r) = snd (sf a) /\ S (fst (f r)) (fst (sf a)) /\ Q (fst (f r)).

  Lemma xrenew_ref ts f sf x y : fref f sf -> P (x_r x) -> simx x y ->
    snd (xrenew live forget compact ts f x) = snd (swrite compact ts sf y) /\
    simx (fst (xrenew live forget compact ts f x)) (fst (swrite compact ts sf y)).
  Proof.
    intros F Px [E Sx]. unfold xrenew, swrite, sview. rewrite <- E.
    destruct (dead compact (x_exp x) ts) eqn:D.
    - pose proof (dead_compact _ _ _ D) as C.
      destruct (F (forget (x_r x)) [] (Pforget C _ Px) (Sforget C _ Px)) as (F1 & F2 & F3).
      destruct (f (forget (x_r x))) as [r' rep]. destruct (sf []) as [a' rep']. cbn [fst snd] in *. subst rep'.
      rewrite (Slive r' a' F3 F2). destruct (nonempty a'); cbn [andb negb fst snd].
      + split; [reflexivity|]. split; [reflexivity|exact F2].
      + split; [reflexivity|]. split; [exact E|exact Sx].
    - destruct (F (x_r x) (x_r y) Px Sx) as (F1 & F2 & F3).
      destruct (f (x_r x)) as [r' rep]. destruct (sf (x_r y)) as [a' rep']. cbn [fst snd andb] in *. subst rep'.
      split; [reflexivity|]. unfold xfix. rewrite (Slive r' a' F3 F2). split; [reflexivity|exact F2].
  Qed.

  Lemma xguard_ref ts f sf x y : fref f sf -> fst (sf []) = [] -> P (x_r x) -> simx x y ->
    snd (xguard live compact ts (snd (sf [])) f x) = snd (swrite compact ts sf y) /\
    simx (fst (xguard live compact ts (snd (sf [])) f x)) (fst (swrite compact ts sf y)).
  Proof.
    intros F G Px [E Sx]. unfold xguard, swrite, sview. rewrite <- E.
    destruct (dead compact (x_exp x) ts) eqn:D.
    - destruct (sf []) as [a' rep']. cbn [fst snd] in *. subst a'. cbn [nonempty andb negb fst snd].
      split; [reflexivity|]. split; [exact E|exact Sx].
    - destruct (F (x_r x) (x_r y) Px Sx) as (F1 & F2 & F3).
      destruct (f (x_r x)) as [r' rep]. destruct (sf (x_r y)) as [a' rep']. cbn [fst snd andb] in *. subst rep'.
      split; [reflexivity|]. unfold xfix. rewrite (Slive r' a' F3 F2). split; [reflexivity|exact F2].
  Qed.

  Lemma xview_ref now x y : P (x_r x) -> simx x y ->
    P (xview forget compact now x) /\ S (xview forget compact now x) (sview compact now y).
  Proof.
    intros Px [E Sx]. unfold xview, sview. rewrite <- E. destruct (dead compact (x_exp x) now) eqn:D.
    - pose proof (dead_compact _ _ _ D) as C. split; [apply Pforget|apply Sforget]; assumption.
    - split; assumption.
  Qed.

  Lemma nonempty_match {B} (a : list A) (u v : B) :
    match a with [] => u | _ :: _ => v end = if nonempty a then v else u.
  Proof. destruct a; reflexivity. Qed.

  Ltac fin E EY Sx := split; [reflexivity|]; split; cbn [fst x_r x_exp]; [try exact E; reflexivity|rewrite ?EY; exact Sx].

  Lemma xexpire_ref ts dur x y : P (x_r x) -> simx x y ->
    snd (xexpire live compact ts dur x) = snd (sexpire compact ts dur y) /\
    simx (fst (xexpire live compact ts dur x)) (fst (sexpire compact ts dur y)).
  Proof.
    intros Px [E Sx]. unfold xexpire, sexpire, sview. rewrite <- E.
    rewrite (Slive _ _ (PQ _ Px) Sx).
    destruct (dead compact (x_exp x) ts) eqn:D; cbn [orb].
    - fin E E Sx.
    - destruct (x_r y) as [|a0 ar] eqn:EY; cbn [nonempty negb].
      + fin E EY Sx.
      + destruct compact.
        * destruct (when_overflows (expire_when ts dur)); fin E EY Sx.
        * destruct (int64_max <? sec_of ts + dur); fin E EY Sx.
  Qed.

  Lemma xpersist_ref ts x y : P (x_r x) -> simx x y ->
    snd (xpersist live compact ts x) = snd (spersist compact ts y) /\
    simx (fst (xpersist live compact ts x)) (fst (spersist compact ts y)).
  Proof.
    intros Px [E Sx]. unfold xpersist, spersist, sview. rewrite <- E.
    rewrite (Slive _ _ (PQ _ Px) Sx).
    destruct (dead compact (x_exp x) ts) eqn:D; cbn [orb].
    - fin E E Sx.
    - destruct (x_r y) as [|a0 ar] eqn:EY; cbn [nonempty negb].
      + fin E EY Sx.
      + destruct compact; fin E EY Sx.
  Qed.

  Lemma xttl_ref now x y : P (x_r x) -> simx x y -> xttl live compact now x = sttl compact now y.
  Proof.
    intros Px [E Sx]. unfold xttl, sttl, sview. rewrite <- E. rewrite (Slive _ _ (PQ _ Px) Sx).
    destruct compact; cbn [andb]; [|reflexivity].
    destruct (dead true (x_exp x) now) eqn:D.
    - rewrite (dead_ttl _ _ _ D). destruct (nonempty (x_r y)); reflexivity.
    - destruct (x_r y); reflexivity.
  Qed.
End Ref.
