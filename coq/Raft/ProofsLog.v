(* Raft/ProofsLog.v — theorems about raftLog over MemoryStorage: maybeAppend (never below the commit
   index; log matching step), slice / nextEnts (the hand-out is the contiguous run of log entries after
   the applied cursor) and Advance (gap-free hand-out). *)
From Coq Require Import List NArith PeanoNat Bool Lia ZifyN ZifyNat ZifyBool.
Import ListNotations.
From ZV Require Import Raft.Consts Raft.Model Raft.Proofs.
Open Scope N_scope.
Arguments N.mul : simpl never.
Arguments N.add : simpl never.
Arguments N.sub : simpl never.

(* ====================================================================================== *)
(* 6. raftLog over MemoryStorage: queries do not change the log *)
Definition is_mem (l : rlog) : Prop := exists m, l_st l = SMem m.

Lemma set_st_same : forall l m, l_st l = SMem m -> set_st l (SMem m) = l.
Proof. intros [s u c a mx] m H. simpl in H. subst. reflexivity. Qed.

Lemma l_first_index_mem : forall l v l', is_mem l -> l_first_index l = Ok (v, l') -> l' = l.
Proof.
  intros l v l' [m Hm] H. unfold l_first_index in H.
  destruct (u_maybe_first_index (l_u l)); [congruence|].
  rewrite Hm in H. simpl in H. destruct (ms_first_index m) as [x| |]; simpl in H; try discriminate.
  injection H as <- <-. apply set_st_same. exact Hm.
Qed.

Lemma l_last_index_mem : forall l v l', is_mem l -> l_last_index l = Ok (v, l') -> l' = l.
Proof.
  intros l v l' [m Hm] H. unfold l_last_index in H.
  destruct (u_maybe_last_index (l_u l)); [congruence|].
  rewrite Hm in H. simpl in H. destruct (ms_last_index m) as [x| |]; simpl in H; try discriminate.
  injection H as <- <-. apply set_st_same. exact Hm.
Qed.

Lemma l_term_mem : forall l i t l', is_mem l -> l_term l i = Ok (t, l') -> l' = l.
Proof.
  intros l i t l' Hm H. unfold l_term in H.
  destruct (l_first_index l) as [[fi l1]| |] eqn:E1; simpl in H; try discriminate.
  pose proof (l_first_index_mem _ _ _ Hm E1); subst l1.
  destruct (l_last_index l) as [[li l2]| |] eqn:E2; simpl in H; try discriminate.
  pose proof (l_last_index_mem _ _ _ Hm E2); subst l2.
  destruct ((i <? fi - 1) || (li <? i)); [congruence|].
  destruct (u_maybe_term (l_u l) i) as [[t'|]| |]; simpl in H; try discriminate; [congruence|].
  destruct Hm as [m Hm]. rewrite Hm in H. simpl in H.
  destruct (ms_term m i) as [x|e|]; simpl in H; try discriminate.
  - injection H as <- <-. apply set_st_same. exact Hm.
  - destruct e; discriminate.
Qed.

Lemma l_match_term_mem : forall l i t b l', is_mem l -> l_match_term l i t = Ok (b, l') -> l' = l.
Proof.
  intros l i t b l' Hm H. unfold l_match_term in H.
  destruct (l_term l i) as [[t' l1]|e|] eqn:E; try discriminate.
  - pose proof (l_term_mem _ _ _ _ Hm E). congruence.
  - congruence.
Qed.

Definition term_of (r : res (N * rlog)) : res N :=
  match r with Ok (t, _) => Ok t | Err e => Err e | Panic => Panic end.

(* ---------- the unstable part after truncateAndAppend, seen from below the first new index ---------- *)
Definition u_ext (u u' : unstable) (after : N) : Prop :=
  u_snap u' = u_snap u /\ u_off u' = N.min (u_off u) after /\
  exists ents, ents <> [] /\ contig after ents /\
               u_ents u' = filter (fun e => eindex e <? after) (u_ents u) ++ ents.

Lemma filter_lt_length : forall es from b, contig from es -> b <= from + nlen es ->
  from + nlen (filter (fun e => eindex e <? b) es) = N.max from b.
Proof.
  intros es from b H Hb. rewrite (contig_filter_lt _ _ b H). unfold nlen in *. rewrite firstn_length. lia.
Qed.

Lemma nth_error_firstn_lt : forall {A} (l : list A) n k, (k < n)%nat -> nth_error (firstn n l) k = nth_error l k.
Proof.
  intros A l. induction l as [|x l IH]; intros n k H.
  - rewrite firstn_nil. reflexivity.
  - destruct n; [lia|]. destruct k; simpl; [reflexivity|]. apply IH. lia.
Qed.

Lemma u_maybe_last_index_nonempty : forall u, u_ents u <> [] ->
  u_maybe_last_index u = Some (u_off u + nlen (u_ents u) - 1).
Proof. intros u H. unfold u_maybe_last_index. destruct (u_ents u); [congruence|reflexivity]. Qed.

Lemma u_maybe_term_ext : forall u u' after i,
  wf_u u -> u_ext u u' after -> after <= u_off u + nlen (u_ents u) -> i < after ->
  (u_off u <= i -> u_ents u <> []) ->
  u_maybe_term u' i = u_maybe_term u i.
Proof.
  intros u u' after i Hu (Hs & Ho & ents & Hne & Hc & He) Hle Hi Hnonempty.
  unfold u_maybe_term. rewrite Hs, Ho.
  destruct (i <? N.min (u_off u) after) eqn:E1.
  - apply N.ltb_lt in E1. replace (i <? u_off u) with true by (symmetry; apply N.ltb_lt; lia). reflexivity.
  - apply N.ltb_ge in E1. assert (Hoi : u_off u <= i) by lia.
    replace (i <? u_off u) with false by (symmetry; apply N.ltb_ge; lia).
    replace (N.min (u_off u) after) with (u_off u) by lia.
    pose proof (filter_lt_length _ _ after Hu Hle) as Hfl.
    assert (Hne' : u_ents u' <> []).
    { rewrite He. destruct (filter (fun e => eindex e <? after) (u_ents u)); simpl; [exact Hne|discriminate]. }
    rewrite (u_maybe_last_index_nonempty u' Hne'), (u_maybe_last_index_nonempty u (Hnonempty Hoi)).
    assert (Hlen' : nlen (u_ents u') = nlen (filter (fun e => eindex e <? after) (u_ents u)) + nlen ents).
    { rewrite He. unfold nlen. rewrite app_length. lia. }
    assert (Hents1 : 1 <= nlen ents). { destruct ents; [congruence|]. unfold nlen. simpl. lia. }
    assert (Hu1 : 1 <= nlen (u_ents u)). { pose proof (Hnonempty Hoi). destruct (u_ents u); [congruence|]. unfold nlen. simpl. lia. }
    replace (u_off u') with (u_off u) by lia.
    replace (u_off u + nlen (u_ents u') - 1 <? i) with false by (symmetry; apply N.ltb_ge; lia).
    replace (u_off u + nlen (u_ents u) - 1 <? i) with false by (symmetry; apply N.ltb_ge; lia).
    rewrite He. unfold nnth. rewrite nth_error_app1.
    + rewrite (contig_filter_lt _ _ after Hu). rewrite nth_error_firstn_lt; [reflexivity|lia].
    + unfold nlen in *. lia.
Qed.

Lemma l_first_index_set_u : forall l u' fv,
  u_snap u' = u_snap (l_u l) -> l_first_index l = Ok (fv, l) ->
  exists l2, l_first_index (set_u l u') = Ok (fv, l2) /\ l_u l2 = u' /\ l_st l2 = l_st l.
Proof.
  intros l u' fv Hs H. unfold l_first_index in *. unfold u_maybe_first_index in *. cbn [set_u l_u l_st] in *.
  rewrite Hs. destruct (u_snap (l_u l)) as [[si st]|].
  - injection H as <-. eexists. split; [reflexivity|]. split; reflexivity.
  - destruct (err_to_panic (st_first_index (l_st l))) as [[v s']| |] eqn:E; simpl in *; try discriminate.
    injection H as <- Hl. eexists. split; [reflexivity|]. cbn. split; [reflexivity|].
    apply (f_equal l_st) in Hl. cbn in Hl. exact Hl.
Qed.

Lemma l_last_index_nonempty : forall l, u_ents (l_u l) <> [] ->
  l_last_index l = Ok (u_off (l_u l) + nlen (u_ents (l_u l)) - 1, l).
Proof. intros l H. unfold l_last_index. rewrite (u_maybe_last_index_nonempty _ H). reflexivity. Qed.

Lemma l_term_ext : forall l u' after i fv lv,
  is_mem l -> wf_u (l_u l) -> u_ext (l_u l) u' after -> after <= u_off (l_u l) + nlen (u_ents (l_u l)) ->
  l_first_index l = Ok (fv, l) -> l_last_index l = Ok (lv, l) -> u_off (l_u l) <= lv + 1 -> i < after ->
  term_of (l_term (set_u l u') i) = term_of (l_term l i).
Proof.
  intros l u' after i fv lv Hm Hu Hext Hle Hf Hl Hhole Hi.
  pose proof Hext as (Hs & Ho & ents & Hne & Hc & He).
  destruct (l_first_index_set_u l u' fv Hs Hf) as (l2 & Hf2 & Hu2 & Hst2).
  assert (Hne' : u_ents u' <> []).
  { rewrite He. destruct (filter (fun e => eindex e <? after) (u_ents (l_u l))); simpl; [exact Hne|discriminate]. }
  assert (Hl2 : l_last_index l2 = Ok (u_off u' + nlen (u_ents u') - 1, l2)).
  { pose proof (l_last_index_nonempty l2) as X. rewrite Hu2 in X. apply X. exact Hne'. }
  assert (Hents1 : 1 <= nlen ents). { destruct ents; [congruence|]. unfold nlen. simpl. lia. }
  pose proof (filter_lt_length _ _ after Hu Hle) as Hfl.
  assert (Hlen' : nlen (u_ents u') = nlen (filter (fun e => eindex e <? after) (u_ents (l_u l))) + nlen ents).
  { rewrite He. unfold nlen. rewrite app_length. lia. }
  assert (Hnonempty : u_off (l_u l) <= i -> u_ents (l_u l) <> []).
  { intros Hoi Hnil. rewrite Hnil in Hle. unfold nlen in Hle. simpl in Hle. lia. }
  assert (Hilv : i <= lv).
  { destruct (u_ents (l_u l)) as [|y ys] eqn:Eu.
    - unfold nlen in Hle. simpl in Hle. lia.
    - assert (X : u_ents (l_u l) <> []) by congruence. rewrite (l_last_index_nonempty l X) in Hl.
      injection Hl as Hl. rewrite Eu in *. unfold nlen in *. simpl length in *. lia. }
  unfold l_term. rewrite Hf2. cbn [bind]. rewrite Hl2. cbn [bind]. rewrite Hf. cbn [bind]. rewrite Hl. cbn [bind].
  replace (u_off u' + nlen (u_ents u') - 1 <? i) with false by (symmetry; apply N.ltb_ge; lia).
  replace (lv <? i) with false by (symmetry; apply N.ltb_ge; lia).
  destruct (i <? fv - 1); cbn [orb]; [reflexivity|].
  rewrite Hu2. rewrite (u_maybe_term_ext _ _ _ _ Hu Hext Hle Hi Hnonempty).
  destruct (u_maybe_term (l_u l) i) as [[t|]| |]; cbn [bind]; try reflexivity.
  rewrite Hst2. destruct (st_term (l_st l) i) as [[t s]|e|]; try reflexivity.
Qed.

(* ---------- frame: queries do not look at the commit index ---------- *)
Definition map_log {A} (f : rlog -> rlog) (r : res (A * rlog)) : res (A * rlog) :=
  match r with Ok (v, l) => Ok (v, f l) | Err e => Err e | Panic => Panic end.

Lemma l_first_index_frame : forall l c, l_first_index (set_committed l c) = map_log (fun x => set_committed x c) (l_first_index l).
Proof.
  intros l c. unfold l_first_index. cbn [set_committed l_u l_st].
  destruct (u_maybe_first_index (l_u l)); [reflexivity|].
  destruct (err_to_panic (st_first_index (l_st l))) as [[v s]| |]; reflexivity.
Qed.
Lemma l_last_index_frame : forall l c, l_last_index (set_committed l c) = map_log (fun x => set_committed x c) (l_last_index l).
Proof.
  intros l c. unfold l_last_index. cbn [set_committed l_u l_st].
  destruct (u_maybe_last_index (l_u l)); [reflexivity|].
  destruct (err_to_panic (st_last_index (l_st l))) as [[v s]| |]; reflexivity.
Qed.
Lemma l_term_frame : forall l c i, l_term (set_committed l c) i = map_log (fun x => set_committed x c) (l_term l i).
Proof.
  intros l c i. unfold l_term. rewrite l_first_index_frame.
  destruct (l_first_index l) as [[fv l1]| |]; cbn [map_log bind]; try reflexivity.
  rewrite l_last_index_frame.
  destruct (l_last_index l1) as [[lv l2]| |]; cbn [map_log bind]; try reflexivity.
  destruct ((i <? fv - 1) || (lv <? i)); [reflexivity|].
  cbn [set_committed l_u l_st].
  destruct (u_maybe_term (l_u l2) i) as [[t|]| |]; cbn [bind map_log]; try reflexivity.
  destruct (st_term (l_st l2) i) as [[t s]|e|]; try reflexivity. destruct e; reflexivity.
Qed.
Lemma term_of_map_log : forall f r, term_of (map_log f r) = term_of r.
Proof. intros f [[t l]|e|]; reflexivity. Qed.

Lemma l_term_ok_indexes : forall l i t l', is_mem l -> l_term l i = Ok (t, l') ->
  exists fv lv, l_first_index l = Ok (fv, l) /\ l_last_index l = Ok (lv, l).
Proof.
  intros l i t l' Hm H. unfold l_term in H.
  destruct (l_first_index l) as [[fi l1]| |] eqn:E1; simpl in H; try discriminate.
  pose proof (l_first_index_mem _ _ _ Hm E1); subst l1.
  destruct (l_last_index l) as [[li l2]| |] eqn:E2; simpl in H; try discriminate.
  pose proof (l_last_index_mem _ _ _ Hm E2); subst l2. eauto.
Qed.

(* ---------- findConflict on a MemoryStorage log ---------- *)
Definition matched (l : rlog) (x : entry) : Prop := l_match_term l (eindex x) (eterm x) = Ok (true, l).

Lemma l_find_conflict_mem : forall ents l ci l', is_mem l -> l_find_conflict l ents = Ok (ci, l') ->
  l' = l /\
  ((ci = 0 /\ forall x, In x ents -> matched l x) \/
   exists pre e suf, ents = pre ++ e :: suf /\ eindex e = ci /\ forall x, In x pre -> matched l x).
Proof.
  induction ents as [|ne r IH]; intros l ci l' Hm H; simpl in H.
  - injection H as <- <-. split; [reflexivity|]. left. split; [reflexivity|]. intros x [].
  - destruct (l_match_term l (eindex ne) (eterm ne)) as [[b l1]| |] eqn:E; simpl in H; try discriminate.
    pose proof (l_match_term_mem _ _ _ _ _ Hm E); subst l1.
    destruct b.
    + destruct (IH l ci l' Hm H) as (H1 & H2). split; [exact H1|].
      destruct H2 as [[H2 Hall]|(pre & e & suf & Hp & He & Hpre)].
      * left. split; [exact H2|]. intros x [<-|Hx]; [exact E|apply Hall; exact Hx].
      * right. exists (ne :: pre), e, suf. split; [simpl; congruence|]. split; [exact He|].
        intros x [<-|Hx]; [exact E|apply Hpre; exact Hx].
    + destruct (l_last_index l) as [[lv l2]| |] eqn:E2; simpl in H; try discriminate.
      pose proof (l_last_index_mem _ _ _ Hm E2); subst l2.
      destruct (eindex ne <=? lv).
      * destruct (l_zero_term_on_err_compacted l (l_term l (eindex ne))) as [[t l3]| |] eqn:E3; simpl in H; try discriminate.
        injection H as <- <-.
        assert (l3 = l).
        { unfold l_zero_term_on_err_compacted in E3. destruct (l_term l (eindex ne)) as [[t' l4]|e|] eqn:E4.
          - injection E3 as <- <-. apply (l_term_mem _ _ _ _ Hm E4).
          - destruct e; try discriminate. congruence.
          - discriminate. }
        subst l3. split; [reflexivity|].
        right. exists [], ne, r. split; [reflexivity|]. split; [reflexivity|]. intros x [].
      * injection H as <- <-. split; [reflexivity|].
        right. exists [], ne, r. split; [reflexivity|]. split; [reflexivity|]. intros x [].
Qed.

Lemma matched_term : forall l x, is_mem l -> matched l x -> term_of (l_term l (eindex x)) = Ok (eterm x).
Proof.
  intros l x Hm H. unfold matched, l_match_term in H.
  destruct (l_term l (eindex x)) as [[t l1]|e|]; try discriminate.
  injection H as Ht _. apply N.eqb_eq in Ht. subst. reflexivity.
Qed.

(* ---------- maybeAppend never touches an index at or below the commit index ---------- *)
Lemma l_commit_to_mem : forall l c l', is_mem l -> l_commit_to l c = Ok l' ->
  (l' = l \/ l' = set_committed l c) /\ l_committed l <= l_committed l'.
Proof.
  intros l c l' Hm H. unfold l_commit_to in H.
  destruct (l_committed l <? c) eqn:E.
  - destruct (l_last_index l) as [[lv l2]| |] eqn:E2; simpl in H; try discriminate.
    pose proof (l_last_index_mem _ _ _ Hm E2); subst l2.
    destruct (lv <? c); [discriminate|]. injection H as <-. split; [right; reflexivity|].
    apply N.ltb_lt in E. destruct l; simpl in *. lia.
  - injection H as <-. split; [left; reflexivity|lia].
Qed.

Lemma contig_in_ge : forall es from e, contig from es -> In e es -> from <= eindex e.
Proof.
  induction es as [|x es IH]; intros from e H Hin; [destruct Hin|].
  destruct H as [Hx Hr]. destruct Hin as [->|Hin]; [lia|]. pose proof (IH _ _ Hr Hin). lia.
Qed.

Lemma contig_split_index : forall pre e suf from, contig from (pre ++ e :: suf) ->
  eindex e = from + nlen pre /\ contig (eindex e) (e :: suf).
Proof.
  intros pre e suf from H. apply contig_app in H. destruct H as [_ H]. simpl in H. destruct H as [He Hs].
  split; [exact He|]. simpl. split; [reflexivity|]. rewrite He. exact Hs.
Qed.

Theorem maybe_append_below_commit : forall l idx lt cm ents r l',
  is_mem l -> wf_u (l_u l) -> contig (idx + 1) ents ->
  (forall lv, l_last_index l = Ok (lv, l) -> u_off (l_u l) <= lv + 1) ->
  l_maybe_append l idx lt cm ents = Ok (r, l') ->
  l_committed l <= l_committed l' /\ l_applied l' = l_applied l /\ l_st l' = l_st l /\ wf_u (l_u l') /\
  (forall i, i <= l_committed l -> term_of (l_term l' i) = term_of (l_term l i)) /\
  (forall n, r = Some n -> n = idx + nlen ents /\
     ((forall fv, l_first_index l = Ok (fv, l) -> fv - 1 <= l_committed l) ->
      forall x, In x ents -> term_of (l_term l' (eindex x)) = Ok (eterm x))).
Proof.
  intros l idx lt cm ents r l' Hm Hu Hc Hhole H. unfold l_maybe_append in H.
  destruct (l_match_term l idx lt) as [[ok l1]| |] eqn:E1; cbn [bind] in H; try discriminate.
  pose proof (l_match_term_mem _ _ _ _ _ Hm E1); subst l1.
  destruct ok; cbn [negb] in H.
  2:{ injection H as <- <-. repeat split; auto; try lia; discriminate. }
  (* accepted: the term lookup succeeded, so first/last index are defined *)
  assert (Hidx : exists fv lv, l_first_index l = Ok (fv, l) /\ l_last_index l = Ok (lv, l)).
  { unfold l_match_term in E1. destruct (l_term l idx) as [[t l1]|e|] eqn:Et; try discriminate.
    apply (l_term_ok_indexes _ _ _ _ Hm Et). }
  destruct Hidx as (fv & lv & Hf & Hl).
  destruct (l_find_conflict l ents) as [[ci l2]| |] eqn:E2; cbn [bind] in H; try discriminate.
  destruct (l_find_conflict_mem _ _ _ _ Hm E2) as [-> Hci].
  destruct (ci =? 0) eqn:Ez.
  - (* nothing to append *)
    cbn [bind] in H. apply N.eqb_eq in Ez.
    assert (Hall : forall x, In x ents -> matched l x).
    { destruct Hci as [[_ Hall]|(pre & e & suf & Hp & He & _)]; [exact Hall|].
      exfalso. pose proof (contig_in_ge _ _ e Hc) as G. rewrite Hp in G. specialize (G ltac:(apply in_or_app; right; left; reflexivity)). lia. }
    destruct (l_commit_to l (N.min cm (idx + nlen ents))) as [l4| |] eqn:E4; cbn [bind] in H; try discriminate.
    injection H as <- <-. destruct (l_commit_to_mem _ _ _ Hm E4) as [[->| ->] Hle].
    + repeat split; auto; try (injection H as <-; reflexivity).
      intros _ x Hx. apply (matched_term _ _ Hm (Hall x Hx)).
    + cbn [set_committed l_committed l_applied l_st l_u]. repeat split; auto; try (injection H as <-; reflexivity).
      * intros i Hi. rewrite l_term_frame. apply term_of_map_log.
      * intros _ x Hx. rewrite l_term_frame, term_of_map_log. apply (matched_term _ _ Hm (Hall x Hx)).
  - apply N.eqb_neq in Ez.
    destruct (ci <=? l_committed l) eqn:Ec; cbn [bind] in H; [discriminate|]. apply N.leb_gt in Ec.
    destruct (ci <? idx + 1) eqn:Eo; cbn [bind] in H; [discriminate|]. apply N.ltb_ge in Eo.
    destruct Hci as [[Hci _]|(pre & e & suf & Hp & He & Hpre)]; [congruence|].
    destruct (goslice ents (ci - (idx + 1)) (nlen ents)) as [sl| |] eqn:Es; cbn [bind] in H; try discriminate.
    (* the slice handed to append is the suffix starting at the conflicting entry *)
    assert (Hsl : sl = e :: suf).
    { destruct (contig_split_index _ _ _ _ (eq_ind _ (contig (idx + 1)) Hc _ Hp)) as [Hie _].
      unfold goslice in Es. destruct ((ci - (idx + 1) <=? nlen ents) && (nlen ents <=? nlen ents)); [|discriminate].
      injection Es as <-. unfold nfirstn, nskipn. rewrite Hp.
      replace (N.to_nat (ci - (idx + 1))) with (length pre) by (unfold nlen in *; lia).
      rewrite skipn_app. rewrite skipn_all. replace (length pre - length pre)%nat with 0%nat by lia. simpl skipn. simpl app.
      apply firstn_all2. unfold nlen in *. rewrite app_length. cbn [length]. lia. }
    subst sl.
    destruct (contig_split_index _ _ _ _ (eq_ind _ (contig (idx + 1)) Hc _ Hp)) as [Hie Hcs]. rewrite He in Hcs.
    unfold l_append in H.
    replace ((1 <=? eindex e) && (eindex e - 1 <? l_committed l)) with false in H
      by (symmetry; apply andb_false_iff; right; apply N.ltb_ge; lia).
    destruct (u_truncate_and_append (l_u l) (e :: suf)) as [u'| |] eqn:Et; cbn [bind] in H; try discriminate.
    (* without a hole the surgery lemma applies; with a hole truncateAndAppend panics *)
    assert (Hnh : ci <= u_off (l_u l) + nlen (u_ents (l_u l))).
    { destruct (N.le_gt_cases ci (u_off (l_u l) + nlen (u_ents (l_u l)))) as [L|G]; [exact L|exfalso].
      unfold u_truncate_and_append in Et. rewrite He in Et.
      replace (ci =? u_off (l_u l) + nlen (u_ents (l_u l))) with false in Et by (symmetry; apply N.eqb_neq; lia).
      replace (ci <=? u_off (l_u l)) with false in Et by (symmetry; apply N.leb_gt; lia).
      unfold u_slice in Et. replace (ci <? u_off (l_u l)) with false in Et by (symmetry; apply N.ltb_ge; lia).
      replace (u_off (l_u l) <? u_off (l_u l)) with false in Et by (symmetry; apply N.ltb_ge; lia).
      replace (u_off (l_u l) + nlen (u_ents (l_u l)) <? ci) with true in Et by (symmetry; apply N.ltb_lt; lia).
      simpl in Et. discriminate. }
    destruct (truncate_and_append_surgery (l_u l) (e :: suf) ci Hu Hcs ltac:(discriminate) Hnh)
      as (u'' & Et' & Hents & Hoff & Hsnap & Hwf'). rewrite Et in Et'. injection Et' as <-.
    assert (Hext : u_ext (l_u l) u' ci).
    { split; [exact Hsnap|]. split; [exact Hoff|]. exists (e :: suf). split; [discriminate|]. split; [exact Hcs|exact Hents]. }
    destruct (l_last_index (set_u l u')) as [[lv' l5]| |] eqn:E5; cbn [bind] in H; try discriminate.
    assert (Hm' : is_mem (set_u l u')) by (destruct Hm as [m Hm]; exists m; exact Hm).
    pose proof (l_last_index_mem _ _ _ Hm' E5); subst l5. cbn [snd] in H.
    destruct (l_commit_to (set_u l u') (N.min cm (idx + nlen ents))) as [l4| |] eqn:E4; cbn [bind] in H; try discriminate.
    injection H as <- <-.
    assert (Hterm : forall i, i <= l_committed l -> term_of (l_term (set_u l u') i) = term_of (l_term l i)).
    { intros i Hi. apply (l_term_ext l u' ci i fv lv Hm Hu Hext Hnh Hf Hl (Hhole lv Hl)). lia. }
    assert (HB : (forall fv0, l_first_index l = Ok (fv0, l) -> fv0 - 1 <= l_committed l) ->
                 forall x, In x ents -> term_of (l_term (set_u l u') (eindex x)) = Ok (eterm x)).
    { intros Hfc x Hx. pose proof (Hfc fv Hf) as Hfc'. rewrite Hp in Hx. apply in_app_or in Hx. destruct Hx as [Hx|Hx].
      - (* matched prefix: below the conflict index, preserved *)
        assert (eindex x < ci).
        { destruct (in_split _ _ Hx) as (p1 & p2 & Hpp). rewrite Hpp in Hp.
          rewrite <- app_assoc in Hp. simpl in Hp.
          pose proof (eq_ind _ (contig (idx + 1)) Hc _ Hp) as Hc2.
          apply contig_app in Hc2. destruct Hc2 as [_ Hc2]. simpl in Hc2. destruct Hc2 as [Hx1 Hc2].
          apply contig_app in Hc2. destruct Hc2 as [_ Hc2]. simpl in Hc2. destruct Hc2 as [He1 _]. unfold nlen in *. lia. }
        rewrite (l_term_ext l u' ci (eindex x) fv lv Hm Hu Hext Hnh Hf Hl (Hhole lv Hl) H).
        apply (matched_term _ _ Hm (Hpre x Hx)).
      - (* new suffix: read back from the unstable entries *)
        destruct (In_nth_error _ _ Hx) as [k Hk].
        pose proof (contig_nth _ _ _ _ Hcs Hk) as Hix.
        destruct (l_first_index_set_u l u' fv Hsnap Hf) as (l2 & Hf2 & Hu2 & Hst2).
        assert (Hne' : u_ents u' <> []).
        { rewrite Hents. destruct (filter (fun e0 => eindex e0 <? ci) (u_ents (l_u l))); simpl; discriminate. }
        assert (Hl2 : l_last_index l2 = Ok (u_off u' + nlen (u_ents u') - 1, l2)).
        { pose proof (l_last_index_nonempty l2) as X. rewrite Hu2 in X. apply X. exact Hne'. }
        pose proof (filter_lt_length _ _ ci Hu Hnh) as Hfl.
        assert (Hlen' : nlen (u_ents u') = nlen (filter (fun e0 => eindex e0 <? ci) (u_ents (l_u l))) + nlen (e :: suf)).
        { rewrite Hents. unfold nlen. rewrite app_length. lia. }
        assert (Hk' : (k < length (e :: suf))%nat) by (apply nth_error_Some; congruence).
        unfold l_term. rewrite Hf2. cbn [bind]. rewrite Hl2. cbn [bind].
        replace (eindex x <? fv - 1) with false by (symmetry; apply N.ltb_ge; lia).
        replace (u_off u' + nlen (u_ents u') - 1 <? eindex x) with false by (symmetry; apply N.ltb_ge; unfold nlen in *; lia).
        cbn [orb]. rewrite Hu2. unfold u_maybe_term.
        replace (eindex x <? u_off u') with false by (symmetry; apply N.ltb_ge; lia).
        rewrite (u_maybe_last_index_nonempty u' Hne').
        replace (u_off u' + nlen (u_ents u') - 1 <? eindex x) with false by (symmetry; apply N.ltb_ge; unfold nlen in *; lia).
        unfold nnth. rewrite Hents. rewrite nth_error_app2 by (unfold nlen in *; lia).
        replace (N.to_nat (eindex x - u_off u') - length (filter (fun e0 => N.ltb (eindex e0) ci) (u_ents (l_u l))))%nat with k
          by (unfold nlen in *; lia).
        rewrite Hk. reflexivity. }
    destruct (l_commit_to_mem _ _ _ Hm' E4) as [[->| ->] Hle]; cbn [set_committed set_u l_committed l_applied l_st l_u] in *.
    + repeat split; auto; try (injection H as <-; reflexivity).
    + repeat split; auto; try (injection H as <-; reflexivity).
      * intros i Hi. rewrite l_term_frame, term_of_map_log. apply Hterm. exact Hi.
      * intros Hfc x Hx. rewrite l_term_frame, term_of_map_log. apply HB; assumption.
Qed.

(* ====================================================================================== *)
(* 7. nextEnts: the hand-out is the contiguous run of log entries after the applied cursor *)
Definition log_entry (u : unstable) (m : mstore) (off i : N) : option entry :=
  if u_off u <=? i then nnth (i - u_off u) (u_ents u)
  else if off <? i then nnth (i - off) (ms_ents m) else None.

Definition wf_mlog (l : rlog) (m : mstore) (off : N) : Prop :=
  l_st l = SMem m /\ wf_ms m /\ ms_offset m = Ok off /\ wf_u (l_u l) /\
  match u_snap (l_u l) with
  | None => off + 1 <= u_off (l_u l) /\ u_off (l_u l) <= off + nlen (ms_ents m) /\
            (u_ents (l_u l) = [] -> u_off (l_u l) = off + nlen (ms_ents m))
  | Some (si, _) => u_off (l_u l) = si + 1
  end.

Definition mfirst (l : rlog) (off : N) : N :=
  match u_snap (l_u l) with Some (si, _) => si + 1 | None => off + 1 end.
Definition mlast (l : rlog) (m : mstore) (off : N) : N :=
  match u_ents (l_u l) with
  | _ :: _ => u_off (l_u l) + nlen (u_ents (l_u l)) - 1
  | [] => match u_snap (l_u l) with Some (si, _) => si | None => off + nlen (ms_ents m) - 1 end
  end.

Lemma wf_ms_len : forall m, wf_ms m -> 1 <= nlen (ms_ents m).
Proof. intros m (d & rest & E & _). rewrite E. unfold nlen. simpl. lia. Qed.

Lemma wf_ms_contig_off : forall m off, wf_ms m -> ms_offset m = Ok off -> contig off (ms_ents m).
Proof.
  intros m off (d & rest & E & Hc) Ho. unfold ms_offset in Ho. rewrite E in Ho. injection Ho as <-.
  rewrite E. simpl. split; [reflexivity|exact Hc].
Qed.

Lemma l_first_index_wf : forall l m off, wf_mlog l m off -> l_first_index l = Ok (mfirst l off, l).
Proof.
  intros l m off (Hs & Hm & Ho & Hu & Hsn). unfold l_first_index, mfirst, u_maybe_first_index.
  destruct (u_snap (l_u l)) as [[si st]|]; [reflexivity|].
  rewrite Hs. simpl. unfold ms_first_index. rewrite Ho. simpl. f_equal. f_equal. apply set_st_same. exact Hs.
Qed.

Lemma l_last_index_wf : forall l m off, wf_mlog l m off -> l_last_index l = Ok (mlast l m off, l).
Proof.
  intros l m off (Hs & Hm & Ho & Hu & Hsn). unfold l_last_index, mlast, u_maybe_last_index.
  destruct (u_ents (l_u l)); [|reflexivity].
  destruct (u_snap (l_u l)) as [[si st]|]; [reflexivity|].
  rewrite Hs. simpl. unfold ms_last_index. rewrite Ho. simpl. f_equal. f_equal. apply set_st_same. exact Hs.
Qed.

Lemma goslice_ok : forall {A} (l : list A) lo hi, lo <= hi -> hi <= nlen l ->
  goslice l lo hi = Ok (nfirstn (hi - lo) (nskipn lo l)).
Proof.
  intros A l lo hi H1 H2. unfold goslice.
  replace (lo <=? hi) with true by (symmetry; apply N.leb_le; lia).
  replace (hi <=? nlen l) with true by (symmetry; apply N.leb_le; lia). reflexivity.
Qed.

Lemma ms_entries_spec : forall m off lo hi max, wf_ms m -> ms_offset m = Ok off ->
  off + 1 <= lo -> lo <= hi -> hi <= off + nlen (ms_ents m) -> 2 <= nlen (ms_ents m) ->
  ms_entries m lo hi max = Ok (limit_size (nfirstn (hi - lo) (nskipn (lo - off) (ms_ents m))) max).
Proof.
  intros m off lo hi max Hm Ho H1 H2 H3 H4. unfold ms_entries, ms_last_index. rewrite Ho. cbn [bind].
  replace (lo <=? off) with false by (symmetry; apply N.leb_gt; lia).
  replace (off + nlen (ms_ents m) - 1 + 1 <? hi) with false by (symmetry; apply N.ltb_ge; lia).
  replace (nlen (ms_ents m) =? 1) with false by (symmetry; apply N.eqb_neq; lia).
  rewrite goslice_ok by lia. cbn [bind]. replace (hi - off - (lo - off)) with (hi - lo) by lia. reflexivity.
Qed.

(* sub-ranges of contiguous lists *)
Lemma contig_sub : forall es from a n, contig from es -> contig (from + a) (nfirstn n (nskipn a es)).
Proof.
  intros es from a n H. unfold nfirstn, nskipn. apply contig_firstn.
  pose proof (contig_skipn _ _ (N.to_nat a) H) as X. replace (from + N.of_nat (N.to_nat a)) with (from + a) in X by lia. exact X.
Qed.

Lemma nth_error_sub : forall {A} (es : list A) a n k, (k < N.to_nat n)%nat ->
  nth_error (nfirstn n (nskipn a es)) k = nth_error es (N.to_nat a + k).
Proof.
  intros A es a n k H. unfold nfirstn, nskipn. rewrite nth_error_firstn_lt by exact H.
  revert es. induction (N.to_nat a) as [|j IH]; intros es; simpl; [reflexivity|].
  destruct es; [destruct k; reflexivity|]. apply IH.
Qed.

Lemma limit_size_sub : forall es max k e, nth_error (limit_size es max) k = Some e -> nth_error es k = Some e.
Proof.
  intros es max k e H. destruct (limit_size_prefix es max) as (j & Hj & _). rewrite Hj in H.
  destruct (Nat.lt_ge_cases k j) as [L|G].
  - rewrite nth_error_firstn_lt in H by exact L. exact H.
  - assert (nth_error (firstn j es) k = None). { apply nth_error_None. rewrite firstn_length. lia. } congruence.
Qed.

Lemma limit_size_contig : forall es max from, contig from es -> contig from (limit_size es max).
Proof. intros es max from H. destruct (limit_size_prefix es max) as (j & Hj & _). rewrite Hj. apply contig_firstn. exact H. Qed.

Lemma limit_size_nonempty : forall es max, es <> [] -> limit_size es max <> [].
Proof. intros [|e r] max H; [congruence|]. simpl. discriminate. Qed.

Definition good (u : unstable) (m : mstore) (off lo : N) (X : list entry) : Prop :=
  X <> [] /\ contig lo X /\ forall k e, nth_error X k = Some e -> log_entry u m off (lo + N.of_nat k) = Some e.

Lemma good_limit : forall u m off lo X max, good u m off lo X -> good u m off lo (limit_size X max).
Proof.
  intros u m off lo X max (H1 & H2 & H3). split; [apply limit_size_nonempty; exact H1|].
  split; [apply limit_size_contig; exact H2|]. intros k e Hk. apply H3. apply (limit_size_sub _ _ _ _ Hk).
Qed.

Lemma limit_size_full : forall X max, nlen (limit_size X max) = nlen X -> limit_size X max = X.
Proof.
  intros X max H. destruct (limit_size_prefix X max) as (j & Hj & _). rewrite Hj in *.
  unfold nlen in H. rewrite firstn_length in H. apply firstn_all2. lia.
Qed.

Lemma nfirstn_nskipn_length : forall {A} (es : list A) a n, a + n <= nlen es -> nlen (nfirstn n (nskipn a es)) = n.
Proof. intros A es a n H. unfold nlen, nfirstn, nskipn in *. rewrite firstn_length, skipn_length. lia. Qed.

Theorem l_slice_spec : forall l m off lo hi max,
  wf_mlog l m off -> mfirst l off <= lo -> lo < hi -> hi <= mlast l m off + 1 ->
  exists es, l_slice l lo hi max = Ok (es, l) /\ good (l_u l) m off lo es /\ nlen es <= hi - lo.
Proof.
  intros l m off lo hi max Hwf Hlo Hlt Hhi.
  pose proof Hwf as (Hs & Hm & Ho & Hu & Hsn).
  pose proof (wf_ms_contig_off _ _ Hm Ho) as Hmc.
  unfold l_slice, l_must_check_out_of_bounds.
  replace (hi <? lo) with false by (symmetry; apply N.ltb_ge; lia).
  rewrite (l_first_index_wf _ _ _ Hwf). cbn [bind].
  replace (lo <? mfirst l off) with false by (symmetry; apply N.ltb_ge; lia).
  rewrite (l_last_index_wf _ _ _ Hwf). cbn [bind].
  replace (mlast l m off + 1 <? hi) with false by (symmetry; apply N.ltb_ge; lia).
  cbn [bind].
  replace (lo =? hi) with false by (symmetry; apply N.eqb_neq; lia).
  set (uoff := u_off (l_u l)) in *.
  (* the unstable part [max lo uoff, hi) when it is needed *)
  assert (Hus : uoff < hi -> exists us, u_slice (l_u l) (N.max lo uoff) hi = Ok us /\
                us = nfirstn (hi - N.max lo uoff) (nskipn (N.max lo uoff - uoff) (u_ents (l_u l))) /\
                hi <= uoff + nlen (u_ents (l_u l))).
  { intros Hh. assert (Hb : hi <= uoff + nlen (u_ents (l_u l))).
    { unfold mlast in Hhi. unfold mfirst in Hlo. fold uoff in Hhi. destruct (u_ents (l_u l)) as [|y ys] eqn:Eu.
      - exfalso. destruct (u_snap (l_u l)) as [[si st]|].
        + fold uoff in Hsn. lia.
        + destruct Hsn as (_ & _ & Hz). specialize (Hz eq_refl). fold uoff in Hz. pose proof (wf_ms_len _ Hm) as Hl1. clear -Hz Hh Hhi Hl1. lia.
      - unfold nlen in *. cbn [length] in *. clear -Hhi. lia. }
    unfold u_slice. fold uoff.
    replace (hi <? N.max lo uoff) with false by (symmetry; apply N.ltb_ge; lia).
    replace (N.max lo uoff <? uoff) with false by (symmetry; apply N.ltb_ge; lia).
    replace (uoff + nlen (u_ents (l_u l)) <? hi) with false by (symmetry; apply N.ltb_ge; lia).
    cbn [orb]. rewrite goslice_ok by lia. eexists. split; [reflexivity|]. split; [|exact Hb].
    f_equal. lia. }
  (* entries read from the unstable part are the log's entries *)
  assert (Hgu : forall a n, uoff <= a -> forall k e, nth_error (nfirstn n (nskipn (a - uoff) (u_ents (l_u l)))) k = Some e ->
                log_entry (l_u l) m off (a + N.of_nat k) = Some e).
  { intros a n Ha k e Hk.
    assert (Hkn : (k < N.to_nat n)%nat).
    { destruct (Nat.lt_ge_cases k (N.to_nat n)); [assumption|]. exfalso.
      assert (nth_error (nfirstn n (nskipn (a - uoff) (u_ents (l_u l)))) k = None).
      { apply nth_error_None. unfold nfirstn. rewrite firstn_length. lia. } congruence. }
    rewrite nth_error_sub in Hk by exact Hkn. unfold log_entry. fold uoff.
    replace (uoff <=? a + N.of_nat k) with true by (symmetry; apply N.leb_le; lia).
    unfold nnth. replace (N.to_nat (a + N.of_nat k - uoff)) with (N.to_nat (a - uoff) + k)%nat by lia. exact Hk. }
  destruct (lo <? uoff) eqn:E1.
  - (* the range starts in storage *)
    apply N.ltb_lt in E1.
    assert (Hnosnap : u_snap (l_u l) = None).
    { destruct (u_snap (l_u l)) as [[si st]|] eqn:Es; [|reflexivity]. unfold mfirst in Hlo. rewrite Es in Hlo. lia. }
    rewrite Hnosnap in Hsn. destruct Hsn as (Hs1 & Hs2 & Hs3). fold uoff in Hs1, Hs2, Hs3.
    unfold mfirst in Hlo. rewrite Hnosnap in Hlo.
    rewrite Hs. cbn [st_entries].
    rewrite (ms_entries_spec m off lo (N.min hi uoff) max Hm Ho) by lia. cbn [bind].
    set (sl := nfirstn (N.min hi uoff - lo) (nskipn (lo - off) (ms_ents m))).
    assert (Hsl_len : nlen sl = N.min hi uoff - lo) by (apply nfirstn_nskipn_length; lia).
    assert (Hsl_good : good (l_u l) m off lo sl).
    { split; [|split].
      - intros Hn. rewrite Hn in Hsl_len. unfold nlen in Hsl_len. simpl in Hsl_len. lia.
      - pose proof (contig_sub _ _ (lo - off) (N.min hi uoff - lo) Hmc) as X. replace (off + (lo - off)) with lo in X by lia. exact X.
      - intros k e Hk.
        assert (Hkn : (k < N.to_nat (N.min hi uoff - lo))%nat).
        { destruct (Nat.lt_ge_cases k (N.to_nat (N.min hi uoff - lo))); [assumption|]. exfalso.
          assert (nth_error sl k = None). { apply nth_error_None. unfold nlen in Hsl_len. lia. } congruence. }
        unfold sl in Hk. rewrite nth_error_sub in Hk by exact Hkn. unfold log_entry. fold uoff.
        replace (uoff <=? lo + N.of_nat k) with false by (symmetry; apply N.leb_gt; lia).
        replace (off <? lo + N.of_nat k) with true by (symmetry; apply N.ltb_lt; lia).
        unfold nnth. replace (N.to_nat (lo + N.of_nat k - off)) with (N.to_nat (lo - off) + k)%nat by lia. exact Hk. }
    rewrite set_st_same by exact Hs.
    destruct (nlen (limit_size sl max) <? N.min hi uoff - lo) eqn:E2.
    + (* the size limit cut the stored part *)
      eexists. split; [reflexivity|]. split; [apply good_limit; exact Hsl_good|]. apply N.ltb_lt in E2. lia.
    + apply N.ltb_ge in E2.
      assert (Hfull : limit_size sl max = sl).
      { apply limit_size_full. destruct (limit_size_prefix sl max) as (j & Hj & _). rewrite Hj in *.
        unfold nlen in *. rewrite firstn_length in *. lia. }
      rewrite Hfull.
      destruct (uoff <? hi) eqn:E3.
      * apply N.ltb_lt in E3. destruct (Hus E3) as (us & Hus1 & Hus2 & Hb). rewrite Hus1. cbn [bind].
        replace (N.max lo uoff) with uoff in Hus2 by lia.
        assert (Hall : good (l_u l) m off lo (sl ++ us)).
        { destruct Hsl_good as (G1 & G2 & G3). split; [|split].
          - destruct sl; [congruence|discriminate].
          - apply contig_app. split; [exact G2|]. rewrite Hsl_len. replace (lo + (N.min hi uoff - lo)) with uoff by lia.
            rewrite Hus2. pose proof (contig_sub _ _ (uoff - uoff) (hi - uoff) Hu) as X. fold uoff in X.
            replace (uoff + (uoff - uoff)) with uoff in X by lia. exact X.
          - intros k e Hk. destruct (Nat.lt_ge_cases k (length sl)) as [L|G].
            + rewrite nth_error_app1 in Hk by exact L. apply G3. exact Hk.
            + rewrite nth_error_app2 in Hk by exact G. rewrite Hus2 in Hk.
              pose proof (Hgu uoff (hi - uoff) ltac:(lia) _ _ Hk) as X.
              replace (lo + N.of_nat k) with (uoff + N.of_nat (k - length sl)) by (unfold nlen in Hsl_len; lia). exact X. }
        eexists. split; [reflexivity|]. split; [apply good_limit; exact Hall|].
        destruct (limit_size_prefix (sl ++ us) max) as (j & Hj & _). rewrite Hj. unfold nlen in *. rewrite firstn_length, app_length.
        assert (length us = N.to_nat (hi - uoff)).
        { rewrite Hus2. pose proof (nfirstn_nskipn_length (u_ents (l_u l)) (uoff - uoff) (hi - uoff)) as X. unfold nlen in X. lia. }
        lia.
      * apply N.ltb_ge in E3. cbn [bind].
        eexists. split; [reflexivity|]. split; [apply good_limit; exact Hsl_good|].
        destruct (limit_size_prefix sl max) as (j & Hj & _). rewrite Hj. unfold nlen in *. rewrite firstn_length. lia.
  - (* the whole range is unstable *)
    apply N.ltb_ge in E1. cbn [bind]. replace (uoff <? hi) with true by (symmetry; apply N.ltb_lt; lia).
    assert (E3 : uoff < hi) by lia. destruct (Hus E3) as (us & Hus1 & Hus2 & Hb). rewrite Hus1. cbn [bind app].
    replace (N.max lo uoff) with lo in Hus2 by lia.
    assert (Hlen_us : nlen us = hi - lo).
    { rewrite Hus2. apply nfirstn_nskipn_length. lia. }
    assert (Hall : good (l_u l) m off lo us).
    { split; [|split].
      - intros Hn. rewrite Hn in Hlen_us. unfold nlen in Hlen_us. simpl in Hlen_us. lia.
      - rewrite Hus2. pose proof (contig_sub _ _ (lo - uoff) (hi - lo) Hu) as X. fold uoff in X.
        replace (uoff + (lo - uoff)) with lo in X by lia. exact X.
      - intros k e Hk. rewrite Hus2 in Hk. apply (Hgu lo (hi - lo) E1 _ _ Hk). }
    eexists. split; [reflexivity|]. split; [apply good_limit; exact Hall|].
    destruct (limit_size_prefix us max) as (j & Hj & _). rewrite Hj. unfold nlen in *. rewrite firstn_length. lia.
Qed.

(* when the size limit cuts a list, it cuts every extension of it at the same place *)
Lemma limit_loop_cut_app : forall a b size max, (length (limit_loop size max a) < length a)%nat ->
  limit_loop size max (a ++ b) = limit_loop size max a.
Proof.
  induction a as [|e r IH]; intros b size max H; simpl in *; [lia|].
  destruct (max <? size + esz e); [reflexivity|]. simpl in H. f_equal. apply IH. lia.
Qed.
Lemma limit_size_cut_app : forall a b max, nlen (limit_size a max) < nlen a -> limit_size (a ++ b) max = limit_size a max.
Proof.
  intros [|e r] b max H; unfold nlen in H; simpl in *; [lia|]. f_equal. apply limit_loop_cut_app. lia.
Qed.

Theorem l_slice_strong : forall l m off lo hi max,
  wf_mlog l m off -> mfirst l off <= lo -> lo < hi -> hi <= mlast l m off + 1 ->
  exists X, l_slice l lo hi max = Ok (limit_size X max, l) /\ good (l_u l) m off lo X /\ nlen X = hi - lo.
Proof.
  intros l m off lo hi max Hwf Hlo Hlt Hhi.
  pose proof Hwf as (Hs & Hm & Ho & Hu & Hsn).
  pose proof (wf_ms_contig_off _ _ Hm Ho) as Hmc.
  unfold l_slice, l_must_check_out_of_bounds.
  replace (hi <? lo) with false by (symmetry; apply N.ltb_ge; lia).
  rewrite (l_first_index_wf _ _ _ Hwf). cbn [bind].
  replace (lo <? mfirst l off) with false by (symmetry; apply N.ltb_ge; lia).
  rewrite (l_last_index_wf _ _ _ Hwf). cbn [bind].
  replace (mlast l m off + 1 <? hi) with false by (symmetry; apply N.ltb_ge; lia).
  cbn [bind].
  replace (lo =? hi) with false by (symmetry; apply N.eqb_neq; lia).
  set (uoff := u_off (l_u l)) in *.
  (* the unstable part [max lo uoff, hi) when it is needed *)
  assert (Hus : uoff < hi -> exists us, u_slice (l_u l) (N.max lo uoff) hi = Ok us /\
                us = nfirstn (hi - N.max lo uoff) (nskipn (N.max lo uoff - uoff) (u_ents (l_u l))) /\
                hi <= uoff + nlen (u_ents (l_u l))).
  { intros Hh. assert (Hb : hi <= uoff + nlen (u_ents (l_u l))).
    { unfold mlast in Hhi. unfold mfirst in Hlo. fold uoff in Hhi. destruct (u_ents (l_u l)) as [|y ys] eqn:Eu.
      - exfalso. destruct (u_snap (l_u l)) as [[si st]|].
        + fold uoff in Hsn. lia.
        + destruct Hsn as (_ & _ & Hz). specialize (Hz eq_refl). fold uoff in Hz. pose proof (wf_ms_len _ Hm) as Hl1. clear -Hz Hh Hhi Hl1. lia.
      - unfold nlen in *. cbn [length] in *. clear -Hhi. lia. }
    unfold u_slice. fold uoff.
    replace (hi <? N.max lo uoff) with false by (symmetry; apply N.ltb_ge; lia).
    replace (N.max lo uoff <? uoff) with false by (symmetry; apply N.ltb_ge; lia).
    replace (uoff + nlen (u_ents (l_u l)) <? hi) with false by (symmetry; apply N.ltb_ge; lia).
    cbn [orb]. rewrite goslice_ok by lia. eexists. split; [reflexivity|]. split; [|exact Hb].
    f_equal. lia. }
  (* entries read from the unstable part are the log's entries *)
  assert (Hgu : forall a n, uoff <= a -> forall k e, nth_error (nfirstn n (nskipn (a - uoff) (u_ents (l_u l)))) k = Some e ->
                log_entry (l_u l) m off (a + N.of_nat k) = Some e).
  { intros a n Ha k e Hk.
    assert (Hkn : (k < N.to_nat n)%nat).
    { destruct (Nat.lt_ge_cases k (N.to_nat n)); [assumption|]. exfalso.
      assert (nth_error (nfirstn n (nskipn (a - uoff) (u_ents (l_u l)))) k = None).
      { apply nth_error_None. unfold nfirstn. rewrite firstn_length. lia. } congruence. }
    rewrite nth_error_sub in Hk by exact Hkn. unfold log_entry. fold uoff.
    replace (uoff <=? a + N.of_nat k) with true by (symmetry; apply N.leb_le; lia).
    unfold nnth. replace (N.to_nat (a + N.of_nat k - uoff)) with (N.to_nat (a - uoff) + k)%nat by lia. exact Hk. }
  destruct (lo <? uoff) eqn:E1.
  - (* the range starts in storage *)
    apply N.ltb_lt in E1.
    assert (Hnosnap : u_snap (l_u l) = None).
    { destruct (u_snap (l_u l)) as [[si st]|] eqn:Es; [|reflexivity]. unfold mfirst in Hlo. rewrite Es in Hlo. lia. }
    rewrite Hnosnap in Hsn. destruct Hsn as (Hs1 & Hs2 & Hs3). fold uoff in Hs1, Hs2, Hs3.
    unfold mfirst in Hlo. rewrite Hnosnap in Hlo.
    rewrite Hs. cbn [st_entries].
    rewrite (ms_entries_spec m off lo (N.min hi uoff) max Hm Ho) by lia. cbn [bind].
    set (sl := nfirstn (N.min hi uoff - lo) (nskipn (lo - off) (ms_ents m))).
    assert (Hsl_len : nlen sl = N.min hi uoff - lo) by (apply nfirstn_nskipn_length; lia).
    assert (Hsl_good : good (l_u l) m off lo sl).
    { split; [|split].
      - intros Hn. rewrite Hn in Hsl_len. unfold nlen in Hsl_len. simpl in Hsl_len. lia.
      - pose proof (contig_sub _ _ (lo - off) (N.min hi uoff - lo) Hmc) as X. replace (off + (lo - off)) with lo in X by lia. exact X.
      - intros k e Hk.
        assert (Hkn : (k < N.to_nat (N.min hi uoff - lo))%nat).
        { destruct (Nat.lt_ge_cases k (N.to_nat (N.min hi uoff - lo))); [assumption|]. exfalso.
          assert (nth_error sl k = None). { apply nth_error_None. unfold nlen in Hsl_len. lia. } congruence. }
        unfold sl in Hk. rewrite nth_error_sub in Hk by exact Hkn. unfold log_entry. fold uoff.
        replace (uoff <=? lo + N.of_nat k) with false by (symmetry; apply N.leb_gt; lia).
        replace (off <? lo + N.of_nat k) with true by (symmetry; apply N.ltb_lt; lia).
        unfold nnth. replace (N.to_nat (lo + N.of_nat k - off)) with (N.to_nat (lo - off) + k)%nat by lia. exact Hk. }
    rewrite set_st_same by exact Hs.
    destruct (uoff <? hi) eqn:E3.
    + apply N.ltb_lt in E3. destruct (Hus E3) as (us & Hus1 & Hus2 & Hb).
      replace (N.max lo uoff) with uoff in Hus1, Hus2 by lia.
      assert (Hlen_us : length us = N.to_nat (hi - uoff)).
      { rewrite Hus2. pose proof (nfirstn_nskipn_length (u_ents (l_u l)) (uoff - uoff) (hi - uoff)) as X. pose proof Hb as Hb'. unfold nlen in X, Hb'. lia. }
      assert (Hall : good (l_u l) m off lo (sl ++ us)).
      { destruct Hsl_good as (G1 & G2 & G3). split; [|split].
        - destruct sl; [congruence|discriminate].
        - apply contig_app. split; [exact G2|]. rewrite Hsl_len. replace (lo + (N.min hi uoff - lo)) with uoff by lia.
          rewrite Hus2. pose proof (contig_sub _ _ (uoff - uoff) (hi - uoff) Hu) as X. fold uoff in X.
          replace (uoff + (uoff - uoff)) with uoff in X by lia. exact X.
        - intros k e Hk. destruct (Nat.lt_ge_cases k (length sl)) as [L|G].
          + rewrite nth_error_app1 in Hk by exact L. apply G3. exact Hk.
          + rewrite nth_error_app2 in Hk by exact G. rewrite Hus2 in Hk.
            pose proof (Hgu uoff (hi - uoff) ltac:(lia) _ _ Hk) as X.
            replace (lo + N.of_nat k) with (uoff + N.of_nat (k - length sl)) by (unfold nlen in Hsl_len; lia). exact X. }
      assert (Hlen_all : nlen (sl ++ us) = hi - lo).
      { unfold nlen in *. rewrite app_length. lia. }
      exists (sl ++ us). split; [|split; [exact Hall|exact Hlen_all]].
      destruct (nlen (limit_size sl max) <? N.min hi uoff - lo) eqn:E2.
      * (* the size limit cut the stored part: the unstable part would have been cut as well *)
        apply N.ltb_lt in E2. rewrite (limit_size_cut_app sl us max) by lia. reflexivity.
      * apply N.ltb_ge in E2.
        assert (Hfull : limit_size sl max = sl).
        { apply limit_size_full. destruct (limit_size_prefix sl max) as (j & Hj & _). rewrite Hj in *.
          unfold nlen in *. rewrite firstn_length in *. lia. }
        rewrite Hfull. replace (N.max lo uoff) with uoff by lia. rewrite Hus1. cbn [bind]. reflexivity.
    + apply N.ltb_ge in E3. replace (N.min hi uoff) with hi in * by lia.
      exists sl. split; [|split; [exact Hsl_good|exact Hsl_len]].
      destruct (nlen (limit_size sl max) <? hi - lo) eqn:E2.
      * reflexivity.
      * apply N.ltb_ge in E2.
        assert (Hfull : limit_size sl max = sl).
        { apply limit_size_full. destruct (limit_size_prefix sl max) as (j & Hj & _). rewrite Hj in *.
          unfold nlen in *. rewrite firstn_length in *. lia. }
        rewrite Hfull. cbn [bind]. rewrite Hfull. reflexivity.
  - (* the whole range is unstable *)
    apply N.ltb_ge in E1. cbn [bind]. replace (uoff <? hi) with true by (symmetry; apply N.ltb_lt; lia).
    assert (E3 : uoff < hi) by lia. destruct (Hus E3) as (us & Hus1 & Hus2 & Hb). rewrite Hus1. cbn [bind app].
    replace (N.max lo uoff) with lo in Hus2 by lia.
    assert (Hlen_us : nlen us = hi - lo).
    { rewrite Hus2. apply nfirstn_nskipn_length. lia. }
    assert (Hall : good (l_u l) m off lo us).
    { split; [|split].
      - intros Hn. rewrite Hn in Hlen_us. unfold nlen in Hlen_us. simpl in Hlen_us. lia.
      - rewrite Hus2. pose proof (contig_sub _ _ (lo - uoff) (hi - lo) Hu) as X. fold uoff in X.
        replace (uoff + (lo - uoff)) with lo in X by lia. exact X.
      - intros k e Hk. rewrite Hus2 in Hk. apply (Hgu lo (hi - lo) E1 _ _ Hk). }
    exists us. split; [reflexivity|]. split; [exact Hall|exact Hlen_us].
Qed.


(* without a size limit (and a total size that fits 64 bits) the slice is the whole range *)
Lemma limit_size_nolimit : forall X, fold_right (fun e a => esz e + a) 0 X <= no_limit -> limit_size X no_limit = X.
Proof.
  intros [|e r] H; [reflexivity|]. simpl in *. f_equal. apply limit_loop_nolimit; [auto|]. lia.
Qed.
Corollary l_slice_nolimit : forall l m off lo hi,
  wf_mlog l m off -> mfirst l off <= lo -> lo < hi -> hi <= mlast l m off + 1 ->
  (forall X, good (l_u l) m off lo X -> fold_right (fun e a => esz e + a) 0 X <= no_limit) ->
  exists X, l_slice l lo hi no_limit = Ok (X, l) /\ good (l_u l) m off lo X /\ nlen X = hi - lo.
Proof.
  intros l m off lo hi Hwf H1 H2 H3 Hsz. destruct (l_slice_strong l m off lo hi no_limit Hwf H1 H2 H3) as (X & Hs & Hg & Hl).
  exists X. rewrite (limit_size_nolimit X (Hsz X Hg)) in Hs. auto.
Qed.

Lemma contig_last_index : forall es from, contig from es -> es <> [] ->
  exists e, last_opt es = Some e /\ eindex e = from + nlen es - 1.
Proof.
  induction es as [|x es IH]; intros from H Hne; [congruence|].
  destruct H as [Hx Hr]. destruct es as [|y es'].
  - exists x. split; [reflexivity|]. unfold nlen. simpl. lia.
  - destruct (IH (from + 1) Hr ltac:(discriminate)) as (e & He & Hi). exists e. split.
    + unfold last_opt in *. simpl in *. exact He.
    + rewrite Hi. unfold nlen. simpl length. lia.
Qed.

Lemma contig_in_le : forall es from e, contig from es -> In e es -> eindex e <= from + nlen es - 1.
Proof.
  intros es from e H Hin. destruct (In_nth_error _ _ Hin) as [k Hk].
  rewrite (contig_nth _ _ _ _ H Hk). assert (k < length es)%nat by (apply nth_error_Some; congruence). unfold nlen. lia.
Qed.

Theorem next_ents_spec : forall l m off,
  wf_mlog l m off -> l_committed l <= mlast l m off ->
  let lo := N.max (l_applied l + 1) (mfirst l off) in
  (lo <= l_committed l ->
     exists es, l_next_ents l = Ok (es, l) /\ good (l_u l) m off lo es /\ (forall e, In e es -> eindex e <= l_committed l)) /\
  (l_committed l < lo -> l_next_ents l = Ok ([], l)).
Proof.
  intros l m off Hwf Hc lo. unfold l_next_ents. rewrite (l_first_index_wf _ _ _ Hwf). cbn [bind]. fold lo. split.
  - intros Hlo. replace (lo <? l_committed l + 1) with true by (symmetry; apply N.ltb_lt; lia).
    destruct (l_slice_spec l m off lo (l_committed l + 1) (l_maxnext l) Hwf ltac:(unfold lo; lia) ltac:(lia) ltac:(lia))
      as (es & Hs & Hg & Hn).
    rewrite Hs. exists es. split; [reflexivity|]. split; [exact Hg|].
    intros e He. destruct Hg as (_ & Hcg & _). pose proof (contig_in_le _ _ _ Hcg He). lia.
  - intros Hlo. replace (lo <? l_committed l + 1) with false by (symmetry; apply N.ltb_ge; lia). reflexivity.
Qed.

(* Advance after a hand-out: the applied cursor becomes the last handed-out index, so the next
   hand-out starts right after it *)
Theorem advance_after_handout : forall l m off es,
  wf_mlog l m off -> l_committed l <= mlast l m off ->
  l_next_ents l = Ok (es, l) -> es <> [] ->
  exists l2 e, last_opt es = Some e /\ advance_applied l es 0 = Ok l2 /\
    l_applied l2 = eindex e /\ l_committed l2 = l_committed l /\ l_u l2 = l_u l /\ l_st l2 = l_st l /\
    wf_mlog l2 m off /\
    N.max (l_applied l2 + 1) (mfirst l2 off) = eindex e + 1.
Proof.
  intros l m off es Hwf Hc Hn Hne.
  destruct (next_ents_spec l m off Hwf Hc) as [H1 H2].
  set (lo := N.max (l_applied l + 1) (mfirst l off)) in *.
  destruct (N.le_gt_cases lo (l_committed l)) as [L|G].
  2:{ rewrite (H2 G) in Hn. injection Hn as <-. congruence. }
  destruct (H1 L) as (es' & Hs & (Hg1 & Hg2 & Hg3) & Hle). rewrite Hs in Hn. injection Hn as ->.
  destruct (contig_last_index _ _ Hg2 Hne) as (e & He & Hi).
  assert (Hin : In e es).
  { unfold last_opt in He. clear -He. induction es as [|x es IH]; [discriminate|].
    destruct es as [|y es']; [simpl in He; injection He as <-; left; reflexivity|].
    right. apply IH. exact He. }
  pose proof (Hle e Hin) as Hec. pose proof (contig_in_ge _ _ _ Hg2 Hin) as Hge.
  unfold advance_applied, applied_cursor. rewrite He. unfold l_applied_to.
  replace (eindex e =? 0) with false by (symmetry; apply N.eqb_neq; unfold lo in *; lia).
  replace ((l_committed l <? eindex e) || (eindex e <? l_applied l)) with false
    by (symmetry; apply orb_false_iff; split; apply N.ltb_ge; unfold lo in *; lia).
  exists (set_applied l (eindex e)), e. cbn [set_applied l_applied l_committed l_u l_st].
  repeat split; auto.
  - destruct Hwf as (A & B & C & D & E). exact A.
  - destruct Hwf as (A & B & C & D & E). exact B.
  - destruct Hwf as (A & B & C & D & E). exact C.
  - destruct Hwf as (A & B & C & D & E). exact D.
  - destruct Hwf as (A & B & C & D & E). exact E.
  - unfold mfirst in *. cbn [set_applied l_u]. unfold lo in *. lia.
Qed.

(* ====================================================================================== *)
(* 9. persist + stableTo: what leaves the unstable part is exactly what the storage now holds;
      the combined log is unchanged and the node can be rebuilt from the storage alone *)
Theorem persist_then_stable : forall l m off e0 r,
  wf_mlog l m off -> u_snap (l_u l) = None -> u_ents (l_u l) = e0 :: r ->
  exists m' le l2,
    ms_append m (e0 :: r) = Ok m' /\ last_opt (e0 :: r) = Some le /\
    l_stable_to (set_st l (SMem m')) (eindex le) (eterm le) = Ok l2 /\
    wf_mlog l2 m' off /\ u_ents (l_u l2) = [] /\ u_off (l_u l2) = eindex le + 1 /\
    mlast l2 m' off = mlast l m off /\
    (forall i, off < i -> i <= mlast l m off -> log_entry (l_u l2) m' off i = log_entry (l_u l) m off i) /\
    (forall i, off < i -> i <= mlast l m off -> nnth (i - off) (ms_ents m') = log_entry (l_u l) m off i).
Proof.
  intros l m off e0 r Hwf Hns Hue.
  pose proof Hwf as (Hs & Hm & Ho & Hu & Hsn). rewrite Hns in Hsn. destruct Hsn as (Hs1 & Hs2 & _).
  unfold wf_u in Hu. rewrite Hue in Hu. pose proof Hu as [Hu0 _].
  set (uoff := u_off (l_u l)) in *.
  assert (Hgap : eindex e0 <= off + nlen (ms_ents m)) by lia.
  assert (Hc0 : contig (eindex e0) (e0 :: r)) by (rewrite Hu0; exact Hu).
  destruct (ms_append_spec m e0 r Hm Hc0 off Ho Hgap) as (m' & Ha & Hm' & Hsi & Hst & Ho' & _ & Hents).
  assert (Hn1 : 1 <= nlen (e0 :: r)) by (unfold nlen; simpl; lia).
  specialize (Hents ltac:(lia)).
  pose proof (wf_ms_contig_off _ _ Hm Ho) as Hmc.
  assert (Hents2 : ms_ents m' = nfirstn (uoff - off) (ms_ents m) ++ e0 :: r).
  { rewrite Hents. f_equal.
    - replace (N.max (eindex e0) (off + 1)) with uoff by lia. unfold nfirstn. apply contig_filter_lt. exact Hmc.
    - rewrite (contig_filter_ge _ _ (off + 1) Hc0). replace (N.to_nat (off + 1 - eindex e0)) with 0%nat by lia. reflexivity. }
  destruct (contig_last_index _ _ Hc0 ltac:(discriminate)) as (le & Hle & Hlei).
  exists m', le. unfold l_stable_to. cbn [set_st l_u].
  destruct (stable_to_drops_prefix (l_u l) (eindex le) (eterm le)) as (u' & Hst' & Hcase & Hwfu').
  { unfold wf_u. rewrite Hue. exact Hu. }
  { intros si st Hx. congruence. }
  rewrite Hst'. cbn [bind]. eexists. split; [exact Ha|]. split; [exact Hle|]. split; [reflexivity|].
  (* the entry at the last index exists and has the right term, so stableTo takes effect *)
  assert (Hnth : nnth (eindex le - uoff) (u_ents (l_u l)) = Some le).
  { rewrite Hue. unfold nnth. replace (N.to_nat (eindex le - uoff)) with (length (e0 :: r) - 1)%nat by (unfold nlen in *; lia).
    clear -Hle. unfold last_opt in Hle. revert Hle. generalize (e0 :: r). intros es. induction es as [|x es IH]; intros H; [discriminate|].
    destruct es as [|y es']; [simpl in *; exact H|]. replace (length (x :: y :: es') - 1)%nat with (S (length (y :: es') - 1)) by (simpl; lia).
    simpl nth_error. apply IH. exact H. }
  assert (Hu' : u_ents u' = [] /\ u_off u' = eindex le + 1 /\ u_snap u' = None).
  { unfold u_stable_to, u_maybe_term in Hst'. fold uoff in Hst'.
    replace (eindex le <? uoff) with false in Hst' by (symmetry; apply N.ltb_ge; lia).
    unfold u_maybe_last_index in Hst'. rewrite Hue in Hst'. fold uoff in Hst'.
    replace (uoff + nlen (e0 :: r) - 1 <? eindex le) with false in Hst' by (symmetry; apply N.ltb_ge; lia).
    rewrite <- Hue in Hst'. rewrite Hnth in Hst'. cbn [bind] in Hst'.
    rewrite N.eqb_refl in Hst'. replace (uoff <=? eindex le) with true in Hst' by (symmetry; apply N.leb_le; lia).
    cbn [andb] in Hst'. injection Hst' as <-. cbn [u_ents u_off u_snap]. split; [|split; [reflexivity|exact Hns]].
    unfold nskipn. rewrite Hue. apply skipn_all2. unfold nlen in *. lia. }
  destruct Hu' as (Hue' & Huo' & Hus').
  assert (Hlen' : nlen (ms_ents m') = (uoff - off) + nlen (e0 :: r)).
  { rewrite Hents2. unfold nlen, nfirstn. rewrite app_length, firstn_length. unfold nlen in *. lia. }
  split.
  { unfold wf_mlog. cbn [set_u set_st l_st l_u]. split; [reflexivity|]. split; [exact Hm'|]. split; [exact Ho'|]. split; [exact Hwfu'|].
    rewrite Hus'. split; [lia|]. split; [lia|]. intros _. lia. }
  split; [exact Hue'|]. split; [exact Huo'|]. split.
  { unfold mlast. cbn [set_u set_st l_u]. rewrite Hue', Hus', Hue. fold uoff. lia. }
  assert (Hstore : forall i, off < i -> i <= mlast l m off -> nnth (i - off) (ms_ents m') = log_entry (l_u l) m off i).
  { intros i Hi1 Hi2. unfold mlast in Hi2. rewrite Hue in Hi2. fold uoff in Hi2.
    unfold log_entry. fold uoff. rewrite Hents2. unfold nnth.
    destruct (uoff <=? i) eqn:E.
    - apply N.leb_le in E. rewrite nth_error_app2 by (unfold nfirstn; rewrite firstn_length; unfold nlen in *; lia).
      unfold nfirstn. rewrite firstn_length. rewrite Hue.
      f_equal. unfold nlen in *. lia.
    - apply N.leb_gt in E. replace (off <? i) with true by (symmetry; apply N.ltb_lt; lia).
      rewrite nth_error_app1 by (unfold nfirstn; rewrite firstn_length; unfold nlen in *; lia).
      unfold nfirstn. apply nth_error_firstn_lt. lia. }
  split; [|exact Hstore].
  intros i Hi1 Hi2. rewrite <- (Hstore i Hi1 Hi2). unfold log_entry. cbn [set_u set_st l_u]. rewrite Huo'.
  unfold mlast in Hi2. rewrite Hue in Hi2. fold uoff in Hi2.
  replace (eindex le + 1 <=? i) with false by (symmetry; apply N.leb_gt; lia).
  replace (off <? i) with true by (symmetry; apply N.ltb_lt; lia). reflexivity.
Qed.

(* restart: newLog over a well-formed storage yields a well-formed log with nothing unstable, the
   commit/applied cursors at the dummy index, and every stored entry visible at its index *)
Theorem new_log_wf : forall m off mx, wf_ms m -> ms_offset m = Ok off ->
  exists l, new_log (SMem m) mx = Ok l /\ wf_mlog l m off /\ l_committed l = off /\ l_applied l = off /\
    u_ents (l_u l) = [] /\ u_snap (l_u l) = None /\
    forall i, off < i -> log_entry (l_u l) m off i = nnth (i - off) (ms_ents m).
Proof.
  intros m off mx Hm Ho. pose proof (wf_ms_len _ Hm) as Hl1.
  unfold new_log. cbn [st_first_index]. unfold ms_first_index. rewrite Ho. cbn [bind err_to_panic fst snd].
  cbn [st_last_index]. unfold ms_last_index. rewrite Ho. cbn [bind err_to_panic fst snd].
  eexists. split; [reflexivity|]. unfold wf_mlog. cbn [l_st l_u l_committed l_applied u_snap u_off u_ents].
  split; [|split; [lia|split; [lia|split; [reflexivity|split; [reflexivity|]]]]].
  - split; [reflexivity|]. split; [exact Hm|]. split; [exact Ho|]. split; [exact I|]. split; [lia|]. split; [lia|]. intros _. lia.
  - intros i Hi. unfold log_entry. cbn [u_off u_ents]. destruct (off + nlen (ms_ents m) - 1 + 1 <=? i) eqn:E.
    + apply N.leb_le in E. unfold nnth. rewrite (proj2 (nth_error_None _ _)); [|simpl; lia].
      symmetry. apply nth_error_None. unfold nlen in *. lia.
    + replace (off <? i) with true by (symmetry; apply N.ltb_lt; lia). reflexivity.
Qed.

(* ====================================================================================== *)
(* 11. the commit index: queries never move it, commitTo never decreases it, maybeCommit only
       commits an index whose entry has the leader's current term *)
Lemma l_first_index_fields : forall l v l', l_first_index l = Ok (v, l') ->
  l_committed l' = l_committed l /\ l_applied l' = l_applied l /\ l_u l' = l_u l /\ l_maxnext l' = l_maxnext l.
Proof.
  intros l v l' H. unfold l_first_index in H. destruct (u_maybe_first_index (l_u l)).
  - injection H as <- <-. auto.
  - destruct (err_to_panic (st_first_index (l_st l))) as [[x s]| |]; simpl in H; try discriminate.
    injection H as <- <-. auto.
Qed.
Lemma l_last_index_fields : forall l v l', l_last_index l = Ok (v, l') ->
  l_committed l' = l_committed l /\ l_applied l' = l_applied l /\ l_u l' = l_u l /\ l_maxnext l' = l_maxnext l.
Proof.
  intros l v l' H. unfold l_last_index in H. destruct (u_maybe_last_index (l_u l)).
  - injection H as <- <-. auto.
  - destruct (err_to_panic (st_last_index (l_st l))) as [[x s]| |]; simpl in H; try discriminate.
    injection H as <- <-. auto.
Qed.
Lemma l_term_fields : forall l i t l', l_term l i = Ok (t, l') ->
  l_committed l' = l_committed l /\ l_applied l' = l_applied l /\ l_u l' = l_u l /\ l_maxnext l' = l_maxnext l.
Proof.
  intros l i t l' H. unfold l_term in H.
  destruct (l_first_index l) as [[fv l1]| |] eqn:E1; cbn [bind] in H; try discriminate.
  destruct (l_first_index_fields _ _ _ E1) as (A1 & A2 & A3 & A4).
  destruct (l_last_index l1) as [[lv l2]| |] eqn:E2; cbn [bind] in H; try discriminate.
  destruct (l_last_index_fields _ _ _ E2) as (B1 & B2 & B3 & B4).
  destruct ((i <? fv - 1) || (lv <? i)).
  - injection H as <- <-. repeat split; congruence.
  - destruct (u_maybe_term (l_u l2) i) as [[t'|]| |]; cbn [bind] in H; try discriminate.
    + injection H as <- <-. repeat split; congruence.
    + destruct (st_term (l_st l2) i) as [[t' s]|e|]; try discriminate.
      * injection H as <- <-. cbn. repeat split; congruence.
      * destruct e; discriminate.
Qed.

Theorem commit_to_monotone : forall l c l', l_commit_to l c = Ok l' ->
  l_committed l <= l_committed l' /\ (l_committed l' = l_committed l \/ l_committed l' = c) /\
  l_applied l' = l_applied l /\ l_u l' = l_u l.
Proof.
  intros l c l' H. unfold l_commit_to in H. destruct (l_committed l <? c) eqn:E.
  - apply N.ltb_lt in E. destruct (l_last_index l) as [[lv l2]| |] eqn:E2; cbn [bind] in H; try discriminate.
    destruct (l_last_index_fields _ _ _ E2) as (B1 & B2 & B3 & B4).
    cbn [fst snd] in H. destruct (lv <? c); [discriminate|]. injection H as <-. cbn. repeat split; auto; try lia.
  - injection H as <-. repeat split; auto; lia.
Qed.

Theorem maybe_commit_current_term_only : forall l mi t b l', l_maybe_commit l mi t = Ok (b, l') ->
  (b = true -> l_committed l < mi /\ l_committed l' = mi /\
               (term_of (l_term l mi) = Ok t \/ (term_of (l_term l mi) = Err ErrCompacted /\ t = 0))) /\
  (b = false -> l_committed l' = l_committed l) /\
  l_applied l' = l_applied l /\ l_u l' = l_u l.
Proof.
  intros l mi t b l' H. unfold l_maybe_commit in H. destruct (l_committed l <? mi) eqn:E.
  - apply N.ltb_lt in E. unfold l_zero_term_on_err_compacted in H.
    destruct (l_term l mi) as [[tt l1]|e|] eqn:Et.
    + destruct (l_term_fields _ _ _ _ Et) as (A1 & A2 & A3 & A4). cbn [bind fst snd] in H.
      destruct (tt =? t) eqn:Eq.
      * apply N.eqb_eq in Eq. destruct (l_commit_to l1 mi) as [l2| |] eqn:Ec; cbn [bind] in H; try discriminate.
        injection H as <- <-. destruct (commit_to_monotone _ _ _ Ec) as (C1 & C2 & C3 & C4).
        split; [intros _; split; [exact E|split; [|left; cbn; congruence]]|split; [discriminate|split; congruence]].
        destruct C2 as [C2|C2]; [|exact C2].
        (* commitTo did move: committed l1 < mi *)
        unfold l_commit_to in Ec. replace (l_committed l1 <? mi) with true in Ec by (symmetry; apply N.ltb_lt; lia).
        destruct (l_last_index l1) as [[lv l3]| |] eqn:E3; cbn [bind] in Ec; try discriminate.
        cbn [fst snd] in Ec. destruct (lv <? mi); [discriminate|]. injection Ec as <-. reflexivity.
      * injection H as <- <-. split; [discriminate|]. split; [intros _; congruence|split; congruence].
    + destruct e; try discriminate. cbn [bind fst snd] in H. destruct (0 =? t) eqn:Eq.
      * apply N.eqb_eq in Eq. destruct (l_commit_to l mi) as [l2| |] eqn:Ec; cbn [bind] in H; try discriminate.
        injection H as <- <-. destruct (commit_to_monotone _ _ _ Ec) as (C1 & C2 & C3 & C4).
        split; [intros _; split; [exact E|split; [|right; split; [reflexivity|congruence]]]|split; [discriminate|split; congruence]].
        destruct C2 as [C2|C2]; [|exact C2].
        unfold l_commit_to in Ec. replace (l_committed l <? mi) with true in Ec by (symmetry; apply N.ltb_lt; lia).
        destruct (l_last_index l) as [[lv l3]| |] eqn:E3; cbn [bind] in Ec; try discriminate.
        cbn [fst snd] in Ec. destruct (lv <? mi); [discriminate|]. injection Ec as <-. reflexivity.
      * injection H as <- <-. split; [discriminate|]. split; [reflexivity|split; reflexivity].
    + discriminate.
  - injection H as <- <-. split; [discriminate|]. split; [reflexivity|split; reflexivity].
Qed.

(* ====================================================================================== *)
(* 13. restore (snapshot from the leader) and hasNextEnts *)
Theorem restore_spec : forall l m off si st,
  l_st l = SMem m -> wf_ms m -> ms_offset m = Ok off ->
  let l' := l_restore l si st in
  wf_mlog l' m off /\ l_committed l' = si /\ l_applied l' = l_applied l /\
  mfirst l' off = si + 1 /\ mlast l' m off = si /\
  u_ents (l_u l') = [] /\ u_snap (l_u l') = Some (si, st) /\
  term_of (l_term l' si) = Ok st.
Proof.
  intros l m off si st Hs Hm Ho l'. unfold l', l_restore, u_restore.
  assert (Hwf : wf_mlog (set_u (set_committed l si) (mkU (Some (si, st)) [] (si + 1))) m off).
  { unfold wf_mlog. cbn. split; [exact Hs|]. split; [exact Hm|]. split; [exact Ho|]. split; [exact I|reflexivity]. }
  split; [exact Hwf|]. cbn [set_u set_committed l_committed l_applied l_u u_ents u_snap].
  split; [reflexivity|]. split; [reflexivity|]. split; [reflexivity|]. split; [reflexivity|].
  split; [reflexivity|]. split; [reflexivity|].
  unfold l_term. rewrite (l_first_index_wf _ _ _ Hwf). cbn [bind]. rewrite (l_last_index_wf _ _ _ Hwf). cbn [bind].
  unfold mfirst, mlast. cbn [set_u set_committed l_u u_snap u_ents u_off].
  replace ((si <? si + 1 - 1) || (si <? si)) with false by (symmetry; apply orb_false_iff; split; apply N.ltb_ge; lia).
  unfold u_maybe_term. cbn [u_off u_snap]. replace (si <? si + 1) with true by (symmetry; apply N.ltb_lt; lia).
  rewrite N.eqb_refl. reflexivity.
Qed.

Theorem has_next_ents_spec : forall l m off, wf_mlog l m off ->
  l_has_next_ents l = Ok (N.max (l_applied l + 1) (mfirst l off) <=? l_committed l, l).
Proof.
  intros l m off Hwf. unfold l_has_next_ents. rewrite (l_first_index_wf _ _ _ Hwf). cbn [bind]. f_equal. f_equal.
  destruct (N.max (l_applied l + 1) (mfirst l off) <? l_committed l + 1) eqn:A;
    destruct (N.max (l_applied l + 1) (mfirst l off) <=? l_committed l) eqn:B; try reflexivity.
  - apply N.ltb_lt in A. apply N.leb_gt in B. lia.
  - apply N.ltb_ge in A. apply N.leb_le in B. lia.
Qed.

(* ====================================================================================== *)
(* 14. Ready.appliedCursor / Advance: with committed entries in the Ready the cursor is the LAST of them, also when
       the Ready carries a snapshot before them — the maximum of the snapshot index and everything handed out *)
Theorem applied_cursor_nil : forall snap, applied_cursor [] snap = snap.
Proof. reflexivity. Qed.

Theorem applied_cursor_max : forall cents snap lo, contig lo cents -> cents <> [] -> snap < lo ->
  applied_cursor cents snap = lo + nlen cents - 1 /\
  applied_cursor cents snap = N.max snap (lo + nlen cents - 1) /\
  snap < applied_cursor cents snap /\
  forall x, In x cents -> eindex x <= applied_cursor cents snap.
Proof.
  intros cents snap lo Hc Hne Hlt. destruct (contig_last_index _ _ Hc Hne) as (e & He & Hi).
  assert (Hn : 1 <= nlen cents). { destruct cents; [congruence|]. unfold nlen. simpl. lia. }
  unfold applied_cursor. rewrite He. split; [exact Hi|]. split; [lia|]. split; [lia|].
  intros x Hx. pose proof (contig_in_le _ _ _ Hc Hx). lia.
Qed.

Theorem advance_applied_after_snapshot_and_entries : forall l cents snap lo l',
  contig lo cents -> cents <> [] -> snap < lo -> advance_applied l cents snap = Ok l' ->
  l_applied l' = lo + nlen cents - 1 /\ snap < l_applied l' /\ (forall x, In x cents -> eindex x <= l_applied l') /\
  l_committed l' = l_committed l /\ l_u l' = l_u l /\ l_st l' = l_st l.
Proof.
  intros l cents snap lo l' Hc Hne Hlt H. destruct (applied_cursor_max cents snap lo Hc Hne Hlt) as (A & _ & B & C).
  unfold advance_applied, l_applied_to in H. rewrite A in *.
  replace (lo + nlen cents - 1 =? 0) with false in H by (symmetry; apply N.eqb_neq; lia).
  destruct ((l_committed l <? lo + nlen cents - 1) || (lo + nlen cents - 1 <? l_applied l)); [discriminate|].
  injection H as <-. cbn. repeat split; auto.
Qed.
