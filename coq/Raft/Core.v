(* Raft/Core.v — raft.Step and node.StepNode of the fork, transcribed handler by handler on top of
   the log model (Raft/Model.v).
   Go sources (package raft of /repo):
     raft/progress.go   Progress: becomeProbe becomeReplicate becomeSnapshot maybeUpdate optimisticUpdate
                        maybeDecrTo pause resume IsPaused snapshotFailure needSnapshotAbort; inflights (as a FIFO)
     raft/raft.go       send maybeSendAppend sendAppend sendHeartbeat bcastAppend bcastHeartbeat maybeCommit reset
                        appendEntry tickElection tickHeartbeat becomeFollower becomeCandidate becomePreCandidate
                        becomeLeader hup campaign poll Step stepLeader stepCandidate stepFollower
                        handleAppendEntries handleHeartbeat handleSnapshot restore restoreNode promotable
                        addNode addLearner removeNode updateNode setProgress delProgress checkQuorumActive
                        sendTimeoutNow pastElectionTimeout resetRandomizedElectionTimeout numOfPendingConf
     raft/node.go       StepNode handleReceivedMessage handleTicks handleLeaderUpdate processConfChanged
                        handleProposal newReady MustSync Advance
   NOT modelled (cases touching them are skipped, and counted, by the differ): read-only requests
   (MsgReadIndex / MsgReadIndexResp, readOnly bookkeeping, heartbeat contexts), Group fields of
   messages and progress, RestartNode/newRaft/StartNode.
   Conventions: maps keyed by node id are association lists sorted by id; broadcast loops run in id
   order (Go: map order) — messages are compared per destination. The randomized election timeout
   takes the value the harness-chosen source returns (r_rnd). An entry's kind is the low bit of edata
   (1 = EntryConfChange). No proofs here. *)
From Coq Require Import List NArith Bool.
Import ListNotations.
From ZV Require Import Raft.Consts Raft.Model.
Open Scope N_scope.

Definition is_conf (e : entry) : bool := N.odd (edata e).

(* pb.Entry.Size(): type, term, index varints; data if not nil; ID, DataType, Timestamp (zero here) *)
Fixpoint sov_fuel (fuel : nat) (x : N) : N :=
  match fuel with
  | O => 1
  | S f => if x <? 128 then 1 else 1 + sov_fuel f (N.shiftr x 7)
  end.
Definition sov (x : N) : N := sov_fuel 10 x.
(* dlen = None : Data is nil *)
Definition entry_size (term index : N) (dlen : option N) : N :=
  2 + (1 + sov term) + (1 + sov index) +
  (match dlen with Some l => 1 + l + sov l | None => 0 end) + 6.

(* ---------- Progress ---------- *)
Record progress := mkP { p_id : N; p_match : N; p_next : N; p_state : N; p_paused : bool;
                         p_pending : N; p_recent : bool; p_learner : bool; p_ins : list N }.

Definition p_set_match p v := mkP (p_id p) v (p_next p) (p_state p) (p_paused p) (p_pending p) (p_recent p) (p_learner p) (p_ins p).
Definition p_set_next p v := mkP (p_id p) (p_match p) v (p_state p) (p_paused p) (p_pending p) (p_recent p) (p_learner p) (p_ins p).
Definition p_set_paused p v := mkP (p_id p) (p_match p) (p_next p) (p_state p) v (p_pending p) (p_recent p) (p_learner p) (p_ins p).
Definition p_set_pending p v := mkP (p_id p) (p_match p) (p_next p) (p_state p) (p_paused p) v (p_recent p) (p_learner p) (p_ins p).
Definition p_set_recent p v := mkP (p_id p) (p_match p) (p_next p) (p_state p) (p_paused p) (p_pending p) v (p_learner p) (p_ins p).
Definition p_set_learner p v := mkP (p_id p) (p_match p) (p_next p) (p_state p) (p_paused p) (p_pending p) (p_recent p) v (p_ins p).
Definition p_set_ins p v := mkP (p_id p) (p_match p) (p_next p) (p_state p) (p_paused p) (p_pending p) (p_recent p) (p_learner p) v.

(* resetState: Paused=false, PendingSnapshot=0, State, ins.reset() *)
Definition p_reset_state (p : progress) (st : N) : progress :=
  mkP (p_id p) (p_match p) (p_next p) st false 0 (p_recent p) (p_learner p) [].
Definition p_become_probe (p : progress) : progress :=
  if p_state p =? pr_snapshot then
    let pend := p_pending p in
    p_set_next (p_reset_state p pr_probe) (N.max (p_match p + 1) (pend + 1))
  else p_set_next (p_reset_state p pr_probe) (p_match p + 1).
Definition p_become_replicate (p : progress) : progress :=
  p_set_next (p_reset_state p pr_replicate) (p_match p + 1).
Definition p_become_snapshot (p : progress) (si : N) : progress :=
  p_set_pending (p_reset_state p pr_snapshot) si.
Definition p_maybe_update (p : progress) (n : N) : bool * progress :=
  let '(upd, p1) := if p_match p <? n then (true, p_set_paused (p_set_match p n) false) else (false, p) in
  (upd, if p_next p1 <? n + 1 then p_set_next p1 (n + 1) else p1).
Definition p_maybe_decr_to (p : progress) (rejected last : N) : bool * progress :=
  if p_state p =? pr_replicate then
    if rejected <=? p_match p then (false, p) else (true, p_set_next p (p_match p + 1))
  else if negb (p_next p - 1 =? rejected) then (false, p)
  else let nx := N.min rejected (last + 1) in
       let nx := if nx <? 1 then 1 else nx in
       (true, p_set_paused (p_set_next p nx) false).
(* inflights as a FIFO of the last index of each in-flight message *)
Definition ins_full (p : progress) (size : N) : bool := nlen (p_ins p) =? size.
Fixpoint drop_le (to : N) (l : list N) : list N :=
  match l with
  | [] => []
  | x :: r => if to <? x then l else drop_le to r
  end.
Definition ins_free_to (l : list N) (to : N) : list N := drop_le to l.
Definition ins_free_first (l : list N) : res (list N) :=
  match l with [] => Panic | x :: _ => Ok (ins_free_to l x) end.
Definition p_is_paused (p : progress) (size : N) : res bool :=
  if p_state p =? pr_probe then Ok (p_paused p)
  else if p_state p =? pr_replicate then Ok (ins_full p size)
  else if p_state p =? pr_snapshot then Ok true
  else Panic.
Definition p_need_snapshot_abort (p : progress) : bool :=
  (p_state p =? pr_snapshot) && (p_pending p <=? p_match p).

(* maps id -> progress as sorted association lists *)
Fixpoint pl_get (id : N) (l : list progress) : option progress :=
  match l with
  | [] => None
  | p :: r => if p_id p =? id then Some p else pl_get id r
  end.
Fixpoint pl_put (p : progress) (l : list progress) : list progress :=
  match l with
  | [] => [p]
  | q :: r => if p_id p <? p_id q then p :: l
              else if p_id p =? p_id q then p :: r
              else q :: pl_put p r
  end.
Definition pl_del (id : N) (l : list progress) : list progress := filter (fun p => negb (p_id p =? id)) l.

(* ---------- messages ---------- *)
Record snapmeta := mkS { s_index : N; s_term : N; s_voters : list N; s_learners : list N }.
Record msg := mkM { m_type : N; m_to : N; m_from : N; m_term : N; m_logterm : N; m_index : N;
                    m_ents : list entry; m_commit : N; m_snap : option snapmeta; m_reject : bool;
                    m_hint : N; m_ctx : N (* 0 none, 1 CampaignTransfer, other: not modelled *);
                    m_props : list (N * option N) (* MsgProp: the proposed entries as (edata, data length) *);
                    m_local : bool (* injected through the Node API: the Group fields are unset *) }.
Definition msg0 (ty to : N) : msg := mkM ty to 0 0 0 0 [] 0 None false 0 0 [] false.
Definition m_with_term m v := mkM (m_type m) (m_to m) (m_from m) v (m_logterm m) (m_index m) (m_ents m) (m_commit m) (m_snap m) (m_reject m) (m_hint m) (m_ctx m) (m_props m) (m_local m).
Definition m_with_from m v := mkM (m_type m) (m_to m) v (m_term m) (m_logterm m) (m_index m) (m_ents m) (m_commit m) (m_snap m) (m_reject m) (m_hint m) (m_ctx m) (m_props m) (m_local m).
Definition m_with_to m v := mkM (m_type m) v (m_from m) (m_term m) (m_logterm m) (m_index m) (m_ents m) (m_commit m) (m_snap m) (m_reject m) (m_hint m) (m_ctx m) (m_props m) (m_local m).
Definition m_with_index m v := mkM (m_type m) (m_to m) (m_from m) (m_term m) (m_logterm m) v (m_ents m) (m_commit m) (m_snap m) (m_reject m) (m_hint m) (m_ctx m) (m_props m) (m_local m).
Definition m_with_reject m r h := mkM (m_type m) (m_to m) (m_from m) (m_term m) (m_logterm m) (m_index m) (m_ents m) (m_commit m) (m_snap m) r h (m_ctx m) (m_props m) (m_local m).
Definition m_with_ctx m c := mkM (m_type m) (m_to m) (m_from m) (m_term m) (m_logterm m) (m_index m) (m_ents m) (m_commit m) (m_snap m) (m_reject m) (m_hint m) c (m_props m) (m_local m).

Definition is_vote_kind (t : N) : bool :=
  (t =? msg_vote) || (t =? msg_vote_resp) || (t =? msg_pre_vote) || (t =? msg_pre_vote_resp).
Definition is_response_msg (t : N) : bool :=
  (t =? msg_app_resp) || (t =? msg_vote_resp) || (t =? msg_heartbeat_resp) || (t =? msg_unreachable) || (t =? msg_pre_vote_resp).
Definition vote_resp_type (t : N) : N := if t =? msg_vote then msg_vote_resp else msg_pre_vote_resp.

(* ---------- the raft struct ---------- *)
Record raftst := mkR {
  r_id : N; r_term : N; r_vote : N; r_log : rlog; r_maxinflight : N; r_maxmsg : N;
  r_prs : list progress; r_lprs : list progress; r_state : N; r_islearner : bool;
  r_votes : list (N * bool); r_msgs : list msg; r_lead : N; r_transferee : N; r_pendingconf : bool;
  r_elapsed : N; r_hbelapsed : N; r_cq : bool; r_pv : bool; r_hbtimeout : N; r_eltimeout : N;
  r_randtimeout : N;
  r_rnd : N;                                   (* what globalRand.Intn's source yields during this step *)
  r_stconf : list N * list N;                  (* ConfState of the storage's snapshot (voters, learners) *)
  r_usconf : list N * list N }.                (* ConfState of the unstable snapshot, if any *)

Definition upd_log r v := mkR (r_id r) (r_term r) (r_vote r) v (r_maxinflight r) (r_maxmsg r) (r_prs r) (r_lprs r) (r_state r) (r_islearner r) (r_votes r) (r_msgs r) (r_lead r) (r_transferee r) (r_pendingconf r) (r_elapsed r) (r_hbelapsed r) (r_cq r) (r_pv r) (r_hbtimeout r) (r_eltimeout r) (r_randtimeout r) (r_rnd r) (r_stconf r) (r_usconf r).
Definition upd_prs r v := mkR (r_id r) (r_term r) (r_vote r) (r_log r) (r_maxinflight r) (r_maxmsg r) v (r_lprs r) (r_state r) (r_islearner r) (r_votes r) (r_msgs r) (r_lead r) (r_transferee r) (r_pendingconf r) (r_elapsed r) (r_hbelapsed r) (r_cq r) (r_pv r) (r_hbtimeout r) (r_eltimeout r) (r_randtimeout r) (r_rnd r) (r_stconf r) (r_usconf r).
Definition upd_lprs r v := mkR (r_id r) (r_term r) (r_vote r) (r_log r) (r_maxinflight r) (r_maxmsg r) (r_prs r) v (r_state r) (r_islearner r) (r_votes r) (r_msgs r) (r_lead r) (r_transferee r) (r_pendingconf r) (r_elapsed r) (r_hbelapsed r) (r_cq r) (r_pv r) (r_hbtimeout r) (r_eltimeout r) (r_randtimeout r) (r_rnd r) (r_stconf r) (r_usconf r).
Definition upd_msgs r v := mkR (r_id r) (r_term r) (r_vote r) (r_log r) (r_maxinflight r) (r_maxmsg r) (r_prs r) (r_lprs r) (r_state r) (r_islearner r) (r_votes r) v (r_lead r) (r_transferee r) (r_pendingconf r) (r_elapsed r) (r_hbelapsed r) (r_cq r) (r_pv r) (r_hbtimeout r) (r_eltimeout r) (r_randtimeout r) (r_rnd r) (r_stconf r) (r_usconf r).
Definition upd_tv r t v := mkR (r_id r) t v (r_log r) (r_maxinflight r) (r_maxmsg r) (r_prs r) (r_lprs r) (r_state r) (r_islearner r) (r_votes r) (r_msgs r) (r_lead r) (r_transferee r) (r_pendingconf r) (r_elapsed r) (r_hbelapsed r) (r_cq r) (r_pv r) (r_hbtimeout r) (r_eltimeout r) (r_randtimeout r) (r_rnd r) (r_stconf r) (r_usconf r).
Definition upd_state r v := mkR (r_id r) (r_term r) (r_vote r) (r_log r) (r_maxinflight r) (r_maxmsg r) (r_prs r) (r_lprs r) v (r_islearner r) (r_votes r) (r_msgs r) (r_lead r) (r_transferee r) (r_pendingconf r) (r_elapsed r) (r_hbelapsed r) (r_cq r) (r_pv r) (r_hbtimeout r) (r_eltimeout r) (r_randtimeout r) (r_rnd r) (r_stconf r) (r_usconf r).
Definition upd_islearner r v := mkR (r_id r) (r_term r) (r_vote r) (r_log r) (r_maxinflight r) (r_maxmsg r) (r_prs r) (r_lprs r) (r_state r) v (r_votes r) (r_msgs r) (r_lead r) (r_transferee r) (r_pendingconf r) (r_elapsed r) (r_hbelapsed r) (r_cq r) (r_pv r) (r_hbtimeout r) (r_eltimeout r) (r_randtimeout r) (r_rnd r) (r_stconf r) (r_usconf r).
Definition upd_votes r v := mkR (r_id r) (r_term r) (r_vote r) (r_log r) (r_maxinflight r) (r_maxmsg r) (r_prs r) (r_lprs r) (r_state r) (r_islearner r) v (r_msgs r) (r_lead r) (r_transferee r) (r_pendingconf r) (r_elapsed r) (r_hbelapsed r) (r_cq r) (r_pv r) (r_hbtimeout r) (r_eltimeout r) (r_randtimeout r) (r_rnd r) (r_stconf r) (r_usconf r).
Definition upd_lead r v := mkR (r_id r) (r_term r) (r_vote r) (r_log r) (r_maxinflight r) (r_maxmsg r) (r_prs r) (r_lprs r) (r_state r) (r_islearner r) (r_votes r) (r_msgs r) v (r_transferee r) (r_pendingconf r) (r_elapsed r) (r_hbelapsed r) (r_cq r) (r_pv r) (r_hbtimeout r) (r_eltimeout r) (r_randtimeout r) (r_rnd r) (r_stconf r) (r_usconf r).
Definition upd_transferee r v := mkR (r_id r) (r_term r) (r_vote r) (r_log r) (r_maxinflight r) (r_maxmsg r) (r_prs r) (r_lprs r) (r_state r) (r_islearner r) (r_votes r) (r_msgs r) (r_lead r) v (r_pendingconf r) (r_elapsed r) (r_hbelapsed r) (r_cq r) (r_pv r) (r_hbtimeout r) (r_eltimeout r) (r_randtimeout r) (r_rnd r) (r_stconf r) (r_usconf r).
Definition upd_pendingconf r v := mkR (r_id r) (r_term r) (r_vote r) (r_log r) (r_maxinflight r) (r_maxmsg r) (r_prs r) (r_lprs r) (r_state r) (r_islearner r) (r_votes r) (r_msgs r) (r_lead r) (r_transferee r) v (r_elapsed r) (r_hbelapsed r) (r_cq r) (r_pv r) (r_hbtimeout r) (r_eltimeout r) (r_randtimeout r) (r_rnd r) (r_stconf r) (r_usconf r).
Definition upd_elapsed r e h := mkR (r_id r) (r_term r) (r_vote r) (r_log r) (r_maxinflight r) (r_maxmsg r) (r_prs r) (r_lprs r) (r_state r) (r_islearner r) (r_votes r) (r_msgs r) (r_lead r) (r_transferee r) (r_pendingconf r) e h (r_cq r) (r_pv r) (r_hbtimeout r) (r_eltimeout r) (r_randtimeout r) (r_rnd r) (r_stconf r) (r_usconf r).
Definition upd_randtimeout r v := mkR (r_id r) (r_term r) (r_vote r) (r_log r) (r_maxinflight r) (r_maxmsg r) (r_prs r) (r_lprs r) (r_state r) (r_islearner r) (r_votes r) (r_msgs r) (r_lead r) (r_transferee r) (r_pendingconf r) (r_elapsed r) (r_hbelapsed r) (r_cq r) (r_pv r) (r_hbtimeout r) (r_eltimeout r) v (r_rnd r) (r_stconf r) (r_usconf r).
Definition upd_usconf r v := mkR (r_id r) (r_term r) (r_vote r) (r_log r) (r_maxinflight r) (r_maxmsg r) (r_prs r) (r_lprs r) (r_state r) (r_islearner r) (r_votes r) (r_msgs r) (r_lead r) (r_transferee r) (r_pendingconf r) (r_elapsed r) (r_hbelapsed r) (r_cq r) (r_pv r) (r_hbtimeout r) (r_eltimeout r) (r_randtimeout r) (r_rnd r) (r_stconf r) v.

Definition get_progress (r : raftst) (id : N) : option progress :=
  match pl_get id (r_prs r) with Some p => Some p | None => pl_get id (r_lprs r) end.
(* write back a progress that exists (into the map it lives in) *)
Definition put_progress (r : raftst) (p : progress) : raftst :=
  match pl_get (p_id p) (r_prs r) with
  | Some _ => upd_prs r (pl_put p (r_prs r))
  | None => upd_lprs r (pl_put p (r_lprs r))
  end.
Definition quorum_of (r : raftst) : N := quorum (nlen (r_prs r)).

(* log access with the log threaded through *)
Definition with_log {A} (r : raftst) (x : res (A * rlog)) : res (A * raftst) :=
  match x with Ok (a, l) => Ok (a, upd_log r l) | Err e => Err e | Panic => Panic end.
Definition last_index (r : raftst) : res (N * raftst) := with_log r (l_last_index (r_log r)).
Definition last_term (r : raftst) : res (N * raftst) := with_log r (l_last_term (r_log r)).
Definition committed (r : raftst) : N := l_committed (r_log r).

(* ---------- send ---------- *)
Definition m_network (m : msg) : msg :=
  mkM (m_type m) (m_to m) (m_from m) (m_term m) (m_logterm m) (m_index m) (m_ents m) (m_commit m) (m_snap m) (m_reject m) (m_hint m) (m_ctx m) (m_props m) false.
Definition send (r : raftst) (m : msg) : res raftst :=
  let m := m_network (m_with_from m (r_id r)) in
  if is_vote_kind (m_type m) then
    if m_term m =? 0 then Panic else Ok (upd_msgs r (r_msgs r ++ [m]))
  else if negb (m_term m =? 0) then Panic
  else let m := if (m_type m =? msg_prop) || (m_type m =? msg_read_index) then m else m_with_term m (r_term r) in
       Ok (upd_msgs r (r_msgs r ++ [m])).

(* raftLog.snapshot(): the unstable snapshot if any, else the storage's *)
Definition log_snapshot (r : raftst) : snapmeta :=
  match u_snap (l_u (r_log r)) with
  | Some (i, t) => mkS i t (fst (r_usconf r)) (snd (r_usconf r))
  | None => let '(i, t) := st_snapshot (l_st (r_log r)) in mkS i t (fst (r_stconf r)) (snd (r_stconf r))
  end.

(* maybeSendAppend; a missing progress is a nil dereference *)
Definition maybe_send_append (r : raftst) (to : N) (send_if_empty : bool) : res (bool * raftst) :=
  match get_progress r to with
  | None => Panic
  | Some pr =>
    do paused <- p_is_paused pr (r_maxinflight r);
    if paused then Ok (false, r)
    else
      (* term(pr.Next-1) and entries(pr.Next, maxMsgSize): errors are kept, panics propagate *)
      let rt := l_term (r_log r) (p_next pr - 1) in
      match rt with
      | Panic => Panic
      | _ =>
        let l1 := match rt with Ok (_, l) => l | _ => r_log r end in
        let re := l_entries l1 (p_next pr) (r_maxmsg r) in
        match re with
        | Panic => Panic
        | _ =>
          let l2 := match re with Ok (_, l) => l | _ => l1 end in
          let ents := match re with Ok (es, _) => es | _ => [] end in
          let r := upd_log r l2 in
          match ents, send_if_empty with
          | [], false => Ok (false, r)
          | _, _ =>
            match rt, re with
            | Ok (term, _), Ok _ =>
              let m := mkM msg_app to 0 0 term (p_next pr - 1) ents (committed r) None false 0 0 [] false in
              do pr' <- (match last_opt ents with
                         | None => Ok pr
                         | Some le =>
                           if p_state pr =? pr_replicate then
                             if ins_full pr (r_maxinflight r) then Panic
                             else Ok (p_set_ins (p_set_next pr (eindex le + 1)) (p_ins pr ++ [eindex le]))
                           else if p_state pr =? pr_probe then Ok (p_set_paused pr true)
                           else Panic
                         end);
              do r' <- send (put_progress r pr') m;
              Ok (true, r')
            | _, _ =>
              if negb (p_recent pr) then Ok (false, r)
              else
                let sn := log_snapshot r in
                if s_index sn =? 0 then Panic
                else
                  let m := mkM msg_snap to 0 0 0 0 [] 0 (Some sn) false 0 0 [] false in
                  do r' <- send (put_progress r (p_become_snapshot pr (s_index sn))) m;
                  Ok (true, r')
            end
          end
        end
      end
  end.
Definition send_append (r : raftst) (to : N) : res raftst :=
  do x <- maybe_send_append r to true; Ok (snd x).

Definition all_ids (r : raftst) : list N := map p_id (r_prs r) ++ map p_id (r_lprs r).
Fixpoint for_ids (ids : list N) (f : raftst -> N -> res raftst) (r : raftst) : res raftst :=
  match ids with
  | [] => Ok r
  | id :: rest => do r' <- f r id; for_ids rest f r'
  end.
Definition bcast_append (r : raftst) : res raftst :=
  for_ids (all_ids r) (fun r id => if id =? r_id r then Ok r else send_append r id) r.

Definition send_heartbeat (r : raftst) (to : N) : res raftst :=
  match get_progress r to with
  | None => Panic
  | Some pr =>
    let m := mkM msg_heartbeat to 0 0 0 0 [] (N.min (p_match pr) (committed r)) None false 0 0 [] false in
    send r m
  end.
Definition bcast_heartbeat (r : raftst) : res raftst :=
  for_ids (all_ids r) (fun r id => if id =? r_id r then Ok r else send_heartbeat r id) r.

(* ---------- maybeCommit, reset, appendEntry ---------- *)
Definition maybe_commit (r : raftst) : res (bool * raftst) :=
  match commit_index (map p_match (r_prs r)) with
  | None => Panic
  | Some mci => with_log r (l_maybe_commit (r_log r) mci (r_term r))
  end.

Definition reset_progress (r : raftst) (li : N) (p : progress) : progress :=
  mkP (p_id p) (if p_id p =? r_id r then li else 0) (li + 1) pr_probe false 0 false (p_learner p) [].
Definition reset (r : raftst) (term : N) : res raftst :=
  let r := if negb (r_term r =? term) then upd_tv r term none_id else r in
  let r := upd_lead r none_id in
  let r := upd_elapsed r 0 0 in
  let r := upd_randtimeout r (r_eltimeout r + r_rnd r mod r_eltimeout r) in
  let r := upd_transferee r none_id in
  let r := upd_votes r [] in
  do lr <- last_index r;
  let '(li, r) := lr in
  let r := upd_prs r (map (reset_progress r li) (r_prs r)) in
  let r := upd_lprs r (map (reset_progress r li) (r_lprs r)) in
  Ok (upd_pendingconf r false).

(* entries to append: (edata, data length or None) *)
Fixpoint number_entries (term from : N) (es : list (N * option N)) : list entry :=
  match es with
  | [] => []
  | (d, dl) :: rest => mkE term from d (entry_size term from dl) :: number_entries term (from + 1) rest
  end.
Definition append_entry (r : raftst) (es : list (N * option N)) : res raftst :=
  do lr <- last_index r;
  let '(li, r) := lr in
  let ents := number_entries (r_term r) (li + 1) es in
  do ar <- with_log r (l_append (r_log r) ents);
  let '(li', r) := ar in
  match get_progress r (r_id r) with
  | None => Panic
  | Some pr =>
    let r := put_progress r (snd (p_maybe_update pr li')) in
    do mc <- maybe_commit r; Ok (snd mc)
  end.

(* ---------- role changes ---------- *)
Definition become_follower (r : raftst) (term lead : N) : res raftst :=
  do r <- reset r term; Ok (upd_state (upd_lead r lead) st_follower).
Definition become_candidate (r : raftst) : res raftst :=
  if r_state r =? st_leader then Panic
  else do r <- reset r (r_term r + 1);
       Ok (upd_state (upd_tv r (r_term r) (r_id r)) st_candidate).
Definition become_pre_candidate (r : raftst) : res raftst :=
  if r_state r =? st_leader then Panic
  else Ok (upd_state (upd_lead (upd_votes r []) none_id) st_pre_candidate).
Definition num_pending_conf (es : list entry) : N := nlen (filter is_conf es).
Definition become_leader (r : raftst) : res raftst :=
  if r_state r =? st_follower then Panic
  else do r <- reset r (r_term r);
       let r := upd_state (upd_lead r (r_id r)) st_leader in
       match pl_get (r_id r) (r_prs r) with
       | None => Panic
       | Some pr =>
         let r := upd_prs r (pl_put (p_become_replicate pr) (r_prs r)) in
         match l_entries (r_log r) (committed r + 1) no_limit with
         | Ok (ents, l) =>
           let r := upd_log r l in
           let nconf := num_pending_conf ents in
           if 1 <? nconf then Panic
           else let r := if nconf =? 1 then upd_pendingconf r true else r in
                append_entry r [(0, None)]
         | _ => Panic
         end
       end.

(* ---------- elections ---------- *)
Fixpoint votes_put (id : N) (v : bool) (l : list (N * bool)) : list (N * bool) :=
  match l with
  | [] => [(id, v)]
  | (i, w) :: rest => if id <? i then (id, v) :: l
                      else if id =? i then l                 (* first answer wins *)
                      else (i, w) :: votes_put id v rest
  end.
Definition poll (r : raftst) (id : N) (v : bool) : N * raftst :=
  let vs := votes_put id v (r_votes r) in
  (nlen (filter (fun x => snd x) vs), upd_votes r vs).

Definition promotable (r : raftst) : bool :=
  match pl_get (r_id r) (r_prs r) with
  | Some pr => negb (p_learner pr) &&
               negb (match u_snap (l_u (r_log r)) with Some (i, _) => negb (i =? 0) | None => false end)
  | None => false
  end.

(* the vote requests of campaign(): to every voter but self *)
Definition send_vote_requests (r : raftst) (ty term ctx : N) : res raftst :=
  do lr <- last_index r;
  let '(li, r) := lr in
  do tr <- last_term r;
  let '(lt, r) := tr in
  for_ids (map p_id (r_prs r))
    (fun r id => if id =? r_id r then Ok r
                 else send r (mkM ty id 0 term lt li [] 0 None false 0 ctx [] false)) r.

(* campaign(campaignElection / campaignTransfer): transfer = true only changes the context *)
Definition campaign_election (r : raftst) (transfer : bool) : res raftst :=
  do r <- become_candidate r;
  let '(granted, r) := poll r (r_id r) true in
  if quorum_of r =? granted then become_leader r
  else send_vote_requests r msg_vote (r_term r) (if transfer then 1 else 0).
Definition campaign_pre_election (r : raftst) : res raftst :=
  do r <- become_pre_candidate r;
  let '(granted, r) := poll r (r_id r) true in
  if quorum_of r =? granted then campaign_election r false
  else send_vote_requests r msg_pre_vote (r_term r + 1) 0.

Inductive camp := CampPre | CampElection | CampTransfer.
Definition hup (r : raftst) (t : camp) : res raftst :=
  if r_state r =? st_leader then Ok r
  else if negb (promotable r) then Ok r
  else
    match l_slice (r_log r) (l_applied (r_log r) + 1) (committed r + 1) no_limit with
    | Err ErrCompacted => Ok r
    | Ok (ents, l) =>
      let r := upd_log r l in
      if negb (num_pending_conf ents =? 0) && (l_applied (r_log r) <? committed r) then Ok r
      else match t with
           | CampPre => campaign_pre_election r
           | CampElection => campaign_election r false
           | CampTransfer => campaign_election r true
           end
    | _ => Panic
    end.

(* ---------- follower-side handlers ---------- *)
Definition reply (ty to : N) : msg := msg0 ty to.
Definition handle_append_entries (r : raftst) (m : msg) : res raftst :=
  if m_index m <? committed r then
    send r (m_with_index (reply msg_app_resp (m_from m)) (committed r))
  else
    do ar <- with_log r (l_maybe_append (r_log r) (m_index m) (m_logterm m) (m_commit m) (m_ents m));
    let '(res, r) := ar in
    match res with
    | Some lastnew => send r (m_with_index (reply msg_app_resp (m_from m)) lastnew)
    | None =>
      (* the Debugf argument zeroTermOnErrCompacted(term(m.Index)) is evaluated *)
      do ign <- l_zero_term_on_err_compacted (r_log r) (l_term (r_log r) (m_index m));
      do lr <- last_index r;
      let '(li, r) := lr in
      send r (m_with_reject (m_with_index (reply msg_app_resp (m_from m)) (m_index m)) true li)
    end.
Definition handle_heartbeat (r : raftst) (m : msg) : res raftst :=
  do l <- l_commit_to (r_log r) (m_commit m);
  send (upd_log r l) (m_with_ctx (reply msg_heartbeat_resp (m_from m)) (m_ctx m)).

Definition new_progress (id mt nx : N) (learner : bool) : progress := mkP id mt nx pr_probe false 0 false learner [].
(* setProgress *)
Definition set_progress (r : raftst) (id mt nx : N) (learner : bool) : res raftst :=
  if negb learner then
    Ok (upd_prs (upd_lprs r (pl_del id (r_lprs r))) (pl_put (new_progress id mt nx false) (r_prs r)))
  else match pl_get id (r_prs r) with
       | Some _ => Panic
       | None => Ok (upd_lprs r (pl_put (new_progress id mt nx true) (r_lprs r)))
       end.
Fixpoint restore_nodes (ids : list N) (learner : bool) (r : raftst) : res raftst :=
  match ids with
  | [] => Ok r
  | n :: rest =>
    do lr <- last_index r;
    let '(li, r) := lr in
    let nx := li + 1 in
    let mt := if n =? r_id r then nx - 1 else 0 in
    let r := if n =? r_id r then upd_islearner r learner else r in
    do r <- set_progress r n mt nx learner;
    restore_nodes rest learner r
  end.
Definition restore (r : raftst) (s : snapmeta) : res (bool * raftst) :=
  if s_index s <=? committed r then Ok (false, r)
  else
    do mr <- with_log r (l_match_term (r_log r) (s_index s) (s_term s));
    let '(matched, r) := mr in
    if matched then
      do lt <- last_term r;                       (* log line *)
      let r := snd lt in
      do l <- l_commit_to (r_log r) (s_index s); Ok (false, upd_log r l)
    else if (negb ((nlen (r_prs r) =? 0) && (nlen (r_lprs r) =? 0))) && negb (r_islearner r)
            && existsb (N.eqb (r_id r)) (s_learners s) then Ok (false, r)
    else
      do lt <- last_term r;                       (* log line *)
      let r := snd lt in
      let r := upd_usconf (upd_log r (l_restore (r_log r) (s_index s) (s_term s))) (s_voters s, s_learners s) in
      let r := upd_lprs (upd_prs r []) [] in
      do r <- restore_nodes (s_voters s) false r;
      do r <- restore_nodes (s_learners s) true r;
      Ok (true, r).
Definition handle_snapshot (r : raftst) (m : msg) : res raftst :=
  match m_snap m with
  | None =>   (* a MsgSnap without snapshot: index 0 <= committed, ignored *)
    send r (m_with_index (reply msg_app_resp (m_from m)) (committed r))
  | Some s =>
    do rr <- restore r s;
    let '(ok, r) := rr in
    if ok then do lr <- last_index r;
               send (snd lr) (m_with_index (reply msg_app_resp (m_from m)) (fst lr))
    else send r (m_with_index (reply msg_app_resp (m_from m)) (committed r))
  end.

(* ---------- stepLeader ---------- *)
Definition check_quorum_active (r : raftst) : bool * raftst :=
  let act := nlen (filter (fun p => (p_id p =? r_id r) || (p_recent p && negb (p_learner p))) (r_prs r ++ r_lprs r)) in
  let clr := fun p => if p_id p =? r_id r then p else p_set_recent p false in
  (quorum_of r <=? act, upd_lprs (upd_prs r (map clr (r_prs r))) (map clr (r_lprs r))).

Definition send_timeout_now (r : raftst) (to : N) : res raftst := send r (msg0 msg_timeout_now to).

Fixpoint send_more (fuel : nat) (r : raftst) (to : N) : res raftst :=
  match fuel with
  | O => Panic
  | S f => do x <- maybe_send_append r to false;
           if fst x then send_more f (snd x) to else Ok (snd x)
  end.

(* proposals: the entries of a MsgProp as (edata, data length) *)
Fixpoint prop_conf_filter (pending : bool) (es : list (N * option N)) : bool * list (N * option N) :=
  match es with
  | [] => (pending, [])
  | (d, dl) :: rest =>
    if N.odd d then
      let e' := if pending then (0, None) else (d, dl) in
      let '(p', rest') := prop_conf_filter true rest in (p', e' :: rest')
    else let '(p', rest') := prop_conf_filter pending rest in (p', (d, dl) :: rest')
  end.

(* returns (dropped, state) *)
Definition step_leader (r : raftst) (m : msg) : res (bool * raftst) :=
  let ty := m_type m in
  let props := m_props m in
  if ty =? msg_beat then do r <- bcast_heartbeat r; Ok (false, r)
  else if ty =? msg_check_quorum then
    let '(active, r) := check_quorum_active r in
    if active then Ok (false, r) else do r <- become_follower r (r_term r) none_id; Ok (false, r)
  else if ty =? msg_prop then
    match props with
    | [] => Panic
    | _ =>
      match pl_get (r_id r) (r_prs r) with
      | None => Ok (true, r)
      | Some _ =>
        if negb (r_transferee r =? none_id) then Ok (true, r)
        else let '(pend, es) := prop_conf_filter (r_pendingconf r) props in
             do r <- append_entry (upd_pendingconf r pend) es;
             do r <- bcast_append r; Ok (false, r)
      end
    end
  else
  match get_progress r (m_from m) with
  | None => Ok (true, r)
  | Some pr =>
    if ty =? msg_app_resp then
      let pr := p_set_recent pr true in
      if m_reject m then
        let '(decr, pr) := p_maybe_decr_to pr (m_index m) (m_hint m) in
        if decr then
          let pr := if p_state pr =? pr_replicate then p_become_probe pr else pr in
          do r <- send_append (put_progress r pr) (m_from m); Ok (false, r)
        else Ok (false, put_progress r pr)
      else
        do old_paused <- p_is_paused pr (r_maxinflight r);
        let '(upd, pr) := p_maybe_update pr (m_index m) in
        if negb upd then Ok (false, put_progress r pr)
        else
          let pr := if p_state pr =? pr_probe then p_become_replicate pr
                    else if p_need_snapshot_abort pr then p_become_replicate (p_become_probe pr)
                    else if p_state pr =? pr_replicate then p_set_ins pr (ins_free_to (p_ins pr) (m_index m))
                    else pr in
          let r := put_progress r pr in
          do mc <- maybe_commit r;
          let '(changed, r) := mc in
          do r <- (if changed then bcast_append r
                   else if old_paused then send_append r (m_from m) else Ok r);
          do r <- send_more (N.to_nat (r_maxinflight r) + 2) r (m_from m);
          do lr <- last_index r;
          let '(li, r) := lr in
          match get_progress r (m_from m) with
          | None => Panic
          | Some pr' =>
            if (m_from m =? r_transferee r) && (p_match pr' =? li)
            then do r <- send_timeout_now r (m_from m); Ok (false, r)
            else Ok (false, r)
          end
    else if ty =? msg_heartbeat_resp then
      let pr := p_set_paused (p_set_recent pr true) false in
      do pr <- (if (p_state pr =? pr_replicate) && ins_full pr (r_maxinflight r)
                then do l <- ins_free_first (p_ins pr); Ok (p_set_ins pr l) else Ok pr);
      let r := put_progress r pr in
      do lr <- last_index r;
      let '(li, r) := lr in
      do r <- (if p_match pr <? li then send_append r (m_from m) else Ok r);
      Ok (false, r)
    else if ty =? msg_snap_status then
      if negb (p_state pr =? pr_snapshot) then Ok (false, r)
      else let pr := if negb (m_reject m) then p_become_probe pr
                     else p_become_probe (p_set_pending pr 0) in
           Ok (false, put_progress r (p_set_paused pr true))
    else if ty =? msg_unreachable then
      Ok (false, put_progress r (if p_state pr =? pr_replicate then p_become_probe pr else pr))
    else if ty =? msg_transfer_leader then
      if p_learner pr then Ok (false, r)
      else
        let tee := m_from m in
        let last_tee := r_transferee r in
        if negb (last_tee =? none_id) && (last_tee =? tee) then Ok (false, r)
        else
          let r := if negb (last_tee =? none_id) then upd_transferee r none_id else r in
          if tee =? r_id r then Ok (false, r)
          else
            let r := upd_transferee (upd_elapsed r 0 (r_hbelapsed r)) tee in
            do lr <- last_index r;
            let '(li, r) := lr in
            if p_match pr =? li then do r <- send_timeout_now r tee; Ok (false, r)
            else do r <- send_append r tee; Ok (false, r)
    else Ok (false, r)
  end.

(* ---------- stepCandidate / stepFollower ---------- *)
Definition step_candidate (r : raftst) (m : msg) : res (bool * raftst) :=
  let ty := m_type m in
  let my_resp := if r_state r =? st_pre_candidate then msg_pre_vote_resp else msg_vote_resp in
  if ty =? msg_prop then Ok (true, r)
  else if ty =? msg_app then
    do r <- become_follower r (m_term m) (m_from m); do r <- handle_append_entries r m; Ok (false, r)
  else if ty =? msg_heartbeat then
    do r <- become_follower r (m_term m) (m_from m); do r <- handle_heartbeat r m; Ok (false, r)
  else if ty =? msg_snap then
    do r <- become_follower r (m_term m) (m_from m); do r <- handle_snapshot r m; Ok (false, r)
  else if ty =? my_resp then
    let '(gr, r) := poll r (m_from m) (negb (m_reject m)) in
    if quorum_of r =? gr then
      if r_state r =? st_pre_candidate then do r <- campaign_election r false; Ok (false, r)
      else do r <- become_leader r; do r <- bcast_append r; Ok (false, r)
    else if quorum_of r =? nlen (r_votes r) - gr then
      do r <- become_follower r (r_term r) none_id; Ok (false, r)
    else Ok (false, r)
  else Ok (false, r).

Definition step_follower (r : raftst) (m : msg) : res (bool * raftst) :=
  let ty := m_type m in
  if ty =? msg_prop then
    if r_lead r =? none_id then Ok (true, r)
    else do r <- send r (m_with_to m (r_lead r)); Ok (false, r)
  else if ty =? msg_app then
    do r <- handle_append_entries (upd_lead (upd_elapsed r 0 (r_hbelapsed r)) (m_from m)) m; Ok (false, r)
  else if ty =? msg_heartbeat then
    do r <- handle_heartbeat (upd_lead (upd_elapsed r 0 (r_hbelapsed r)) (m_from m)) m; Ok (false, r)
  else if ty =? msg_snap then
    do r <- handle_snapshot (upd_lead (upd_elapsed r 0 (r_hbelapsed r)) (m_from m)) m; Ok (false, r)
  else if ty =? msg_transfer_leader then
    if r_lead r =? none_id then Ok (true, r)
    else do r <- send r (m_with_to m (r_lead r)); Ok (false, r)
  else if ty =? msg_timeout_now then
    if promotable r then do r <- hup r CampTransfer; Ok (false, r) else Ok (false, r)
  else Ok (false, r).

(* ---------- Step ---------- *)
(* the term prelude of Step: (continue?, state) *)
Definition step_term (r : raftst) (m : msg) : res (bool * raftst) :=
  let ty := m_type m in
  if m_term m =? 0 then Ok (true, r)
  else if r_term r <? m_term m then
    let in_lease := r_cq r && negb (r_lead r =? none_id) && (r_elapsed r <? r_eltimeout r) in
    if ((ty =? msg_vote) || (ty =? msg_pre_vote)) && negb (m_ctx m =? 1) && in_lease
    then do lt <- last_term r; Ok (false, snd lt)   (* the log line reads lastTerm / lastIndex *)
    else if ty =? msg_pre_vote then Ok (true, r)
    else if (ty =? msg_pre_vote_resp) && negb (m_reject m) then Ok (true, r)
    else if (ty =? msg_app) || (ty =? msg_heartbeat) || (ty =? msg_snap)
         then do r <- become_follower r (m_term m) (m_from m); Ok (true, r)
         else do r <- become_follower r (m_term m) none_id; Ok (true, r)
  else if m_term m <? r_term r then
    if (r_cq r || r_pv r) && ((ty =? msg_heartbeat) || (ty =? msg_app)) then
      do r <- send r (reply msg_app_resp (m_from m)); Ok (false, r)
    else if ty =? msg_pre_vote then
      do lt <- last_term r;     (* evaluated for the log line *)
      do r <- send (snd lt) (m_with_reject (m_with_term (reply msg_pre_vote_resp (m_from m)) (r_term r)) true 0); Ok (false, r)
    else Ok (false, r)
  else Ok (true, r).

(* the MsgVote / MsgPreVote case of Step *)
Definition step_vote (r : raftst) (m : msg) : res raftst :=
  let ty := m_type m in
  if r_islearner r then Ok r
  else
    let can_v := can_vote (r_vote r) (r_lead r) (m_from m) (ty =? msg_pre_vote) (m_term m) (r_term r) in
    do ur <- (if can_v then with_log r (l_is_up_to_date (r_log r) (m_index m) (m_logterm m)) else Ok (false, r));
    let '(utd, r) := ur in
    do lt <- last_term r;        (* the log lines read lastTerm / lastIndex *)
    let r := snd lt in
    if can_v && utd then
      do r <- send r (m_with_term (reply (vote_resp_type ty) (m_from m)) (m_term m));
      if ty =? msg_vote then Ok (upd_tv (upd_elapsed r 0 (r_hbelapsed r)) (r_term r) (m_from m)) else Ok r
    else send r (m_with_reject (m_with_term (reply (vote_resp_type ty) (m_from m)) (r_term r)) true 0).

Definition step (r : raftst) (m : msg) : res raftst :=
  let ty := m_type m in
  do pre <- step_term r m;
  let '(go_on, r) := pre in
  if negb go_on then Ok r
  else if ty =? msg_hup then hup r (if r_pv r then CampPre else CampElection)
  else if (ty =? msg_vote) || (ty =? msg_pre_vote) then step_vote r m
  else
    do sr <- (if r_state r =? st_leader then step_leader r m
              else if r_state r =? st_follower then step_follower r m
              else step_candidate r m);
    Ok (snd sr).

(* ---------- ticks ---------- *)
Definition tick_election (r : raftst) : res raftst :=
  let r := upd_elapsed r (r_elapsed r + 1) (r_hbelapsed r) in
  if promotable r && (r_randtimeout r <=? r_elapsed r) then
    step (upd_elapsed r 0 (r_hbelapsed r)) (msg0 msg_hup 0)
  else Ok r.
Definition tick_heartbeat (r : raftst) : res raftst :=
  let r := upd_elapsed r (r_elapsed r + 1) (r_hbelapsed r + 1) in
  do r <- (if r_eltimeout r <=? r_elapsed r then
             let r := upd_elapsed r 0 (r_hbelapsed r) in
             do r <- (if r_cq r then step r (msg0 msg_check_quorum 0) else Ok r);
             if (r_state r =? st_leader) && negb (r_transferee r =? none_id) then Ok (upd_transferee r none_id) else Ok r
           else Ok r);
  if negb (r_state r =? st_leader) then Ok r
  else if r_hbtimeout r <=? r_hbelapsed r then
    step (upd_elapsed r (r_elapsed r) 0) (msg0 msg_beat 0)
  else Ok r.
Definition tick (r : raftst) : res raftst :=
  if r_state r =? st_leader then tick_heartbeat r else tick_election r.
Fixpoint ticks (n : nat) (r : raftst) : res raftst :=
  match n with O => Ok r | S k => do r <- tick r; ticks k r end.

(* ---------- configuration changes ---------- *)
Definition add_node_or_learner (r : raftst) (id : N) (learner : bool) : res raftst :=
  let r := upd_pendingconf r false in
  match get_progress r id with
  | None =>
    do lr <- last_index r;
    let '(li, r) := lr in
    do r <- set_progress r id 0 (li + 1) learner;
    let r := if r_id r =? id then upd_islearner r learner else r in
    match get_progress r id with
    | Some p => Ok (put_progress r (p_set_recent p true))
    | None => Panic
    end
  | Some pr =>
    if learner && negb (p_learner pr) then Ok r
    else if Bool.eqb learner (p_learner pr) then Ok r
    else
      (* learner -> voter: the learner's progress moves to the voters *)
      let pr' := p_set_learner pr false in
      let r := upd_prs (upd_lprs r (pl_del id (r_lprs r))) (pl_put pr' (r_prs r)) in
      let r := if r_id r =? id then upd_islearner r learner else r in
      Ok (put_progress r (p_set_recent pr' true))
  end.
Definition remove_node (r : raftst) (id : N) : res raftst :=
  let r := upd_lprs (upd_prs r (pl_del id (r_prs r))) (pl_del id (r_lprs r)) in
  let r := upd_pendingconf r false in
  if nlen (r_prs r) =? 0 then Ok r
  else
    do r <- (if r_state r =? st_leader then
               do mc <- maybe_commit r;
               if fst mc then bcast_append (snd mc) else Ok (snd mc)
             else Ok r);
    if (r_state r =? st_leader) && (r_transferee r =? id) then Ok (upd_transferee r none_id) else Ok r.
(* processConfChanged: returns the new needHandleProposal *)
Definition process_conf_changed (r : raftst) (cc_type cc_id : N) (need : bool) : res (bool * raftst) :=
  if cc_id =? none_id then Ok (need, upd_pendingconf r false)
  else if cc_type =? cc_add_node then do r <- add_node_or_learner r cc_id false; Ok (need, r)
  else if cc_type =? cc_add_learner then do r <- add_node_or_learner r cc_id true; Ok (need, r)
  else if cc_type =? cc_remove_node then
    do r' <- remove_node r cc_id; Ok (if cc_id =? r_id r then false else need, r')
  else if cc_type =? cc_update_node then Ok (need, upd_pendingconf r false)
  else Panic.

(* ---------- node.go ---------- *)
Record prevst := mkPrev { pv_soft_lead : N; pv_soft_state : N; pv_hs : N * N * N (* term, vote, commit *);
                          pv_lead : N; pv_have_unstable : bool; pv_unstable_i : N; pv_unstable_t : N; pv_snapi : N }.

Definition handle_received (r : raftst) (m : msg) : res raftst :=
  let from := get_progress r (m_from m) in
  match from, is_response_msg (m_type m) with
  | None, true => Ok r
  | _, _ =>
    if (m_type m =? msg_transfer_leader) && m_local m then
      (* the Group fix-ups of a request injected through Node.TransferLeadership: a request naming
         unknown replicas is dropped (a forwarded request carries the Groups and skips this) *)
      let from_ok := match from with Some _ => true | None => m_from m =? r_id r end in
      let to_ok := match get_progress r (m_to m) with Some _ => true | None => m_to m =? r_id r end in
      if from_ok && to_ok then step r m else Ok r
    else step r m
  end.

Fixpoint handle_msgs (busy : bool) (ms : list msg) (r : raftst) : res raftst :=
  match ms with
  | [] => Ok r
  | m :: rest =>
    do r <- (if busy && (m_type m =? msg_app) then Ok r else handle_received r m);
    handle_msgs busy rest r
  end.

Definition prop_msg (from : N) (p : list (N * option N)) : msg :=
  mkM msg_prop 0 from 0 0 0 [] 0 None false 0 0 p true.
Fixpoint handle_props (ps : list (list (N * option N))) (r : raftst) : res raftst :=
  match ps with
  | [] => Ok r
  | p :: rest =>
    do r <- step r (prop_msg (r_id r) p);
    handle_props rest r
  end.

Record ready := mkRd { rd_soft : option (N * N); rd_hs : option (N * N * N); rd_ents : list entry;
                       rd_cents : list entry; rd_more : bool; rd_snap : option snapmeta;
                       rd_msgs : list msg; rd_sync : bool }.

Definition hard_state (r : raftst) : N * N * N := (r_term r, r_vote r, committed r).
Definition hs_eqb (a b : N * N * N) : bool :=
  let '(t1, v1, c1) := a in let '(t2, v2, c2) := b in (t1 =? t2) && (v1 =? v2) && (c1 =? c2).

Definition new_ready (r : raftst) (pv : prevst) (more : bool) : res (ready * raftst) :=
  do ce <- (if more then with_log r (l_next_ents (r_log r)) else Ok ([], r));
  let '(cents, r) := ce in
  let more_c := match last_opt cents with Some e => l_has_more_next_ents (r_log r) (eindex e) | None => false end in
  let soft := if (r_lead r =? pv_soft_lead pv) && (r_state r =? pv_soft_state pv) then None else Some (r_lead r, r_state r) in
  let hs := if hs_eqb (hard_state r) (pv_hs pv) then None else Some (hard_state r) in
  let snap := match u_snap (l_u (r_log r)) with
              | Some (i, t) => Some (mkS i t (fst (r_usconf r)) (snd (r_usconf r)))
              | None => None end in
  let ents := u_ents (l_u (r_log r)) in
  let '(pt, pvv, _) := pv_hs pv in
  let sync := negb (nlen ents =? 0) || negb (r_vote r =? pvv) || negb (r_term r =? pt) in
  Ok (mkRd soft hs ents cents more_c snap (r_msgs r) sync, r).

Definition rd_contains_updates (rd : ready) : bool :=
  match rd_soft rd, rd_hs rd, rd_snap rd with
  | None, None, None =>
    negb (nlen (rd_ents rd) =? 0) || negb (nlen (rd_cents rd) =? 0) || negb (nlen (rd_msgs rd) =? 0)
  | _, _, _ => true
  end.

(* StepNode: messages, ticks, leader update, an asynchronously applied conf change, proposals.
   Returns the state, the new prevLead, whether the proposals were consumed, and the Ready (None: no update). *)
Definition step_node (r : raftst) (pv : prevst) (msgs : list msg) (nticks : nat) (cc : option (N * N))
           (props : list (list (N * option N))) (more busy : bool)
  : res (raftst * N * bool * option ready) :=
  do r <- handle_msgs busy msgs r;
  do r <- ticks nticks r;
  (* handleLeaderUpdate *)
  let lead := pv_lead pv in
  let need := negb (lead =? none_id) in
  let '(need, lead) := if negb (lead =? r_lead r)
                       then (negb (r_lead r =? none_id), r_lead r) else (need, lead) in
  do cr <- (match cc with
            | Some (t, id) => process_conf_changed r t id need
            | None => Ok (need, r) end);
  let '(need, r) := cr in
  do r <- (if need then handle_props props r else Ok r);
  do nr <- new_ready r pv more;
  let '(rd, r) := nr in
  Ok (r, lead, need, if rd_contains_updates rd then Some rd else None).

(* Advance: returns the raft state and the node's updated bookkeeping *)
Definition advance (r : raftst) (pv : prevst) (rd : ready) : res (raftst * prevst) :=
  let '(sl, ss) := match rd_soft rd with Some x => x | None => (pv_soft_lead pv, pv_soft_state pv) end in
  let '(have, ui, ut) := match last_opt (rd_ents rd) with
                         | Some e => (true, eindex e, eterm e)
                         | None => (pv_have_unstable pv, pv_unstable_i pv, pv_unstable_t pv) end in
  let hs := match rd_hs rd with Some h => h | None => pv_hs pv end in
  let snapi := match rd_snap rd with Some s => s_index s | None => pv_snapi pv end in
  let r := upd_msgs r [] in
  let cursor := applied_cursor (rd_cents rd) (match rd_snap rd with Some s => s_index s | None => 0 end) in
  do l <- l_applied_to (r_log r) cursor;
  do l <- (if have then l_stable_to l ui ut else Ok l);
  let l := l_stable_snap_to l snapi in
  Ok (upd_log r l, mkPrev sl ss hs (pv_lead pv) false ui ut snapi).
