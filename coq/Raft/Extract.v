(* Raft/Extract.v — extraction of the raft log-layer model (ExtrOcamlBasic only) *)
From Coq Require Import ExtrOcamlBasic.
From Coq Require Import ZArith.
From ZV Require Import Raft.Model Raft.Core.
Extraction Language OCaml.
Extraction "model.ml" Z.of_N N.of_nat Nat.add
  ms_new rs_new rs_reopen st_first_index st_last_index st_term st_entries st_snapshot st_append st_apply_snapshot
  st_create_snapshot st_compact new_log l_first_index l_last_index l_term l_match_term l_last_term l_is_up_to_date
  l_find_conflict l_commit_to l_applied_to l_append l_maybe_append l_slice l_entries l_next_ents l_has_next_ents
  l_has_more_next_ents l_maybe_commit l_restore l_stable_to l_stable_snap_to applied_cursor advance_applied
  quorum commit_index vote_decision limit_size
  step_node advance process_conf_changed entry_size.
