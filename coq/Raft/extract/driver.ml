(* driver for the raft log-layer model: reads the op lines of raftsim -mode log on stdin,
   prints "<id>\t<result> | <state>" exactly as harness/cmd/raftsim/log.go prints the real objects *)
open Model
open Vio

(* numbers up to 2^64-1 appear (size limits): parse unsigned through Int64 and hex *)
let n_of_dec_big (s : string) : n = n_of_hex (Printf.sprintf "%Lx" (Int64.of_string ("0u" ^ s)))
let dec_of_n_big (x : n) : string = Printf.sprintf "%Lu" (Int64.of_string ("0x" ^ hex_of_n x))

let parse_ents (s : string) : entry list =
  if s = "-" || s = "" then [] else
  List.map (fun t ->
    match String.split_on_char '.' t with
    | [i; tm; d; sz] -> { eterm = n_of_dec_big tm; eindex = n_of_dec_big i; edata = n_of_dec_big d; esz = n_of_dec_big sz }
    | _ -> failwith ("bad entry " ^ t)) (String.split_on_char ',' s)
let show_ents (es : entry list) : string =
  if es = [] then "-" else
  String.concat "," (List.map (fun e -> Printf.sprintf "%s.%s.%s" (dec_of_n_big e.eindex) (dec_of_n_big e.eterm) (dec_of_n_big e.edata)) es)
let err_s = function
  | ErrCompacted -> "ErrCompacted" | ErrUnavailable -> "ErrUnavailable" | ErrSnapOutOfDate -> "ErrSnapOutOfDate"
  | ErrNotFound -> "ErrNotFound" | ErrOutOfBound -> "ErrOutOfBound"
let b_s = function true -> "true" | false -> "false"
let d = dec_of_n_big

exception Go_panic

(* current case *)
let cur_st : storage option ref = ref None
let cur_log : rlog option ref = ref None
let dead = ref false

let get_st () = match !cur_log, !cur_st with
  | Some l, _ -> l.l_st
  | None, Some s -> s
  | _ -> failwith "no storage"
let put_st s = match !cur_log with
  | Some l -> cur_log := Some { l with l_st = s }
  | None -> cur_st := Some s

let state () : string =
  let b = Buffer.create 128 in
  (try
    let s0 = get_st () in
    let (fi, ferr, s1) = (match st_first_index s0 with
      | Ok (v, s) -> (v, "ok", s) | Err e -> (n_of_int 1, err_s e, s0) | Panic -> raise Go_panic) in
    let (li, lerr, s2) = (match st_last_index s1 with
      | Ok (v, s) -> (v, "ok", s) | Err e -> (N0, err_s e, s1) | Panic -> raise Go_panic) in
    let (si, st) = st_snapshot s2 in
    Buffer.add_string b (Printf.sprintf "sf=%s/%s sl=%s/%s ss=%s:%s" (d fi) ferr (d li) lerr (d si) (d st));
    let s3 = ref s2 in
    if ferr = "ok" && lerr = "ok" then begin
      (match st_term !s3 (N.sub fi (n_of_int 1)) with
       | Ok (t, s) -> s3 := s; Buffer.add_string b (Printf.sprintf " sd=%s/ok" (d t))
       | Err e -> Buffer.add_string b (Printf.sprintf " sd=0/%s" (err_s e))
       | Panic -> raise Go_panic);
      if N.leb fi li then
        (match st_entries !s3 fi (N.add li (n_of_int 1)) (n_of_dec_big "18446744073709551615") with
         | Ok (es, s) -> s3 := s; Buffer.add_string b (Printf.sprintf " se=%s/ok" (show_ents es))
         | Err e -> Buffer.add_string b (Printf.sprintf " se=-/%s" (err_s e))
         | Panic -> raise Go_panic)
      else Buffer.add_string b " se=-/ok"
    end;
    (match !s3 with
     | SRocks r -> Buffer.add_string b (Printf.sprintf " rc=%s:%s" (d r.rs_fc) (d r.rs_lc))
     | SMem _ -> ());
    put_st !s3;
    (match !cur_log with
     | Some l ->
       let us = (match l.l_u.u_snap with Some (i, t) -> Printf.sprintf "%s:%s" (d i) (d t) | None -> "-") in
       Buffer.add_string b (Printf.sprintf " c=%s a=%s uo=%s us=%s ue=%s" (d l.l_committed) (d l.l_applied)
                              (d l.l_u.u_off) us (show_ents l.l_u.u_ents))
     | None -> ())
  with Go_panic -> Buffer.add_string b " statepanic");
  Buffer.contents b


(* ---------------------------------------------------------------------------------------------
   handler-level cases (Raft/Core.v): the line is a stream of unsigned integers written by
   harness/internal/raftdrv/core.go (writePre + inputs) *)
let toks : string array ref = ref [||]
let pos = ref 0
let rn () : n = let t = !toks.(!pos) in incr pos; n_of_dec_big t
let ri () : int = let t = !toks.(!pos) in incr pos; int_of_string t
let rb () : bool = ri () <> 0
let rlist (f : unit -> 'a) : 'a list = let k = ri () in List.init k (fun _ -> f ())
let rentry () : entry = let i = rn () in let t = rn () in let dd = rn () in let sz = rn () in
  { eterm = t; eindex = i; edata = dd; esz = sz }
let rsnap () : snapmeta option =
  if rb () then begin
    let i = rn () in let t = rn () in let v = rlist rn in let l = rlist rn in
    Some { s_index = i; s_term = t; s_voters = v; s_learners = l } end
  else None
let rmsg () : msg =
  let ty = rn () in let to_ = rn () in let from = rn () in let term = rn () in let lt = rn () in
  let idx = rn () in let cm = rn () in let rej = rb () in let hint = rn () in let ctx = rn () in
  let local = rb () in
  let props = rlist (fun () -> let dd = rn () in let dl = ri () in (dd, if dl = 0 then None else Some (n_of_int (dl - 1)))) in
  let ents = rlist rentry in
  let snap = rsnap () in
  { m_type = ty; m_to = to_; m_from = from; m_term = term; m_logterm = lt; m_index = idx; m_ents = ents;
    m_commit = cm; m_snap = snap; m_reject = rej; m_hint = hint; m_ctx = ctx; m_props = props; m_local = local }
let rprogress () : progress =
  let id = rn () in let mt = rn () in let nx = rn () in let st = rn () in let pa = rb () in
  let pend = rn () in let rec_ = rb () in let lrn = rb () in let ins = rlist rn in
  { p_id = id; p_match = mt; p_next = nx; p_state = st; p_paused = pa; p_pending = pend; p_recent = rec_;
    p_learner = lrn; p_ins = ins }

(* the pre-state: returns (raft state without r_rnd set, node bookkeeping) *)
let rpre (rnd : n) : raftst * prevst =
  let id = rn () in let term = rn () in let vote = rn () in let state = rn () in let lrn = rb () in
  let lead = rn () in let tee = rn () in let pc = rb () in let el = rn () in let hb = rn () in
  let cq = rb () in let pv = rb () in let hbt = rn () in let elt = rn () in let rt = rn () in
  let maxinf = rn () in let maxmsg = rn () in
  let votes = rlist (fun () -> let i = rn () in let g = rb () in (i, g)) in
  let prs = rlist rprogress in
  let lprs = rlist rprogress in
  let msgs = rlist rmsg in
  let committed = rn () in let applied = rn () in let maxnext = rn () in
  let usnap, usconf = (if rb () then begin
      let i = rn () in let t = rn () in let v = rlist rn in let l = rlist rn in (Some (i, t), (v, l)) end
    else (None, ([], []))) in
  let uoff = rn () in
  let uents = rlist rentry in
  let si = rn () in let st = rn () in let sv = rlist rn in let sl = rlist rn in
  let sents = rlist rentry in
  let psl = rn () in let pss = rn () in let pht = rn () in let phv = rn () in let phc = rn () in let plead = rn () in
  let phave = rb () in let pui = rn () in let put_ = rn () in let psnapi = rn () in
  let log = { l_st = SMem { ms_snapi = si; ms_snapt = st; ms_ents = sents };
              l_u = { u_snap = usnap; u_ents = uents; u_off = uoff };
              l_committed = committed; l_applied = applied; l_maxnext = maxnext } in
  ({ r_id = id; r_term = term; r_vote = vote; r_log = log; r_maxinflight = maxinf; r_maxmsg = maxmsg;
     r_prs = prs; r_lprs = lprs; r_state = state; r_islearner = lrn; r_votes = votes; r_msgs = msgs;
     r_lead = lead; r_transferee = tee; r_pendingconf = pc; r_elapsed = el; r_hbelapsed = hb; r_cq = cq;
     r_pv = pv; r_hbtimeout = hbt; r_eltimeout = elt; r_randtimeout = rt; r_rnd = rnd;
     r_stconf = (sv, sl); r_usconf = usconf },
   { pv_soft_lead = psl; pv_soft_state = pss; pv_hs = ((pht, phv), phc); pv_lead = plead;
     pv_have_unstable = phave; pv_unstable_i = pui; pv_unstable_t = put_; pv_snapi = psnapi })

let b01 b = if b then "1" else "0"
let show_ents4 (es : entry list) : string =
  if es = [] then "-" else
  String.concat "," (List.map (fun e -> Printf.sprintf "%s.%s.%s.%s" (d e.eindex) (d e.eterm) (d e.edata) (d e.esz)) es)
let show_u (l : n list) = String.concat "," (List.map d l)
let show_snapmeta = function
  | None -> "-"
  | Some s -> Printf.sprintf "%s:%s:%s/%s" (d s.s_index) (d s.s_term) (show_u s.s_voters) (show_u s.s_learners)
let show_prs (ps : progress list) =
  if ps = [] then "-" else
  String.concat "," (List.map (fun p ->
    Printf.sprintf "%s:%s:%s:%s:%s:%s:%s:%s:%s" (d p.p_id) (d p.p_match) (d p.p_next) (d p.p_state) (b01 p.p_paused)
      (d p.p_pending) (b01 p.p_recent) (b01 p.p_learner) (String.concat "/" (List.map d p.p_ins))) ps)
let show_msg (m : msg) =
  let body = if int_of_n m.m_type = 2 then "p" ^ String.concat "/" (List.map (fun (dd, _) -> d dd) m.m_props)
    else (let s = show_ents4 m.m_ents in String.concat "/" (String.split_on_char ',' s)) in
  Printf.sprintf "%s>%s:%s:%s:%s:%s:%s:%s:%s:%s:%s:%s" (d m.m_type) (d m.m_to) (d m.m_from) (d m.m_term) (d m.m_logterm)
    (d m.m_index) (d m.m_commit) (b01 m.m_reject) (d m.m_hint) (d m.m_ctx) body (show_snapmeta m.m_snap)
let show_msgs (ms : msg list) =
  if ms = [] then "-" else
  let c = List.stable_sort (fun a b -> compare (int_of_n a.m_to) (int_of_n b.m_to)) ms in
  String.concat " " (List.map show_msg c)
let show_state (r : raftst) : string =
  let l = r.r_log in
  let us = (match l.l_u.u_snap with
            | Some (i, t) -> Printf.sprintf "%s:%s:%s/%s" (d i) (d t) (show_u (fst r.r_usconf)) (show_u (snd r.r_usconf))
            | None -> "-") in
  Printf.sprintf "term=%s vote=%s st=%s lrn=%s lead=%s tee=%s pc=%s el=%s hb=%s rt=%s votes=%s prs=%s lprs=%s c=%s a=%s uo=%s us=%s ue=%s"
    (d r.r_term) (d r.r_vote) (d r.r_state) (b01 r.r_islearner) (d r.r_lead) (d r.r_transferee) (b01 r.r_pendingconf)
    (d r.r_elapsed) (d r.r_hbelapsed) (d r.r_randtimeout)
    (String.concat "," (List.map (fun (i, g) -> d i ^ ":" ^ b01 g) r.r_votes))
    (show_prs r.r_prs) (show_prs r.r_lprs) (d l.l_committed) (d l.l_applied) (d l.l_u.u_off) us (show_ents4 l.l_u.u_ents)
let show_prev (p : prevst) : string =
  let ((t, v), c) = p.pv_hs in
  Printf.sprintf "psoft=%s:%s phs=%s:%s:%s plead=%s pun=%s:%s:%s psnap=%s" (d p.pv_soft_lead) (d p.pv_soft_state) (d t) (d v) (d c)
    (d p.pv_lead) (b01 p.pv_have_unstable) (d p.pv_unstable_i) (d p.pv_unstable_t) (d p.pv_snapi)
let show_ready = function
  | None -> "rd=none"
  | Some rd ->
    let soft = (match rd.rd_soft with Some (l, s) -> d l ^ ":" ^ d s | None -> "-") in
    let hs = (match rd.rd_hs with Some ((t, v), c) -> Printf.sprintf "%s:%s:%s" (d t) (d v) (d c) | None -> "-") in
    Printf.sprintf "rd=soft=%s hs=%s ents=%s cents=%s more=%s snap=%s sync=%s msgs=%s" soft hs (show_ents4 rd.rd_ents)
      (show_ents4 rd.rd_cents) (b01 rd.rd_more) (show_snapmeta rd.rd_snap) (b01 rd.rd_sync) (show_msgs rd.rd_msgs)

let core_case (id : string) (kind : string) (line : string) : unit =
  toks := Array.of_list (List.filter (fun s -> s <> "") (String.split_on_char ' ' line));
  pos := 0;
  let out =
    (try
      (match kind with
       | "S" ->
         let rnd = rn () in let more = rb () in let busy = rb () in
         let (r, pv) = rpre rnd in
         let msgs = rlist rmsg in
         let nticks = ri () in
         let cc = (if rb () then (let t = rn () in let i = rn () in Some (t, i)) else None) in
         let props = List.map (fun m -> m.m_props) (rlist rmsg) in
         (match step_node r pv msgs (nat_of_int nticks) cc props more busy with
          | Ok (((r', plead), used), rd) ->
            Printf.sprintf "%s plead=%s used=%s %s" (show_state r') (d plead) (b01 (used || props = [])) (show_ready rd)
          | _ -> "panic")
       | "A" ->
         let (r, pv) = rpre N0 in
         let soft = (if rb () then (let l = rn () in let s = rn () in Some (l, s)) else None) in
         let hs = (if rb () then (let t = rn () in let v = rn () in let c = rn () in Some ((t, v), c)) else None) in
         let ents = (if rb () then (let i = rn () in let t = rn () in [{ eterm = t; eindex = i; edata = N0; esz = N0 }]) else []) in
         let cents = (if rb () then (let i = rn () in [{ eterm = N0; eindex = i; edata = N0; esz = N0 }]) else []) in
         let si = rn () in
         let snap = (if si = N0 then None else Some { s_index = si; s_term = N0; s_voters = []; s_learners = [] }) in
         let rd = { rd_soft = soft; rd_hs = hs; rd_ents = ents; rd_cents = cents; rd_more = false; rd_snap = snap;
                    rd_msgs = []; rd_sync = false } in
         (match advance r pv rd with
          | Ok (r', pv') -> show_state r' ^ " " ^ show_prev pv'
          | _ -> "panic")
       | "C" ->
         let (r, _) = rpre N0 in
         let t = rn () in let i = rn () in
         (match process_conf_changed r t i true with
          | Ok (_, r') -> show_state r' ^ " msgs=" ^ show_msgs r'.r_msgs
          | _ -> "panic")
       | _ -> "badkind")
    with Invalid_argument _ | Failure _ -> "parse-error") in
  Printf.printf "%s\t%s\n" id out

let the_log () = match !cur_log with Some l -> l | None -> failwith "no log"
let unres = function Ok x -> x | Err _ -> raise Go_panic | Panic -> raise Go_panic

let () =
  read_lines stdin (fun line ->
    match split_on '\t' line with
    | id :: "Q" :: ms :: _ ->
      (* the learners' match indexes (third field) never enter the computation *)
      let l = List.map n_of_dec_big (String.split_on_char ',' ms) in
      let q = quorum (n_of_int (List.length l)) in
      (match commit_index l with
       | Some v -> Printf.printf "%s\tq=%s commit=%s\n" id (d q) (d v)
       | None -> Printf.printf "%s\tpanic\n" id)
    | id :: "MT" :: t :: _ ->
      Printf.printf "%s\tresponse=%b\n" id (is_response_msg (n_of_dec_big t))
    | id :: "AC" :: snap :: cs :: _ ->
      (* Ready.appliedCursor: committed entry indexes (or "-") and the snapshot index *)
      let ents = if cs = "-" then [] else
        List.map (fun x -> { eterm = N0; eindex = n_of_dec_big x; edata = N0; esz = N0 }) (String.split_on_char ',' cs) in
      Printf.printf "%s\tcursor=%s\n" id (d (applied_cursor ents (n_of_dec_big snap)))
    | id :: kind :: body :: _ when String.length id > 0 && id.[0] = 'c' -> core_case id kind body
    | id :: op :: args ->
      if String.length id > 0 && id.[0] = 'L' then begin
        (* a new case starts with op index 0 *)
        (match String.split_on_char '.' id with
         | [_; "0"] -> cur_st := None; cur_log := None; dead := false
         | _ -> ());
        if !dead then Printf.printf "%s\tdead\n" id else
        (try
          let res =
            (match op, args with
             | "NEW", kind :: maxnext :: _ ->
               let s = (match !cur_st with Some s -> s | None -> if kind = "M" then SMem ms_new else SRocks rs_new) in
               (match new_log s (n_of_dec_big maxnext) with
                | Ok l -> cur_log := Some l; "r=ok"
                | _ -> raise Go_panic)
             | "RO", _ ->
               (match get_st () with
                | SRocks r ->
                  let s' = SRocks (rs_reopen r) in
                  let mx = (match !cur_log with Some l -> l.l_maxnext | None -> N0) in
                  cur_log := None; cur_st := Some s';
                  (match new_log s' mx with
                   | Ok l -> cur_log := Some l; "r=ok"
                   | _ -> raise Go_panic)
                | SMem _ -> "r=n/a")
             | "SA", es :: _ ->
               (if !cur_st = None && !cur_log = None then
                  (* pre-load: the storage kind is decided by the NEW line that follows; the harness
                     always pre-loads the same kind it creates, encoded in the case number *)
                  ());
               let s = (match !cur_log, !cur_st with
                        | None, None ->
                          (* case number mod 3 = 2 -> RocksStorage (mirrors log.go) *)
                          let cn = int_of_string (String.sub (List.hd (String.split_on_char '.' id)) 1
                                                    (String.length (List.hd (String.split_on_char '.' id)) - 1)) in
                          let s = if cn mod 3 = 2 then SRocks rs_new else SMem ms_new in
                          cur_st := Some s; s
                        | _ -> get_st ()) in
               (match st_append s (parse_ents es) with
                | Ok s' -> put_st s'; "r=ok"
                | Err e -> "r=" ^ err_s e
                | Panic -> raise Go_panic)
             | "SN", i :: t :: _ ->
               (match st_apply_snapshot (get_st ()) (n_of_dec_big i) (n_of_dec_big t) with
                | Ok s' -> put_st s'; "r=ok" | Err e -> "r=" ^ err_s e | Panic -> raise Go_panic)
             | "CS", i :: _ ->
               (match st_create_snapshot (get_st ()) (n_of_dec_big i) with
                | Ok s' -> put_st s'; "r=ok" | Err e -> "r=" ^ err_s e | Panic -> raise Go_panic)
             | "CP", i :: _ ->
               (match st_compact (get_st ()) (n_of_dec_big i) with
                | Ok s' -> put_st s'; "r=ok" | Err e -> "r=" ^ err_s e | Panic -> raise Go_panic)
             | "STM", i :: _ ->
               (match st_term (get_st ()) (n_of_dec_big i) with
                | Ok (t, s') -> put_st s'; Printf.sprintf "r=%s/ok" (d t)
                | Err e -> "r=0/" ^ err_s e | Panic -> raise Go_panic)
             | "SEN", lo :: hi :: mx :: _ ->
               (match st_entries (get_st ()) (n_of_dec_big lo) (n_of_dec_big hi) (n_of_dec_big mx) with
                | Ok (es, s') -> put_st s'; Printf.sprintf "r=%s/ok" (show_ents es)
                | Err e -> "r=-/" ^ err_s e | Panic -> raise Go_panic)
             | "AP", es :: _ ->
               let (n, l') = unres (l_append (the_log ()) (parse_ents es)) in
               cur_log := Some l'; "r=" ^ d n
             | "MA", idx :: lt :: cm :: es :: _ ->
               let (r, l') = unres (l_maybe_append (the_log ()) (n_of_dec_big idx) (n_of_dec_big lt) (n_of_dec_big cm) (parse_ents es)) in
               cur_log := Some l';
               (match r with Some n -> "r=" ^ d n | None -> "r=rej")
             | "FC", es :: _ ->
               let (ci, l') = unres (l_find_conflict (the_log ()) (parse_ents es)) in
               cur_log := Some l'; "r=" ^ d ci
             | "CT", v :: _ ->
               cur_log := Some (unres (l_commit_to (the_log ()) (n_of_dec_big v))); "r=ok"
             | "AT", v :: _ ->
               cur_log := Some (unres (l_applied_to (the_log ()) (n_of_dec_big v))); "r=ok"
             | "NE", _ ->
               let (es, l') = unres (l_next_ents (the_log ())) in
               cur_log := Some l'; "r=" ^ show_ents es
             | "ST", i :: t :: _ ->
               cur_log := Some (unres (l_stable_to (the_log ()) (n_of_dec_big i) (n_of_dec_big t))); "r=ok"
             | "SS", i :: _ ->
               cur_log := Some (l_stable_snap_to (the_log ()) (n_of_dec_big i)); "r=ok"
             | "RS", i :: t :: _ ->
               cur_log := Some (l_restore (the_log ()) (n_of_dec_big i) (n_of_dec_big t)); "r=ok"
             | "TM", i :: _ ->
               (match l_term (the_log ()) (n_of_dec_big i) with
                | Ok (t, l') -> cur_log := Some l'; Printf.sprintf "r=%s/ok" (d t)
                | Err e -> "r=0/" ^ err_s e
                | Panic -> raise Go_panic)
             | "SL", lo :: hi :: mx :: _ ->
               (match l_slice (the_log ()) (n_of_dec_big lo) (n_of_dec_big hi) (n_of_dec_big mx) with
                | Ok (es, l') -> cur_log := Some l'; Printf.sprintf "r=%s/ok" (show_ents es)
                | Err e -> "r=-/" ^ err_s e
                | Panic -> raise Go_panic)
             | "EN", i :: mx :: _ ->
               (match l_entries (the_log ()) (n_of_dec_big i) (n_of_dec_big mx) with
                | Ok (es, l') -> cur_log := Some l'; Printf.sprintf "r=%s/ok" (show_ents es)
                | Err e -> "r=-/" ^ err_s e
                | Panic -> raise Go_panic)
             | "UT", i :: t :: _ ->
               let (b, l') = unres (l_is_up_to_date (the_log ()) (n_of_dec_big i) (n_of_dec_big t)) in
               cur_log := Some l'; "r=" ^ b_s b
             | "MC", i :: t :: _ ->
               let (b, l') = unres (l_maybe_commit (the_log ()) (n_of_dec_big i) (n_of_dec_big t)) in
               cur_log := Some l'; "r=" ^ b_s b
             | "HN", i :: _ ->
               let l = the_log () in
               let (b, l') = unres (l_has_next_ents l) in
               cur_log := Some l';
               let pend = (match l.l_u.u_snap with Some (si, _) -> not (si = N0) | None -> false) in
               Printf.sprintf "r=%s,%s,%s" (b_s b) (b_s (l_has_more_next_ents l (n_of_dec_big i))) (b_s pend)
             | _ -> failwith ("bad op " ^ line)) in
          Printf.printf "%s\t%s | %s\n" id res (state ())
        with Go_panic -> dead := true; Printf.printf "%s\tpanic\n" id)
      end
    | _ -> ())
