(* driver for the raft log-layer model: reads the op lines of raftsim -mode log on stdin,
   prints "<id>\t<result> | <state>" exactly as harness/cmd/raftsim/log.go prints the real objects *)
open Model
open Vio

(* numbers up to 2^64-1 appear (size limits): parse unsigned through Int64 and hex *)
let n_of_dec_big (s : string) : n = n_of_hex (Printf.sprintf "%Lx" (Int64.of_string ("0u" ^ s)))
let dec_of_n_big (x : n) : string = Printf.sprintf "%Lu" (Int64.of_string ("0x" ^ hex_of_n x))

let parse_ents (s : string) : entry list =
  if s = "-" || s = "" then [] else
  List.map (fun t ->
    match String.split_on_char '.' t with
    | [i; tm; d; sz] -> { eterm = n_of_dec_big tm; eindex = n_of_dec_big i; edata = n_of_dec_big d; esz = n_of_dec_big sz }
    | _ -> failwith ("bad entry " ^ t)) (String.split_on_char ',' s)
let show_ents (es : entry list) : string =
  if es = [] then "-" else
  String.concat "," (List.map (fun e -> Printf.sprintf "%s.%s.%s" (dec_of_n_big e.eindex) (dec_of_n_big e.eterm) (dec_of_n_big e.edata)) es)
let err_s = function
  | ErrCompacted -> "ErrCompacted" | ErrUnavailable -> "ErrUnavailable" | ErrSnapOutOfDate -> "ErrSnapOutOfDate"
  | ErrNotFound -> "ErrNotFound" | ErrOutOfBound -> "ErrOutOfBound"
let b_s = function true -> "true" | false -> "false"
let d = dec_of_n_big

exception Go_panic

(* current case *)
let cur_st : storage option ref = ref None
let cur_log : rlog option ref = ref None
let dead = ref false

let get_st () = match !cur_log, !cur_st with
  | Some l, _ -> l.l_st
  | None, Some s -> s
  | _ -> failwith "no storage"
let put_st s = match !cur_log with
  | Some l -> cur_log := Some { l with l_st = s }
  | None -> cur_st := Some s

let state () : string =
  let b = Buffer.create 128 in
  (try
    let s0 = get_st () in
    let (fi, ferr, s1) = (match st_first_index s0 with
      | Ok (v, s) -> (v, "ok", s) | Err e -> (n_of_int 1, err_s e, s0) | Panic -> raise Go_panic) in
    let (li, lerr, s2) = (match st_last_index s1 with
      | Ok (v, s) -> (v, "ok", s) | Err e -> (N0, err_s e, s1) | Panic -> raise Go_panic) in
    let (si, st) = st_snapshot s2 in
    Buffer.add_string b (Printf.sprintf "sf=%s/%s sl=%s/%s ss=%s:%s" (d fi) ferr (d li) lerr (d si) (d st));
    let s3 = ref s2 in
    if ferr = "ok" && lerr = "ok" then begin
      (match st_term !s3 (N.sub fi (n_of_int 1)) with
       | Ok (t, s) -> s3 := s; Buffer.add_string b (Printf.sprintf " sd=%s/ok" (d t))
       | Err e -> Buffer.add_string b (Printf.sprintf " sd=0/%s" (err_s e))
       | Panic -> raise Go_panic);
      if N.leb fi li then
        (match st_entries !s3 fi (N.add li (n_of_int 1)) (n_of_dec_big "18446744073709551615") with
         | Ok (es, s) -> s3 := s; Buffer.add_string b (Printf.sprintf " se=%s/ok" (show_ents es))
         | Err e -> Buffer.add_string b (Printf.sprintf " se=-/%s" (err_s e))
         | Panic -> raise Go_panic)
      else Buffer.add_string b " se=-/ok"
    end;
    (match !s3 with
     | SRocks r -> Buffer.add_string b (Printf.sprintf " rc=%s:%s" (d r.rs_fc) (d r.rs_lc))
     | SMem _ -> ());
    put_st !s3;
    (match !cur_log with
     | Some l ->
       let us = (match l.l_u.u_snap with Some (i, t) -> Printf.sprintf "%s:%s" (d i) (d t) | None -> "-") in
       Buffer.add_string b (Printf.sprintf " c=%s a=%s uo=%s us=%s ue=%s" (d l.l_committed) (d l.l_applied)
                              (d l.l_u.u_off) us (show_ents l.l_u.u_ents))
     | None -> ())
  with Go_panic -> Buffer.add_string b " statepanic");
  Buffer.contents b

let the_log () = match !cur_log with Some l -> l | None -> failwith "no log"
let unres = function Ok x -> x | Err _ -> raise Go_panic | Panic -> raise Go_panic

let () =
  read_lines stdin (fun line ->
    match split_on '\t' line with
    | id :: "Q" :: ms :: _ ->
      (* the learners' match indexes (third field) never enter the computation *)
      let l = List.map n_of_dec_big (String.split_on_char ',' ms) in
      let q = quorum (n_of_int (List.length l)) in
      (match commit_index l with
       | Some v -> Printf.printf "%s\tq=%s commit=%s\n" id (d q) (d v)
       | None -> Printf.printf "%s\tpanic\n" id)
    | id :: op :: args ->
      if String.length id > 0 && id.[0] = 'L' then begin
        (* a new case starts with op index 0 *)
        (match String.split_on_char '.' id with
         | [_; "0"] -> cur_st := None; cur_log := None; dead := false
         | _ -> ());
        if !dead then Printf.printf "%s\tdead\n" id else
        (try
          let res =
            (match op, args with
             | "NEW", kind :: maxnext :: _ ->
               let s = (match !cur_st with Some s -> s | None -> if kind = "M" then SMem ms_new else SRocks rs_new) in
               (match new_log s (n_of_dec_big maxnext) with
                | Ok l -> cur_log := Some l; "r=ok"
                | _ -> raise Go_panic)
             | "RO", _ ->
               (match get_st () with
                | SRocks r ->
                  let s' = SRocks (rs_reopen r) in
                  let mx = (match !cur_log with Some l -> l.l_maxnext | None -> N0) in
                  cur_log := None; cur_st := Some s';
                  (match new_log s' mx with
                   | Ok l -> cur_log := Some l; "r=ok"
                   | _ -> raise Go_panic)
                | SMem _ -> "r=n/a")
             | "SA", es :: _ ->
               (if !cur_st = None && !cur_log = None then
                  (* pre-load: the storage kind is decided by the NEW line that follows; the harness
                     always pre-loads the same kind it creates, encoded in the case number *)
                  ());
               let s = (match !cur_log, !cur_st with
                        | None, None ->
                          (* case number mod 3 = 2 -> RocksStorage (mirrors log.go) *)
                          let cn = int_of_string (String.sub (List.hd (String.split_on_char '.' id)) 1
                                                    (String.length (List.hd (String.split_on_char '.' id)) - 1)) in
                          let s = if cn mod 3 = 2 then SRocks rs_new else SMem ms_new in
                          cur_st := Some s; s
                        | _ -> get_st ()) in
               (match st_append s (parse_ents es) with
                | Ok s' -> put_st s'; "r=ok"
                | Err e -> "r=" ^ err_s e
                | Panic -> raise Go_panic)
             | "SN", i :: t :: _ ->
               (match st_apply_snapshot (get_st ()) (n_of_dec_big i) (n_of_dec_big t) with
                | Ok s' -> put_st s'; "r=ok" | Err e -> "r=" ^ err_s e | Panic -> raise Go_panic)
             | "CS", i :: _ ->
               (match st_create_snapshot (get_st ()) (n_of_dec_big i) with
                | Ok s' -> put_st s'; "r=ok" | Err e -> "r=" ^ err_s e | Panic -> raise Go_panic)
             | "CP", i :: _ ->
               (match st_compact (get_st ()) (n_of_dec_big i) with
                | Ok s' -> put_st s'; "r=ok" | Err e -> "r=" ^ err_s e | Panic -> raise Go_panic)
             | "STM", i :: _ ->
               (match st_term (get_st ()) (n_of_dec_big i) with
                | Ok (t, s') -> put_st s'; Printf.sprintf "r=%s/ok" (d t)
                | Err e -> "r=0/" ^ err_s e | Panic -> raise Go_panic)
             | "SEN", lo :: hi :: mx :: _ ->
               (match st_entries (get_st ()) (n_of_dec_big lo) (n_of_dec_big hi) (n_of_dec_big mx) with
                | Ok (es, s') -> put_st s'; Printf.sprintf "r=%s/ok" (show_ents es)
                | Err e -> "r=-/" ^ err_s e | Panic -> raise Go_panic)
             | "AP", es :: _ ->
               let (n, l') = unres (l_append (the_log ()) (parse_ents es)) in
               cur_log := Some l'; "r=" ^ d n
             | "MA", idx :: lt :: cm :: es :: _ ->
               let (r, l') = unres (l_maybe_append (the_log ()) (n_of_dec_big idx) (n_of_dec_big lt) (n_of_dec_big cm) (parse_ents es)) in
               cur_log := Some l';
               (match r with Some n -> "r=" ^ d n | None -> "r=rej")
             | "FC", es :: _ ->
               let (ci, l') = unres (l_find_conflict (the_log ()) (parse_ents es)) in
               cur_log := Some l'; "r=" ^ d ci
             | "CT", v :: _ ->
               cur_log := Some (unres (l_commit_to (the_log ()) (n_of_dec_big v))); "r=ok"
             | "AT", v :: _ ->
               cur_log := Some (unres (l_applied_to (the_log ()) (n_of_dec_big v))); "r=ok"
             | "NE", _ ->
               let (es, l') = unres (l_next_ents (the_log ())) in
               cur_log := Some l'; "r=" ^ show_ents es
             | "ST", i :: t :: _ ->
               cur_log := Some (unres (l_stable_to (the_log ()) (n_of_dec_big i) (n_of_dec_big t))); "r=ok"
             | "SS", i :: _ ->
               cur_log := Some (l_stable_snap_to (the_log ()) (n_of_dec_big i)); "r=ok"
             | "RS", i :: t :: _ ->
               cur_log := Some (l_restore (the_log ()) (n_of_dec_big i) (n_of_dec_big t)); "r=ok"
             | "TM", i :: _ ->
               (match l_term (the_log ()) (n_of_dec_big i) with
                | Ok (t, l') -> cur_log := Some l'; Printf.sprintf "r=%s/ok" (d t)
                | Err e -> "r=0/" ^ err_s e
                | Panic -> raise Go_panic)
             | "SL", lo :: hi :: mx :: _ ->
               (match l_slice (the_log ()) (n_of_dec_big lo) (n_of_dec_big hi) (n_of_dec_big mx) with
                | Ok (es, l') -> cur_log := Some l'; Printf.sprintf "r=%s/ok" (show_ents es)
                | Err e -> "r=-/" ^ err_s e
                | Panic -> raise Go_panic)
             | "EN", i :: mx :: _ ->
               (match l_entries (the_log ()) (n_of_dec_big i) (n_of_dec_big mx) with
                | Ok (es, l') -> cur_log := Some l'; Printf.sprintf "r=%s/ok" (show_ents es)
                | Err e -> "r=-/" ^ err_s e
                | Panic -> raise Go_panic)
             | "UT", i :: t :: _ ->
               let (b, l') = unres (l_is_up_to_date (the_log ()) (n_of_dec_big i) (n_of_dec_big t)) in
               cur_log := Some l'; "r=" ^ b_s b
             | "MC", i :: t :: _ ->
               let (b, l') = unres (l_maybe_commit (the_log ()) (n_of_dec_big i) (n_of_dec_big t)) in
               cur_log := Some l'; "r=" ^ b_s b
             | "HN", i :: _ ->
               let l = the_log () in
               let (b, l') = unres (l_has_next_ents l) in
               cur_log := Some l';
               let pend = (match l.l_u.u_snap with Some (si, _) -> not (si = N0) | None -> false) in
               Printf.sprintf "r=%s,%s,%s" (b_s b) (b_s (l_has_more_next_ents l (n_of_dec_big i))) (b_s pend)
             | _ -> failwith ("bad op " ^ line)) in
          Printf.printf "%s\t%s | %s\n" id res (state ())
        with Go_panic -> dead := true; Printf.printf "%s\tpanic\n" id)
      end
    | _ -> ())
