(* Raft/Proofs.v — lemmas about the log-layer model (Raft/Model.v). *)
From Coq Require Import List NArith PeanoNat Bool Lia ZifyN ZifyNat ZifyBool Permutation Sorted.
Import ListNotations.
From ZV Require Import Raft.Consts Raft.Model.
Open Scope N_scope.

Arguments N.mul : simpl never.
Arguments N.add : simpl never.
Arguments N.sub : simpl never.
Arguments N.div : simpl never.

(* ====================================================================================== *)
(* 1. quorum arithmetic *)

Lemma quorum_gt_half : forall n, n < 2 * quorum n.
Proof.
  intros n. unfold quorum.
  pose proof (N.div_mod n 2 ltac:(lia)) as H.
  pose proof (N.mod_lt n 2 ltac:(lia)). lia.
Qed.

Lemma quorum_le : forall n, 0 < n -> quorum n <= n.
Proof.
  intros n Hn. unfold quorum.
  pose proof (N.div_mod n 2 ltac:(lia)) as H.
  pose proof (N.mod_lt n 2 ltac:(lia)). lia.
Qed.

Definition mem (x : N) (l : list N) : bool := existsb (N.eqb x) l.

Lemma mem_In : forall x l, mem x l = true <-> In x l.
Proof.
  intros x l. unfold mem. rewrite existsb_exists. split.
  - intros (y & Hy & E). apply N.eqb_eq in E. subst. exact Hy.
  - intros H. exists x. split; [exact H|apply N.eqb_refl].
Qed.

(* two duplicate-free sublists of a duplicate-free list whose lengths add up to more than the
   whole share a member *)
Lemma pigeon_share : forall (vs a b : list N),
  NoDup a -> NoDup b -> incl a vs -> incl b vs ->
  (length vs < length a + length b)%nat ->
  exists x, In x a /\ In x b.
Proof.
  intros vs a b Ha Hb Ia Ib Hlen.
  destruct (existsb (fun x => mem x b) a) eqn:E.
  - apply existsb_exists in E. destruct E as (x & Hx & Hm). apply mem_In in Hm. eauto.
  - exfalso.
    assert (Hdis : forall x, In x a -> ~ In x b).
    { intros x Hx Hxb. rewrite <- mem_In in Hxb.
      assert (existsb (fun x => mem x b) a = true) by (apply existsb_exists; eauto). congruence. }
    assert (Hnd : NoDup (a ++ b)).
    { clear -Ha Hb Hdis. induction a as [|x a IH]; simpl; [exact Hb|].
      inversion Ha; subst. constructor.
      - rewrite in_app_iff. intros [H|H]; [contradiction|]. apply (Hdis x); simpl; auto.
      - apply IH; auto. intros y Hy. apply Hdis. simpl; auto. }
    assert (Hin : incl (a ++ b) vs) by (apply incl_app; assumption).
    pose proof (NoDup_incl_length Hnd Hin) as Hl. rewrite app_length in Hl. lia.
Qed.

Theorem quorum_intersection : forall (vs a b : list N),
  NoDup a -> NoDup b -> incl a vs -> incl b vs ->
  quorum (nlen vs) <= nlen a -> quorum (nlen vs) <= nlen b ->
  exists x, In x a /\ In x b.
Proof.
  intros vs a b Ha Hb Ia Ib Qa Qb.
  apply (pigeon_share vs); auto.
  pose proof (quorum_gt_half (nlen vs)). unfold nlen in *. lia.
Qed.

(* the same when the second majority is counted in a voter list that differs by one member
   (single-step membership change: add or remove one voter) *)
Theorem quorum_intersection_step : forall (vs vs' a b : list N) (x : N),
  NoDup vs -> NoDup vs' -> NoDup a -> NoDup b ->
  incl a vs -> incl b vs' ->
  (incl vs' vs /\ length vs = S (length vs') \/ incl vs vs' /\ length vs' = S (length vs)) ->
  quorum (nlen vs) <= nlen a -> quorum (nlen vs') <= nlen b ->
  exists y, In y a /\ In y b.
Proof.
  intros vs vs' a b x Nv Nv' Ha Hb Ia Ib Hstep Qa Qb.
  pose proof (quorum_gt_half (nlen vs)) as G1. pose proof (quorum_gt_half (nlen vs')) as G2.
  unfold nlen in *.
  destruct Hstep as [[Hinc Hl]|[Hinc Hl]].
  - (* vs' ⊆ vs, one smaller *)
    apply (pigeon_share vs); auto.
    + intros y Hy. apply Hinc. apply Ib. exact Hy.
    + unfold quorum in *.
      pose proof (N.div_mod (N.of_nat (length vs)) 2 ltac:(lia)).
      pose proof (N.mod_lt (N.of_nat (length vs)) 2 ltac:(lia)).
      pose proof (N.div_mod (N.of_nat (length vs')) 2 ltac:(lia)).
      pose proof (N.mod_lt (N.of_nat (length vs')) 2 ltac:(lia)).
      lia.
  - apply (pigeon_share vs'); auto.
    + intros y Hy. apply Hinc. apply Ia. exact Hy.
    + unfold quorum in *.
      pose proof (N.div_mod (N.of_nat (length vs)) 2 ltac:(lia)).
      pose proof (N.mod_lt (N.of_nat (length vs)) 2 ltac:(lia)).
      pose proof (N.div_mod (N.of_nat (length vs')) 2 ltac:(lia)).
      pose proof (N.mod_lt (N.of_nat (length vs')) 2 ltac:(lia)).
      lia.
Qed.

(* ---------- the vote rule ---------- *)
Lemma learner_never_answers : forall vote lead from pv mterm term utd,
  vote_decision true vote lead from pv mterm term utd = None.
Proof. reflexivity. Qed.

(* once a real vote was cast for c1 (Vote = c1 <> None), a different candidate's MsgVote is refused *)
Lemma one_vote_per_term : forall c1 c2 lead mterm term utd,
  c1 <> none_id -> c2 <> c1 ->
  vote_decision false c1 lead c2 false mterm term utd = Some false.
Proof.
  intros c1 c2 lead mterm term utd H1 H2. unfold vote_decision, can_vote.
  replace (c1 =? c2) with false by (symmetry; apply N.eqb_neq; congruence).
  replace (c1 =? none_id) with false by (symmetry; apply N.eqb_neq; congruence).
  reflexivity.
Qed.

(* a vote is only granted to an up-to-date candidate *)
Lemma grant_needs_up_to_date : forall l vote lead from pv mterm term utd,
  vote_decision l vote lead from pv mterm term utd = Some true -> utd = true /\ l = false.
Proof.
  intros l vote lead from pv mterm term utd H. unfold vote_decision in H.
  destruct l; [discriminate|]. injection H as H1. apply andb_prop in H1. split; [tauto|reflexivity].
Qed.

(* ====================================================================================== *)
(* 2. limitSize *)
Lemma limit_loop_prefix : forall ents size max, exists k, limit_loop size max ents = firstn k ents.
Proof.
  induction ents as [|e r IH]; intros size max; simpl.
  - exists 0%nat. reflexivity.
  - destruct (max <? size + esz e).
    + exists 0%nat. reflexivity.
    + destruct (IH (size + esz e) max) as [k Hk]. exists (S k). simpl. rewrite Hk. reflexivity.
Qed.

Lemma limit_size_prefix : forall ents max, exists k, limit_size ents max = firstn k ents /\ (ents <> [] -> (0 < k)%nat).
Proof.
  intros [|e r] max; simpl.
  - exists 0%nat. split; [reflexivity|congruence].
  - destruct (limit_loop_prefix r (esz e) max) as [k Hk]. exists (S k). simpl. rewrite Hk. split; [reflexivity|lia].
Qed.

Lemma limit_loop_nolimit : forall ents size, (forall e, In e ents -> True) ->
  (size + fold_right (fun e a => esz e + a) 0 ents <= no_limit) -> limit_loop size no_limit ents = ents.
Proof.
  induction ents as [|e r IH]; intros size _ H; simpl in *; [reflexivity|].
  destruct (no_limit <? size + esz e) eqn:E.
  - apply N.ltb_lt in E. lia.
  - f_equal. apply IH; auto. lia.
Qed.

(* ====================================================================================== *)
(* 3. contiguous entry lists *)
Fixpoint contig (from : N) (es : list entry) : Prop :=
  match es with
  | [] => True
  | e :: r => eindex e = from /\ contig (from + 1) r
  end.

Lemma contig_app : forall a b from, contig from (a ++ b) <-> contig from a /\ contig (from + nlen a) b.
Proof.
  induction a as [|x a IH]; intros b from; simpl.
  - unfold nlen; simpl. replace (from + 0) with from by lia. tauto.
  - rewrite IH. unfold nlen; simpl length.
    replace (from + 1 + N.of_nat (length a)) with (from + N.of_nat (S (length a))) by lia. tauto.
Qed.

Lemma contig_nth : forall es from k e, contig from es -> nth_error es k = Some e -> eindex e = from + N.of_nat k.
Proof.
  induction es as [|x es IH]; intros from k e H Hn.
  - destruct k; discriminate.
  - destruct H as [Hx Hr]. destruct k; simpl in Hn.
    + inversion Hn; subst. lia.
    + rewrite (IH (from + 1) k e Hr Hn). lia.
Qed.

Lemma contig_firstn : forall es from k, contig from es -> contig from (firstn k es).
Proof.
  induction es as [|x es IH]; intros from k H; destruct k; simpl; auto.
  destruct H. split; auto.
Qed.

Lemma contig_skipn : forall es from k, contig from es -> contig (from + N.of_nat k) (skipn k es).
Proof.
  induction es as [|x es IH]; intros from k H; destruct k.
  - exact I.
  - exact I.
  - change (skipn 0 (x :: es)) with (x :: es). replace (from + N.of_nat 0) with from by lia. exact H.
  - change (skipn (S k) (x :: es)) with (skipn k es). destruct H as [_ H].
    replace (from + N.of_nat (S k)) with (from + 1 + N.of_nat k) by lia. apply IH. exact H.
Qed.

Lemma contig_filter_lt_nil : forall es f b, contig f es -> b <= f -> filter (fun e => eindex e <? b) es = [].
Proof.
  induction es as [|y es IH]; intros f b Hr Hb; simpl; [reflexivity|].
  destruct Hr as [Hy Hr']. replace (eindex y <? b) with false by (symmetry; apply N.ltb_ge; lia).
  apply (IH (f + 1)); [exact Hr'|lia].
Qed.

Lemma contig_filter_lt : forall es from b, contig from es ->
  filter (fun e => eindex e <? b) es = firstn (N.to_nat (b - from)) es.
Proof.
  induction es as [|x es IH]; intros from b H; simpl.
  - destruct (N.to_nat (b - from)); reflexivity.
  - destruct H as [Hx Hr]. destruct (eindex x <? b) eqn:E.
    + apply N.ltb_lt in E. replace (N.to_nat (b - from)) with (S (N.to_nat (b - (from + 1)))) by lia.
      simpl. f_equal. apply IH. exact Hr.
    + apply N.ltb_ge in E. replace (N.to_nat (b - from)) with 0%nat by lia. simpl.
      apply (contig_filter_lt_nil es (from + 1)); [exact Hr|lia].
Qed.

Lemma contig_filter_ge : forall es from b, contig from es ->
  filter (fun e => b <=? eindex e) es = skipn (N.to_nat (b - from)) es.
Proof.
  induction es as [|x es IH]; intros from b H; simpl.
  - destruct (N.to_nat (b - from)); reflexivity.
  - destruct H as [Hx Hr]. destruct (b <=? eindex x) eqn:E.
    + apply N.leb_le in E. replace (N.to_nat (b - from)) with 0%nat by lia. simpl. f_equal.
      rewrite (IH (from + 1) b Hr). replace (N.to_nat (b - (from + 1))) with 0%nat by lia. reflexivity.
    + apply N.leb_gt in E. replace (N.to_nat (b - from)) with (S (N.to_nat (b - (from + 1)))) by lia.
      simpl. apply IH. exact Hr.
Qed.

(* ====================================================================================== *)
(* 4. unstable: truncateAndAppend is list surgery; stableTo drops exactly a prefix *)
Definition wf_u (u : unstable) : Prop := contig (u_off u) (u_ents u).

Lemma goslice_full_prefix : forall {A} (l : list A) hi, hi <= nlen l -> goslice l 0 hi = Ok (nfirstn hi l).
Proof.
  intros A l hi H. unfold goslice. replace (0 <=? hi) with true by (symmetry; apply N.leb_le; lia).
  replace (hi <=? nlen l) with true by (symmetry; apply N.leb_le; lia). simpl.
  unfold nskipn. simpl. replace (hi - 0) with hi by lia. reflexivity.
Qed.

Theorem truncate_and_append_surgery : forall u ents after,
  wf_u u -> contig after ents -> ents <> [] -> after <= u_off u + nlen (u_ents u) ->
  exists u', u_truncate_and_append u ents = Ok u' /\
    u_ents u' = filter (fun e => eindex e <? after) (u_ents u) ++ ents /\
    u_off u' = N.min (u_off u) after /\ u_snap u' = u_snap u /\ wf_u u'.
Proof.
  intros u ents after Hu He Hne Hle. destruct ents as [|e0 r]; [congruence|].
  destruct He as [He0 Her]. unfold u_truncate_and_append. rewrite He0.
  unfold wf_u in *.
  rewrite (contig_filter_lt _ _ after Hu).
  destruct (after =? u_off u + nlen (u_ents u)) eqn:E1.
  - apply N.eqb_eq in E1. eexists. split; [reflexivity|]. simpl.
    split; [|split; [lia|split; [reflexivity|]]].
    + f_equal. rewrite firstn_all2; [reflexivity|]. unfold nlen in *. lia.
    + apply contig_app. split; [exact Hu|]. simpl. split; [lia|]. rewrite <- E1. exact Her.
  - apply N.eqb_neq in E1. destruct (after <=? u_off u) eqn:E2.
    + apply N.leb_le in E2. eexists. split; [reflexivity|]. simpl.
      split; [|split; [lia|split; [reflexivity|]]].
      * replace (N.to_nat (after - u_off u)) with 0%nat by lia. reflexivity.
      * split; [exact He0|exact Her].
    + apply N.leb_gt in E2. unfold u_slice.
      replace (after <? u_off u) with false by (symmetry; apply N.ltb_ge; lia).
      replace (u_off u <? u_off u) with false by (symmetry; apply N.ltb_ge; lia).
      replace (u_off u + nlen (u_ents u) <? after) with false by (symmetry; apply N.ltb_ge; lia).
      simpl. replace (u_off u - u_off u) with 0 by lia.
      rewrite goslice_full_prefix by lia. simpl.
      eexists. split; [reflexivity|]. simpl. split; [reflexivity|split; [lia|split; [reflexivity|]]].
      apply contig_app. split; [apply contig_firstn; exact Hu|].
      unfold nfirstn, nlen. rewrite firstn_length. simpl. split; [unfold nlen in *; lia|].
      replace (u_off u + N.of_nat (Nat.min (N.to_nat (after - u_off u)) (length (u_ents u))) + 1) with (after + 1)
        by (unfold nlen in *; lia).
      exact Her.
Qed.

Theorem stable_to_drops_prefix : forall u i t,
  wf_u u -> (forall si st, u_snap u = Some (si, st) -> si < u_off u) ->
  exists u', u_stable_to u i t = Ok u' /\
    (u' = u \/
     (u_off u <= i /\ nnth (i - u_off u) (u_ents u) <> None /\
      (forall e, nnth (i - u_off u) (u_ents u) = Some e -> eterm e = t) /\
      u_ents u' = filter (fun e => i <? eindex e) (u_ents u) /\ u_off u' = i + 1 /\ u_snap u' = u_snap u)) /\
    wf_u u'.
Proof.
  intros u i t Hu Hs. unfold u_stable_to, u_maybe_term.
  destruct (i <? u_off u) eqn:E1.
  - destruct (u_snap u) as [[si st]|]; simpl.
    + destruct (si =? i); simpl.
      * destruct ((st =? t) && (u_off u <=? i)) eqn:E2.
        { apply andb_prop in E2. destruct E2 as [_ E2]. apply N.leb_le in E2. apply N.ltb_lt in E1. lia. }
        eexists; split; [reflexivity|]; split; [left; reflexivity|exact Hu].
      * eexists; split; [reflexivity|]; split; [left; reflexivity|exact Hu].
    + eexists; split; [reflexivity|]; split; [left; reflexivity|exact Hu].
  - apply N.ltb_ge in E1. unfold u_maybe_last_index.
    destruct (u_ents u) as [|e0 r] eqn:Eu.
    + destruct (u_snap u) as [[si st]|] eqn:Es; simpl.
      * pose proof (Hs si st eq_refl). replace (si <? i) with true by (symmetry; apply N.ltb_lt; lia). simpl.
        eexists; split; [reflexivity|]; split; [left; reflexivity|]. unfold wf_u. rewrite Eu. exact I.
      * eexists; split; [reflexivity|]; split; [left; reflexivity|]. unfold wf_u. rewrite Eu. exact I.
    + rewrite <- Eu.
      destruct (u_off u + nlen (u_ents u) - 1 <? i) eqn:E2; simpl.
      * eexists; split; [reflexivity|]; split; [left; reflexivity|exact Hu].
      * apply N.ltb_ge in E2.
        assert (Hlen : (N.to_nat (i - u_off u) < length (u_ents u))%nat).
        { rewrite Eu in *. unfold nlen in *. simpl length in *. lia. }
        unfold nnth. destruct (nth_error (u_ents u) (N.to_nat (i - u_off u))) as [e|] eqn:En;
          [|apply nth_error_None in En; lia].
        simpl. destruct ((eterm e =? t) && (u_off u <=? i)) eqn:E3.
        -- apply andb_prop in E3. destruct E3 as [E3 _]. apply N.eqb_eq in E3.
           eexists; split; [reflexivity|]. split.
           ++ right. split; [exact E1|]. split; [congruence|]. split; [intros e' He'; injection He' as <-; exact E3|].
              simpl. split; [|split; reflexivity].
              unfold nskipn. unfold wf_u in Hu.
              assert (Hf : filter (fun e1 => i <? eindex e1) (u_ents u) = filter (fun e1 => (i + 1) <=? eindex e1) (u_ents u)).
              { apply filter_ext. intros a. destruct (i <? eindex a) eqn:A; destruct (i + 1 <=? eindex a) eqn:B; try reflexivity;
                  [apply N.ltb_lt in A; apply N.leb_gt in B; lia|apply N.ltb_ge in A; apply N.leb_le in B; lia]. }
              rewrite Hf. rewrite (contig_filter_ge _ _ (i + 1) Hu). reflexivity.
           ++ unfold wf_u. simpl. unfold nskipn. unfold wf_u in Hu.
              pose proof (contig_skipn _ _ (N.to_nat (i + 1 - u_off u)) Hu) as Hc.
              replace (u_off u + N.of_nat (N.to_nat (i + 1 - u_off u))) with (i + 1) in Hc by lia. exact Hc.
        -- eexists; split; [reflexivity|]; split; [left; reflexivity|exact Hu].
Qed.

(* ====================================================================================== *)
(* 5. MemoryStorage: Append is truncate-and-append on the abstract list (with the
      compacted-prefix shortcut); well-formedness is preserved *)
Definition wf_ms (s : mstore) : Prop :=
  exists d rest, ms_ents s = d :: rest /\ contig (eindex d + 1) rest.

Lemma wf_ms_contig : forall s d rest, ms_ents s = d :: rest -> contig (eindex d + 1) rest -> contig (eindex d) (ms_ents s).
Proof. intros s d rest E H. rewrite E. simpl. split; [reflexivity|exact H]. Qed.

Lemma nskipn_contig_head : forall es from k e r, contig from es -> nskipn k es = e :: r -> eindex e = from + k /\ k < nlen es.
Proof.
  intros es from k e r H E. unfold nskipn in E.
  assert (Hn : nth_error es (N.to_nat k) = Some e).
  { rewrite <- (firstn_skipn (N.to_nat k) es). rewrite E.
    destruct (Nat.le_gt_cases (length es) (N.to_nat k)) as [L|L].
    - rewrite skipn_all2 in E by exact L. discriminate.
    - rewrite nth_error_app2; rewrite firstn_length; [|lia].
      replace (N.to_nat k - Nat.min (N.to_nat k) (length es))%nat with 0%nat by lia. reflexivity. }
  split.
  - rewrite (contig_nth _ _ _ _ H Hn). lia.
  - assert (N.to_nat k < length es)%nat by (apply nth_error_Some; congruence). unfold nlen. lia.
Qed.

Theorem ms_append_spec : forall s e0 r,
  wf_ms s -> contig (eindex e0) (e0 :: r) ->
  forall off, ms_offset s = Ok off ->
  eindex e0 <= off + nlen (ms_ents s) ->           (* no gap: first new index <= last + 1 *)
  exists s', ms_append s (e0 :: r) = Ok s' /\ wf_ms s' /\ ms_snapi s' = ms_snapi s /\ ms_snapt s' = ms_snapt s /\
    ms_offset s' = Ok off /\
    (eindex e0 + nlen (e0 :: r) - 1 < off + 1 -> s' = s) /\
    (off + 1 <= eindex e0 + nlen (e0 :: r) - 1 ->
       ms_ents s' = filter (fun e => eindex e <? N.max (eindex e0) (off + 1)) (ms_ents s)
                    ++ filter (fun e => off + 1 <=? eindex e) (e0 :: r)).
Proof.
  intros s e0 r (d & rest & Es & Hc) He off Hoff Hgap.
  assert (Hd : eindex d = off). { unfold ms_offset in Hoff. rewrite Es in Hoff. congruence. }
  pose proof (wf_ms_contig s d rest Es Hc) as Hall. rewrite Hd in Hall.
  assert (Hn1 : 1 <= nlen (ms_ents s)) by (rewrite Es; unfold nlen; simpl; lia).
  unfold ms_append. unfold ms_first_index. rewrite Hoff. cbn [bind].
  set (ents := e0 :: r) in *.
  destruct (eindex e0 + nlen ents - 1 <? off + 1) eqn:E1.
  - apply N.ltb_lt in E1. exists s. split; [reflexivity|]. split; [exists d, rest; auto|].
    repeat split; auto. intros H. lia.
  - apply N.ltb_ge in E1.
    assert (Hif : (if eindex e0 <? off + 1 then nskipn (off + 1 - eindex e0) ents else ents) = nskipn (off + 1 - eindex e0) ents).
    { destruct (eindex e0 <? off + 1) eqn:E2; [reflexivity|].
      apply N.ltb_ge in E2. replace (off + 1 - eindex e0) with 0 by lia. reflexivity. }
    rewrite Hif. clear Hif.
    assert (Hf : filter (fun e => off + 1 <=? eindex e) ents = nskipn (off + 1 - eindex e0) ents).
    { unfold nskipn. apply contig_filter_ge. exact He. }
    destruct (nskipn (off + 1 - eindex e0) ents) as [|e1 r1] eqn:Hents'.
    + exfalso. unfold nskipn in Hents'.
      assert (length ents <= N.to_nat (off + 1 - eindex e0))%nat.
      { destruct (Nat.le_gt_cases (length ents) (N.to_nat (off + 1 - eindex e0))) as [L|L]; [assumption|].
        exfalso. assert (length (skipn (N.to_nat (off + 1 - eindex e0)) ents) > 0)%nat by (rewrite skipn_length; lia).
        rewrite Hents' in H. simpl in H. lia. }
      assert (Hl1 : (1 <= length ents)%nat) by (unfold ents; simpl; lia).
      unfold nlen in E1. lia.
    + destruct (nskipn_contig_head _ _ _ _ _ He Hents') as [Hi1 Hk].
      assert (Ha : eindex e1 = N.max (eindex e0) (off + 1)) by lia.
      try rewrite Hoff. cbn [bind].
      replace (eindex e1 <? off) with false by (symmetry; apply N.ltb_ge; lia).
      assert (Hc1 : contig (eindex e1) (e1 :: r1)).
      { rewrite <- Hents'. unfold nskipn. pose proof (contig_skipn _ _ (N.to_nat (off + 1 - eindex e0)) He) as Hs.
        replace (eindex e0 + N.of_nat (N.to_nat (off + 1 - eindex e0))) with (eindex e1) in Hs by lia. exact Hs. }
      destruct (eindex e1 - off <? nlen (ms_ents s)) eqn:E3.
      * eexists. split; [reflexivity|]. cbn [ms_snapi ms_snapt ms_ents].
        assert (Hfl : filter (fun e => eindex e <? N.max (eindex e0) (off + 1)) (ms_ents s) = nfirstn (eindex e1 - off) (ms_ents s)).
        { rewrite <- Ha. unfold nfirstn. apply contig_filter_lt. exact Hall. }
        split.
        { unfold wf_ms. cbn [ms_ents]. rewrite Es. unfold nfirstn.
          replace (N.to_nat (eindex e1 - off)) with (S (N.to_nat (eindex e1 - off - 1))) by lia.
          cbn [firstn app]. exists d, (firstn (N.to_nat (eindex e1 - off - 1)) rest ++ e1 :: r1). split; [reflexivity|].
          apply contig_app. split; [apply contig_firstn; exact Hc|].
          apply N.ltb_lt in E3. rewrite Es in E3. unfold nlen in *. cbn [length] in E3.
          rewrite firstn_length.
          replace (eindex d + 1 + N.of_nat (Nat.min (N.to_nat (eindex e1 - off - 1)) (length rest))) with (eindex e1) by lia.
          exact Hc1. }
        split; [reflexivity|]. split; [reflexivity|].
        split.
        { unfold ms_offset. cbn [ms_ents]. rewrite Es. unfold nfirstn.
          replace (N.to_nat (eindex e1 - off)) with (S (N.to_nat (eindex e1 - off - 1))) by lia.
          cbn [firstn app]. congruence. }
        split; [intros; lia|]. intros _. rewrite Hfl, Hf. reflexivity.
      * apply N.ltb_ge in E3.
        replace (nlen (ms_ents s) =? eindex e1 - off) with true by (symmetry; apply N.eqb_eq; lia).
        eexists. split; [reflexivity|]. cbn [ms_snapi ms_snapt ms_ents].
        assert (Hfl : filter (fun e => eindex e <? N.max (eindex e0) (off + 1)) (ms_ents s) = ms_ents s).
        { rewrite <- Ha. rewrite (contig_filter_lt _ _ (eindex e1) Hall). apply firstn_all2. unfold nlen in *. lia. }
        split.
        { unfold wf_ms. cbn [ms_ents]. rewrite Es. cbn [app]. exists d, (rest ++ e1 :: r1). split; [reflexivity|].
          apply contig_app. split; [exact Hc|]. rewrite Es in E3, Hgap. unfold nlen in *. cbn [length] in *.
          replace (eindex d + 1 + N.of_nat (length rest)) with (eindex e1) by lia. exact Hc1. }
        split; [reflexivity|]. split; [reflexivity|].
        split; [unfold ms_offset; cbn [ms_ents]; rewrite Es; cbn [app]; congruence|].
        split; [intros; lia|]. intros _. rewrite Hfl, Hf. reflexivity.
Qed.
