(* Raft/ProofsStore.v — RocksStorage: the cached first/last index equal the recomputed values after
   every operation, for all op sequences (the engine is modelled as an ordered map index -> entry). *)
From Coq Require Import List NArith PeanoNat Bool Lia ZifyN ZifyNat ZifyBool Permutation.
Import ListNotations.
From ZV Require Import Raft.Consts Raft.Model Raft.Proofs Raft.ProofsLog.
Open Scope N_scope.
Arguments N.mul : simpl never.
Arguments N.add : simpl never.
Arguments N.sub : simpl never.
Arguments N.div : simpl never.

(* ====================================================================================== *)
(* 8. RocksStorage: the cached first / last index always equal the recomputed values *)
Fixpoint incr (es : list entry) : Prop :=
  match es with
  | [] => True
  | e :: r => (forall x, In x r -> eindex e < eindex x) /\ incr r
  end.

Lemma incr_filter : forall f es, incr es -> incr (filter f es).
Proof.
  induction es as [|e r IH]; intros H; simpl; [exact I|]. destruct H as [H1 H2].
  destruct (f e); [|apply IH; exact H2]. simpl. split; [|apply IH; exact H2].
  intros x Hx. apply filter_In in Hx. apply H1. tauto.
Qed.


Lemma db_put_spec : forall e db, incr db ->
  incr (db_put e db) /\ In e (db_put e db) /\
  (forall x, In x (db_put e db) -> x = e \/ (In x db /\ eindex x <> eindex e)) /\
  (forall x, In x db -> eindex x <> eindex e -> In x (db_put e db)).
Proof.
  induction db as [|y r IH]; intros H; simpl.
  - split; [split; [intros x []|exact I]|]. split; [left; reflexivity|]. split.
    + intros x [<-|[]]. left; reflexivity.
    + intros x [].
  - destruct H as [H1 H2]. destruct (eindex e <? eindex y) eqn:E1.
    + apply N.ltb_lt in E1. split.
      { simpl. split; [|split; assumption]. intros x [<-|Hx]; [exact E1|]. pose proof (H1 x Hx). lia. }
      split; [left; reflexivity|]. split.
      * intros x [<-|[<-|Hx]]; [left; reflexivity|right; split; [left; reflexivity|lia]|].
        right. split; [right; exact Hx|]. pose proof (H1 x Hx). lia.
      * intros x Hx _. right. exact Hx.
    + apply N.ltb_ge in E1. destruct (eindex e =? eindex y) eqn:E2.
      * apply N.eqb_eq in E2. split.
        { simpl. split; [|exact H2]. intros x Hx. rewrite E2. apply H1. exact Hx. }
        split; [left; reflexivity|]. split.
        -- intros x [<-|Hx]; [left; reflexivity|]. right. split; [right; exact Hx|]. pose proof (H1 x Hx). lia.
        -- intros x [<-|Hx] Hne; [congruence|]. right. exact Hx.
      * apply N.eqb_neq in E2. destruct (IH H2) as (I1 & I2 & I3 & I4). split.
        { simpl. split; [|exact I1]. intros x Hx. destruct (I3 x Hx) as [->|[Hx' _]]; [lia|apply H1; exact Hx']. }
        split; [right; exact I2|]. split.
        -- intros x [<-|Hx]; [right; split; [left; reflexivity|lia]|].
           destruct (I3 x Hx) as [->|[Hx' Hn]]; [left; reflexivity|right; split; [right; exact Hx'|exact Hn]].
        -- intros x [<-|Hx] Hne; [left; reflexivity|]. right. apply I4; assumption.
Qed.

Lemma last_opt_cons : forall {A} (x y : A) (l : list A), last_opt (x :: y :: l) = last_opt (y :: l).
Proof. intros. reflexivity. Qed.

Lemma last_opt_In : forall {A} (l : list A) e, last_opt l = Some e -> In e l.
Proof.
  induction l as [|x l IH]; intros e H; [discriminate|].
  destruct l as [|y l']; [simpl in H; injection H as <-; left; reflexivity|].
  right. apply IH. exact H.
Qed.

Lemma last_opt_max : forall db e, incr db -> last_opt db = Some e -> forall x, In x db -> eindex x <= eindex e.
Proof.
  induction db as [|y r IH]; intros e H Hl x Hx; [destruct Hx|].
  destruct H as [H1 H2]. destruct r as [|z r'].
  - simpl in Hl. injection Hl as <-. destruct Hx as [<-|[]]. lia.
  - rewrite last_opt_cons in Hl. destruct Hx as [<-|Hx].
    + pose proof (H1 e (last_opt_In _ _ Hl)). lia.
    + apply (IH e H2 Hl x Hx).
Qed.

Lemma last_opt_of_max : forall db e, incr db -> In e db -> (forall x, In x db -> eindex x <= eindex e) -> last_opt db = Some e.
Proof.
  induction db as [|y r IH]; intros e H Hin Hmax; [destruct Hin|].
  destruct H as [H1 H2]. destruct r as [|z r'].
  - destruct Hin as [<-|[]]. reflexivity.
  - rewrite last_opt_cons. apply IH; [exact H2| |intros x Hx; apply Hmax; right; exact Hx].
    destruct Hin as [<-|Hin]; [|exact Hin]. exfalso.
    pose proof (H1 z (or_introl eq_refl)). pose proof (Hmax z (or_intror (or_introl eq_refl))). lia.
Qed.

Lemma last_opt_filter : forall (f : entry -> bool) (db : list entry) (e : entry), last_opt db = Some e -> f e = true -> last_opt (filter f db) = Some e.
Proof.
  induction db as [|y r IH]; intros e H Hf; [discriminate|].
  destruct r as [|z r'].
  - simpl in H. injection H as <-. simpl. rewrite Hf. reflexivity.
  - rewrite last_opt_cons in H. specialize (IH e H Hf). simpl in *. destruct (f y); [|exact IH].
    destruct (f z); [|].
    + rewrite last_opt_cons. exact IH.
    + destruct (filter f r') eqn:Ef; [discriminate|]. rewrite last_opt_cons. exact IH.
Qed.

Lemma last_opt_app : forall {A} (l : list A) x, last_opt (l ++ [x]) = Some x.
Proof.
  induction l as [|y l IH]; intros x; [reflexivity|]. simpl app.
  destruct (l ++ [x]) eqn:E; [destruct l; discriminate|]. rewrite last_opt_cons. rewrite <- E. apply IH.
Qed.

Lemma last_opt_split : forall {A} (l : list A) e, last_opt l = Some e -> exists pre, l = pre ++ [e].
Proof.
  induction l as [|x l IH]; intros e H; [discriminate|].
  destruct l as [|y l'].
  - simpl in H. injection H as <-. exists []. reflexivity.
  - rewrite last_opt_cons in H. destruct (IH e H) as [pre Hp]. exists (x :: pre). simpl. congruence.
Qed.

Definition puts (es : list entry) (db : list entry) : list entry := fold_left (fun db e => db_put e db) es db.

Lemma puts_spec : forall es db, incr db ->
  incr (puts es db) /\ (forall x, In x (puts es db) -> In x es \/ In x db) /\
  (forall x, In x db -> (forall e, In e es -> eindex x <> eindex e) -> In x (puts es db)).
Proof.
  induction es as [|e r IH]; intros db H; simpl.
  - split; [exact H|]. split; [intros x Hx; right; exact Hx|intros x Hx _; exact Hx].
  - destruct (db_put_spec e db H) as (P1 & P2 & P3 & P4).
    destruct (IH (db_put e db) P1) as (I1 & I2 & I3). split; [exact I1|]. split.
    + intros x Hx. destruct (I2 x Hx) as [Hr|Hp]; [left; right; exact Hr|].
      destruct (P3 x Hp) as [->|[Hd _]]; [left; left; reflexivity|right; exact Hd].
    + intros x Hx Hne. apply I3.
      * apply P4; [exact Hx|]. apply Hne. left; reflexivity.
      * intros e' He'. apply Hne. right; exact He'.
Qed.

Lemma puts_last_In : forall pre le db, incr db -> In le (puts (pre ++ [le]) db).
Proof.
  intros pre le db H. unfold puts. rewrite fold_left_app. simpl.
  destruct (puts_spec pre db H) as (I1 & _). destruct (db_put_spec le _ I1) as (_ & P2 & _). exact P2.
Qed.

Definition rs_inv (s : rstore) : Prop :=
  incr (rs_db s) /\ rs_db s <> [] /\
  (rs_fc s = 0 \/ exists e0 r, rs_db s = e0 :: r /\ rs_fc s = eindex e0 + 1 /\ (rs_snapi s <> 0 -> eindex e0 <= rs_snapi s)) /\
  (rs_lc s = 0 \/ exists e, last_opt (rs_db s) = Some e /\ rs_lc s = eindex e).

(* what FirstIndex / LastIndex must return: recomputed from the snapshot meta and the key space *)
Definition recomputed_first (s : rstore) : option N :=
  if negb (rs_snapi s =? 0) then Some (rs_snapi s + 1)
  else match rs_db s with e0 :: _ => Some (eindex e0 + 1) | [] => None end.
Definition recomputed_last (s : rstore) : option N :=
  match last_opt (rs_db s) with Some e => Some (eindex e) | None => None end.

Lemma last_opt_nonempty : forall {A} (l : list A), l <> [] -> exists e, last_opt l = Some e.
Proof.
  induction l as [|x l IH]; intros H; [congruence|]. destruct l as [|y l']; [exists x; reflexivity|].
  destruct (IH ltac:(discriminate)) as [e He]. exists e. rewrite last_opt_cons. exact He.
Qed.

Lemma rs_inv_new : rs_inv rs_new.
Proof.
  unfold rs_inv, rs_new. cbn. split; [split; [intros x []|exact I]|]. split; [discriminate|]. split; left; reflexivity.
Qed.

Lemma rs_first_index_inv : forall s, rs_inv s ->
  exists v s', rs_first_index s = Ok (v, s') /\ rs_inv s' /\ recomputed_first s = Some v /\
    rs_db s' = rs_db s /\ rs_snapi s' = rs_snapi s /\ rs_snapt s' = rs_snapt s /\ rs_lc s' = rs_lc s /\
    (rs_snapi s = 0 -> exists e0 r, rs_db s = e0 :: r /\ v = eindex e0 + 1) /\
    (rs_snapi s <> 0 -> v = rs_snapi s + 1 /\ s' = s).
Proof.
  intros s (H1 & H2 & H3 & H4). unfold rs_first_index, recomputed_first.
  destruct (rs_snapi s =? 0) eqn:Es; cbn [negb].
  - apply N.eqb_eq in Es. destruct (rs_fc s =? 0) eqn:Ef; cbn [negb].
    + destruct (rs_db s) as [|e0 r] eqn:Ed; [congruence|]. cbn [db_seek find]. replace (0 <=? eindex e0) with true by (symmetry; apply N.leb_le; lia).
      eexists _, _. split; [reflexivity|]. split.
      { unfold rs_inv. cbn [rs_db rs_fc rs_lc rs_snapi]. split; [exact H1|]. split; [discriminate|]. split.
        - right. exists e0, r. split; [reflexivity|]. split; [reflexivity|]. intros; congruence.
        - exact H4. }
      cbn [rs_db rs_snapi rs_snapt rs_lc]. repeat split; auto; try congruence. exists e0, r. split; reflexivity.
    + apply N.eqb_neq in Ef. destruct H3 as [H3|(e0 & r & Hd & Hf & Hs)]; [congruence|].
      eexists _, _. split; [reflexivity|]. split; [unfold rs_inv; repeat split; auto; right; exists e0, r; auto|].
      rewrite Hd. split; [congruence|]. repeat split; auto; try congruence. exists e0, r. split; [reflexivity|exact Hf].
  - apply N.eqb_neq in Es. eexists _, _. split; [reflexivity|]. split; [unfold rs_inv; auto|].
    repeat split; auto; congruence.
Qed.

Lemma rs_last_index_inv : forall s, rs_inv s ->
  exists v s', rs_last_index s = Ok (v, s') /\ rs_inv s' /\ recomputed_last s = Some v /\
    rs_db s' = rs_db s /\ rs_snapi s' = rs_snapi s /\ rs_snapt s' = rs_snapt s /\ rs_fc s' = rs_fc s /\
    exists e, last_opt (rs_db s) = Some e /\ v = eindex e.
Proof.
  intros s (H1 & H2 & H3 & H4). unfold rs_last_index, recomputed_last.
  destruct (last_opt_nonempty _ H2) as [e He].
  destruct (rs_lc s =? 0) eqn:El; cbn [negb].
  - unfold db_last. rewrite He. eexists _, _. split; [reflexivity|]. split.
    { unfold rs_inv. cbn [rs_db rs_fc rs_lc rs_snapi]. repeat split; auto. right. exists e. auto. }
    cbn [rs_db rs_snapi rs_snapt rs_fc]. repeat split; auto. exists e. auto.
  - apply N.eqb_neq in El. destruct H4 as [H4|(e' & He' & Hl)]; [congruence|].
    rewrite He in He'. injection He' as <-.
    eexists _, _. split; [reflexivity|]. split; [unfold rs_inv; repeat split; auto; right; exists e; auto|].
    rewrite He. split; [congruence|]. repeat split; auto. exists e. auto.
Qed.

Lemma rs_apply_snapshot_inv : forall s si st s', rs_inv s -> rs_apply_snapshot s si st = Ok s' -> rs_inv s'.
Proof.
  intros s si st s' (H1 & H2 & H3 & H4) H. unfold rs_apply_snapshot in H.
  destruct (si <=? rs_snapi s); [discriminate|]. injection H as <-.
  unfold rs_inv. cbn [rs_db rs_fc rs_lc rs_snapi].
  destruct (db_put_spec (mkE st si 0 0) (rs_db s) H1) as (P1 & P2 & _).
  split; [apply incr_filter; exact P1|]. split.
  - intros Hn. assert (In (mkE st si 0 0) (db_del_below si (db_put (mkE st si 0 0) (rs_db s)))).
    { unfold db_del_below. apply filter_In. split; [exact P2|]. cbn. apply N.leb_le. lia. }
    rewrite Hn in H. destruct H.
  - split; left; reflexivity.
Qed.

Lemma find_some_index : forall i db e, db_seek i db = Some e -> In e db /\ i <= eindex e.
Proof.
  intros i db e H. unfold db_seek in H. apply find_some in H. destruct H as [H1 H2]. apply N.leb_le in H2. auto.
Qed.

Lemma rs_create_snapshot_inv : forall s i s', rs_inv s -> rs_create_snapshot s i = Ok s' -> rs_inv s'.
Proof.
  intros s i s' Hinv H. unfold rs_create_snapshot in H.
  destruct (rs_first_index_inv s Hinv) as (v & s1 & Hf & Hinv1 & _ & Hdb & Hsi & Hst & Hlc & Hv0 & Hv1).
  rewrite Hf in H. cbn [bind] in H.
  destruct (i <? v) eqn:E1; [discriminate|]. apply N.ltb_ge in E1.
  destruct (db_seek i (rs_db s1)) as [e|] eqn:Es; [|discriminate].
  destruct (eindex e =? i) eqn:E2; [|discriminate]. injection H as <-.
  destruct Hinv1 as (I1 & I2 & I3 & I4). unfold rs_inv. cbn [rs_db rs_fc rs_lc rs_snapi].
  split; [exact I1|]. split; [exact I2|]. split; [|exact I4].
  destruct I3 as [I3|(e0 & r & Hd & Hfc & Hsn)]; [left; exact I3|]. right. exists e0, r. split; [exact Hd|]. split; [exact Hfc|].
  intros _. destruct (N.eq_dec (rs_snapi s) 0) as [Z|NZ].
  - destruct (Hv0 Z) as (e0' & r' & Hd' & Hv). rewrite <- Hdb in Hd'. rewrite Hd in Hd'. injection Hd' as <- <-. lia.
  - destruct (Hv1 NZ) as [Hv _]. rewrite Hsi in Hsn. specialize (Hsn NZ). lia.
Qed.

Lemma rs_compact_inv : forall s ci s', rs_inv s -> rs_compact s ci = Ok s' -> rs_inv s'.
Proof.
  intros s ci s' Hinv H. unfold rs_compact in H.
  destruct (db_seek 0 (rs_db s)) as [e0|] eqn:E0; [|discriminate].
  destruct (ci <=? eindex e0); [discriminate|].
  destruct (rs_last_index_inv s Hinv) as (v & s1 & Hl & Hinv1 & _ & Hdb & Hsi & Hst & Hfc & e & He & Hv).
  rewrite Hl in H. cbn [bind] in H. destruct (v <? ci) eqn:E1; [discriminate|]. apply N.ltb_ge in E1.
  injection H as <-. destruct Hinv1 as (I1 & I2 & I3 & I4). unfold rs_inv. cbn [rs_db rs_fc rs_lc rs_snapi].
  assert (Hlast : last_opt (db_del_below ci (rs_db s1)) = Some e).
  { unfold db_del_below. apply last_opt_filter; [rewrite Hdb; exact He|]. apply N.leb_le. lia. }
  split; [apply incr_filter; exact I1|]. split.
  - intros Hn. rewrite Hn in Hlast. discriminate.
  - split; [left; reflexivity|]. destruct I4 as [I4|(e' & He' & Hlc)]; [left; exact I4|].
    right. exists e. split; [exact Hlast|]. rewrite Hdb in He'. rewrite He in He'. injection He' as <-. exact Hlc.
Qed.

Lemma puts_head : forall es h t, (forall e, In e es -> eindex h < eindex e) -> exists t', puts es (h :: t) = h :: t'.
Proof.
  induction es as [|e r IH]; intros h t H; [exists t; reflexivity|]. simpl.
  pose proof (H e (or_introl eq_refl)) as He.
  replace (eindex e <? eindex h) with false by (symmetry; apply N.ltb_ge; lia).
  replace (eindex e =? eindex h) with false by (symmetry; apply N.eqb_neq; lia).
  apply IH. intros x Hx. apply H. right. exact Hx.
Qed.

Lemma rs_append_inv : forall s e0 r s', rs_inv s -> contig (eindex e0) (e0 :: r) ->
  rs_append s (e0 :: r) = Ok s' -> rs_inv s'.
Proof.
  intros s e0 r s' Hinv Hc H. unfold rs_append in H.
  set (entries := e0 :: r) in *.
  destruct (rs_first_index_inv s Hinv) as (first & s1 & Hf & Hinv1 & _ & Hdb1 & Hsi1 & Hst1 & Hlc1 & Hv0 & Hv1).
  rewrite Hf in H. cbn [bind] in H.
  destruct (eindex e0 + nlen entries - 1 <? first) eqn:E1.
  { injection H as <-. exact Hinv1. }
  apply N.ltb_ge in E1.
  destruct (rs_last_index_inv s1 Hinv1) as (lasti & s2 & Hl & Hinv2 & _ & Hdb2 & Hsi2 & Hst2 & Hfc2 & el & Hel & Hlv).
  rewrite Hl in H. cbn [bind] in H.
  (* the entries actually written: those at or above the first index *)
  assert (Hif : (if eindex e0 <? first then nskipn (first - eindex e0) entries else entries) = filter (fun e => first <=? eindex e) entries).
  { rewrite (contig_filter_ge _ _ first Hc). destruct (eindex e0 <? first) eqn:E2; [reflexivity|].
    apply N.ltb_ge in E2. replace (N.to_nat (first - eindex e0)) with 0%nat by lia. reflexivity. }
  rewrite Hif in H. clear Hif. set (entries' := filter (fun e => first <=? eindex e) entries) in *.
  destruct (contig_last_index _ _ Hc ltac:(discriminate)) as (la & Hla & Hlai). fold entries in Hla, Hlai.
  assert (Hla' : last_opt entries' = Some la).
  { apply last_opt_filter; [exact Hla|]. apply N.leb_le. lia. }
  rewrite Hla' in H. injection H as <-.
  destruct Hinv2 as (I1 & I2 & I3 & I4).
  fold (puts entries' (rs_db s2)) in *.
  destruct (puts_spec entries' (rs_db s2) I1) as (P1 & P2 & P3).
  destruct (last_opt_split _ _ Hla') as [pre Hpre].
  assert (Pla : In la (puts entries' (rs_db s2))) by (rewrite Hpre; apply puts_last_In; exact I1).
  assert (Hle_all : forall x, In x (puts entries' (rs_db s2)) -> eindex x <= eindex la \/ (In x (rs_db s2) /\ eindex x <= lasti)).
  { intros x Hx. destruct (P2 x Hx) as [He|Hd].
    - left. apply filter_In in He. destruct He as [He _]. pose proof (contig_in_le _ _ _ Hc He). fold entries in H. lia.
    - right. split; [exact Hd|]. rewrite Hdb2 in Hd. rewrite Hlv. apply (last_opt_max _ _ (proj1 Hinv1) Hel x Hd). }
  set (db2 := if eindex la <? lasti then db_del_from (eindex la + 1) (puts entries' (rs_db s2)) else puts entries' (rs_db s2)).
  assert (Hincr2 : incr db2). { unfold db2. destruct (eindex la <? lasti); [apply incr_filter|]; exact P1. }
  assert (Hin2 : In la db2).
  { unfold db2. destruct (eindex la <? lasti); [|exact Pla]. apply filter_In. split; [exact Pla|]. apply N.ltb_lt. lia. }
  assert (Hmax2 : forall x, In x db2 -> eindex x <= eindex la).
  { intros x Hx. unfold db2 in Hx. destruct (eindex la <? lasti) eqn:E3.
    - apply filter_In in Hx. destruct Hx as [_ Hx]. apply N.ltb_lt in Hx. lia.
    - apply N.ltb_ge in E3. destruct (Hle_all x Hx) as [L|[_ L]]; lia. }
  unfold rs_inv. cbn [rs_db rs_fc rs_lc rs_snapi]. fold db2.
  split; [exact Hincr2|]. split; [intros Hn; rewrite Hn in Hin2; destruct Hin2|]. split.
  - destruct I3 as [I3|(h & t & Hd & Hfc & Hsn)]; [left; exact I3|]. right.
    (* the head of the key space is below the first index and is not touched *)
    assert (Hhf : eindex h < first).
    { destruct (N.eq_dec (rs_snapi s) 0) as [Z|NZ].
      - destruct (Hv0 Z) as (h' & t' & Hd' & Hv). rewrite <- Hdb1, <- Hdb2 in Hd'. rewrite Hd in Hd'. injection Hd' as <- <-. lia.
      - destruct (Hv1 NZ) as [Hv _]. rewrite Hsi2, Hsi1 in Hsn. specialize (Hsn NZ). lia. }
    destruct (puts_head entries' h t) as [t' Ht'].
    { intros e He. apply filter_In in He. destruct He as [_ He]. apply N.leb_le in He. lia. }
    exists h. unfold db2. rewrite Hd, Ht'. destruct (eindex la <? lasti).
    + unfold db_del_from. simpl. replace (eindex h <? eindex la + 1) with true by (symmetry; apply N.ltb_lt; lia).
      eexists. split; [reflexivity|]. split; [exact Hfc|exact Hsn].
    + exists t'. split; [reflexivity|]. split; [exact Hfc|exact Hsn].
  - right. exists la. split; [|reflexivity]. apply last_opt_of_max; assumption.
Qed.

(* ---------- all op sequences ---------- *)
Inductive rop :=
| RFirst | RLast | RTerm (i : N) | REntries (lo hi max : N)
| RApplySnap (si st : N) | RCreateSnap (i : N) | RCompact (i : N) | RAppend (es : list entry)
| RReopen.   (* process restart: a fresh RocksStorage object over the same engine *)

Definition rop_ok (o : rop) : Prop :=
  match o with
  | RAppend (e0 :: r) => contig (eindex e0) (e0 :: r)    (* raft appends contiguous entries *)
  | _ => True
  end.

(* an op that fails leaves the storage as it was (up to the caches filled on the way, which the
   successful prefix of the op keeps: FirstIndex/LastIndex results are threaded) *)
Definition rs_step (s : rstore) (o : rop) : rstore :=
  match o with
  | RFirst => match rs_first_index s with Ok (_, s') => s' | _ => s end
  | RLast => match rs_last_index s with Ok (_, s') => s' | _ => s end
  | RTerm i => match rs_term s i with Ok (_, s') => s' | _ => s end
  | REntries lo hi max => match rs_entries s lo hi max with Ok (_, s') => s' | _ => s end
  | RApplySnap si st => match rs_apply_snapshot s si st with Ok s' => s' | _ => s end
  | RCreateSnap i => match rs_create_snapshot s i with Ok s' => s' | _ => s end
  | RCompact i => match rs_compact s i with Ok s' => s' | _ => s end
  | RAppend es => match rs_append s es with Ok s' => s' | _ => s end
  | RReopen => rs_reopen s
  end.

Lemma rs_step_inv : forall s o, rs_inv s -> rop_ok o -> rs_inv (rs_step s o).
Proof.
  intros s o Hinv Hok. destruct o; cbn [rs_step].
  - destruct (rs_first_index_inv s Hinv) as (v & s1 & Hf & Hinv1 & _). rewrite Hf. exact Hinv1.
  - destruct (rs_last_index_inv s Hinv) as (v & s1 & Hf & Hinv1 & _). rewrite Hf. exact Hinv1.
  - unfold rs_term. destruct (rs_first_index_inv s Hinv) as (v & s1 & Hf & Hinv1 & _). rewrite Hf. cbn [bind].
    destruct (i <? v - 1); [exact Hinv|]. destruct (db_seek i (rs_db s1)) as [e|]; [|exact Hinv].
    destruct (i <? eindex e); [exact Hinv|exact Hinv1].
  - unfold rs_entries. destruct (rs_first_index_inv s Hinv) as (v & s1 & Hf & Hinv1 & _). rewrite Hf. cbn [bind].
    destruct (lo <? v); [exact Hinv|].
    destruct (rs_last_index_inv s1 Hinv1) as (v2 & s2 & Hl & Hinv2 & _). rewrite Hl. cbn [bind].
    destruct (v2 + 1 <? hi); [exact Hinv|exact Hinv2].
  - destruct (rs_apply_snapshot s si st) as [s'| |] eqn:E; try exact Hinv. apply (rs_apply_snapshot_inv _ _ _ _ Hinv E).
  - destruct (rs_create_snapshot s i) as [s'| |] eqn:E; try exact Hinv. apply (rs_create_snapshot_inv _ _ _ Hinv E).
  - destruct (rs_compact s i) as [s'| |] eqn:E; try exact Hinv. apply (rs_compact_inv _ _ _ Hinv E).
  - destruct es as [|e0 r]; [cbn; exact Hinv|].
    destruct (rs_append s (e0 :: r)) as [s'| |] eqn:E; try exact Hinv. apply (rs_append_inv _ _ _ _ Hinv Hok E).
  - destruct Hinv as (H1 & H2 & _). unfold rs_inv, rs_reopen. cbn. split; [exact H1|]. split; [exact H2|]. split; left; reflexivity.
Qed.

Theorem rs_cache_invariant : forall ops, Forall rop_ok ops -> rs_inv (fold_left rs_step ops rs_new).
Proof.
  intros ops H. assert (G : forall s, rs_inv s -> rs_inv (fold_left rs_step ops s)).
  { induction H as [|o ops Ho Hops IH]; intros s Hs; [exact Hs|]. simpl. apply IH. apply rs_step_inv; assumption. }
  apply G. exact rs_inv_new.
Qed.

(* in every reachable state FirstIndex and LastIndex succeed and return the recomputed values,
   whatever the caches hold *)
Theorem rs_cached_indexes_correct : forall ops s, Forall rop_ok ops -> s = fold_left rs_step ops rs_new ->
  (exists v s', rs_first_index s = Ok (v, s') /\ recomputed_first s = Some v) /\
  (exists v s', rs_last_index s = Ok (v, s') /\ recomputed_last s = Some v).
Proof.
  intros ops s H ->. pose proof (rs_cache_invariant ops H) as Hinv. split.
  - destruct (rs_first_index_inv _ Hinv) as (v & s1 & Hf & _ & Hr & _). eauto.
  - destruct (rs_last_index_inv _ Hinv) as (v & s1 & Hf & _ & Hr & _). eauto.
Qed.

(* ====================================================================================== *)
(* 10. raft.maybeCommit's index selection: the chosen index is matched by a majority of the voters *)
Fixpoint asc (l : list N) : Prop :=
  match l with [] => True | x :: r => (forall y, In y r -> x <= y) /\ asc r end.

Lemma insert_sorted_perm : forall x l, Permutation (x :: l) (insert_sorted x l).
Proof.
  induction l as [|y r IH]; simpl; [apply Permutation_refl|].
  destruct (x <=? y); [apply Permutation_refl|].
  eapply perm_trans; [apply perm_swap|]. apply perm_skip. exact IH.
Qed.

Lemma insert_sorted_asc : forall x l, asc l -> asc (insert_sorted x l).
Proof.
  induction l as [|y r IH]; intros H; simpl.
  - split; [intros z []|exact I].
  - destruct H as [H1 H2]. destruct (x <=? y) eqn:E.
    + apply N.leb_le in E. simpl. split; [|split; assumption].
      intros z [<-|Hz]; [exact E|]. pose proof (H1 z Hz). lia.
    + apply N.leb_gt in E. simpl. split; [|apply IH; exact H2].
      intros z Hz. apply (Permutation_in _ (Permutation_sym (insert_sorted_perm x r))) in Hz.
      destruct Hz as [<-|Hz]; [lia|apply H1; exact Hz].
Qed.

Lemma sort_n_perm : forall l, Permutation l (sort_n l).
Proof.
  induction l as [|x r IH]; simpl; [constructor|].
  eapply perm_trans; [apply perm_skip; exact IH|]. apply insert_sorted_perm.
Qed.

Lemma sort_n_asc : forall l, asc (sort_n l).
Proof. induction l as [|x r IH]; simpl; [exact I|]. apply insert_sorted_asc. exact IH. Qed.

Lemma filter_length_perm : forall (f : N -> bool) l l', Permutation l l' -> length (filter f l) = length (filter f l').
Proof.
  intros f l l' H. induction H; simpl; auto.
  - destruct (f x); simpl; congruence.
  - destruct (f x); destruct (f y); simpl; reflexivity.
  - congruence.
Qed.

Lemma asc_tail_ge : forall s k c, asc s -> nth_error s k = Some c ->
  (length s - k <= length (filter (fun m => N.leb c m) s))%nat.
Proof.
  induction s as [|x r IH]; intros k c H Hn; [destruct k; discriminate|].
  destruct H as [H1 H2]. destruct k as [|k'].
  - simpl in Hn. injection Hn as <-. simpl. rewrite N.leb_refl. simpl.
    assert (Hall : filter (fun m => x <=? m) r = r).
    { clear -H1. induction r as [|y r IH]; simpl; [reflexivity|].
      replace (x <=? y) with true by (symmetry; apply N.leb_le; apply H1; left; reflexivity).
      f_equal. apply IH. intros z Hz. apply H1. right. exact Hz. }
    rewrite Hall. lia.
  - simpl in Hn. pose proof (IH k' c H2 Hn) as G. simpl. destruct (c <=? x); simpl; lia.
Qed.

Theorem commit_index_has_quorum : forall ms c, commit_index ms = Some c ->
  quorum (nlen ms) <= nlen (filter (fun m => c <=? m) ms) /\ In c ms.
Proof.
  intros ms c H. unfold commit_index, nnth in H.
  pose proof (sort_n_perm ms) as Hp. pose proof (sort_n_asc ms) as Ha.
  pose proof (asc_tail_ge _ _ _ Ha H) as G.
  rewrite <- (filter_length_perm _ _ _ Hp) in G.
  rewrite <- (Permutation_length Hp) in G.
  split.
  - assert (Hk : (N.to_nat (nlen ms - quorum (nlen ms)) < length (sort_n ms))%nat) by (apply nth_error_Some; congruence).
    rewrite <- (Permutation_length Hp) in Hk.
    unfold nlen in *. destruct ms as [|m0 mr]; [simpl in Hk; lia|].
    pose proof (quorum_le (N.of_nat (length (m0 :: mr))) ltac:(simpl; lia)). lia.
  - apply (Permutation_in _ (Permutation_sym Hp)). apply (nth_error_In _ _ H).
Qed.


(* ====================================================================================== *)
(* 12. MemoryStorage stays well formed under every op sequence; Term / Entries answer from the
       contiguous list with ErrCompacted / ErrUnavailable exactly outside it *)
Lemma ms_apply_snapshot_wf : forall s si st s', ms_apply_snapshot s si st = Ok s' -> wf_ms s' /\ ms_offset s' = Ok si.
Proof.
  intros s si st s' H. unfold ms_apply_snapshot in H. destruct (si <=? ms_snapi s); [discriminate|].
  injection H as <-. split; [|reflexivity]. exists (mkE st si 0 0), []. split; [reflexivity|exact I].
Qed.

Lemma ms_create_snapshot_wf : forall s i s', wf_ms s -> ms_create_snapshot s i = Ok s' -> wf_ms s' /\ ms_ents s' = ms_ents s.
Proof.
  intros s i s' Hw H. unfold ms_create_snapshot in H. destruct (i <=? ms_snapi s); [discriminate|].
  destruct (ms_offset s) as [off| |]; cbn [bind] in H; try discriminate.
  destruct (ms_last_index s) as [last| |]; cbn [bind] in H; try discriminate.
  destruct (last <? i); [discriminate|]. destruct (i <? off); [discriminate|].
  destruct (nnth (i - off) (ms_ents s)); [|discriminate]. injection H as <-. split; [exact Hw|reflexivity].
Qed.

Lemma ms_compact_wf : forall s ci s', wf_ms s -> ms_compact s ci = Ok s' -> wf_ms s' /\ ms_offset s' = Ok ci.
Proof.
  intros s ci s' Hw H. pose proof Hw as (d & rest & Es & Hc). unfold ms_compact in H.
  destruct (ms_offset s) as [off| |] eqn:Ho; cbn [bind] in H; try discriminate.
  pose proof (wf_ms_contig_off _ _ Hw Ho) as Hall.
  destruct (ci <=? off) eqn:E1; [discriminate|]. apply N.leb_gt in E1.
  destruct (ms_last_index s) as [last| |]; cbn [bind] in H; try discriminate.
  destruct (last <? ci); [discriminate|].
  destruct (nnth (ci - off) (ms_ents s)) as [e|] eqn:En; [|discriminate]. injection H as <-.
  unfold nnth in En. pose proof (contig_nth _ _ _ _ Hall En) as Hi.
  split.
  - exists (mkE (eterm e) (eindex e) 0 0), (nskipn (ci - off + 1) (ms_ents s)). split; [reflexivity|].
    cbn [eindex]. unfold nskipn. pose proof (contig_skipn _ _ (N.to_nat (ci - off + 1)) Hall) as X.
    replace (off + N.of_nat (N.to_nat (ci - off + 1))) with (eindex e + 1) in X by lia. exact X.
  - unfold ms_offset. cbn. f_equal. lia.
Qed.

Lemma ms_append_wf : forall s e0 r s', wf_ms s -> contig (eindex e0) (e0 :: r) -> ms_append s (e0 :: r) = Ok s' -> wf_ms s'.
Proof.
  intros s e0 r s' Hw Hc H. pose proof Hw as (d & rest & Es & Hcr).
  assert (Ho : ms_offset s = Ok (eindex d)) by (unfold ms_offset; rewrite Es; reflexivity).
  destruct (N.le_gt_cases (eindex e0) (eindex d + nlen (ms_ents s))) as [L|G].
  - destruct (ms_append_spec s e0 r Hw Hc (eindex d) Ho L) as (s'' & Ha & Hw'' & _). congruence.
  - (* a gap: Append panics *)
    exfalso. unfold ms_append in H. unfold ms_first_index in H. rewrite Ho in H. cbn [bind] in H.
    pose proof (wf_ms_len _ Hw) as Hl1.
    assert (Hn1 : 1 <= nlen (e0 :: r)) by (unfold nlen; simpl; lia).
    replace (eindex e0 + nlen (e0 :: r) - 1 <? eindex d + 1) with false in H by (symmetry; apply N.ltb_ge; lia).
    replace (eindex e0 <? eindex d + 1) with false in H by (symmetry; apply N.ltb_ge; lia).
    try rewrite Ho in H. cbn [bind] in H.
    replace (eindex e0 <? eindex d) with false in H by (symmetry; apply N.ltb_ge; lia).
    replace (eindex e0 - eindex d <? nlen (ms_ents s)) with false in H by (symmetry; apply N.ltb_ge; lia).
    replace (nlen (ms_ents s) =? eindex e0 - eindex d) with false in H by (symmetry; apply N.eqb_neq; lia).
    discriminate.
Qed.

Inductive mop :=
| MApplySnap (si st : N) | MCreateSnap (i : N) | MCompact (i : N) | MAppend (es : list entry).
Definition mop_ok (o : mop) : Prop :=
  match o with MAppend (e0 :: r) => contig (eindex e0) (e0 :: r) | _ => True end.
Definition ms_step (s : mstore) (o : mop) : mstore :=
  match o with
  | MApplySnap si st => match ms_apply_snapshot s si st with Ok s' => s' | _ => s end
  | MCreateSnap i => match ms_create_snapshot s i with Ok s' => s' | _ => s end
  | MCompact i => match ms_compact s i with Ok s' => s' | _ => s end
  | MAppend es => match ms_append s es with Ok s' => s' | _ => s end
  end.

Lemma wf_ms_new : wf_ms ms_new.
Proof. exists (mkE 0 0 0 0), []. split; [reflexivity|exact I]. Qed.

Theorem ms_wf_invariant : forall ops, Forall mop_ok ops -> wf_ms (fold_left ms_step ops ms_new).
Proof.
  intros ops H. assert (G : forall s, wf_ms s -> wf_ms (fold_left ms_step ops s)).
  { induction H as [|o ops Ho Hops IH]; intros s Hs; [exact Hs|]. simpl. apply IH.
    destruct o; cbn [ms_step].
    - destruct (ms_apply_snapshot s si st) eqn:E; try exact Hs. apply (ms_apply_snapshot_wf _ _ _ _ E).
    - destruct (ms_create_snapshot s i) eqn:E; try exact Hs. apply (ms_create_snapshot_wf _ _ _ Hs E).
    - destruct (ms_compact s i) eqn:E; try exact Hs. apply (ms_compact_wf _ _ _ Hs E).
    - destruct es as [|e0 r]; [exact Hs|]. destruct (ms_append s (e0 :: r)) eqn:E; try exact Hs.
      apply (ms_append_wf _ _ _ _ Hs Ho E). }
  apply G. exact wf_ms_new.
Qed.

(* Term: ErrCompacted below the dummy index, ErrUnavailable above the last index, otherwise the term
   of the entry stored at that index *)
Theorem ms_term_spec : forall s off i, wf_ms s -> ms_offset s = Ok off ->
  (i < off -> ms_term s i = Err ErrCompacted) /\
  (off + nlen (ms_ents s) <= i -> ms_term s i = Err ErrUnavailable) /\
  (off <= i -> i < off + nlen (ms_ents s) ->
     exists e, nnth (i - off) (ms_ents s) = Some e /\ eindex e = i /\ ms_term s i = Ok (eterm e)).
Proof.
  intros s off i Hw Ho. pose proof (wf_ms_contig_off _ _ Hw Ho) as Hall.
  unfold ms_term. rewrite Ho. cbn [bind]. split; [|split].
  - intros H. replace (i <? off) with true by (symmetry; apply N.ltb_lt; lia). reflexivity.
  - intros H. replace (i <? off) with false by (symmetry; apply N.ltb_ge; lia).
    replace (nlen (ms_ents s) <=? i - off) with true by (symmetry; apply N.leb_le; lia). reflexivity.
  - intros H1 H2. replace (i <? off) with false by (symmetry; apply N.ltb_ge; lia).
    replace (nlen (ms_ents s) <=? i - off) with false by (symmetry; apply N.leb_gt; lia).
    unfold nnth. destruct (nth_error (ms_ents s) (N.to_nat (i - off))) as [e|] eqn:En.
    + exists e. split; [reflexivity|]. split; [|reflexivity]. rewrite (contig_nth _ _ _ _ Hall En). lia.
    + exfalso. apply nth_error_None in En. unfold nlen in H2. lia.
Qed.

(* ====================================================================================== *)
(* 14. RocksStorage.Append is truncate-and-append on the ordered key space *)
Lemma incr_ext : forall l1 l2, incr l1 -> incr l2 -> (forall x, In x l1 <-> In x l2) -> l1 = l2.
Proof.
  induction l1 as [|a r1 IH]; intros l2 H1 H2 Hiff.
  - destruct l2 as [|b r2]; [reflexivity|]. exfalso. apply (Hiff b). left; reflexivity.
  - destruct l2 as [|b r2]; [exfalso; apply (Hiff a); left; reflexivity|].
    destruct H1 as [A1 A2]. destruct H2 as [B1 B2].
    assert (a = b).
    { pose proof (proj1 (Hiff a) (or_introl eq_refl)) as Ha. pose proof (proj2 (Hiff b) (or_introl eq_refl)) as Hb.
      destruct Ha as [Ha|Ha]; [congruence|]. destruct Hb as [Hb|Hb]; [congruence|].
      pose proof (B1 a Ha). pose proof (A1 b Hb). lia. }
    subst b. f_equal. apply IH; auto. intros x. split; intros Hx.
    + pose proof (proj1 (Hiff x) (or_intror Hx)) as G. destruct G as [<-|G]; [|exact G].
      exfalso. pose proof (A1 a Hx). lia.
    + pose proof (proj2 (Hiff x) (or_intror Hx)) as G. destruct G as [<-|G]; [|exact G].
      exfalso. pose proof (B1 a Hx). lia.
Qed.

Lemma contig_incr : forall es from, contig from es -> incr es.
Proof.
  induction es as [|e r IH]; intros from H; [exact I|]. destruct H as [He Hr]. split; [|apply (IH _ Hr)].
  intros x Hx. pose proof (contig_in_ge _ _ _ Hr Hx). lia.
Qed.

Lemma contig_index_inj : forall es from x y, contig from es -> In x es -> In y es -> eindex x = eindex y -> x = y.
Proof.
  intros es from x y H Hx Hy E. destruct (In_nth_error _ _ Hx) as [i Hi]. destruct (In_nth_error _ _ Hy) as [j Hj].
  pose proof (contig_nth _ _ _ _ H Hi). pose proof (contig_nth _ _ _ _ H Hj).
  assert (i = j) by lia. subst j. congruence.
Qed.

Lemma puts_In_contig : forall es from db x, incr db -> contig from es -> In x es -> In x (puts es db).
Proof.
  induction es as [|e r IH]; intros from db x Hdb Hc Hx; [destruct Hx|].
  destruct Hc as [He Hr]. simpl. destruct (db_put_spec e db Hdb) as (P1 & P2 & P3 & P4).
  destruct Hx as [<-|Hx].
  - destruct (puts_spec r (db_put e db) P1) as (_ & _ & I3). apply I3; [exact P2|].
    intros y Hy. pose proof (contig_in_ge _ _ _ Hr Hy). lia.
  - apply (IH (from + 1) (db_put e db) x P1 Hr Hx).
Qed.

Theorem rs_append_spec : forall s e0 r s', rs_inv s -> contig (eindex e0) (e0 :: r) ->
  rs_append s (e0 :: r) = Ok s' ->
  exists first, recomputed_first s = Some first /\ rs_snapi s' = rs_snapi s /\ rs_snapt s' = rs_snapt s /\
    (eindex e0 + nlen (e0 :: r) - 1 < first -> rs_db s' = rs_db s) /\
    (first <= eindex e0 + nlen (e0 :: r) - 1 ->
       rs_db s' = filter (fun e => eindex e <? N.max (eindex e0) first) (rs_db s)
                  ++ filter (fun e => first <=? eindex e) (e0 :: r)).
Proof.
  intros s e0 r s' Hinv Hc H. unfold rs_append in H.
  set (entries := e0 :: r) in *.
  destruct (rs_first_index_inv s Hinv) as (first & s1 & Hf & Hinv1 & Hrf & Hdb1 & Hsi1 & Hst1 & Hlc1 & Hv0 & Hv1).
  rewrite Hf in H. cbn [bind] in H. exists first. split; [exact Hrf|].
  destruct (eindex e0 + nlen entries - 1 <? first) eqn:E1.
  { injection H as <-. apply N.ltb_lt in E1. repeat split; auto. intros; lia. }
  apply N.ltb_ge in E1.
  destruct (rs_last_index_inv s1 Hinv1) as (lasti & s2 & Hl & Hinv2 & _ & Hdb2 & Hsi2 & Hst2 & Hfc2 & el & Hel & Hlv).
  rewrite Hl in H. cbn [bind] in H.
  assert (Hif : (if eindex e0 <? first then nskipn (first - eindex e0) entries else entries) = filter (fun e => first <=? eindex e) entries).
  { rewrite (contig_filter_ge _ _ first Hc). destruct (eindex e0 <? first) eqn:E2; [reflexivity|].
    apply N.ltb_ge in E2. replace (N.to_nat (first - eindex e0)) with 0%nat by lia. reflexivity. }
  rewrite Hif in H. clear Hif. set (entries' := filter (fun e => first <=? eindex e) entries) in *.
  destruct (contig_last_index _ _ Hc ltac:(discriminate)) as (la & Hla & Hlai). fold entries in Hla, Hlai.
  assert (Hla' : last_opt entries' = Some la) by (apply last_opt_filter; [exact Hla|apply N.leb_le; lia]).
  rewrite Hla' in H. injection H as <-. cbn [rs_snapi rs_snapt rs_db].
  split; [congruence|]. split; [congruence|]. split; [intros; lia|]. intros _.
  destruct Hinv2 as (I1 & I2 & I3 & I4). fold (puts entries' (rs_db s2)).
  destruct (puts_spec entries' (rs_db s2) I1) as (P1 & P2 & P3).
  (* entries' is the contiguous run starting at a := max(e0, first) *)
  set (a := N.max (eindex e0) first).
  assert (Hce : contig a entries').
  { unfold entries'. rewrite (contig_filter_ge _ _ first Hc).
    pose proof (contig_skipn _ _ (N.to_nat (first - eindex e0)) Hc) as X.
    replace (eindex e0 + N.of_nat (N.to_nat (first - eindex e0))) with a in X by (unfold a; lia). exact X. }
  assert (Hrange : forall x, In x entries' -> a <= eindex x /\ eindex x <= eindex la).
  { intros x Hx. split; [apply (contig_in_ge _ _ _ Hce Hx)|].
    apply filter_In in Hx. destruct Hx as [Hx _]. pose proof (contig_in_le _ _ _ Hc Hx). fold entries in H. lia. }
  assert (Hcover : forall i, a <= i -> i <= eindex la -> exists x, In x entries' /\ eindex x = i).
  { intros i Hi1 Hi2. assert (Hlen : eindex la = a + nlen entries' - 1).
    { destruct (contig_last_index _ _ Hce) as (la' & Hl' & Hi'); [intros Hn; rewrite Hn in Hla'; discriminate|]. congruence. }
    assert (Hne : 1 <= nlen entries'). { destruct entries'; [discriminate|]. unfold nlen; simpl; lia. }
    destruct (nth_error entries' (N.to_nat (i - a))) as [x|] eqn:En.
    - exists x. split; [apply (nth_error_In _ _ En)|]. rewrite (contig_nth _ _ _ _ Hce En). lia.
    - exfalso. apply nth_error_None in En. unfold nlen in *. lia. }
  rewrite Hdb2, Hdb1 in *.
  apply incr_ext.
  - destruct (eindex la <? lasti); [apply incr_filter|]; exact P1.
  - (* filter (< a) db ++ entries' is strictly increasing *)
    clear -Hinv Hce. destruct Hinv as (Hi & _). revert Hi. generalize (rs_db s). intros db Hi.
    induction db as [|y db IH]; simpl; [apply (contig_incr _ _ Hce)|].
    destruct Hi as [Y1 Y2]. destruct (eindex y <? a) eqn:E; [|].
    + apply N.ltb_lt in E. simpl. split; [|apply IH; exact Y2]. intros x Hx. apply in_app_or in Hx. destruct Hx as [Hx|Hx].
      * apply filter_In in Hx. apply Y1. tauto.
      * pose proof (contig_in_ge _ _ _ Hce Hx). lia.
    + apply IH. exact Y2.
  - intros x. rewrite in_app_iff. split.
    + intros Hx.
      assert (Hx1 : In x (puts entries' (rs_db s))).
      { destruct (eindex la <? lasti); [apply filter_In in Hx; tauto|exact Hx]. }
      destruct (P2 x Hx1) as [He|Hd]; [right; exact He|].
      destruct (N.lt_ge_cases (eindex x) a) as [L|G]; [left; apply filter_In; split; [exact Hd|apply N.ltb_lt; exact L]|].
      (* an old key at or above a: either overwritten (then x is the new entry) or deleted *)
      assert (Hxle : eindex x <= eindex la).
      { destruct (eindex la <? lasti) eqn:E3.
        - apply filter_In in Hx. destruct Hx as [_ Hx]. apply N.ltb_lt in Hx. lia.
        - apply N.ltb_ge in E3. pose proof (last_opt_max _ _ (proj1 Hinv) Hel x Hd). lia. }
      destruct (Hcover (eindex x) G Hxle) as (y & Hy & Hyi).
      right. (* x must be y: puts keeps one entry per index *)
      pose proof (puts_In_contig entries' a (rs_db s) y I1 Hce Hy) as Hy1.
      assert (x = y); [|congruence].
      clear -P1 Hx1 Hy1 Hyi. revert P1 Hx1 Hy1. generalize (puts entries' (rs_db s)). intros l Hl Hx Hy.
      induction l as [|z l IH]; [destruct Hx|]. destruct Hl as [Z1 Z2].
      destruct Hx as [<-|Hx]; destruct Hy as [<-|Hy]; auto.
      * pose proof (Z1 y Hy). lia.
      * pose proof (Z1 x Hx). lia.
    + intros [Hx|Hx].
      * apply filter_In in Hx. destruct Hx as [Hd Hlt]. apply N.ltb_lt in Hlt.
        assert (Hp : In x (puts entries' (rs_db s))).
        { apply P3; [exact Hd|]. intros e He. destruct (Hrange e He). lia. }
        destruct (eindex la <? lasti); [|exact Hp]. apply filter_In. split; [exact Hp|].
        apply N.ltb_lt. destruct (Hrange la (last_opt_In _ _ Hla')). lia.
      * pose proof (puts_In_contig entries' a (rs_db s) x I1 Hce Hx) as Hp.
        destruct (eindex la <? lasti); [|exact Hp]. apply filter_In. split; [exact Hp|].
        apply N.ltb_lt. destruct (Hrange x Hx). lia.
Qed.
