(* Raft/ProofsRocks.v — raftLog over RocksStorage behaves as raftLog over the MemoryStorage that holds the
   same entries: the concrete log theorems of ProofsLog.v carry over to RocksStorage-backed logs.

   1. storage level ("cache independence"): in a good RocksStorage state (the cache invariant rs_inv of
      ProofsStore.v + a contiguous key space that contains the snapshot index) FirstIndex / LastIndex / Term /
      Entries answer exactly what MemoryStorage answers on rs_view s — a function of the key space and the
      snapshot meta only, whatever the two cached indexes hold — and leave the view unchanged;
   2. log level: every raftLog query / update of Model.v commutes with to_mem (replace the storage by its
      view): sim (f l) (f (to_mem l));
   3. the theorems of ProofsLog.v restated for RocksStorage-backed logs. *)
From Coq Require Import List NArith PeanoNat Bool Lia ZifyN ZifyNat ZifyBool.
Import ListNotations.
From ZV Require Import Raft.Consts Raft.Model Raft.Proofs Raft.ProofsLog Raft.ProofsStore.
Open Scope N_scope.
Arguments N.mul : simpl never.
Arguments N.add : simpl never.
Arguments N.sub : simpl never.

(* ====================================================================================== *)
(* 1. storage level *)
Definition rs_head (s : rstore) : N := match rs_db s with h :: _ => eindex h | [] => 0 end.
(* the index of the dummy entry as FirstIndex sees it: the snapshot index if there is one, else the first key *)
Definition rs_off (s : rstore) : N := if negb (rs_snapi s =? 0) then rs_snapi s else rs_head s.
Definition rs_lastk (s : rstore) : N := rs_head s + nlen (rs_db s) - 1.
(* the MemoryStorage holding the same log: the keys from the dummy index on *)
Definition rs_view (s : rstore) : mstore :=
  mkMS (rs_snapi s) (rs_snapt s) (db_del_below (rs_off s) (rs_db s)).

Definition rs_good (s : rstore) : Prop :=
  rs_inv s /\ contig (rs_head s) (rs_db s) /\ rs_head s <= rs_off s /\ rs_off s <= rs_lastk s.

Lemma rs_good_nonempty : forall s, rs_good s -> 1 <= nlen (rs_db s).
Proof. intros s ((_ & H & _) & _). destruct (rs_db s); [congruence|]. unfold nlen. simpl. lia. Qed.

(* goodness and the view depend on the key space and the snapshot meta only *)
Lemma rs_good_transfer : forall s s', rs_good s -> rs_inv s' -> rs_db s' = rs_db s -> rs_snapi s' = rs_snapi s ->
  rs_good s'.
Proof.
  intros s s' (_ & H2 & H3 & H4) Hi Hd Hs. unfold rs_good, rs_off, rs_lastk, rs_head in *. rewrite Hd, Hs.
  split; [exact Hi|]. split; [exact H2|]. split; assumption.
Qed.
Lemma rs_view_transfer : forall s s', rs_db s' = rs_db s -> rs_snapi s' = rs_snapi s -> rs_snapt s' = rs_snapt s ->
  rs_view s' = rs_view s.
Proof. intros s s' Hd Hs Ht. unfold rs_view, rs_off, rs_head. rewrite Hd, Hs, Ht. reflexivity. Qed.

Theorem rs_view_cache_independent : forall si st db fc lc fc' lc',
  rs_view (mkRS si st db fc lc) = rs_view (mkRS si st db fc' lc').
Proof. reflexivity. Qed.

Lemma view_ents : forall s, rs_good s ->
  ms_ents (rs_view s) = nskipn (rs_off s - rs_head s) (rs_db s).
Proof.
  intros s (_ & Hc & _). unfold rs_view, db_del_below. cbn [ms_ents].
  apply (contig_filter_ge _ _ (rs_off s) Hc).
Qed.

Lemma view_contig : forall s, rs_good s -> contig (rs_off s) (ms_ents (rs_view s)).
Proof.
  intros s Hg. rewrite (view_ents s Hg). destruct Hg as (_ & Hc & H1 & _).
  pose proof (contig_skipn _ _ (N.to_nat (rs_off s - rs_head s)) Hc) as X.
  replace (rs_head s + N.of_nat (N.to_nat (rs_off s - rs_head s))) with (rs_off s) in X by lia. exact X.
Qed.

Lemma view_len : forall s, rs_good s -> rs_off s + nlen (ms_ents (rs_view s)) = rs_lastk s + 1.
Proof.
  intros s Hg. rewrite (view_ents s Hg). pose proof (rs_good_nonempty s Hg) as Hn.
  destruct Hg as (_ & _ & H1 & H2).
  unfold nskipn, nlen in *. rewrite skipn_length. unfold rs_lastk, nlen in *. lia.
Qed.

Lemma view_wf : forall s, rs_good s -> wf_ms (rs_view s) /\ ms_offset (rs_view s) = Ok (rs_off s).
Proof.
  intros s Hg. pose proof (view_contig s Hg) as Hc. pose proof (view_len s Hg) as Hl.
  destruct Hg as (_ & _ & _ & H2).
  destruct (ms_ents (rs_view s)) as [|d rest] eqn:E.
  - unfold nlen in Hl. simpl in Hl. lia.
  - destruct Hc as [Hd Hr]. split.
    + exists d, rest. split; [exact E|]. rewrite Hd. exact Hr.
    + unfold ms_offset. rewrite E. rewrite Hd. reflexivity.
Qed.

(* FirstIndex / LastIndex *)
Lemma good_first_index : forall s, rs_good s ->
  exists s', rs_first_index s = Ok (rs_off s + 1, s') /\ rs_good s' /\ rs_view s' = rs_view s /\
             rs_db s' = rs_db s /\ rs_snapi s' = rs_snapi s /\ rs_snapt s' = rs_snapt s.
Proof.
  intros s Hg. pose proof Hg as (Hinv & _).
  destruct (rs_first_index_inv s Hinv) as (v & s' & Hf & Hinv' & _ & Hdb & Hsi & Hst & _ & Hz & Hnz).
  exists s'. assert (Hv : v = rs_off s + 1).
  { unfold rs_off, rs_head. destruct (rs_snapi s =? 0) eqn:E; cbn [negb].
    - apply N.eqb_eq in E. destruct (Hz E) as (e0 & r & Hd & ->). rewrite Hd. reflexivity.
    - apply N.eqb_neq in E. destruct (Hnz E) as (-> & _). reflexivity. }
  subst v. split; [exact Hf|]. split; [apply (rs_good_transfer s s' Hg Hinv' Hdb Hsi)|].
  split; [apply rs_view_transfer; assumption|]. auto.
Qed.

Lemma good_last_index : forall s, rs_good s ->
  exists s', rs_last_index s = Ok (rs_lastk s, s') /\ rs_good s' /\ rs_view s' = rs_view s /\
             rs_db s' = rs_db s /\ rs_snapi s' = rs_snapi s /\ rs_snapt s' = rs_snapt s.
Proof.
  intros s Hg. pose proof Hg as (Hinv & Hc & _).
  destruct (rs_last_index_inv s Hinv) as (v & s' & Hf & Hinv' & _ & Hdb & Hsi & Hst & _ & e & He & Hv).
  exists s'. assert (Hv' : v = rs_lastk s).
  { destruct Hinv as (_ & Hne & _). destruct (contig_last_index _ _ Hc Hne) as (la & Hla & Hi).
    rewrite He in Hla. injection Hla as <-. unfold rs_lastk. lia. }
  subst v. rewrite <- Hv'. split; [exact Hf|]. split; [apply (rs_good_transfer s s' Hg Hinv' Hdb Hsi)|].
  split; [apply rs_view_transfer; assumption|]. auto.
Qed.

Lemma view_first_index : forall s, rs_good s -> ms_first_index (rs_view s) = Ok (rs_off s + 1).
Proof. intros s Hg. unfold ms_first_index. rewrite (proj2 (view_wf s Hg)). reflexivity. Qed.
Lemma view_last_index : forall s, rs_good s -> ms_last_index (rs_view s) = Ok (rs_lastk s).
Proof.
  intros s Hg. unfold ms_last_index. rewrite (proj2 (view_wf s Hg)). cbn [bind].
  pose proof (view_len s Hg). f_equal. lia.
Qed.

(* seek / get / range on a contiguous key space *)
Lemma seek_contig : forall es from i, contig from es -> from <= i -> i < from + nlen es ->
  exists e, db_seek i es = Some e /\ eindex e = i /\ nth_error es (N.to_nat (i - from)) = Some e.
Proof.
  induction es as [|x es IH]; intros from i Hc H1 H2; [unfold nlen in H2; simpl in H2; lia|].
  destruct Hc as [Hx Hr]. unfold db_seek. cbn [find].
  destruct (i <=? eindex x) eqn:E.
  - apply N.leb_le in E. exists x. replace (N.to_nat (i - from)) with 0%nat by lia. split; [reflexivity|]. split; [lia|reflexivity].
  - apply N.leb_gt in E. destruct (IH (from + 1) i Hr ltac:(lia)) as (e & A & B & C).
    { unfold nlen in *. simpl in H2. lia. }
    exists e. split; [exact A|]. split; [exact B|].
    replace (N.to_nat (i - from)) with (S (N.to_nat (i - (from + 1)))) by lia. exact C.
Qed.

Lemma seek_contig_none : forall es from i, contig from es -> from + nlen es <= i -> db_seek i es = None.
Proof.
  induction es as [|x es IH]; intros from i Hc H; [reflexivity|].
  destruct Hc as [Hx Hr]. unfold db_seek. cbn [find].
  replace (i <=? eindex x) with false by (symmetry; apply N.leb_gt; unfold nlen in H; simpl in H; lia).
  apply (IH (from + 1)); [exact Hr|]. unfold nlen in *. simpl in H. lia.
Qed.

Lemma get_contig : forall es from i, contig from es -> from <= i -> i < from + nlen es ->
  exists e, db_get i es = Some e /\ eindex e = i /\ nth_error es (N.to_nat (i - from)) = Some e.
Proof.
  induction es as [|x es IH]; intros from i Hc H1 H2; [unfold nlen in H2; simpl in H2; lia|].
  destruct Hc as [Hx Hr]. unfold db_get. cbn [find].
  destruct (eindex x =? i) eqn:E.
  - apply N.eqb_eq in E. exists x. replace (N.to_nat (i - from)) with 0%nat by lia. split; [reflexivity|]. split; [lia|reflexivity].
  - apply N.eqb_neq in E. destruct (IH (from + 1) i Hr ltac:(lia)) as (e & A & B & C).
    { unfold nlen in *. simpl in H2. lia. }
    exists e. split; [exact A|]. split; [exact B|].
    replace (N.to_nat (i - from)) with (S (N.to_nat (i - (from + 1)))) by lia. exact C.
Qed.

Lemma range_contig : forall es from lo hi, contig from es -> from <= lo -> lo <= hi -> hi <= from + nlen es ->
  db_range lo hi es = nfirstn (hi - lo) (nskipn (lo - from) es).
Proof.
  intros es from lo hi Hc H1 H2 H3. unfold db_range.
  assert (E : filter (fun e => (lo <=? eindex e) && (eindex e <? hi)) es
              = filter (fun e => eindex e <? hi) (filter (fun e => lo <=? eindex e) es)).
  { clear. induction es as [|x es IH]; [reflexivity|]. simpl. destruct (lo <=? eindex x); simpl.
    - destruct (eindex x <? hi); rewrite IH; reflexivity.
    - exact IH. }
  rewrite E. rewrite (contig_filter_ge _ _ lo Hc).
  pose proof (contig_skipn _ _ (N.to_nat (lo - from)) Hc) as X.
  replace (from + N.of_nat (N.to_nat (lo - from))) with lo in X by lia.
  rewrite (contig_filter_lt _ _ hi X). reflexivity.
Qed.

Lemma scan_limit_taken : forall ents size max, rs_scan_limit size max true ents = limit_loop size max ents.
Proof.
  induction ents as [|e r IH]; intros size max; [reflexivity|]. simpl.
  rewrite andb_true_r. destruct (max <? size + esz e); [reflexivity|]. f_equal. apply IH.
Qed.
Lemma scan_limit_is_limit_size : forall ents max, rs_scan_limit 0 max false ents = limit_size ents max.
Proof.
  intros [|e r] max; [reflexivity|]. simpl. rewrite andb_false_r. f_equal.
  replace (0 + esz e) with (esz e) by lia. apply scan_limit_taken.
Qed.

Lemma nth_error_skipn' : forall {A} n (l : list A) k, nth_error (skipn n l) k = nth_error l (n + k).
Proof.
  induction n as [|n IH]; intros l k; [reflexivity|]. destruct l as [|x l]; [destruct k; reflexivity|]. simpl. apply IH.
Qed.

Lemma skipn_skipn' : forall {A} a b (l : list A), skipn a (skipn b l) = skipn (b + a) l.
Proof.
  intros A a b. revert a. induction b as [|b IH]; intros a l; [reflexivity|]. destruct l as [|x l]; [destruct a; reflexivity|]. simpl. apply IH.
Qed.

Definition rfst {A B} (r : res (A * B)) : res A :=
  match r with Ok (a, _) => Ok a | Err e => Err e | Panic => Panic end.

(* Term: the same answer for every index, errors included *)
Theorem good_term : forall s i, rs_good s ->
  rfst (rs_term s i) = ms_term (rs_view s) i /\
  forall t s', rs_term s i = Ok (t, s') -> rs_good s' /\ rs_view s' = rs_view s.
Proof.
  intros s i Hg. destruct (good_first_index s Hg) as (s1 & Hf & Hg1 & Hv1 & Hdb1 & Hsi1 & Hst1).
  pose proof (view_wf s Hg) as (Hwf & Ho). pose proof (view_len s Hg) as Hlen.
  pose proof (view_ents s Hg) as Hve. pose proof (rs_good_nonempty s Hg) as Hn.
  pose proof Hg as (_ & Hc & Hh1 & Hh2).
  unfold rs_term, ms_term. rewrite Hf, Ho. cbn [bind]. replace (rs_off s + 1 - 1) with (rs_off s) by lia.
  destruct (i <? rs_off s) eqn:E1; [split; [reflexivity|discriminate]|]. apply N.ltb_ge in E1.
  rewrite Hdb1.
  destruct (nlen (ms_ents (rs_view s)) <=? i - rs_off s) eqn:E2.
  - apply N.leb_le in E2. rewrite (seek_contig_none _ _ i Hc) by (unfold rs_lastk in *; lia).
    split; [reflexivity|discriminate].
  - apply N.leb_gt in E2.
    destruct (seek_contig _ _ i Hc ltac:(lia) ltac:(unfold rs_lastk in *; lia)) as (e & A & B & C).
    rewrite A. replace (i <? eindex e) with false by (symmetry; apply N.ltb_ge; lia).
    unfold nnth. rewrite Hve. unfold nskipn. rewrite nth_error_skipn'.
    replace (N.to_nat (rs_off s - rs_head s) + N.to_nat (i - rs_off s))%nat with (N.to_nat (i - rs_head s)) by lia.
    rewrite C. split; [reflexivity|]. intros t s' H. injection H as <- <-. split; assumption.
Qed.

(* Entries on a non-empty range *)
Theorem good_entries : forall s lo hi max, rs_good s -> lo < hi ->
  (lo <= rs_off s -> rs_entries s lo hi max = Err ErrCompacted /\ ms_entries (rs_view s) lo hi max = Err ErrCompacted) /\
  (rs_off s < lo -> rs_lastk s + 1 < hi ->
     rs_entries s lo hi max = Err ErrUnavailable /\ ms_entries (rs_view s) lo hi max = Panic) /\
  (rs_off s < lo -> hi <= rs_lastk s + 1 ->
     exists es s', rs_entries s lo hi max = Ok (es, s') /\ ms_entries (rs_view s) lo hi max = Ok es /\
                   rs_good s' /\ rs_view s' = rs_view s).
Proof.
  intros s lo hi max Hg Hlt.
  destruct (good_first_index s Hg) as (s1 & Hf & Hg1 & Hv1 & Hdb1 & Hsi1 & Hst1).
  destruct (good_last_index s1 Hg1) as (s2 & Hl & Hg2 & Hv2 & Hdb2 & Hsi2 & Hst2).
  assert (Hlk : rs_lastk s1 = rs_lastk s) by (unfold rs_lastk, rs_head; rewrite Hdb1; reflexivity).
  rewrite Hlk in Hl.
  pose proof (view_wf s Hg) as (Hwf & Ho). pose proof (view_len s Hg) as Hlen.
  pose proof (view_ents s Hg) as Hve. pose proof Hg as (_ & Hc & Hh1 & Hh2).
  unfold rs_entries. rewrite Hf. cbn [bind]. split; [|split].
  - intros H. replace (lo <? rs_off s + 1) with true by (symmetry; apply N.ltb_lt; lia).
    split; [reflexivity|]. unfold ms_entries. rewrite Ho. cbn [bind].
    replace (lo <=? rs_off s) with true by (symmetry; apply N.leb_le; lia). reflexivity.
  - intros H1 H2. replace (lo <? rs_off s + 1) with false by (symmetry; apply N.ltb_ge; lia).
    rewrite Hl. cbn [bind]. replace (rs_lastk s + 1 <? hi) with true by (symmetry; apply N.ltb_lt; lia).
    split; [reflexivity|]. unfold ms_entries. rewrite Ho. cbn [bind].
    replace (lo <=? rs_off s) with false by (symmetry; apply N.leb_gt; lia).
    rewrite (view_last_index s Hg). cbn [bind].
    replace (rs_lastk s + 1 <? hi) with true by (symmetry; apply N.ltb_lt; lia). reflexivity.
  - intros H1 H2. replace (lo <? rs_off s + 1) with false by (symmetry; apply N.ltb_ge; lia).
    rewrite Hl. cbn [bind]. replace (rs_lastk s + 1 <? hi) with false by (symmetry; apply N.ltb_ge; lia).
    eexists _, s2. split; [reflexivity|]. split; [|split; [exact Hg2|congruence]].
    rewrite (ms_entries_spec _ (rs_off s) lo hi max Hwf Ho) by lia. f_equal.
    assert (Hsl : nfirstn (hi - lo) (nskipn (lo - rs_off s) (ms_ents (rs_view s)))
                  = nfirstn (hi - lo) (nskipn (lo - rs_head s) (rs_db s))).
    { rewrite Hve. unfold nskipn. rewrite skipn_skipn'. f_equal. f_equal. lia. }
    rewrite Hsl. unfold rs_all_entries. rewrite Hdb2, Hdb1.
    destruct (hi - lo =? 1) eqn:E1.
    + apply N.eqb_eq in E1.
      destruct (get_contig _ _ lo Hc ltac:(lia) ltac:(unfold rs_lastk in *; lia)) as (e & A & B & C).
      rewrite A. rewrite E1. unfold nfirstn, nskipn.
      destruct (skipn (N.to_nat (lo - rs_head s)) (rs_db s)) as [|y ys] eqn:Es.
      * exfalso. pose proof (nth_error_skipn' (N.to_nat (lo - rs_head s)) (rs_db s) 0) as X. rewrite Es in X.
        rewrite Nat.add_0_r in X. rewrite C in X. discriminate.
      * pose proof (nth_error_skipn' (N.to_nat (lo - rs_head s)) (rs_db s) 0) as X. rewrite Es in X.
        rewrite Nat.add_0_r in X. rewrite C in X. simpl in X. injection X as <-. reflexivity.
    + rewrite scan_limit_is_limit_size. f_equal. symmetry.
      apply (range_contig _ _ lo hi Hc); unfold rs_lastk in *; lia.
Qed.

(* ====================================================================================== *)
(* 2. log level: raftLog over RocksStorage simulates raftLog over the view *)
Definition to_mem (l : rlog) : rlog :=
  match l_st l with SRocks s => set_st l (SMem (rs_view s)) | SMem _ => l end.
Definition rgood (l : rlog) : Prop := exists s, l_st l = SRocks s /\ rs_good s.

(* results agree: same value, same error, same panic; the new log is again good and maps to the
   MemoryStorage-side result *)
Definition gsim {X} (g : X -> Prop) (f : X -> X) (r rm : res X) : Prop :=
  match r, rm with
  | Ok x, Ok y => g x /\ y = f x
  | Err e, Err e' => e = e'
  | Panic, Panic => True
  | _, _ => False
  end.
Definition pgood {A} (x : A * rlog) : Prop := rgood (snd x).
Definition pmem {A} (x : A * rlog) : A * rlog := (fst x, to_mem (snd x)).
Definition sim {A} (r rm : res (A * rlog)) : Prop := gsim pgood pmem r rm.
Definition simL (r rm : res rlog) : Prop := gsim rgood to_mem r rm.

Lemma gsim_bind : forall {X Y} (g : X -> Prop) (f : X -> X) (g' : Y -> Prop) (f' : Y -> Y)
  (r rm : res X) (k km : X -> res Y),
  gsim g f r rm -> (forall x, g x -> gsim g' f' (k x) (km (f x))) -> gsim g' f' (bind r k) (bind rm km).
Proof.
  intros X Y g f g' f' r rm k km H K. destruct r as [x|e|], rm as [y|e'|]; cbn in *; try contradiction.
  - destruct H as [Hg ->]. apply K. exact Hg.
  - exact H.
  - exact I.
Qed.

Lemma rgood_shape : forall l, rgood l -> exists s u c a mx, l = mkL (SRocks s) u c a mx /\ rs_good s.
Proof. intros [st u c a mx] (s & Hs & Hg). cbn in Hs. subst. exists s, u, c, a, mx. split; [reflexivity|exact Hg]. Qed.

Lemma to_mem_u : forall l, l_u (to_mem l) = l_u l.
Proof. intros [[m|s] u c a mx]; reflexivity. Qed.
Lemma to_mem_committed : forall l, l_committed (to_mem l) = l_committed l.
Proof. intros [[m|s] u c a mx]; reflexivity. Qed.
Lemma to_mem_applied : forall l, l_applied (to_mem l) = l_applied l.
Proof. intros [[m|s] u c a mx]; reflexivity. Qed.
Lemma to_mem_maxnext : forall l, l_maxnext (to_mem l) = l_maxnext l.
Proof. intros [[m|s] u c a mx]; reflexivity. Qed.
Lemma to_mem_set_u : forall l u, to_mem (set_u l u) = set_u (to_mem l) u.
Proof. intros [[m|s] u0 c a mx] u; reflexivity. Qed.
Lemma to_mem_set_committed : forall l c, to_mem (set_committed l c) = set_committed (to_mem l) c.
Proof. intros [[m|s] u0 c0 a mx] c; reflexivity. Qed.
Lemma to_mem_set_applied : forall l a, to_mem (set_applied l a) = set_applied (to_mem l) a.
Proof. intros [[m|s] u0 c0 a0 mx] a; reflexivity. Qed.
Lemma rgood_set_u : forall l u, rgood l -> rgood (set_u l u).
Proof. intros l u (s & Hs & Hg). exists s. split; [exact Hs|exact Hg]. Qed.
Lemma rgood_set_committed : forall l c, rgood l -> rgood (set_committed l c).
Proof. intros l c (s & Hs & Hg). exists s. split; [exact Hs|exact Hg]. Qed.
Lemma rgood_set_applied : forall l a, rgood l -> rgood (set_applied l a).
Proof. intros l a (s & Hs & Hg). exists s. split; [exact Hs|exact Hg]. Qed.

Lemma sim_ok : forall {A} (a : A) l, rgood l -> sim (Ok (a, l)) (Ok (a, to_mem l)).
Proof. intros A a l H. split; [exact H|reflexivity]. Qed.
Lemma simL_ok : forall l, rgood l -> simL (Ok l) (Ok (to_mem l)).
Proof. intros l H. split; [exact H|reflexivity]. Qed.

Theorem sim_first_index : forall l, rgood l -> sim (l_first_index l) (l_first_index (to_mem l)).
Proof.
  intros l Hg. destruct (rgood_shape l Hg) as (s & u & c & a & mx & -> & Hs).
  unfold l_first_index, to_mem. cbn [l_st l_u set_st].
  destruct (u_maybe_first_index u); [apply (sim_ok n _ Hg)|].
  cbn [st_first_index]. destruct (good_first_index s Hs) as (s1 & Hf & Hg1 & Hv1 & _).
  rewrite Hf, (view_first_index s Hs). cbn. split.
  - exists s1. split; [reflexivity|exact Hg1].
  - unfold pmem, to_mem. cbn. rewrite Hv1. reflexivity.
Qed.

Theorem sim_last_index : forall l, rgood l -> sim (l_last_index l) (l_last_index (to_mem l)).
Proof.
  intros l Hg. destruct (rgood_shape l Hg) as (s & u & c & a & mx & -> & Hs).
  unfold l_last_index, to_mem. cbn [l_st l_u set_st].
  destruct (u_maybe_last_index u); [apply (sim_ok n _ Hg)|].
  cbn [st_last_index]. destruct (good_last_index s Hs) as (s1 & Hf & Hg1 & Hv1 & _).
  rewrite Hf, (view_last_index s Hs). cbn. split.
  - exists s1. split; [reflexivity|exact Hg1].
  - unfold pmem, to_mem. cbn. rewrite Hv1. reflexivity.
Qed.

Theorem sim_term : forall l i, rgood l -> sim (l_term l i) (l_term (to_mem l) i).
Proof.
  intros l i Hg. unfold l_term.
  apply (gsim_bind pgood pmem); [apply sim_first_index; exact Hg|]. intros [first l1] Hg1. cbn [pmem fst snd]. unfold pgood in Hg1. cbn [snd] in Hg1.
  apply (gsim_bind pgood pmem); [apply sim_last_index; exact Hg1|]. intros [last l2] Hg2. cbn [pmem fst snd]. unfold pgood in Hg2. cbn [snd] in Hg2.
  destruct ((i <? first - 1) || (last <? i)); [apply (sim_ok 0 _ Hg2)|].
  rewrite to_mem_u. destruct (u_maybe_term (l_u l2) i) as [[t|]|e|]; cbn [bind]; [apply (sim_ok t _ Hg2)| |reflexivity|exact I].
  destruct (rgood_shape l2 Hg2) as (s & u & c & a & mx & -> & Hs).
  unfold to_mem. cbn [l_st set_st st_term].
  destruct (good_term s i Hs) as (Heq & Hok).
  destruct (rs_term s i) as [[t s3]|e|]; cbn [rfst] in Heq; rewrite <- Heq; cbn.
  - destruct (Hok t s3 eq_refl) as (Hg3 & Hv3). split.
    + exists s3. split; [reflexivity|exact Hg3].
    + unfold pmem, to_mem. cbn. rewrite Hv3. reflexivity.
  - destruct e; cbn; auto.
  - exact I.
Qed.

Theorem sim_match_term : forall l i t, rgood l -> sim (l_match_term l i t) (l_match_term (to_mem l) i t).
Proof.
  intros l i t Hg. unfold l_match_term. pose proof (sim_term l i Hg) as H.
  destruct (l_term l i) as [[t1 l1]|e|], (l_term (to_mem l) i) as [[t2 l2]|e'|]; cbn in H; try contradiction.
  - destruct H as [H1 H2]. injection H2 as <- ->. split; [exact H1|reflexivity].
  - apply (sim_ok false _ Hg).
  - exact I.
Qed.

Theorem sim_last_term : forall l, rgood l -> sim (l_last_term l) (l_last_term (to_mem l)).
Proof.
  intros l Hg. unfold l_last_term.
  apply (gsim_bind pgood pmem); [apply sim_last_index; exact Hg|]. intros [li l1] Hg1. cbn [pmem fst snd]. unfold pgood in Hg1. cbn [snd] in Hg1.
  pose proof (sim_term l1 li Hg1) as H.
  destruct (l_term l1 li) as [[t1 l2]|e|], (l_term (to_mem l1) li) as [[t2 l2']|e'|]; cbn in H; try contradiction; try exact I.
  exact H.
Qed.

Theorem sim_is_up_to_date : forall l li t, rgood l -> sim (l_is_up_to_date l li t) (l_is_up_to_date (to_mem l) li t).
Proof.
  intros l li t Hg. unfold l_is_up_to_date.
  apply (gsim_bind pgood pmem); [apply sim_last_term; exact Hg|]. intros [myt l1] Hg1. cbn [pmem fst snd]. unfold pgood in Hg1. cbn [snd] in Hg1.
  apply (gsim_bind pgood pmem); [apply sim_last_index; exact Hg1|]. intros [myi l2] Hg2. cbn [pmem fst snd]. unfold pgood in Hg2. cbn [snd] in Hg2.
  apply sim_ok. exact Hg2.
Qed.

Lemma sim_zero_term : forall l r rm, rgood l -> sim r rm ->
  sim (l_zero_term_on_err_compacted l r) (l_zero_term_on_err_compacted (to_mem l) rm).
Proof.
  intros l r rm Hg H. unfold l_zero_term_on_err_compacted.
  destruct r as [x|e|], rm as [y|e'|]; cbn in H; try contradiction; try exact I.
  - exact H.
  - subst e'. destruct e; try exact I. apply (sim_ok 0 _ Hg).
Qed.

Theorem sim_find_conflict : forall ents l, rgood l -> sim (l_find_conflict l ents) (l_find_conflict (to_mem l) ents).
Proof.
  induction ents as [|ne r IH]; intros l Hg; cbn [l_find_conflict]; [apply (sim_ok 0 _ Hg)|].
  apply (gsim_bind pgood pmem); [apply sim_match_term; exact Hg|]. intros [ok l1] Hg1. cbn [pmem fst snd]. unfold pgood in Hg1. cbn [snd] in Hg1.
  destruct ok; [apply IH; exact Hg1|].
  apply (gsim_bind pgood pmem); [apply sim_last_index; exact Hg1|]. intros [li l2] Hg2. cbn [pmem fst snd]. unfold pgood in Hg2. cbn [snd] in Hg2.
  destruct (eindex ne <=? li); [|apply sim_ok; exact Hg2].
  apply (gsim_bind pgood pmem); [apply sim_zero_term; [exact Hg2|apply sim_term; exact Hg2]|].
  intros [tt l3] Hg3. cbn [pmem fst snd]. unfold pgood in Hg3. cbn [snd] in Hg3. apply sim_ok. exact Hg3.
Qed.

Theorem sim_commit_to : forall l c, rgood l -> simL (l_commit_to l c) (l_commit_to (to_mem l) c).
Proof.
  intros l c Hg. unfold l_commit_to. rewrite to_mem_committed.
  destruct (l_committed l <? c); [|apply simL_ok; exact Hg].
  apply (gsim_bind pgood pmem); [apply sim_last_index; exact Hg|]. intros [li l1] Hg1. cbn [pmem fst snd]. unfold pgood in Hg1. cbn [snd] in Hg1.
  destruct (li <? c); [exact I|]. rewrite <- to_mem_set_committed. apply simL_ok. apply rgood_set_committed. exact Hg1.
Qed.

Theorem sim_append : forall l ents, rgood l -> sim (l_append l ents) (l_append (to_mem l) ents).
Proof.
  intros l ents Hg. unfold l_append. destruct ents as [|e0 r]; [apply sim_last_index; exact Hg|].
  rewrite to_mem_committed, to_mem_u.
  destruct ((1 <=? eindex e0) && (eindex e0 - 1 <? l_committed l)); [exact I|].
  destruct (u_truncate_and_append (l_u l) (e0 :: r)) as [u|e|]; cbn [bind]; [|reflexivity|exact I].
  rewrite <- to_mem_set_u. apply sim_last_index. apply rgood_set_u. exact Hg.
Qed.

Theorem sim_maybe_append : forall l idx lt cm ents, rgood l ->
  sim (l_maybe_append l idx lt cm ents) (l_maybe_append (to_mem l) idx lt cm ents).
Proof.
  intros l idx lt cm ents Hg. unfold l_maybe_append.
  apply (gsim_bind pgood pmem); [apply sim_match_term; exact Hg|]. intros [ok l1] Hg1. cbn [pmem fst snd]. unfold pgood in Hg1. cbn [snd] in Hg1.
  destruct (negb ok); [apply sim_ok; exact Hg1|].
  apply (gsim_bind pgood pmem); [apply sim_find_conflict; exact Hg1|]. intros [ci l2] Hg2. cbn [pmem fst snd]. unfold pgood in Hg2. cbn [snd] in Hg2.
  apply (gsim_bind rgood to_mem).
  - destruct (ci =? 0); [apply simL_ok; exact Hg2|]. rewrite to_mem_committed.
    destruct (ci <=? l_committed l2); [exact I|]. destruct (ci <? idx + 1); [exact I|].
    destruct (goslice ents (ci - (idx + 1)) (nlen ents)) as [sl|e|]; cbn [bind]; [|reflexivity|exact I].
    apply (gsim_bind pgood pmem); [apply sim_append; exact Hg2|]. intros [a l3] Hg3. cbn [pmem fst snd]. unfold pgood in Hg3. cbn [snd] in Hg3.
    apply simL_ok. exact Hg3.
  - intros l3 Hg3. apply (gsim_bind rgood to_mem); [apply sim_commit_to; exact Hg3|].
    intros l4 Hg4. apply sim_ok. exact Hg4.
Qed.

Theorem sim_must_check : forall l lo hi, rgood l ->
  sim (l_must_check_out_of_bounds l lo hi) (l_must_check_out_of_bounds (to_mem l) lo hi).
Proof.
  intros l lo hi Hg. unfold l_must_check_out_of_bounds. destruct (hi <? lo); [exact I|].
  apply (gsim_bind pgood pmem); [apply sim_first_index; exact Hg|]. intros [fi l1] Hg1. cbn [pmem fst snd]. unfold pgood in Hg1. cbn [snd] in Hg1.
  destruct (lo <? fi); [apply sim_ok; exact Hg1|].
  apply (gsim_bind pgood pmem); [apply sim_last_index; exact Hg1|]. intros [li l2] Hg2. cbn [pmem fst snd]. unfold pgood in Hg2. cbn [snd] in Hg2.
  destruct (li + 1 <? hi); [exact I|apply sim_ok; exact Hg2].
Qed.

Theorem sim_slice : forall l lo hi max, rgood l -> sim (l_slice l lo hi max) (l_slice (to_mem l) lo hi max).
Proof.
  intros l lo hi max Hg. unfold l_slice.
  destruct (hi <? lo) eqn:E0.
  { unfold l_must_check_out_of_bounds. rewrite E0. exact I. }
  apply N.ltb_ge in E0.
  apply (gsim_bind pgood pmem); [apply sim_must_check; exact Hg|]. intros [e l1] Hg1. cbn [pmem fst snd]. unfold pgood in Hg1. cbn [snd] in Hg1.
  destruct e as [er|]; [reflexivity|].
  destruct (lo =? hi) eqn:E1; [apply sim_ok; exact Hg1|]. apply N.eqb_neq in E1.
  rewrite to_mem_u.
  apply (gsim_bind pgood pmem).
  - destruct (lo <? u_off (l_u l1)) eqn:E2; [|apply sim_ok; exact Hg1]. apply N.ltb_lt in E2.
    destruct (rgood_shape l1 Hg1) as (s & u & c & a & mx & -> & Hs). cbn [l_u] in *.
    unfold to_mem. cbn [l_st set_st st_entries].
    assert (Hlt : lo < N.min hi (u_off u)) by lia.
    destruct (good_entries s lo (N.min hi (u_off u)) max Hs Hlt) as (C1 & C2 & C3).
    destruct (N.le_gt_cases lo (rs_off s)) as [L|G].
    + destruct (C1 L) as [-> ->]. reflexivity.
    + destruct (N.le_gt_cases (N.min hi (u_off u)) (rs_lastk s + 1)) as [L2|G2].
      * destruct (C3 G L2) as (es & s' & -> & -> & Hg' & Hv'). cbn. split.
        -- exists s'. split; [reflexivity|exact Hg'].
        -- unfold pmem, to_mem. cbn. rewrite Hv'. reflexivity.
      * destruct (C2 G G2) as [-> ->]. exact I.
  - intros [stored l2] Hg2. cbn [pmem fst snd]. unfold pgood in Hg2. cbn [snd] in Hg2. rewrite to_mem_u.
    match goal with |- context [if ?c then _ else _] => destruct c end; [apply sim_ok; exact Hg2|].
    match goal with |- gsim _ _ (bind ?r _) _ => destruct r as [x|e|] end; cbn [bind]; [apply sim_ok; exact Hg2|reflexivity|exact I].
Qed.

Theorem sim_entries : forall l i max, rgood l -> sim (l_entries l i max) (l_entries (to_mem l) i max).
Proof.
  intros l i max Hg. unfold l_entries.
  apply (gsim_bind pgood pmem); [apply sim_last_index; exact Hg|]. intros [li l1] Hg1. cbn [pmem fst snd]. unfold pgood in Hg1. cbn [snd] in Hg1.
  destruct (li <? i); [apply sim_ok; exact Hg1|apply sim_slice; exact Hg1].
Qed.

Theorem sim_next_ents : forall l, rgood l -> sim (l_next_ents l) (l_next_ents (to_mem l)).
Proof.
  intros l Hg. unfold l_next_ents.
  apply (gsim_bind pgood pmem); [apply sim_first_index; exact Hg|]. intros [fi l1] Hg1. cbn [pmem fst snd]. unfold pgood in Hg1. cbn [snd] in Hg1.
  rewrite to_mem_applied, to_mem_committed, to_mem_maxnext.
  destruct (N.max (l_applied l1 + 1) fi <? l_committed l1 + 1); [|apply sim_ok; exact Hg1].
  pose proof (sim_slice l1 (N.max (l_applied l1 + 1) fi) (l_committed l1 + 1) (l_maxnext l1) Hg1) as H.
  destruct (l_slice l1 _ _ _) as [x|e|], (l_slice (to_mem l1) _ _ _) as [y|e'|]; cbn in H; try contradiction; try exact I.
  exact H.
Qed.

Theorem sim_has_next_ents : forall l, rgood l -> sim (l_has_next_ents l) (l_has_next_ents (to_mem l)).
Proof.
  intros l Hg. unfold l_has_next_ents.
  apply (gsim_bind pgood pmem); [apply sim_first_index; exact Hg|]. intros [fi l1] Hg1. cbn [pmem fst snd]. unfold pgood in Hg1. cbn [snd] in Hg1.
  rewrite to_mem_applied, to_mem_committed. apply sim_ok. exact Hg1.
Qed.

Theorem sim_maybe_commit : forall l mi t, rgood l -> sim (l_maybe_commit l mi t) (l_maybe_commit (to_mem l) mi t).
Proof.
  intros l mi t Hg. unfold l_maybe_commit. rewrite to_mem_committed.
  destruct (l_committed l <? mi); [|apply sim_ok; exact Hg].
  apply (gsim_bind pgood pmem); [apply sim_zero_term; [exact Hg|apply sim_term; exact Hg]|].
  intros [tt l1] Hg1. cbn [pmem fst snd]. unfold pgood in Hg1. cbn [snd] in Hg1.
  destruct (tt =? t); [|apply sim_ok; exact Hg1].
  apply (gsim_bind rgood to_mem); [apply sim_commit_to; exact Hg1|]. intros l2 Hg2. apply sim_ok. exact Hg2.
Qed.

Theorem sim_stable_to : forall l i t, rgood l -> simL (l_stable_to l i t) (l_stable_to (to_mem l) i t).
Proof.
  intros l i t Hg. unfold l_stable_to. rewrite to_mem_u.
  destruct (u_stable_to (l_u l) i t) as [u|e|]; cbn [bind]; [|reflexivity|exact I].
  rewrite <- to_mem_set_u. apply simL_ok. apply rgood_set_u. exact Hg.
Qed.

Theorem sim_applied_to : forall l i, rgood l -> simL (l_applied_to l i) (l_applied_to (to_mem l) i).
Proof.
  intros l i Hg. unfold l_applied_to. rewrite to_mem_committed, to_mem_applied.
  destruct (i =? 0); [apply simL_ok; exact Hg|].
  destruct ((l_committed l <? i) || (i <? l_applied l)); [exact I|].
  rewrite <- to_mem_set_applied. apply simL_ok. apply rgood_set_applied. exact Hg.
Qed.

Lemma to_mem_restore : forall l si st, to_mem (l_restore l si st) = l_restore (to_mem l) si st.
Proof. intros [[m|s] u c a mx] si st; reflexivity. Qed.

(* what a simulation gives: a successful MemoryStorage-side call determines the RocksStorage-side one *)
Lemma sim_ok_inv : forall {A} (r : res (A * rlog)) a m', sim r (Ok (a, m')) ->
  exists l', r = Ok (a, l') /\ rgood l' /\ to_mem l' = m'.
Proof.
  intros A r a m' H. destruct r as [[b l']|e|]; cbn in H; try contradiction.
  destruct H as [Hg E]. unfold pmem in E. cbn in E. injection E as -> ->. exists l'. auto.
Qed.
Lemma simL_ok_inv : forall (r : res rlog) m', simL r (Ok m') -> exists l', r = Ok l' /\ rgood l' /\ to_mem l' = m'.
Proof.
  intros r m' H. destruct r as [l'|e|]; cbn in H; try contradiction. destruct H as [Hg ->]. exists l'. auto.
Qed.
Lemma sim_ok_inv_l : forall {A} (rm : res (A * rlog)) a l', sim (Ok (a, l')) rm -> rm = Ok (a, to_mem l') /\ rgood l'.
Proof.
  intros A rm a l' H. destruct rm as [[b m']|e|]; cbn in H; try contradiction.
  destruct H as [Hg E]. unfold pmem in E. cbn in E. rewrite E. auto.
Qed.

(* ====================================================================================== *)
(* 3. the log theorems of ProofsLog.v for RocksStorage-backed logs *)
(* a well-formed log over RocksStorage: good storage, contiguous unstable part that starts inside / right after
   the stored range (or right after the unstable snapshot) *)
Definition wf_rlog (l : rlog) (s : rstore) : Prop :=
  l_st l = SRocks s /\ rs_good s /\ wf_u (l_u l) /\
  match u_snap (l_u l) with
  | None => rs_off s + 1 <= u_off (l_u l) /\ u_off (l_u l) <= rs_lastk s + 1 /\
            (u_ents (l_u l) = [] -> u_off (l_u l) = rs_lastk s + 1)
  | Some (si, _) => u_off (l_u l) = si + 1
  end.

(* the entry the log holds at index i: the unstable part wins, else the key i of the engine *)
Definition r_log_entry (u : unstable) (s : rstore) (i : N) : option entry :=
  if u_off u <=? i then nnth (i - u_off u) (u_ents u)
  else if rs_off s <? i then db_get i (rs_db s) else None.

Lemma wf_rlog_rgood : forall l s, wf_rlog l s -> rgood l.
Proof. intros l s (H1 & H2 & _). exists s. auto. Qed.

Lemma to_mem_rocks : forall l s, l_st l = SRocks s -> to_mem l = set_st l (SMem (rs_view s)).
Proof. intros l s H. unfold to_mem. rewrite H. reflexivity. Qed.

Lemma wf_rlog_mem : forall l s, wf_rlog l s -> wf_mlog (to_mem l) (rs_view s) (rs_off s).
Proof.
  intros l s (H1 & H2 & H3 & H4). pose proof (view_wf s H2) as (Hw & Ho). pose proof (view_len s H2) as Hl.
  unfold wf_mlog. rewrite to_mem_u. rewrite (to_mem_rocks l s H1). cbn [set_st l_st].
  split; [reflexivity|]. split; [exact Hw|]. split; [exact Ho|]. split; [exact H3|].
  destruct (u_snap (l_u l)) as [[si st]|]; [exact H4|]. destruct H4 as (A & B & C).
  split; [exact A|]. split; [lia|]. intros E. specialize (C E). lia.
Qed.

Lemma mfirst_to_mem : forall l off, mfirst (to_mem l) off = mfirst l off.
Proof. intros l off. unfold mfirst. rewrite to_mem_u. reflexivity. Qed.
Definition rlast (l : rlog) (s : rstore) : N :=
  match u_ents (l_u l) with
  | _ :: _ => u_off (l_u l) + nlen (u_ents (l_u l)) - 1
  | [] => match u_snap (l_u l) with Some (si, _) => si | None => rs_lastk s end
  end.
Lemma mlast_to_mem : forall l s, rs_good s -> mlast (to_mem l) (rs_view s) (rs_off s) = rlast l s.
Proof.
  intros l s Hg. unfold mlast, rlast. rewrite to_mem_u. destruct (u_ents (l_u l)); [|reflexivity].
  destruct (u_snap (l_u l)) as [[si st]|]; [reflexivity|]. pose proof (view_len s Hg). lia.
Qed.

Lemma view_nnth_get : forall s i, rs_good s -> rs_off s < i ->
  nnth (i - rs_off s) (ms_ents (rs_view s)) = db_get i (rs_db s).
Proof.
  intros s i Hg Hi. pose proof Hg as (_ & Hc & H1 & H2). rewrite (view_ents s Hg). unfold nnth, nskipn.
  rewrite nth_error_skipn'.
  replace (N.to_nat (rs_off s - rs_head s) + N.to_nat (i - rs_off s))%nat with (N.to_nat (i - rs_head s)) by lia.
  destruct (N.le_gt_cases i (rs_lastk s)) as [L|G].
  - destruct (get_contig _ _ i Hc ltac:(lia) ltac:(unfold rs_lastk in *; pose proof (rs_good_nonempty s Hg); lia)) as (e & A & _ & C).
    rewrite A, C. reflexivity.
  - assert (X : nth_error (rs_db s) (N.to_nat (i - rs_head s)) = None).
    { apply nth_error_None. unfold rs_lastk, nlen in *. pose proof (rs_good_nonempty s Hg). unfold nlen in *. lia. }
    rewrite X. symmetry. unfold db_get. destruct (find (fun e => eindex e =? i) (rs_db s)) as [e|] eqn:F; [|reflexivity].
    exfalso. apply find_some in F. destruct F as [Hin He]. apply N.eqb_eq in He.
    pose proof (contig_in_le _ _ _ Hc Hin). unfold rs_lastk in *. pose proof (rs_good_nonempty s Hg). lia.
Qed.

Lemma log_entry_view : forall u s i, rs_good s -> log_entry u (rs_view s) (rs_off s) i = r_log_entry u s i.
Proof.
  intros u s i Hg. unfold log_entry, r_log_entry. destruct (u_off u <=? i); [reflexivity|].
  destruct (rs_off s <? i) eqn:E; [|reflexivity]. apply N.ltb_lt in E. apply view_nnth_get; assumption.
Qed.

(* the hand-out predicate of ProofsLog.v, read on the engine *)
Definition rgood_ents (u : unstable) (s : rstore) (lo : N) (X : list entry) : Prop :=
  X <> [] /\ contig lo X /\ forall k e, nth_error X k = Some e -> r_log_entry u s (lo + N.of_nat k) = Some e.
Lemma good_view : forall u s lo X, rs_good s -> good u (rs_view s) (rs_off s) lo X -> rgood_ents u s lo X.
Proof.
  intros u s lo X Hg (A & B & C). split; [exact A|]. split; [exact B|]. intros k e Hk.
  rewrite <- (log_entry_view u s _ Hg). apply C. exact Hk.
Qed.

Lemma term_of_sim : forall l i, rgood l -> term_of (l_term l i) = term_of (l_term (to_mem l) i).
Proof.
  intros l i Hg. pose proof (sim_term l i Hg) as H.
  destruct (l_term l i) as [[t l1]|e|], (l_term (to_mem l) i) as [[t' l1']|e'|]; cbn in H; try contradiction; try reflexivity.
  - destruct H as [_ E]. unfold pmem in E. cbn in E. injection E as -> _. reflexivity.
  - subst. reflexivity.
Qed.

(* (a) slice: the entries handed out of [lo, hi) are the log's entries from lo on, contiguous, the size limit only
       shortens; the log changes in its caches only *)
Theorem slice_spec_rocks : forall l s lo hi max,
  wf_rlog l s -> mfirst l (rs_off s) <= lo -> lo < hi -> hi <= rlast l s + 1 ->
  exists es l', l_slice l lo hi max = Ok (es, l') /\ rgood l' /\ to_mem l' = to_mem l /\
                rgood_ents (l_u l) s lo es /\ nlen es <= hi - lo.
Proof.
  intros l s lo hi max Hwf H1 H2 H3. pose proof (wf_rlog_mem l s Hwf) as Hm. pose proof Hwf as (_ & Hg & _).
  destruct (l_slice_spec (to_mem l) (rs_view s) (rs_off s) lo hi max Hm) as (es & Hs & Hgd & Hn).
  { rewrite mfirst_to_mem. exact H1. } { exact H2. } { rewrite (mlast_to_mem l s Hg). exact H3. }
  pose proof (sim_slice l lo hi max (wf_rlog_rgood l s Hwf)) as S. rewrite Hs in S.
  destruct (sim_ok_inv _ _ _ S) as (l' & E & Hg' & Hm').
  exists es, l'. split; [exact E|]. split; [exact Hg'|]. split; [exact Hm'|]. split; [|exact Hn].
  rewrite to_mem_u in Hgd. apply good_view; assumption.
Qed.

(* (b) nextEnts: exactly the log's entries from max(applied+1, firstIndex), none beyond commit *)
Theorem next_ents_spec_rocks : forall l s,
  wf_rlog l s -> l_committed l <= rlast l s ->
  let lo := N.max (l_applied l + 1) (mfirst l (rs_off s)) in
  (lo <= l_committed l ->
     exists es l', l_next_ents l = Ok (es, l') /\ rgood l' /\ to_mem l' = to_mem l /\
                   rgood_ents (l_u l) s lo es /\ (forall e, In e es -> eindex e <= l_committed l)) /\
  (l_committed l < lo -> exists l', l_next_ents l = Ok ([], l') /\ rgood l' /\ to_mem l' = to_mem l).
Proof.
  intros l s Hwf Hc lo. pose proof (wf_rlog_mem l s Hwf) as Hm. pose proof Hwf as (_ & Hg & _).
  destruct (next_ents_spec (to_mem l) (rs_view s) (rs_off s) Hm) as [A B].
  { rewrite to_mem_committed, (mlast_to_mem l s Hg). exact Hc. }
  rewrite to_mem_applied, to_mem_committed, mfirst_to_mem in A, B. fold lo in A, B.
  pose proof (sim_next_ents l (wf_rlog_rgood l s Hwf)) as S. split.
  - intros Hlo. destruct (A Hlo) as (es & Hs & Hgd & Hle). rewrite Hs in S.
    destruct (sim_ok_inv _ _ _ S) as (l' & E & Hg' & Hm').
    exists es, l'. split; [exact E|]. split; [exact Hg'|]. split; [exact Hm'|]. split; [|exact Hle].
    rewrite to_mem_u in Hgd. apply good_view; assumption.
  - intros Hlo. rewrite (B Hlo) in S. destruct (sim_ok_inv _ _ _ S) as (l' & E & Hg' & Hm'). exists l'. auto.
Qed.

(* (c) Advance after a hand-out: applied becomes the last handed-out index; the next hand-out starts after it *)
Theorem advance_after_handout_rocks : forall l s es l1,
  wf_rlog l s -> l_committed l <= rlast l s ->
  l_next_ents l = Ok (es, l1) -> es <> [] ->
  exists l2 e, last_opt es = Some e /\ advance_applied l1 es 0 = Ok l2 /\
    l_applied l2 = eindex e /\ l_committed l2 = l_committed l /\ l_u l2 = l_u l /\ rgood l2 /\
    N.max (l_applied l2 + 1) (mfirst l2 (rs_off s)) = eindex e + 1.
Proof.
  intros l s es l1 Hwf Hc Hn Hne. pose proof (wf_rlog_mem l s Hwf) as Hm. pose proof Hwf as (_ & Hg & _).
  pose proof (sim_next_ents l (wf_rlog_rgood l s Hwf)) as S. rewrite Hn in S.
  destruct (sim_ok_inv_l _ _ _ S) as (Hnm & Hg1).
  (* on the MemoryStorage side nextEnts returns the log unchanged *)
  destruct (next_ents_spec (to_mem l) (rs_view s) (rs_off s) Hm) as [A B].
  { rewrite to_mem_committed, (mlast_to_mem l s Hg). exact Hc. }
  assert (Hsame : to_mem l1 = to_mem l).
  { destruct (N.le_gt_cases (N.max (l_applied (to_mem l) + 1) (mfirst (to_mem l) (rs_off s))) (l_committed (to_mem l))) as [L|G].
    - destruct (A L) as (es' & Hs & _). rewrite Hs in Hnm. injection Hnm as _ <-. reflexivity.
    - rewrite (B G) in Hnm. injection Hnm as _ <-. reflexivity. }
  rewrite Hsame in Hnm.
  destruct (advance_after_handout (to_mem l) (rs_view s) (rs_off s) es Hm) as (m2 & e & He & Ha & P1 & P2 & P3 & _ & _ & P6); auto.
  { rewrite to_mem_committed, (mlast_to_mem l s Hg). exact Hc. }
  pose proof (sim_applied_to l1 (applied_cursor es 0) Hg1) as S2. unfold advance_applied in Ha. rewrite Hsame, Ha in S2.
  destruct (simL_ok_inv _ _ S2) as (l2 & E2 & Hg2 & Hm2).
  exists l2, e. split; [exact He|]. split; [exact E2|].
  rewrite <- Hm2 in P1, P2, P3, P6. rewrite to_mem_applied in P1. rewrite to_mem_committed in P2. rewrite to_mem_u in P3.
  rewrite to_mem_applied, mfirst_to_mem in P6. rewrite to_mem_committed in P2. rewrite to_mem_u in P3.
  repeat split; assumption.
Qed.

(* (d) maybeAppend never rewrites an index <= commit, only grows commit, and after acceptance the log holds the
       batch's term at every batch index (log-matching step) *)
Theorem maybe_append_rocks : forall l idx lt cm ents r l',
  rgood l -> wf_u (l_u l) -> contig (idx + 1) ents ->
  (forall lv l1, l_last_index l = Ok (lv, l1) -> u_off (l_u l) <= lv + 1) ->
  l_maybe_append l idx lt cm ents = Ok (r, l') ->
  l_committed l <= l_committed l' /\ l_applied l' = l_applied l /\ rgood l' /\ wf_u (l_u l') /\
  (forall i, i <= l_committed l -> term_of (l_term l' i) = term_of (l_term l i)) /\
  (forall n, r = Some n -> n = idx + nlen ents /\
     ((forall fv l1, l_first_index l = Ok (fv, l1) -> fv - 1 <= l_committed l) ->
      forall x, In x ents -> term_of (l_term l' (eindex x)) = Ok (eterm x))).
Proof.
  intros l idx lt cm ents r l' Hg Hu Hc Hhole H.
  pose proof (sim_maybe_append l idx lt cm ents Hg) as S. rewrite H in S.
  destruct (sim_ok_inv_l _ _ _ S) as (Hm & Hg').
  assert (Hmem : is_mem (to_mem l)).
  { destruct Hg as (s & Hs & _). rewrite (to_mem_rocks l s Hs). eexists. reflexivity. }
  destruct (maybe_append_below_commit (to_mem l) idx lt cm ents r (to_mem l') Hmem) as (A & B & _ & D & E & F); auto.
  { rewrite to_mem_u. exact Hu. }
  { intros lv Hl. rewrite to_mem_u. pose proof (sim_last_index l Hg) as S1. rewrite Hl in S1.
    destruct (sim_ok_inv _ _ _ S1) as (l1 & E1 & _). apply (Hhole lv l1 E1). }
  rewrite !to_mem_committed in A. rewrite !to_mem_applied in B. rewrite to_mem_u in D.
  split; [exact A|]. split; [exact B|]. split; [exact Hg'|]. split; [exact D|]. split.
  - intros i Hi. rewrite (term_of_sim l' i Hg'), (term_of_sim l i Hg). apply E. rewrite to_mem_committed. exact Hi.
  - intros n Hn. destruct (F n Hn) as [F1 F2]. split; [exact F1|]. intros Hf x Hx.
    rewrite (term_of_sim l' _ Hg'). apply F2; [|exact Hx].
    intros fv Hfv. rewrite to_mem_committed. pose proof (sim_first_index l Hg) as S1. rewrite Hfv in S1.
    destruct (sim_ok_inv _ _ _ S1) as (l1 & E1 & _). apply (Hf fv l1 E1).
Qed.

(* (e) restart: newLog over a good RocksStorage yields a well-formed log with nothing unstable and the cursors at
       the dummy index *)
Theorem new_log_rocks : forall s mx, rs_good s ->
  exists l s', new_log (SRocks s) mx = Ok l /\ wf_rlog l s' /\ rs_view s' = rs_view s /\ rs_db s' = rs_db s /\
    l_committed l = rs_off s /\ l_applied l = rs_off s /\ u_ents (l_u l) = [] /\ u_snap (l_u l) = None /\
    forall i, rs_off s < i -> r_log_entry (l_u l) s' i = db_get i (rs_db s).
Proof.
  intros s mx Hg. destruct (good_first_index s Hg) as (s1 & Hf & Hg1 & Hv1 & Hdb1 & Hsi1 & Hst1).
  destruct (good_last_index s1 Hg1) as (s2 & Hl & Hg2 & Hv2 & Hdb2 & Hsi2 & Hst2).
  assert (Hoff : rs_off s2 = rs_off s) by (unfold rs_off, rs_head; rewrite Hdb2, Hdb1, Hsi2, Hsi1; reflexivity).
  assert (Hlk1 : rs_lastk s1 = rs_lastk s) by (unfold rs_lastk, rs_head; rewrite Hdb1; reflexivity).
  assert (Hlk : rs_lastk s2 = rs_lastk s) by (unfold rs_lastk, rs_head; rewrite Hdb2, Hdb1; reflexivity).
  unfold new_log. cbn [st_first_index]. rewrite Hf. cbn [bind err_to_panic fst snd st_last_index]. rewrite Hl.
  cbn [bind err_to_panic fst snd].
  eexists _, s2. split; [reflexivity|]. cbn [l_committed l_applied l_u u_ents u_snap].
  replace (rs_off s + 1 - 1) with (rs_off s) by lia.
  split; [|split; [congruence|split; [congruence|split; [reflexivity|split; [reflexivity|split; [reflexivity|split; [reflexivity|]]]]]]].
  - unfold wf_rlog. cbn [l_st l_u u_snap u_off u_ents]. split; [reflexivity|]. split; [exact Hg2|]. split; [exact I|].
    destruct Hg as (_ & _ & _ & H4). rewrite Hoff, Hlk, Hlk1. split; [lia|]. split; [lia|]. intros _. reflexivity.
  - intros i Hi. unfold r_log_entry. cbn [u_off u_ents]. rewrite Hoff, Hlk1, Hdb2, Hdb1.
    destruct (rs_lastk s + 1 <=? i) eqn:E.
    + apply N.leb_le in E. unfold nnth. destruct (N.to_nat (i - (rs_lastk s + 1))); cbn [nth_error].
      * rewrite <- (view_nnth_get s i Hg Hi). unfold nnth. symmetry. apply nth_error_None.
        pose proof (view_len s Hg). unfold nlen in *. lia.
      * rewrite <- (view_nnth_get s i Hg Hi). unfold nnth. symmetry. apply nth_error_None.
        pose proof (view_len s Hg). unfold nlen in *. lia.
    + replace (rs_off s <? i) with true by (symmetry; apply N.ltb_lt; lia). reflexivity.
Qed.

(* (f) hasNextEnts *)
Theorem has_next_ents_rocks : forall l s, wf_rlog l s ->
  exists l', l_has_next_ents l = Ok (N.max (l_applied l + 1) (mfirst l (rs_off s)) <=? l_committed l, l') /\
             rgood l' /\ to_mem l' = to_mem l.
Proof.
  intros l s Hwf. pose proof (has_next_ents_spec _ _ _ (wf_rlog_mem l s Hwf)) as H.
  rewrite to_mem_applied, to_mem_committed, mfirst_to_mem in H.
  pose proof (sim_has_next_ents l (wf_rlog_rgood l s Hwf)) as S. rewrite H in S.
  destruct (sim_ok_inv _ _ _ S) as (l' & E & Hg' & Hm'). exists l'. auto.
Qed.

(* ====================================================================================== *)
(* 4. persisting entries: RocksStorage.Append is MemoryStorage.Append on the view *)
Lemma filter_filter_comm : forall {A} (f g : A -> bool) l, filter f (filter g l) = filter g (filter f l).
Proof.
  intros A f g. induction l as [|x l IH]; [reflexivity|]. simpl.
  destruct (g x) eqn:G, (f x) eqn:F; simpl; rewrite ?G, ?F, IH; reflexivity.
Qed.
Lemma filter_ext_in' : forall {A} (f g : A -> bool) l, (forall x, In x l -> f x = g x) -> filter f l = filter g l.
Proof.
  intros A f g. induction l as [|x l IH]; intros H; [reflexivity|]. simpl.
  rewrite (H x (or_introl eq_refl)). rewrite IH; [reflexivity|]. intros y Hy. apply H. right. exact Hy.
Qed.

Lemma filter_absorb : forall {A} (f g : A -> bool) l, (forall x, g x = true -> f x = true) -> filter f (filter g l) = filter g l.
Proof.
  intros A f g. induction l as [|x l IH]; intros H; [reflexivity|]. simpl. destruct (g x) eqn:G; [|apply IH; exact H].
  simpl. rewrite (H x G). f_equal. apply IH. exact H.
Qed.

Lemma rs_append_total : forall s e0 r, rs_inv s -> contig (eindex e0) (e0 :: r) ->
  exists s', rs_append s (e0 :: r) = Ok s'.
Proof.
  intros s e0 r Hinv Hc. unfold rs_append.
  destruct (rs_first_index_inv s Hinv) as (first & s1 & Hf & Hinv1 & _).
  rewrite Hf. cbn [bind]. destruct (eindex e0 + nlen (e0 :: r) - 1 <? first) eqn:E1; [eexists; reflexivity|].
  apply N.ltb_ge in E1.
  destruct (rs_last_index_inv s1 Hinv1) as (lasti & s2 & Hl & _). rewrite Hl. cbn [bind].
  assert (Hif : (if eindex e0 <? first then nskipn (first - eindex e0) (e0 :: r) else e0 :: r) = filter (fun e => first <=? eindex e) (e0 :: r)).
  { rewrite (contig_filter_ge _ _ first Hc). destruct (eindex e0 <? first) eqn:E2; [reflexivity|].
    apply N.ltb_ge in E2. replace (N.to_nat (first - eindex e0)) with 0%nat by lia. reflexivity. }
  rewrite Hif.
  destruct (contig_last_index _ _ Hc ltac:(discriminate)) as (la & Hla & Hlai).
  rewrite (last_opt_filter _ _ _ Hla) by (apply N.leb_le; lia). eexists. reflexivity.
Qed.

Theorem good_append : forall s e0 r, rs_good s -> contig (eindex e0) (e0 :: r) -> eindex e0 <= rs_lastk s + 1 ->
  exists s' m', rs_append s (e0 :: r) = Ok s' /\ ms_append (rs_view s) (e0 :: r) = Ok m' /\
                rs_good s' /\ rs_view s' = m' /\ rs_off s' = rs_off s.
Proof.
  intros s e0 r Hg Hc Hgap. pose proof Hg as (Hinv & Hdc & Hh1 & Hh2).
  pose proof (view_wf s Hg) as (Hwf & Ho). pose proof (view_len s Hg) as Hlen.
  pose proof (rs_good_nonempty s Hg) as Hne.
  destruct (rs_append_total s e0 r Hinv Hc) as (s' & Ha).
  pose proof (rs_append_inv s e0 r s' Hinv Hc Ha) as Hinv'.
  destruct (rs_append_spec s e0 r s' Hinv Hc Ha) as (first & Hrf & Hsi & Hst & Hsame & Hnew).
  assert (Hfirst : first = rs_off s + 1).
  { destruct (good_first_index s Hg) as (s1 & Hf & _). destruct (rs_first_index_inv s Hinv) as (v & s1' & Hf' & _ & Hr & _).
    rewrite Hf in Hf'. injection Hf' as <- _. rewrite Hrf in Hr. injection Hr as ->. reflexivity. }
  subst first.
  destruct (ms_append_spec (rs_view s) e0 r Hwf Hc (rs_off s) Ho ltac:(lia)) as (m' & Hma & _ & Hmsi & Hmst & Hmo & Hmsame & Hmnew).
  exists s', m'. split; [exact Ha|]. split; [exact Hma|].
  destruct (N.lt_ge_cases (eindex e0 + nlen (e0 :: r) - 1) (rs_off s + 1)) as [L|G].
  - (* everything below the first index: nothing changes *)
    specialize (Hsame L). specialize (Hmsame L). subst m'.
    split; [apply (rs_good_transfer s s' Hg Hinv' Hsame Hsi)|].
    split; [apply rs_view_transfer; assumption|]. unfold rs_off, rs_head. rewrite Hsi, Hsame. reflexivity.
  - specialize (Hnew G). specialize (Hmnew G).
    set (a := N.max (eindex e0) (rs_off s + 1)) in *.
    assert (Ha1 : rs_head s < a) by (unfold a; lia).
    assert (Ha2 : a <= rs_lastk s + 1) by (unfold a; lia).
    (* the kept prefix of the key space and the appended suffix *)
    assert (Hpre : filter (fun e => eindex e <? a) (rs_db s) = firstn (N.to_nat (a - rs_head s)) (rs_db s))
      by (apply (contig_filter_lt _ _ a Hdc)).
    assert (Hsuf : filter (fun e => rs_off s + 1 <=? eindex e) (e0 :: r) = skipn (N.to_nat (rs_off s + 1 - eindex e0)) (e0 :: r))
      by (apply (contig_filter_ge _ _ (rs_off s + 1) Hc)).
    assert (Hprelen : length (firstn (N.to_nat (a - rs_head s)) (rs_db s)) = N.to_nat (a - rs_head s)).
    { rewrite firstn_length. unfold rs_lastk, nlen in *. lia. }
    assert (Hhead' : rs_head s' = rs_head s).
    { unfold rs_head. rewrite Hnew, Hpre. destruct (rs_db s) as [|h t] eqn:Ed; [unfold nlen in Hne; simpl in Hne; lia|].
      replace (N.to_nat (a - rs_head s)) with (S (N.to_nat (a - rs_head s) - 1)) by lia. reflexivity. }
    assert (Hoff' : rs_off s' = rs_off s) by (unfold rs_off; rewrite Hsi; fold (rs_head s') (rs_head s); rewrite Hhead'; reflexivity).
    assert (Hcont' : contig (rs_head s) (rs_db s')).
    { rewrite Hnew, Hpre, Hsuf. apply contig_app. split; [apply contig_firstn; exact Hdc|].
      unfold nlen. rewrite Hprelen.
      pose proof (contig_skipn _ _ (N.to_nat (rs_off s + 1 - eindex e0)) Hc) as X.
      replace (eindex e0 + N.of_nat (N.to_nat (rs_off s + 1 - eindex e0))) with a in X by (unfold a; lia).
      replace (rs_head s + N.of_nat (N.to_nat (a - rs_head s))) with a by lia. exact X. }
    assert (Hlen' : nlen (rs_db s') = eindex e0 + nlen (e0 :: r) - rs_head s).
    { rewrite Hnew, Hpre, Hsuf. unfold nlen. rewrite app_length, Hprelen, skipn_length. unfold nlen in *. unfold a in *. lia. }
    split; [|split; [|exact Hoff']].
    + unfold rs_good. rewrite Hoff'. unfold rs_lastk. rewrite Hhead', Hlen'.
      split; [exact Hinv'|]. split; [exact Hcont'|]. split; [exact Hh1|]. unfold nlen in *. lia.
    + unfold rs_view. rewrite Hoff', Hsi, Hst.
      destruct m' as [msi mst ments]. cbn [ms_snapi ms_snapt ms_ents] in *. subst msi mst. f_equal.
      rewrite Hmnew, Hnew. unfold db_del_below. rewrite filter_app. f_equal.
      * unfold rs_view. cbn [ms_ents]. unfold db_del_below. apply filter_filter_comm.
      * apply filter_absorb. intros x Hx. apply N.leb_le in Hx. apply N.leb_le. lia.
Qed.

Lemma wf_rlog_of_mem : forall l s, l_st l = SRocks s -> rs_good s -> wf_mlog (to_mem l) (rs_view s) (rs_off s) -> wf_rlog l s.
Proof.
  intros l s Hs Hg (_ & _ & _ & Hu & Hsn). rewrite to_mem_u in Hu, Hsn. pose proof (view_len s Hg) as Hl.
  split; [exact Hs|]. split; [exact Hg|]. split; [exact Hu|].
  destruct (u_snap (l_u l)) as [[si st]|]; [exact Hsn|]. destruct Hsn as (A & B & C).
  split; [exact A|]. split; [lia|]. intros E. specialize (C E). lia.
Qed.

(* (g) persist + stableTo: the unstable entries go to the engine, the combined log is unchanged and readable
       from the engine alone *)
Theorem persist_then_stable_rocks : forall l s e0 r,
  wf_rlog l s -> u_snap (l_u l) = None -> u_ents (l_u l) = e0 :: r ->
  exists s' le l2,
    rs_append s (e0 :: r) = Ok s' /\ last_opt (e0 :: r) = Some le /\
    l_stable_to (set_st l (SRocks s')) (eindex le) (eterm le) = Ok l2 /\
    wf_rlog l2 s' /\ rs_off s' = rs_off s /\ u_ents (l_u l2) = [] /\ u_off (l_u l2) = eindex le + 1 /\
    rlast l2 s' = rlast l s /\
    (forall i, rs_off s < i -> i <= rlast l s -> r_log_entry (l_u l2) s' i = r_log_entry (l_u l) s i) /\
    (forall i, rs_off s < i -> i <= rlast l s -> db_get i (rs_db s') = r_log_entry (l_u l) s i).
Proof.
  intros l s e0 r Hwf Hns Hue. pose proof (wf_rlog_mem l s Hwf) as Hm. pose proof Hwf as (Hs & Hg & Hu & Hsn).
  rewrite Hns in Hsn. destruct Hsn as (S1 & S2 & _).
  assert (Hc0 : contig (eindex e0) (e0 :: r)).
  { unfold wf_u in Hu. rewrite Hue in Hu. pose proof Hu as [Hu0 _]. rewrite Hu0. exact Hu. }
  assert (He0 : eindex e0 = u_off (l_u l)).
  { unfold wf_u in Hu. rewrite Hue in Hu. destruct Hu as [Hu0 _]. exact Hu0. }
  destruct (good_append s e0 r Hg Hc0 ltac:(lia)) as (s' & m' & Ha & Hma & Hg' & Hv' & Hoff').
  destruct (persist_then_stable (to_mem l) (rs_view s) (rs_off s) e0 r Hm) as (m'' & le & m2 & Hma' & Hle & Hst & Hwf2 & P1 & P2 & P3 & P4 & P5);
    [rewrite to_mem_u; exact Hns|rewrite to_mem_u; exact Hue|].
  rewrite Hma in Hma'. injection Hma' as <-.
  set (l1 := set_st l (SRocks s')).
  assert (Hg1 : rgood l1) by (exists s'; split; [reflexivity|exact Hg']).
  assert (Hl1 : to_mem l1 = set_st (to_mem l) (SMem m')).
  { unfold l1. rewrite (to_mem_rocks l s Hs). unfold to_mem. cbn [set_st l_st]. rewrite Hv'. reflexivity. }
  pose proof (sim_stable_to l1 (eindex le) (eterm le) Hg1) as S. rewrite Hl1, Hst in S.
  destruct (simL_ok_inv _ _ S) as (l2 & E2 & Hg2 & Hm2).
  assert (Hst2 : l_st l2 = SRocks s').
  { unfold l_stable_to in E2. destruct (u_stable_to (l_u l1) (eindex le) (eterm le)); cbn [bind] in E2; try discriminate.
    injection E2 as <-. reflexivity. }
  exists s', le, l2. split; [exact Ha|]. split; [exact Hle|]. split; [exact E2|].
  rewrite <- Hm2, <- Hv', <- Hoff' in Hwf2.
  split; [apply (wf_rlog_of_mem l2 s' Hst2 Hg' Hwf2)|]. split; [exact Hoff'|].
  rewrite <- Hm2 in P1, P2, P3, P4. rewrite to_mem_u in P1, P2.
  split; [exact P1|]. split; [exact P2|].
  pose proof (mlast_to_mem l2 s' Hg') as X3. rewrite Hoff', Hv' in X3. rewrite X3, (mlast_to_mem l s Hg) in P3.
  split; [exact P3|]. rewrite (mlast_to_mem l s Hg) in P4, P5. rewrite to_mem_u in P4, P5. split.
  - intros i H1 H2. specialize (P4 i H1 H2). rewrite to_mem_u in P4.
    pose proof (log_entry_view (l_u l2) s' i Hg') as X4. rewrite Hoff', Hv' in X4.
    rewrite X4, (log_entry_view _ s _ Hg) in P4. exact P4.
  - intros i H1 H2. specialize (P5 i H1 H2).
    pose proof (view_nnth_get s' i Hg' ltac:(lia)) as X5. rewrite Hoff', Hv' in X5.
    rewrite X5, (log_entry_view _ s _ Hg) in P5. exact P5.
Qed.

(* ====================================================================================== *)
(* 5. goodness is what the operations issued by raft keep: a fresh engine, a restart, snapshots and compaction *)
Lemma good_new : rs_good rs_new.
Proof.
  split; [exact rs_inv_new|]. unfold rs_new, rs_head, rs_off, rs_lastk, nlen. cbn. split; [split; [reflexivity|exact I]|]. lia.
Qed.

Lemma good_reopen : forall s, rs_good s -> rs_good (rs_reopen s).
Proof.
  intros s Hg. pose proof (rs_good_nonempty s Hg) as Hn. destruct Hg as (Hinv & Hc & H1 & H2).
  split; [apply (rs_step_inv s RReopen Hinv I)|].
  assert (Hh : rs_head (rs_reopen s) = rs_head s) by reflexivity.
  assert (Ho : rs_off (rs_reopen s) = rs_head s) by reflexivity.
  assert (Hl : rs_lastk (rs_reopen s) = rs_lastk s) by reflexivity.
  rewrite Ho, Hl, Hh. split; [exact Hc|]. unfold rs_lastk. lia.
Qed.

Lemma good_create_snapshot : forall s i s', rs_good s -> rs_create_snapshot s i = Ok s' ->
  rs_good s' /\ rs_db s' = rs_db s /\ rs_off s' = i /\ rs_off s < i + 1.
Proof.
  intros s i s' Hg H. pose proof (rs_create_snapshot_inv s i s' (proj1 Hg) H) as Hinv'.
  unfold rs_create_snapshot in H.
  destruct (good_first_index s Hg) as (s1 & Hf & Hg1 & Hv1 & Hdb1 & Hsi1 & Hst1). rewrite Hf in H. cbn [bind] in H.
  destruct (i <? rs_off s + 1) eqn:E1; [discriminate|]. apply N.ltb_ge in E1.
  destruct (db_seek i (rs_db s1)) as [e|] eqn:Es; [|discriminate].
  destruct (eindex e =? i) eqn:E2; [|discriminate]. apply N.eqb_eq in E2. injection H as <-.
  destruct (find_some_index _ _ _ Es) as [Hin _]. rewrite Hdb1 in Hin.
  destruct Hg as (_ & Hc & H1 & H2). pose proof (contig_in_ge _ _ _ Hc Hin). pose proof (contig_in_le _ _ _ Hc Hin).
  assert (Hoff : rs_off (mkRS i (eterm e) (rs_db s1) (rs_fc s1) (rs_lc s1)) = i).
  { unfold rs_off. cbn [rs_snapi]. replace (i =? 0) with false by (symmetry; apply N.eqb_neq; lia). reflexivity. }
  split; [|split; [cbn; exact Hdb1|split; [exact Hoff|lia]]].
  split; [exact Hinv'|]. rewrite Hoff. unfold rs_lastk, rs_head in *. cbn [rs_db]. rewrite Hdb1. split; [exact Hc|]. lia.
Qed.

Lemma good_compact : forall s ci s', rs_good s -> (rs_snapi s = 0 \/ ci <= rs_snapi s) -> rs_compact s ci = Ok s' ->
  rs_good s' /\ rs_db s' = db_del_below ci (rs_db s) /\ rs_head s' = ci.
Proof.
  intros s ci s' Hg Hside H. pose proof (rs_compact_inv s ci s' (proj1 Hg) H) as Hinv'.
  pose proof (rs_good_nonempty s Hg) as Hn. pose proof Hg as (Hinv & Hc & H1 & H2).
  unfold rs_compact in H.
  destruct (rs_db s) as [|h t] eqn:Ed; [unfold nlen in Hn; simpl in Hn; lia|].
  unfold db_seek in H. cbn [find] in H. replace (0 <=? eindex h) with true in H by (symmetry; apply N.leb_le; lia).
  destruct (ci <=? eindex h) eqn:E1; [discriminate|]. apply N.leb_gt in E1.
  destruct (good_last_index s Hg) as (s1 & Hl & Hg1 & Hv1 & Hdb1 & Hsi1 & Hst1). rewrite Hl in H. cbn [bind] in H.
  destruct (rs_lastk s <? ci) eqn:E2; [discriminate|]. apply N.ltb_ge in E2. injection H as <-.
  assert (Hh : rs_head s = eindex h) by (unfold rs_head; rewrite Ed; reflexivity).
  assert (Hdb' : db_del_below ci (rs_db s1) = skipn (N.to_nat (ci - rs_head s)) (rs_db s)).
  { rewrite Hdb1. unfold db_del_below. rewrite <- Ed in *. apply (contig_filter_ge _ _ ci Hc). }
  pose proof (contig_skipn _ _ (N.to_nat (ci - rs_head s)) Hc) as Hc'.
  replace (rs_head s + N.of_nat (N.to_nat (ci - rs_head s))) with ci in Hc' by lia.
  assert (Hlen' : nlen (skipn (N.to_nat (ci - rs_head s)) (rs_db s)) = rs_lastk s + 1 - ci).
  { unfold nlen. rewrite skipn_length. unfold rs_lastk, nlen in *. lia. }
  assert (Hhead' : rs_head (mkRS (rs_snapi s1) (rs_snapt s1) (db_del_below ci (rs_db s1)) 0 (rs_lc s1)) = ci).
  { unfold rs_head. cbn [rs_db]. rewrite Hdb'. destruct (skipn (N.to_nat (ci - rs_head s)) (rs_db s)) as [|x xs] eqn:Ex.
    - unfold nlen in Hlen'. simpl in Hlen'. lia.
    - rewrite Ed in Ex. rewrite Ex in Hc'. destruct Hc' as [Hx _]. exact Hx. }
  split; [|split; [cbn [rs_db]; rewrite Hdb1, Ed; reflexivity|exact Hhead']].
  split; [exact Hinv'|]. rewrite Hhead'. unfold rs_off, rs_lastk. rewrite Hhead'. cbn [rs_db rs_snapi]. rewrite Hdb', Hlen', Hsi1.
  rewrite <- Ed in Hc'. split; [exact Hc'|].
  unfold rs_off in H1, H2. destruct (rs_snapi s =? 0) eqn:Z; cbn [negb] in *.
  - lia.
  - apply N.eqb_neq in Z. destruct Hside as [Hz|Hle]; [congruence|]. lia.
Qed.

(* ApplySnapshot keeps the engine good, but it is NOT MemoryStorage.ApplySnapshot on the view: MemoryStorage drops every
   entry, RocksStorage writes the dummy at the snapshot index, deletes the keys below it and KEEPS the keys above it *)
Lemma good_apply_snapshot : forall s si st s', rs_good s -> rs_head s <= si + 1 -> rs_apply_snapshot s si st = Ok s' ->
  rs_good s' /\ rs_off s' = si /\ rs_snapi s' = si /\ rs_snapt s' = st /\
  rs_db s' = mkE st si 0 0 :: filter (fun e => si + 1 <=? eindex e) (rs_db s) /\
  ms_apply_snapshot (rs_view s) si st = Ok (mkMS si st [mkE st si 0 0]).
Proof.
  intros s si st s' Hg Hh H. pose proof (rs_apply_snapshot_inv s si st s' (proj1 Hg) H) as Hinv'.
  pose proof Hg as ((Hincr & _) & Hc & H1 & H2). unfold rs_apply_snapshot in H.
  destruct (si <=? rs_snapi s) eqn:E; [discriminate|]. apply N.leb_gt in E. injection H as <-.
  set (d := mkE st si 0 0) in *.
  destruct (db_put_spec d (rs_db s) Hincr) as (P1 & P2 & P3 & P4).
  assert (Hdb : db_del_below si (db_put d (rs_db s)) = d :: filter (fun e => si + 1 <=? eindex e) (rs_db s)).
  { apply incr_ext.
    - apply incr_filter. exact P1.
    - cbn [incr]. split; [|apply incr_filter; exact Hincr]. intros x Hx. apply filter_In in Hx. destruct Hx as [_ Hx].
      apply N.leb_le in Hx. cbn. lia.
    - intros x. unfold db_del_below. rewrite filter_In. split.
      + intros [Hx Hi]. apply N.leb_le in Hi. destruct (P3 x Hx) as [->|[Hx' Hne]]; [left; reflexivity|].
        right. apply filter_In. split; [exact Hx'|]. apply N.leb_le. cbn in Hne. lia.
      + intros [<-|Hx]; [split; [exact P2|apply N.leb_le; cbn; lia]|].
        apply filter_In in Hx. destruct Hx as [Hx Hi]. apply N.leb_le in Hi. split; [|apply N.leb_le; lia].
        apply P4; [exact Hx|]. cbn. lia. }
  assert (Hct : contig (si + 1) (filter (fun e => si + 1 <=? eindex e) (rs_db s))).
  { rewrite (contig_filter_ge _ _ (si + 1) Hc). pose proof (contig_skipn _ _ (N.to_nat (si + 1 - rs_head s)) Hc) as X.
    replace (rs_head s + N.of_nat (N.to_nat (si + 1 - rs_head s))) with (si + 1) in X by lia. exact X. }
  assert (Hoff : rs_off (mkRS si st (db_del_below si (db_put d (rs_db s))) 0 0) = si).
  { unfold rs_off. cbn [rs_snapi]. replace (si =? 0) with false by (symmetry; apply N.eqb_neq; lia). reflexivity. }
  split; [|split; [exact Hoff|split; [reflexivity|split; [reflexivity|split; [exact Hdb|]]]]].
  - split; [exact Hinv'|]. rewrite Hoff. unfold rs_lastk, rs_head. cbn [rs_db]. rewrite Hdb.
    replace (eindex d) with si by reflexivity. split; [split; [reflexivity|exact Hct]|]. unfold nlen. simpl. lia.
  - unfold ms_apply_snapshot. unfold rs_view at 1. cbn [ms_snapi].
    replace (si <=? rs_snapi s) with false by (symmetry; apply N.leb_gt; lia). reflexivity.
Qed.

(* every state reached from a fresh engine by queries, restarts, contiguous gap-free appends, snapshots of present
   indexes, ApplySnapshot at or after the first key - 1, and compaction not beyond the snapshot is good *)
Inductive rop_good : rstore -> rop -> Prop :=
| GFirst : forall s, rop_good s RFirst
| GLast : forall s, rop_good s RLast
| GTerm : forall s i, rop_good s (RTerm i)
| GEntries : forall s lo hi max, lo < hi -> rop_good s (REntries lo hi max)
| GCreate : forall s i, rop_good s (RCreateSnap i)
| GApplySnap : forall s si st, rs_head s <= si + 1 -> rop_good s (RApplySnap si st)
| GCompact : forall s ci, (rs_snapi s = 0 \/ ci <= rs_snapi s) -> rop_good s (RCompact ci)
| GAppend : forall s e0 r, contig (eindex e0) (e0 :: r) -> eindex e0 <= rs_lastk s + 1 -> rop_good s (RAppend (e0 :: r))
| GAppendNil : forall s, rop_good s (RAppend [])
| GReopen : forall s, rop_good s RReopen.

Lemma good_step : forall s o, rs_good s -> rop_good s o -> rs_good (rs_step s o).
Proof.
  intros s o Hg Ho. destruct Ho; cbn [rs_step].
  - destruct (good_first_index s Hg) as (s1 & -> & Hg1 & _). exact Hg1.
  - destruct (good_last_index s Hg) as (s1 & -> & Hg1 & _). exact Hg1.
  - destruct (good_term s i Hg) as (_ & Hok). destruct (rs_term s i) as [[t s']| |]; [|exact Hg|exact Hg].
    apply (Hok t s' eq_refl).
  - destruct (good_entries s lo hi max Hg H) as (C1 & C2 & C3).
    destruct (N.le_gt_cases lo (rs_off s)) as [L|G]; [destruct (C1 L) as [-> _]; exact Hg|].
    destruct (N.le_gt_cases hi (rs_lastk s + 1)) as [L2|G2].
    + destruct (C3 G L2) as (es & s' & -> & _ & Hg' & _). exact Hg'.
    + destruct (C2 G G2) as [-> _]. exact Hg.
  - destruct (rs_create_snapshot s i) as [s'| |] eqn:E; [|exact Hg|exact Hg]. apply (good_create_snapshot s i s' Hg E).
  - destruct (rs_apply_snapshot s si st) as [s'| |] eqn:E; [|exact Hg|exact Hg]. apply (good_apply_snapshot s si st s' Hg H E).
  - destruct (rs_compact s ci) as [s'| |] eqn:E; [|exact Hg|exact Hg]. apply (good_compact s ci s' Hg H E).
  - destruct (good_append s e0 r Hg H H0) as (s' & m' & -> & _ & Hg' & _). exact Hg'.
  - exact Hg.
  - apply good_reopen. exact Hg.
Qed.

Fixpoint rops_good (s : rstore) (ops : list rop) : Prop :=
  match ops with
  | [] => True
  | o :: rest => rop_good s o /\ rops_good (rs_step s o) rest
  end.
Theorem good_reachable : forall ops s, rs_good s -> rops_good s ops -> rs_good (fold_left rs_step ops s).
Proof.
  induction ops as [|o rest IH]; intros s Hg H; [exact Hg|]. destruct H as [Ho Hr]. cbn [fold_left].
  apply IH; [apply good_step; assumption|exact Hr].
Qed.
