(* Raft/ProofsCore.v — theorems about the transcribed handlers of Raft/Core.v (raft.Step and friends).
   Each statement is about the Gallina function that the handler-level differential (raftsim -mode core)
   compares with the Go handler case by case; nothing here talks about runs of several nodes (that is
   RaftAbs).
     step_vote_*            the MsgVote / MsgPreVote case of Step: a granting answer implies every clause of the
                            rule; the recorded vote changes only on a granted real vote
     reset_*                reset keeps Vote when the term is unchanged and clears it otherwise
     send_heartbeat_commit  the commit index carried by a heartbeat is at most the destination's Match
     learner_*              a learner neither grants a vote nor campaigns
     hup_refuses_*          hup does nothing while a configuration change in (applied, committed] is unapplied *)
From Coq Require Import List NArith PeanoNat Bool Lia ZifyN ZifyNat ZifyBool.
Import ListNotations.
From ZV Require Import Raft.Consts Raft.Model Raft.Proofs Raft.ProofsLog Raft.ProofsStore Raft.Core.
Open Scope N_scope.
Arguments N.mul : simpl never.
Arguments N.add : simpl never.
Arguments N.sub : simpl never.
(* kernel conversion: unfold the handler being analysed before bind (otherwise checking 'unfold f in H' reduces
   the whole body of the first bound call) *)
Strategy 1000 [bind].

(* projections through the record updates (each by computation); used to keep proof terms small *)
Lemma r_id_upd_log : forall r v, r_id (upd_log r v) = r_id r. Proof. reflexivity. Qed.
Lemma r_term_upd_log : forall r v, r_term (upd_log r v) = r_term r. Proof. reflexivity. Qed.
Lemma r_vote_upd_log : forall r v, r_vote (upd_log r v) = r_vote r. Proof. reflexivity. Qed.
Lemma r_lead_upd_log : forall r v, r_lead (upd_log r v) = r_lead r. Proof. reflexivity. Qed.
Lemma r_msgs_upd_log : forall r v, r_msgs (upd_log r v) = r_msgs r. Proof. reflexivity. Qed.
Lemma r_islearner_upd_log : forall r v, r_islearner (upd_log r v) = r_islearner r. Proof. reflexivity. Qed.
Lemma r_state_upd_log : forall r v, r_state (upd_log r v) = r_state r. Proof. reflexivity. Qed.
Lemma r_log_upd_log : forall r v, r_log (upd_log r v) = v. Proof. reflexivity. Qed.
Lemma r_id_upd_prs : forall r v, r_id (upd_prs r v) = r_id r. Proof. reflexivity. Qed.
Lemma r_term_upd_prs : forall r v, r_term (upd_prs r v) = r_term r. Proof. reflexivity. Qed.
Lemma r_vote_upd_prs : forall r v, r_vote (upd_prs r v) = r_vote r. Proof. reflexivity. Qed.
Lemma r_lead_upd_prs : forall r v, r_lead (upd_prs r v) = r_lead r. Proof. reflexivity. Qed.
Lemma r_msgs_upd_prs : forall r v, r_msgs (upd_prs r v) = r_msgs r. Proof. reflexivity. Qed.
Lemma r_islearner_upd_prs : forall r v, r_islearner (upd_prs r v) = r_islearner r. Proof. reflexivity. Qed.
Lemma r_state_upd_prs : forall r v, r_state (upd_prs r v) = r_state r. Proof. reflexivity. Qed.
Lemma r_log_upd_prs : forall r v, r_log (upd_prs r v) = r_log r. Proof. reflexivity. Qed.
Lemma r_id_upd_lprs : forall r v, r_id (upd_lprs r v) = r_id r. Proof. reflexivity. Qed.
Lemma r_term_upd_lprs : forall r v, r_term (upd_lprs r v) = r_term r. Proof. reflexivity. Qed.
Lemma r_vote_upd_lprs : forall r v, r_vote (upd_lprs r v) = r_vote r. Proof. reflexivity. Qed.
Lemma r_lead_upd_lprs : forall r v, r_lead (upd_lprs r v) = r_lead r. Proof. reflexivity. Qed.
Lemma r_msgs_upd_lprs : forall r v, r_msgs (upd_lprs r v) = r_msgs r. Proof. reflexivity. Qed.
Lemma r_islearner_upd_lprs : forall r v, r_islearner (upd_lprs r v) = r_islearner r. Proof. reflexivity. Qed.
Lemma r_state_upd_lprs : forall r v, r_state (upd_lprs r v) = r_state r. Proof. reflexivity. Qed.
Lemma r_log_upd_lprs : forall r v, r_log (upd_lprs r v) = r_log r. Proof. reflexivity. Qed.
Lemma r_id_upd_msgs : forall r v, r_id (upd_msgs r v) = r_id r. Proof. reflexivity. Qed.
Lemma r_term_upd_msgs : forall r v, r_term (upd_msgs r v) = r_term r. Proof. reflexivity. Qed.
Lemma r_vote_upd_msgs : forall r v, r_vote (upd_msgs r v) = r_vote r. Proof. reflexivity. Qed.
Lemma r_lead_upd_msgs : forall r v, r_lead (upd_msgs r v) = r_lead r. Proof. reflexivity. Qed.
Lemma r_msgs_upd_msgs : forall r v, r_msgs (upd_msgs r v) = v. Proof. reflexivity. Qed.
Lemma r_islearner_upd_msgs : forall r v, r_islearner (upd_msgs r v) = r_islearner r. Proof. reflexivity. Qed.
Lemma r_state_upd_msgs : forall r v, r_state (upd_msgs r v) = r_state r. Proof. reflexivity. Qed.
Lemma r_log_upd_msgs : forall r v, r_log (upd_msgs r v) = r_log r. Proof. reflexivity. Qed.
Lemma r_id_upd_tv : forall r v w, r_id (upd_tv r v w) = r_id r. Proof. reflexivity. Qed.
Lemma r_term_upd_tv : forall r v w, r_term (upd_tv r v w) = v. Proof. reflexivity. Qed.
Lemma r_vote_upd_tv : forall r v w, r_vote (upd_tv r v w) = w. Proof. reflexivity. Qed.
Lemma r_lead_upd_tv : forall r v w, r_lead (upd_tv r v w) = r_lead r. Proof. reflexivity. Qed.
Lemma r_msgs_upd_tv : forall r v w, r_msgs (upd_tv r v w) = r_msgs r. Proof. reflexivity. Qed.
Lemma r_islearner_upd_tv : forall r v w, r_islearner (upd_tv r v w) = r_islearner r. Proof. reflexivity. Qed.
Lemma r_state_upd_tv : forall r v w, r_state (upd_tv r v w) = r_state r. Proof. reflexivity. Qed.
Lemma r_log_upd_tv : forall r v w, r_log (upd_tv r v w) = r_log r. Proof. reflexivity. Qed.
Lemma r_id_upd_state : forall r v, r_id (upd_state r v) = r_id r. Proof. reflexivity. Qed.
Lemma r_term_upd_state : forall r v, r_term (upd_state r v) = r_term r. Proof. reflexivity. Qed.
Lemma r_vote_upd_state : forall r v, r_vote (upd_state r v) = r_vote r. Proof. reflexivity. Qed.
Lemma r_lead_upd_state : forall r v, r_lead (upd_state r v) = r_lead r. Proof. reflexivity. Qed.
Lemma r_msgs_upd_state : forall r v, r_msgs (upd_state r v) = r_msgs r. Proof. reflexivity. Qed.
Lemma r_islearner_upd_state : forall r v, r_islearner (upd_state r v) = r_islearner r. Proof. reflexivity. Qed.
Lemma r_state_upd_state : forall r v, r_state (upd_state r v) = v. Proof. reflexivity. Qed.
Lemma r_log_upd_state : forall r v, r_log (upd_state r v) = r_log r. Proof. reflexivity. Qed.
Lemma r_id_upd_islearner : forall r v, r_id (upd_islearner r v) = r_id r. Proof. reflexivity. Qed.
Lemma r_term_upd_islearner : forall r v, r_term (upd_islearner r v) = r_term r. Proof. reflexivity. Qed.
Lemma r_vote_upd_islearner : forall r v, r_vote (upd_islearner r v) = r_vote r. Proof. reflexivity. Qed.
Lemma r_lead_upd_islearner : forall r v, r_lead (upd_islearner r v) = r_lead r. Proof. reflexivity. Qed.
Lemma r_msgs_upd_islearner : forall r v, r_msgs (upd_islearner r v) = r_msgs r. Proof. reflexivity. Qed.
Lemma r_islearner_upd_islearner : forall r v, r_islearner (upd_islearner r v) = v. Proof. reflexivity. Qed.
Lemma r_state_upd_islearner : forall r v, r_state (upd_islearner r v) = r_state r. Proof. reflexivity. Qed.
Lemma r_log_upd_islearner : forall r v, r_log (upd_islearner r v) = r_log r. Proof. reflexivity. Qed.
Lemma r_id_upd_votes : forall r v, r_id (upd_votes r v) = r_id r. Proof. reflexivity. Qed.
Lemma r_term_upd_votes : forall r v, r_term (upd_votes r v) = r_term r. Proof. reflexivity. Qed.
Lemma r_vote_upd_votes : forall r v, r_vote (upd_votes r v) = r_vote r. Proof. reflexivity. Qed.
Lemma r_lead_upd_votes : forall r v, r_lead (upd_votes r v) = r_lead r. Proof. reflexivity. Qed.
Lemma r_msgs_upd_votes : forall r v, r_msgs (upd_votes r v) = r_msgs r. Proof. reflexivity. Qed.
Lemma r_islearner_upd_votes : forall r v, r_islearner (upd_votes r v) = r_islearner r. Proof. reflexivity. Qed.
Lemma r_state_upd_votes : forall r v, r_state (upd_votes r v) = r_state r. Proof. reflexivity. Qed.
Lemma r_log_upd_votes : forall r v, r_log (upd_votes r v) = r_log r. Proof. reflexivity. Qed.
Lemma r_id_upd_lead : forall r v, r_id (upd_lead r v) = r_id r. Proof. reflexivity. Qed.
Lemma r_term_upd_lead : forall r v, r_term (upd_lead r v) = r_term r. Proof. reflexivity. Qed.
Lemma r_vote_upd_lead : forall r v, r_vote (upd_lead r v) = r_vote r. Proof. reflexivity. Qed.
Lemma r_lead_upd_lead : forall r v, r_lead (upd_lead r v) = v. Proof. reflexivity. Qed.
Lemma r_msgs_upd_lead : forall r v, r_msgs (upd_lead r v) = r_msgs r. Proof. reflexivity. Qed.
Lemma r_islearner_upd_lead : forall r v, r_islearner (upd_lead r v) = r_islearner r. Proof. reflexivity. Qed.
Lemma r_state_upd_lead : forall r v, r_state (upd_lead r v) = r_state r. Proof. reflexivity. Qed.
Lemma r_log_upd_lead : forall r v, r_log (upd_lead r v) = r_log r. Proof. reflexivity. Qed.
Lemma r_id_upd_transferee : forall r v, r_id (upd_transferee r v) = r_id r. Proof. reflexivity. Qed.
Lemma r_term_upd_transferee : forall r v, r_term (upd_transferee r v) = r_term r. Proof. reflexivity. Qed.
Lemma r_vote_upd_transferee : forall r v, r_vote (upd_transferee r v) = r_vote r. Proof. reflexivity. Qed.
Lemma r_lead_upd_transferee : forall r v, r_lead (upd_transferee r v) = r_lead r. Proof. reflexivity. Qed.
Lemma r_msgs_upd_transferee : forall r v, r_msgs (upd_transferee r v) = r_msgs r. Proof. reflexivity. Qed.
Lemma r_islearner_upd_transferee : forall r v, r_islearner (upd_transferee r v) = r_islearner r. Proof. reflexivity. Qed.
Lemma r_state_upd_transferee : forall r v, r_state (upd_transferee r v) = r_state r. Proof. reflexivity. Qed.
Lemma r_log_upd_transferee : forall r v, r_log (upd_transferee r v) = r_log r. Proof. reflexivity. Qed.
Lemma r_id_upd_pendingconf : forall r v, r_id (upd_pendingconf r v) = r_id r. Proof. reflexivity. Qed.
Lemma r_term_upd_pendingconf : forall r v, r_term (upd_pendingconf r v) = r_term r. Proof. reflexivity. Qed.
Lemma r_vote_upd_pendingconf : forall r v, r_vote (upd_pendingconf r v) = r_vote r. Proof. reflexivity. Qed.
Lemma r_lead_upd_pendingconf : forall r v, r_lead (upd_pendingconf r v) = r_lead r. Proof. reflexivity. Qed.
Lemma r_msgs_upd_pendingconf : forall r v, r_msgs (upd_pendingconf r v) = r_msgs r. Proof. reflexivity. Qed.
Lemma r_islearner_upd_pendingconf : forall r v, r_islearner (upd_pendingconf r v) = r_islearner r. Proof. reflexivity. Qed.
Lemma r_state_upd_pendingconf : forall r v, r_state (upd_pendingconf r v) = r_state r. Proof. reflexivity. Qed.
Lemma r_log_upd_pendingconf : forall r v, r_log (upd_pendingconf r v) = r_log r. Proof. reflexivity. Qed.
Lemma r_id_upd_elapsed : forall r v w, r_id (upd_elapsed r v w) = r_id r. Proof. reflexivity. Qed.
Lemma r_term_upd_elapsed : forall r v w, r_term (upd_elapsed r v w) = r_term r. Proof. reflexivity. Qed.
Lemma r_vote_upd_elapsed : forall r v w, r_vote (upd_elapsed r v w) = r_vote r. Proof. reflexivity. Qed.
Lemma r_lead_upd_elapsed : forall r v w, r_lead (upd_elapsed r v w) = r_lead r. Proof. reflexivity. Qed.
Lemma r_msgs_upd_elapsed : forall r v w, r_msgs (upd_elapsed r v w) = r_msgs r. Proof. reflexivity. Qed.
Lemma r_islearner_upd_elapsed : forall r v w, r_islearner (upd_elapsed r v w) = r_islearner r. Proof. reflexivity. Qed.
Lemma r_state_upd_elapsed : forall r v w, r_state (upd_elapsed r v w) = r_state r. Proof. reflexivity. Qed.
Lemma r_log_upd_elapsed : forall r v w, r_log (upd_elapsed r v w) = r_log r. Proof. reflexivity. Qed.
Lemma r_id_upd_randtimeout : forall r v, r_id (upd_randtimeout r v) = r_id r. Proof. reflexivity. Qed.
Lemma r_term_upd_randtimeout : forall r v, r_term (upd_randtimeout r v) = r_term r. Proof. reflexivity. Qed.
Lemma r_vote_upd_randtimeout : forall r v, r_vote (upd_randtimeout r v) = r_vote r. Proof. reflexivity. Qed.
Lemma r_lead_upd_randtimeout : forall r v, r_lead (upd_randtimeout r v) = r_lead r. Proof. reflexivity. Qed.
Lemma r_msgs_upd_randtimeout : forall r v, r_msgs (upd_randtimeout r v) = r_msgs r. Proof. reflexivity. Qed.
Lemma r_islearner_upd_randtimeout : forall r v, r_islearner (upd_randtimeout r v) = r_islearner r. Proof. reflexivity. Qed.
Lemma r_state_upd_randtimeout : forall r v, r_state (upd_randtimeout r v) = r_state r. Proof. reflexivity. Qed.
Lemma r_log_upd_randtimeout : forall r v, r_log (upd_randtimeout r v) = r_log r. Proof. reflexivity. Qed.
Lemma r_id_upd_usconf : forall r v, r_id (upd_usconf r v) = r_id r. Proof. reflexivity. Qed.
Lemma r_term_upd_usconf : forall r v, r_term (upd_usconf r v) = r_term r. Proof. reflexivity. Qed.
Lemma r_vote_upd_usconf : forall r v, r_vote (upd_usconf r v) = r_vote r. Proof. reflexivity. Qed.
Lemma r_lead_upd_usconf : forall r v, r_lead (upd_usconf r v) = r_lead r. Proof. reflexivity. Qed.
Lemma r_msgs_upd_usconf : forall r v, r_msgs (upd_usconf r v) = r_msgs r. Proof. reflexivity. Qed.
Lemma r_islearner_upd_usconf : forall r v, r_islearner (upd_usconf r v) = r_islearner r. Proof. reflexivity. Qed.
Lemma r_state_upd_usconf : forall r v, r_state (upd_usconf r v) = r_state r. Proof. reflexivity. Qed.
Lemma r_log_upd_usconf : forall r v, r_log (upd_usconf r v) = r_log r. Proof. reflexivity. Qed.
#[global] Hint Rewrite r_id_upd_log r_term_upd_log r_vote_upd_log r_lead_upd_log r_msgs_upd_log r_islearner_upd_log r_state_upd_log r_log_upd_log r_id_upd_prs r_term_upd_prs r_vote_upd_prs r_lead_upd_prs r_msgs_upd_prs r_islearner_upd_prs r_state_upd_prs r_log_upd_prs r_id_upd_lprs r_term_upd_lprs r_vote_upd_lprs r_lead_upd_lprs r_msgs_upd_lprs r_islearner_upd_lprs r_state_upd_lprs r_log_upd_lprs r_id_upd_msgs r_term_upd_msgs r_vote_upd_msgs r_lead_upd_msgs r_msgs_upd_msgs r_islearner_upd_msgs r_state_upd_msgs r_log_upd_msgs r_id_upd_tv r_term_upd_tv r_vote_upd_tv r_lead_upd_tv r_msgs_upd_tv r_islearner_upd_tv r_state_upd_tv r_log_upd_tv r_id_upd_state r_term_upd_state r_vote_upd_state r_lead_upd_state r_msgs_upd_state r_islearner_upd_state r_state_upd_state r_log_upd_state r_id_upd_islearner r_term_upd_islearner r_vote_upd_islearner r_lead_upd_islearner r_msgs_upd_islearner r_islearner_upd_islearner r_state_upd_islearner r_log_upd_islearner r_id_upd_votes r_term_upd_votes r_vote_upd_votes r_lead_upd_votes r_msgs_upd_votes r_islearner_upd_votes r_state_upd_votes r_log_upd_votes r_id_upd_lead r_term_upd_lead r_vote_upd_lead r_lead_upd_lead r_msgs_upd_lead r_islearner_upd_lead r_state_upd_lead r_log_upd_lead r_id_upd_transferee r_term_upd_transferee r_vote_upd_transferee r_lead_upd_transferee r_msgs_upd_transferee r_islearner_upd_transferee r_state_upd_transferee r_log_upd_transferee r_id_upd_pendingconf r_term_upd_pendingconf r_vote_upd_pendingconf r_lead_upd_pendingconf r_msgs_upd_pendingconf r_islearner_upd_pendingconf r_state_upd_pendingconf r_log_upd_pendingconf r_id_upd_elapsed r_term_upd_elapsed r_vote_upd_elapsed r_lead_upd_elapsed r_msgs_upd_elapsed r_islearner_upd_elapsed r_state_upd_elapsed r_log_upd_elapsed r_id_upd_randtimeout r_term_upd_randtimeout r_vote_upd_randtimeout r_lead_upd_randtimeout r_msgs_upd_randtimeout r_islearner_upd_randtimeout r_state_upd_randtimeout r_log_upd_randtimeout r_id_upd_usconf r_term_upd_usconf r_vote_upd_usconf r_lead_upd_usconf r_msgs_upd_usconf r_islearner_upd_usconf r_state_upd_usconf r_log_upd_usconf : upd.

(* ---------- frames ---------- *)
Lemma with_log_frame : forall A (r : raftst) (x : res (A * rlog)) a r',
  with_log r x = Ok (a, r') -> exists l, x = Ok (a, l) /\ r' = upd_log r l.
Proof.
  intros A r x a r' H. unfold with_log in H. destruct x as [[a0 l]| |]; try discriminate.
  inversion H; subst. exists l. split; reflexivity.
Qed.

Lemma last_index_frame : forall r li r', last_index r = Ok (li, r') -> exists l, r' = upd_log r l.
Proof. intros r li r' H. apply with_log_frame in H. destruct H as (l & _ & E). exists l. exact E. Qed.
Lemma last_term_frame : forall r lt r', last_term r = Ok (lt, r') -> exists l, r' = upd_log r l.
Proof. intros r lt r' H. apply with_log_frame in H. destruct H as (l & _ & E). exists l. exact E. Qed.

(* send appends exactly one message; type, destination, reject flag, commit and entries are the caller's *)
Lemma send_spec : forall r m r', send r m = Ok r' ->
  exists x, r' = upd_msgs r (r_msgs r ++ [x]) /\ m_type x = m_type m /\ m_to x = m_to m /\
            m_reject x = m_reject m /\ m_commit x = m_commit m /\ m_from x = r_id r /\ m_ents x = m_ents m.
Proof.
  intros r m r' H. unfold send in H. cbn [m_network m_with_from m_type m_term] in H.
  destruct (is_vote_kind (m_type m)).
  - destruct (m_term m =? 0); [discriminate|]. inversion H; subst. eexists. split; [reflexivity|]. cbn. tauto.
  - destruct (negb (m_term m =? 0)); [discriminate|].
    destruct ((m_type m =? msg_prop) || (m_type m =? msg_read_index));
      inversion H; subst; eexists; (split; [reflexivity|]); cbn; tauto.
Qed.

(* ---------- the vote case of Step ---------- *)
(* What a call of step_vote can do: nothing (learner), or exactly one answer to the sender. *)
Inductive vote_outcome (r : raftst) (m : msg) (r' : raftst) : Prop :=
| VoLearner : r_islearner r = true -> r' = r -> vote_outcome r m r'
| VoGrant : forall x l,
    r_islearner r = false ->
    can_vote (r_vote r) (r_lead r) (m_from m) (m_type m =? msg_pre_vote) (m_term m) (r_term r) = true ->
    (exists l0, l_is_up_to_date (r_log r) (m_index m) (m_logterm m) = Ok (true, l0)) ->
    m_reject x = false -> m_to x = m_from m -> m_type x = vote_resp_type (m_type m) ->
    r_msgs r' = r_msgs r ++ [x] ->
    r_term r' = r_term r ->
    r_vote r' = (if m_type m =? msg_vote then m_from m else r_vote r) ->
    r_log r' = l ->
    vote_outcome r m r'
| VoReject : forall x,
    r_islearner r = false ->
    m_reject x = true -> m_to x = m_from m -> m_type x = vote_resp_type (m_type m) ->
    r_msgs r' = r_msgs r ++ [x] ->
    r_term r' = r_term r -> r_vote r' = r_vote r ->
    vote_outcome r m r'.

Theorem step_vote_outcome : forall r m r', step_vote r m = Ok r' -> vote_outcome r m r'.
Proof.
  intros r m r' H. unfold step_vote in H.
  destruct (r_islearner r) eqn:EL.
  { inversion H; subst. apply VoLearner; [exact EL|reflexivity]. }
  set (cv := can_vote (r_vote r) (r_lead r) (m_from m) (m_type m =? msg_pre_vote) (m_term m) (r_term r)) in *.
  destruct cv eqn:ECV.
  - (* the rule's first half holds: the log comparison decides *)
    destruct (with_log r (l_is_up_to_date (r_log r) (m_index m) (m_logterm m))) as [[utd r1]| |] eqn:EW;
      cbn [bind] in H; try discriminate.
    apply with_log_frame in EW. destruct EW as (l1 & EU & ->).
    destruct (last_term (upd_log r l1)) as [[lt r2]| |] eqn:ELT; cbn [bind] in H; try discriminate.
    apply last_term_frame in ELT. destruct ELT as (l2 & E2). cbn [snd] in H. subst r2.
    destruct utd; cbn [andb] in H.
    + destruct (send _ _) as [r3| |] eqn:ES; cbn [bind] in H; try discriminate.
      apply send_spec in ES. destruct ES as (x & -> & Hty & Hto & Hrej & _).
      destruct (m_type m =? msg_vote) eqn:EV; inversion H; subst r'; clear H.
      * eapply VoGrant with (x := x); try reflexivity; try assumption.
        -- exists l1. exact EU.
        -- rewrite EV. reflexivity.
      * eapply VoGrant with (x := x); try reflexivity; try assumption.
        -- exists l1. exact EU.
        -- rewrite EV. reflexivity.
    + apply send_spec in H. destruct H as (x & -> & Hty & Hto & Hrej & _).
      eapply VoReject with (x := x); try reflexivity; assumption.
  - cbn [bind] in H.
    destruct (last_term r) as [[lt r2]| |] eqn:ELT; cbn [bind] in H; try discriminate.
    apply last_term_frame in ELT. destruct ELT as (l2 & E2). cbn [snd andb] in H. subst r2.
    apply send_spec in H. destruct H as (x & -> & Hty & Hto & Hrej & _).
    eapply VoReject with (x := x); try reflexivity; assumption.
Qed.

(* A granting answer implies the clauses of the rule (raft.go Step, case MsgVote/MsgPreVote): the receiver is
   a voter; it has already voted for the sender, or has neither voted nor a leader, or the request is a
   pre-vote for a future term; and the candidate's log is at least as up to date. *)
Theorem step_vote_granted_rule : forall r m r' x,
  step_vote r m = Ok r' -> In x (r_msgs r') -> ~ In x (r_msgs r) -> m_reject x = false ->
  r_islearner r = false /\
  (r_vote r = m_from m \/ (r_vote r = none_id /\ r_lead r = none_id) \/
   (m_type m = msg_pre_vote /\ r_term r < m_term m)) /\
  exists l0, l_is_up_to_date (r_log r) (m_index m) (m_logterm m) = Ok (true, l0).
Proof.
  intros r m r' x H Hin Hnin Hrej. apply step_vote_outcome in H. destruct H as [HL E|y l HL Hcv Hup Hr Ht Hty Hm _ _ _|y HL Hr Ht Hty Hm _ _].
  - subst. contradiction.
  - split; [exact HL|]. split; [|exact Hup].
    unfold can_vote in Hcv. apply orb_prop in Hcv. destruct Hcv as [Hcv|Hcv].
    + apply orb_prop in Hcv. destruct Hcv as [Hcv|Hcv].
      * left. apply N.eqb_eq. exact Hcv.
      * apply andb_prop in Hcv. destruct Hcv as [A B]. right. left. split; apply N.eqb_eq; assumption.
    + apply andb_prop in Hcv. destruct Hcv as [A B]. right. right. split; [apply N.eqb_eq; exact A|apply N.ltb_lt; exact B].
  - rewrite Hm in Hin. apply in_app_or in Hin. destruct Hin as [Hin|[<-|[]]]; [contradiction|]. congruence.
Qed.

(* The recorded vote changes only through a granted real vote, and then to the sender. *)
Theorem step_vote_changes_vote_only_on_grant : forall r m r',
  step_vote r m = Ok r' -> r_vote r' <> r_vote r ->
  m_type m = msg_vote /\ r_vote r' = m_from m /\ r_term r' = r_term r /\
  (r_vote r = none_id /\ r_lead r = none_id) /\
  exists l0, l_is_up_to_date (r_log r) (m_index m) (m_logterm m) = Ok (true, l0).
Proof.
  intros r m r' H Hne. apply step_vote_outcome in H. destruct H as [HL E|y l HL Hcv Hup Hr Ht Hty Hm Htm Hv _|y HL Hr Ht Hty Hm _ Hv].
  - subst. contradiction.
  - destruct (m_type m =? msg_vote) eqn:EV; [|contradiction].
    apply N.eqb_eq in EV. split; [exact EV|]. split; [exact Hv|]. split; [exact Htm|]. split; [|exact Hup].
    unfold can_vote in Hcv. rewrite EV in Hcv.
    replace (msg_vote =? msg_pre_vote) with false in Hcv by reflexivity.
    cbn [andb] in Hcv. rewrite orb_false_r in Hcv. apply orb_prop in Hcv. destruct Hcv as [Hcv|Hcv].
    + apply N.eqb_eq in Hcv. congruence.
    + apply andb_prop in Hcv. destruct Hcv as [A B]. split; apply N.eqb_eq; assumption.
  - contradiction.
Qed.

(* ---------- reset ---------- *)
Theorem reset_vote : forall r t r', reset r t = Ok r' ->
  r_term r' = t /\ r_vote r' = (if r_term r =? t then r_vote r else none_id) /\
  r_lead r' = none_id /\ r_msgs r' = r_msgs r /\ r_islearner r' = r_islearner r /\ r_state r' = r_state r /\ r_id r' = r_id r.
Proof.
  intros r t r' H. unfold reset in H.
  match type of H with context [last_index ?R] => set (r0 := R) in * end.
  destruct (last_index r0) as [[li r1]| |] eqn:EL; cbn [bind] in H; try discriminate.
  apply last_index_frame in EL. destruct EL as (l & ->). injection H as <-.
  autorewrite with upd. subst r0. autorewrite with upd.
  destruct (r_term r =? t) eqn:E; cbn [negb]; autorewrite with upd.
  - apply N.eqb_eq in E. repeat split; try reflexivity. exact E.
  - repeat split; reflexivity.
Qed.

Corollary reset_keeps_vote_same_term : forall r r', reset r (r_term r) = Ok r' ->
  r_vote r' = r_vote r /\ r_term r' = r_term r.
Proof.
  intros r r' H. apply reset_vote in H. destruct H as (A & B & _). rewrite N.eqb_refl in B. split; assumption.
Qed.

Corollary become_follower_vote : forall r t lead r', become_follower r t lead = Ok r' ->
  r_term r' = t /\ r_vote r' = (if r_term r =? t then r_vote r else none_id) /\ r_msgs r' = r_msgs r /\
  r_islearner r' = r_islearner r.
Proof.
  intros r t lead r' H. unfold become_follower in H.
  destruct (reset r t) as [r1| |] eqn:ER; cbn [bind] in H; try discriminate.
  inversion H; subst r'; clear H. apply reset_vote in ER. destruct ER as (A & B & _ & D & E & _).
  autorewrite with upd. tauto.
Qed.

(* ---------- heartbeat ---------- *)
Theorem send_heartbeat_commit : forall r to r', send_heartbeat r to = Ok r' ->
  exists pr x, get_progress r to = Some pr /\ r_msgs r' = r_msgs r ++ [x] /\ m_type x = msg_heartbeat /\
               m_to x = to /\ m_commit x <= p_match pr /\ m_commit x <= committed r /\ m_ents x = [].
Proof.
  intros r to r' H. unfold send_heartbeat in H. destruct (get_progress r to) as [pr|] eqn:EP; [|discriminate].
  apply send_spec in H. destruct H as (x & -> & Hty & Hto & _ & Hc & _ & He).
  exists pr, x. cbn in *. repeat split; try assumption; try reflexivity; rewrite Hc; lia.
Qed.

(* ---------- learners ---------- *)
Lemma step_term_learner : forall r m b r1, step_term r m = Ok (b, r1) ->
  r_islearner r1 = r_islearner r /\
  (forall x, In x (r_msgs r1) -> In x (r_msgs r) \/ (m_reject x = true \/ m_type x = msg_app_resp)).
Proof.
  intros r m b r1 H. unfold step_term in H.
  assert (Hsame : forall r2, r_islearner r2 = r_islearner r -> r_msgs r2 = r_msgs r ->
            r_islearner r2 = r_islearner r /\
            (forall x, In x (r_msgs r2) -> In x (r_msgs r) \/ (m_reject x = true \/ m_type x = msg_app_resp))).
  { intros r2 A B. split; [exact A|]. intros x Hx. left. rewrite <- B. exact Hx. }
  assert (Hbf : forall t lead r2, become_follower r t lead = Ok r2 ->
            r_islearner r2 = r_islearner r /\
            (forall x, In x (r_msgs r2) -> In x (r_msgs r) \/ (m_reject x = true \/ m_type x = msg_app_resp))).
  { intros t lead r2 E. apply become_follower_vote in E. destruct E as (_ & _ & C & D). apply Hsame; assumption. }
  destruct (m_term m =? 0). { inversion H; subst. apply Hsame; reflexivity. }
  destruct (r_term r <? m_term m).
  - match type of H with (if ?c then _ else _) = _ => destruct c end.
    + destruct (last_term r) as [[lt r2]| |] eqn:ELT; cbn [bind] in H; try discriminate.
      apply last_term_frame in ELT. destruct ELT as (l & ->). inversion H; subst. apply Hsame; reflexivity.
    + destruct (m_type m =? msg_pre_vote). { inversion H; subst. apply Hsame; reflexivity. }
      match type of H with (if ?c then _ else _) = _ => destruct c end. { inversion H; subst. apply Hsame; reflexivity. }
      match type of H with (if ?c then _ else _) = _ => destruct c end.
      * destruct (become_follower r (m_term m) (m_from m)) as [r2| |] eqn:EB; cbn [bind] in H; try discriminate.
        inversion H; subst. eapply Hbf; eassumption.
      * destruct (become_follower r (m_term m) none_id) as [r2| |] eqn:EB; cbn [bind] in H; try discriminate.
        inversion H; subst. eapply Hbf; eassumption.
  - destruct (m_term m <? r_term r); [|inversion H; subst; apply Hsame; reflexivity].
    match type of H with (if ?c then _ else _) = _ => destruct c end.
    + destruct (send r (reply msg_app_resp (m_from m))) as [r2| |] eqn:ES; cbn [bind] in H; try discriminate.
      inversion H; subst. apply send_spec in ES. destruct ES as (x & -> & Hty & _).
      split; [reflexivity|]. intros y Hy. cbn in Hy. apply in_app_or in Hy. destruct Hy as [Hy|[<-|[]]]; [left; exact Hy|].
      right. right. exact Hty.
    + destruct (m_type m =? msg_pre_vote); [|inversion H; subst; apply Hsame; reflexivity].
      destruct (last_term r) as [[lt r2]| |] eqn:ELT; cbn [bind] in H; try discriminate.
      apply last_term_frame in ELT. destruct ELT as (l & ->). cbn [snd] in H.
      destruct (send _ _) as [r3| |] eqn:ES; cbn [bind] in H; try discriminate.
      inversion H; subst. apply send_spec in ES. destruct ES as (x & -> & _ & _ & Hrej & _).
      split; [reflexivity|]. intros y Hy. cbn in Hy. apply in_app_or in Hy. destruct Hy as [Hy|[<-|[]]]; [left; exact Hy|].
      right. left. exact Hrej.
Qed.

(* A learner that receives a vote request (of either kind, any term) never answers with a grant, and never
   records a vote for anybody. *)
Theorem learner_never_grants : forall r m r',
  r_islearner r = true -> (m_type m = msg_vote \/ m_type m = msg_pre_vote) -> step r m = Ok r' ->
  (forall x, In x (r_msgs r') -> In x (r_msgs r) \/ m_reject x = true \/ m_type x = msg_app_resp) /\
  (r_vote r' = r_vote r \/ r_vote r' = none_id).
Proof.
  intros r m r' HL HK H. unfold step in H.
  destruct (step_term r m) as [[go r1]| |] eqn:ET; cbn [bind] in H; try discriminate.
  pose proof (step_term_learner _ _ _ _ ET) as (HL1 & Hm1).
  assert (Hv1 : r_vote r1 = r_vote r \/ r_vote r1 = none_id).
  { clear H. unfold step_term in ET.
    assert (Hbf : forall t lead r2, become_follower r t lead = Ok r2 -> r_vote r2 = r_vote r \/ r_vote r2 = none_id).
    { intros t lead r2 E. apply become_follower_vote in E. destruct E as (_ & B & _). rewrite B. destruct (r_term r =? t); tauto. }
    destruct (m_term m =? 0). { inversion ET; subst; tauto. }
    destruct (r_term r <? m_term m).
    - match type of ET with (if ?c then _ else _) = _ => destruct c end.
      + destruct (last_term r) as [[lt r2]| |] eqn:ELT; cbn [bind] in ET; try discriminate.
        apply last_term_frame in ELT. destruct ELT as (l & ->). inversion ET; subst. left; reflexivity.
      + destruct (m_type m =? msg_pre_vote). { inversion ET; subst; tauto. }
        match type of ET with (if ?c then _ else _) = _ => destruct c end. { inversion ET; subst; tauto. }
        match type of ET with (if ?c then _ else _) = _ => destruct c end.
        * destruct (become_follower r (m_term m) (m_from m)) as [r2| |] eqn:EB; cbn [bind] in ET; try discriminate.
          inversion ET; subst. eapply Hbf; eassumption.
        * destruct (become_follower r (m_term m) none_id) as [r2| |] eqn:EB; cbn [bind] in ET; try discriminate.
          inversion ET; subst. eapply Hbf; eassumption.
    - destruct (m_term m <? r_term r); [|inversion ET; subst; tauto].
      match type of ET with (if ?c then _ else _) = _ => destruct c end.
      + destruct (send r (reply msg_app_resp (m_from m))) as [r2| |] eqn:ES; cbn [bind] in ET; try discriminate.
        inversion ET; subst. apply send_spec in ES. destruct ES as (x & -> & _). left; reflexivity.
      + destruct (m_type m =? msg_pre_vote); [|inversion ET; subst; tauto].
        destruct (last_term r) as [[lt r2]| |] eqn:ELT; cbn [bind] in ET; try discriminate.
        apply last_term_frame in ELT. destruct ELT as (l & ->). cbn [snd] in ET.
        destruct (send _ _) as [r3| |] eqn:ES; cbn [bind] in ET; try discriminate.
        inversion ET; subst. apply send_spec in ES. destruct ES as (x & -> & _). left; reflexivity. }
  destruct (negb go). { inversion H; subst. split; assumption. }
  assert (Hhup : (m_type m =? msg_hup) = false).
  { destruct HK as [E|E]; rewrite E; reflexivity. }
  rewrite Hhup in H.
  assert (Hvk : (m_type m =? msg_vote) || (m_type m =? msg_pre_vote) = true) by (destruct HK as [E|E]; rewrite E; reflexivity).
  rewrite Hvk in H. unfold step_vote in H. rewrite HL1, HL in H. inversion H; subst. split; assumption.
Qed.

(* A node that is not a voter of its own configuration (a learner, or a removed node) does not campaign:
   hup, whatever its cause (election timeout, MsgHup, MsgTimeoutNow), leaves the state as it is. *)
Theorem hup_not_promotable : forall r t, promotable r = false -> hup r t = Ok r.
Proof. intros r t H. unfold hup. rewrite H. destruct (r_state r =? st_leader); reflexivity. Qed.

Theorem learner_not_promotable : forall r, pl_get (r_id r) (r_prs r) = None -> promotable r = false.
Proof. intros r H. unfold promotable. rewrite H. reflexivity. Qed.

Theorem tick_election_not_promotable : forall r, promotable r = false ->
  tick_election r = Ok (upd_elapsed r (r_elapsed r + 1) (r_hbelapsed r)).
Proof.
  intros r H. unfold tick_election.
  replace (promotable (upd_elapsed r (r_elapsed r + 1) (r_hbelapsed r))) with (promotable r) by reflexivity.
  rewrite H. reflexivity.
Qed.

(* ---------- hup and unapplied configuration changes ---------- *)
Lemma num_pending_conf_pos : forall es e, In e es -> is_conf e = true -> num_pending_conf es =? 0 = false.
Proof.
  intros es e Hin Hc. unfold num_pending_conf, nlen. apply N.eqb_neq.
  assert (In e (filter is_conf es)) as Hf by (apply filter_In; split; assumption).
  destruct (filter is_conf es); [destruct Hf|]. simpl. lia.
Qed.

(* hup reads the entries in (applied, committed]; if one of them is a configuration change, it returns without
   campaigning: role, term, vote and outbox are unchanged (only the log's caches may have moved). *)
Theorem hup_refuses_pending_conf : forall r t ents l e,
  l_slice (r_log r) (l_applied (r_log r) + 1) (committed r + 1) no_limit = Ok (ents, l) ->
  l_applied l = l_applied (r_log r) -> l_committed l = l_committed (r_log r) ->
  In e ents -> is_conf e = true -> l_applied (r_log r) < committed r ->
  hup r t = Ok r \/ hup r t = Ok (upd_log r l).
Proof.
  intros r t ents l e HS Ha Hc Hin Hconf Hlt. unfold hup.
  destruct (r_state r =? st_leader); [left; reflexivity|].
  destruct (negb (promotable r)); [left; reflexivity|].
  rewrite HS. right.
  rewrite (num_pending_conf_pos _ _ Hin Hconf). cbn [negb andb].
  replace (l_applied (r_log (upd_log r l))) with (l_applied l) by reflexivity.
  replace (committed (upd_log r l)) with (l_committed l) by reflexivity.
  rewrite Ha, Hc. unfold committed in Hlt. apply N.ltb_lt in Hlt. rewrite Hlt. reflexivity.
Qed.


(* Over a well-formed MemoryStorage-backed log the unlimited slice is the whole range (applied, committed]: whenever the
   log holds a configuration change at ANY index in that range, hup refuses — no page size hides it. (The size
   hypothesis says the entries' total encoded size fits 64 bits, where Go's noLimit comparison is exact.) *)
Theorem hup_refuses_unapplied_conf_change : forall r t m off i e,
  wf_mlog (r_log r) m off ->
  mfirst (r_log r) off <= l_applied (r_log r) + 1 -> committed r <= mlast (r_log r) m off ->
  (forall X, good (l_u (r_log r)) m off (l_applied (r_log r) + 1) X -> fold_right (fun e a => esz e + a) 0 X <= no_limit) ->
  l_applied (r_log r) < i -> i <= committed r ->
  log_entry (l_u (r_log r)) m off i = Some e -> is_conf e = true ->
  hup r t = Ok r.
Proof.
  intros r t m off i e Hwf Hf Hl Hsz Hai Hic Hle Hconf.
  destruct (l_slice_nolimit (r_log r) m off (l_applied (r_log r) + 1) (committed r + 1) Hwf Hf ltac:(lia) ltac:(lia) Hsz)
    as (es & HS & Hgood & Hlen).
  assert (Hfull : exists e', In e' es /\ is_conf e' = true).
  { destruct Hgood as (_ & _ & Hnth).
    set (k := N.to_nat (i - (l_applied (r_log r) + 1))).
    destruct (nth_error es k) as [e'|] eqn:Ek.
    - exists e'. split; [eapply nth_error_In; exact Ek|].
      specialize (Hnth _ _ Ek). replace (l_applied (r_log r) + 1 + N.of_nat k) with i in Hnth by (subst k; lia).
      rewrite Hle in Hnth. inversion Hnth; subst. exact Hconf.
    - apply nth_error_None in Ek. unfold nlen in Hlen. subst k. lia. }
  destruct Hfull as (e' & Hin & Hc').
  destruct (hup_refuses_pending_conf r t es (r_log r) e' HS eq_refl eq_refl Hin Hc' ltac:(unfold committed in *; lia)) as [H|H]; [exact H|].
  rewrite H. f_equal. destruct r; reflexivity.
Qed.

(* ---------- StepNode's unknown-sender filter ---------- *)
(* handleReceivedMessage drops every response whose sender is neither voter nor learner of the local configuration
   BEFORE Step sees it; raft.poll itself would count any id. The predicate lists exactly the five response types. *)
Theorem is_response_msg_spec : forall t, is_response_msg t = true <->
  (t = msg_app_resp \/ t = msg_vote_resp \/ t = msg_heartbeat_resp \/ t = msg_unreachable \/ t = msg_pre_vote_resp).
Proof.
  intros t. unfold is_response_msg. rewrite !orb_true_iff, !N.eqb_eq. tauto.
Qed.

Theorem handle_received_drops_unknown_response : forall r m,
  get_progress r (m_from m) = None -> is_response_msg (m_type m) = true -> handle_received r m = Ok r.
Proof. intros r m H1 H2. unfold handle_received. rewrite H1, H2. reflexivity. Qed.

(* a vote answer (of either kind) of a non-member — e.g. a replica removed between the request and its answer — is
   never counted: the state, incl. the votes map and the role, is unchanged *)
Theorem vote_of_non_member_not_counted : forall r m,
  get_progress r (m_from m) = None -> (m_type m = msg_vote_resp \/ m_type m = msg_pre_vote_resp) ->
  handle_received r m = Ok r.
Proof.
  intros r m H1 H2. apply handle_received_drops_unknown_response; [exact H1|].
  apply is_response_msg_spec. tauto.
Qed.

(* ---------- concrete states for the non-vacuity examples of Properties/C01.v, C02.v ---------- *)
(* node 2 of voters {1,2,3} (or learner 2 of voters {1,3}), term 1, no vote, no leader; log: entry 1 (payload),
   entry 2 (a configuration change: odd edata), committed = 2, applied = [applied] *)
Definition ex_progress (id : N) (learner : bool) : progress := mkP id 0 3 pr_probe false 0 false learner [].
Definition ex_log (applied : N) : rlog :=
  mkL (SMem (mkMS 0 0 [mkE 0 0 0 0; mkE 1 1 2 3; mkE 1 2 3 3])) (mkU None [] 3) 2 applied no_limit.
Definition ex_node (learner : bool) (applied : N) : raftst :=
  mkR 2 1 none_id (ex_log applied) 4 no_limit
      (if learner then [ex_progress 1 false; ex_progress 3 false]
       else [ex_progress 1 false; ex_progress 2 false; ex_progress 3 false])
      (if learner then [ex_progress 2 true] else [])
      st_follower learner [] [] none_id none_id false 0 0 false false 1 10 10 0
      (if learner then ([1; 3], [2]) else ([1; 2; 3], [])) ([], []).
(* MsgVote of candidate 3 for term 1 with last entry (2, term 1) *)
Definition ex_vote_req (ty : N) (term : N) : msg := mkM ty 2 3 term 1 2 [] 0 None false 0 0 [] false.

(* ---------- the leader's commit rule on the concrete state ---------- *)
(* raft.maybeCommit: the commit index moves only to an index that a majority of the VOTERS' Match values reach
   (learners' progress is not counted) and whose entry carries the leader's current term. *)
Theorem core_maybe_commit_quorum : forall r r', maybe_commit r = Ok (true, r') ->
  exists mci, committed r' = mci /\ committed r < mci /\
    quorum (nlen (r_prs r)) <= nlen (filter (fun p => mci <=? p_match p) (r_prs r)) /\
    (term_of (l_term (r_log r) mci) = Ok (r_term r) \/ (term_of (l_term (r_log r) mci) = Err ErrCompacted /\ r_term r = 0)).
Proof.
  intros r r' H. unfold maybe_commit in H.
  destruct (commit_index (map p_match (r_prs r))) as [mci|] eqn:EC; [|discriminate].
  apply with_log_frame in H. destruct H as (l & HM & ->).
  apply ProofsStore.commit_index_has_quorum in EC. destruct EC as (HQ & _).
  apply maybe_commit_current_term_only in HM. destruct HM as (HT & _). specialize (HT eq_refl).
  destruct HT as (A & B & C).
  exists mci. split; [exact B|]. split; [exact A|]. split; [|exact C].
  unfold nlen in *. rewrite map_length in HQ.
  assert (E : forall ps, length (filter (fun m => mci <=? m) (map p_match ps)) = length (filter (fun p => mci <=? p_match p) ps)).
  { induction ps as [|p ps IH]; [reflexivity|]. simpl. destruct (mci <=? p_match p); simpl; rewrite IH; reflexivity. }
  rewrite E in HQ. exact HQ.
Qed.
