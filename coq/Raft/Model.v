(* Raft/Model.v — the pure log layer of the raft fork, transcribed function by function.
   Go sources (package raft of /repo):
     raft/util.go          limitSize
     raft/storage.go       MemoryStorage: Entries Term LastIndex FirstIndex ApplySnapshot CreateSnapshot Compact Append
     raft/rocksdb_storage.go RocksStorage: same interface over an ordered key-value store, with the cached
                           firstIndex / lastIndex fields (seekEntry, deleteUntil, deleteFrom, addEntries, reset)
     raft/log_unstable.go  unstable: maybeFirstIndex maybeLastIndex maybeTerm stableTo stableSnapTo restore
                           truncateAndAppend slice mustCheckOutOfBounds
     raft/log.go           raftLog: newLog maybeAppend append findConflict unstableEntries nextEnts hasNextEnts
                           hasMoreNextEnts firstIndex lastIndex commitTo appliedTo stableTo stableSnapTo lastTerm
                           term entries isUpToDate matchTerm maybeCommit restore slice mustCheckOutOfBounds
                           zeroTermOnErrCompacted
     raft/raft.go          quorum, maybeCommit's index selection, the vote-granting rule of Step
     raft/node.go          Ready.appliedCursor / Advance (applied cursor from the last handed-out entry)
   Conventions: uint64 values are N (no operation here can wrap for indexes below 2^64-1; the
   places where Go subtracts are guarded exactly as in Go and the guard is kept). A Go panic
   (logger.Panicf, slice bounds, index out of range) is the outcome [Panic]. No proofs here. *)
From Coq Require Export List NArith Bool.
Export ListNotations.
From ZV Require Import Raft.Consts.
Open Scope N_scope.

Record entry := mkE { eterm : N; eindex : N; edata : N; esz : N }.
(* edata: opaque payload id (the bytes are never inspected by raft); esz: pb.Entry.Size() *)

Inductive err := ErrCompacted | ErrUnavailable | ErrSnapOutOfDate | ErrNotFound | ErrOutOfBound.
Inductive res (A : Type) := Ok (a : A) | Err (e : err) | Panic.
Arguments Ok {A} a. Arguments Err {A} e. Arguments Panic {A}.

Definition bind {A B} (r : res A) (f : A -> res B) : res B :=
  match r with Ok a => f a | Err e => Err e | Panic => Panic end.
Notation "'do' x <- r ; k" := (bind r (fun x => k)) (at level 200, x ident, r at level 100, k at level 200).

Definition nlen {A} (l : list A) : N := N.of_nat (length l).
Definition nfirstn {A} (n : N) (l : list A) : list A := firstn (N.to_nat n) l.
Definition nskipn {A} (n : N) (l : list A) : list A := skipn (N.to_nat n) l.
Definition nnth {A} (n : N) (l : list A) : option A := nth_error l (N.to_nat n).
(* Go s[lo:hi] on a slice of length len: panics unless lo <= hi <= len *)
Definition goslice {A} (l : list A) (lo hi : N) : res (list A) :=
  if (lo <=? hi) && (hi <=? nlen l) then Ok (nfirstn (hi - lo) (nskipn lo l)) else Panic.

(* ---------- util.go limitSize ---------- *)
Fixpoint limit_loop (size max : N) (ents : list entry) : list entry :=
  match ents with
  | [] => []
  | e :: r => let size' := size + esz e in
              if max <? size' then [] else e :: limit_loop size' max r
  end.
Definition limit_size (ents : list entry) (max : N) : list entry :=
  match ents with
  | [] => []
  | e :: r => e :: limit_loop (esz e) max r
  end.

(* ====================================================================================== *)
(* MemoryStorage: ents[0] is the dummy entry; positions, not Index fields, address entries *)
Record mstore := mkMS { ms_snapi : N; ms_snapt : N; ms_ents : list entry }.

Definition ms_new : mstore := mkMS 0 0 [mkE 0 0 0 0].

Definition ms_offset (s : mstore) : res N :=
  match ms_ents s with [] => Panic | d :: _ => Ok (eindex d) end.
Definition ms_last_index (s : mstore) : res N :=
  do off <- ms_offset s; Ok (off + nlen (ms_ents s) - 1).
Definition ms_first_index (s : mstore) : res N :=
  do off <- ms_offset s; Ok (off + 1).

Definition ms_term (s : mstore) (i : N) : res N :=
  do off <- ms_offset s;
  if i <? off then Err ErrCompacted
  else if nlen (ms_ents s) <=? i - off then Err ErrUnavailable
  else match nnth (i - off) (ms_ents s) with Some e => Ok (eterm e) | None => Panic end.

Definition ms_entries (s : mstore) (lo hi max : N) : res (list entry) :=
  do off <- ms_offset s;
  if lo <=? off then Err ErrCompacted
  else do last <- ms_last_index s;
  if last + 1 <? hi then Panic
  else if nlen (ms_ents s) =? 1 then Err ErrUnavailable
  else do sl <- goslice (ms_ents s) (lo - off) (hi - off);
  Ok (limit_size sl max).

Definition ms_apply_snapshot (s : mstore) (si st : N) : res mstore :=
  if si <=? ms_snapi s then Err ErrSnapOutOfDate
  else Ok (mkMS si st [mkE st si 0 0]).

Definition ms_create_snapshot (s : mstore) (i : N) : res mstore :=
  if i <=? ms_snapi s then Err ErrSnapOutOfDate
  else do off <- ms_offset s;
  do last <- ms_last_index s;
  if last <? i then Panic
  else if i <? off then Panic   (* ms.ents[i-offset] with a wrapped index *)
  else match nnth (i - off) (ms_ents s) with
       | Some e => Ok (mkMS i (eterm e) (ms_ents s))
       | None => Panic
       end.

Definition ms_compact (s : mstore) (ci : N) : res mstore :=
  do off <- ms_offset s;
  if ci <=? off then Err ErrCompacted
  else do last <- ms_last_index s;
  if last <? ci then Panic
  else match nnth (ci - off) (ms_ents s) with
       | Some e => Ok (mkMS (ms_snapi s) (ms_snapt s) (mkE (eterm e) (eindex e) 0 0 :: nskipn (ci - off + 1) (ms_ents s)))
       | None => Panic
       end.

Definition ms_append (s : mstore) (entries : list entry) : res mstore :=
  match entries with
  | [] => Ok s
  | e0 :: _ =>
    do first <- ms_first_index s;
    let last := eindex e0 + nlen entries - 1 in
    if last <? first then Ok s
    else
      let entries' := if eindex e0 <? first then nskipn (first - eindex e0) entries else entries in
      match entries' with
      | [] => Panic  (* entries[0] of an empty slice; unreachable: last >= first *)
      | e1 :: _ =>
        do off0 <- ms_offset s;
        if eindex e1 <? off0 then Panic   (* offset wraps: larger than any length *)
        else
        let offset := eindex e1 - off0 in
        let n := nlen (ms_ents s) in
        if offset <? n then Ok (mkMS (ms_snapi s) (ms_snapt s) (nfirstn offset (ms_ents s) ++ entries'))
        else if n =? offset then Ok (mkMS (ms_snapi s) (ms_snapt s) (ms_ents s ++ entries'))
        else Panic
      end
  end.

(* ====================================================================================== *)
(* RocksStorage: an ordered map index -> entry (keys share the (id,gid) prefix, so the key order
   is the index order) + snapshot meta + cached first / last index (0 = not cached) *)
Record rstore := mkRS { rs_snapi : N; rs_snapt : N; rs_db : list entry (* strictly increasing eindex *);
                        rs_fc : N; rs_lc : N }.

Fixpoint db_put (e : entry) (db : list entry) : list entry :=
  match db with
  | [] => [e]
  | x :: r => if eindex e <? eindex x then e :: db
              else if eindex e =? eindex x then e :: r
              else x :: db_put e r
  end.
Definition db_get (i : N) (db : list entry) : option entry := find (fun e => eindex e =? i) db.
(* first entry with key >= i *)
Definition db_seek (i : N) (db : list entry) : option entry := find (fun e => i <=? eindex e) db.
Definition last_opt {A} (l : list A) : option A := last (map Some l) None.
Definition db_last (db : list entry) : option entry := last_opt db.
Definition db_del_below (i : N) (db : list entry) : list entry := filter (fun e => i <=? eindex e) db.
Definition db_del_from (i : N) (db : list entry) : list entry := filter (fun e => eindex e <? i) db.
Definition db_range (lo hi : N) (db : list entry) : list entry :=
  filter (fun e => (lo <=? eindex e) && (eindex e <? hi)) db.

(* NewRocksStorage on an empty engine: reset([dummy]) *)
Definition rs_new : rstore := mkRS 0 0 [mkE 0 0 0 0] 0 0.

(* a process restart: NewRocksStorage over the same engine — the key space survives, the snapshot
   meta (kept in memory only) and both caches start empty; no reset since the key space is not empty *)
Definition rs_reopen (s : rstore) : rstore := mkRS 0 0 (rs_db s) 0 0.

(* FirstIndex: returns the value and the (possibly updated) cache *)
Definition rs_first_index (s : rstore) : res (N * rstore) :=
  if negb (rs_snapi s =? 0) then Ok (rs_snapi s + 1, s)
  else if negb (rs_fc s =? 0) then Ok (rs_fc s, s)
  else match db_seek 0 (rs_db s) with
       | Some e => Ok (eindex e + 1, mkRS (rs_snapi s) (rs_snapt s) (rs_db s) (eindex e + 1) (rs_lc s))
       | None => Err ErrNotFound
       end.
Definition rs_last_index (s : rstore) : res (N * rstore) :=
  if negb (rs_lc s =? 0) then Ok (rs_lc s, s)
  else match db_last (rs_db s) with
       | Some e => Ok (eindex e, mkRS (rs_snapi s) (rs_snapt s) (rs_db s) (rs_fc s) (eindex e))
       | None => Err ErrNotFound
       end.

Definition rs_term (s : rstore) (i : N) : res (N * rstore) :=
  do fs <- rs_first_index s;
  let '(first, s1) := fs in
  if i <? first - 1 then Err ErrCompacted
  else match db_seek i (rs_db s1) with
       | None => Err ErrUnavailable
       | Some e => if i <? eindex e then Err ErrCompacted else Ok (eterm e, s1)
       end.

(* allEntries: one entry -> point lookup (a missing key decodes to the zero entry);
   otherwise a range scan with the size rule "stop when size > max and something was taken" *)
Fixpoint rs_scan_limit (size max : N) (taken : bool) (ents : list entry) : list entry :=
  match ents with
  | [] => []
  | e :: r => let size' := size + esz e in
              if (max <? size') && taken then [] else e :: rs_scan_limit size' max true r
  end.
Definition rs_all_entries (s : rstore) (lo hi max : N) : list entry :=
  if hi - lo =? 1 then
    match db_get lo (rs_db s) with Some e => [e] | None => [mkE 0 0 0 zero_entry_size] end
  else rs_scan_limit 0 max false (db_range lo hi (rs_db s)).

Definition rs_entries (s : rstore) (lo hi max : N) : res (list entry * rstore) :=
  do fs <- rs_first_index s;
  let '(first, s1) := fs in
  if lo <? first then Err ErrCompacted
  else do ls <- rs_last_index s1;
  let '(lasti, s2) := ls in
  if lasti + 1 <? hi then Err ErrUnavailable
  else Ok (rs_all_entries s2 lo hi max, s2).

Definition rs_apply_snapshot (s : rstore) (si st : N) : res rstore :=
  if si <=? rs_snapi s then Err ErrSnapOutOfDate
  else Ok (mkRS si st (db_del_below si (db_put (mkE st si 0 0) (rs_db s))) 0 0).

Definition rs_create_snapshot (s : rstore) (i : N) : res rstore :=
  do fs <- rs_first_index s;
  let '(first, s1) := fs in
  if i <? first then Err ErrSnapOutOfDate
  else match db_seek i (rs_db s1) with
       | None => Err ErrNotFound
       | Some e => if eindex e =? i then Ok (mkRS i (eterm e) (rs_db s1) (rs_fc s1) (rs_lc s1))
                   else Err ErrNotFound
       end.

Definition rs_compact (s : rstore) (ci : N) : res rstore :=
  match db_seek 0 (rs_db s) with
  | None => Err ErrNotFound
  | Some e0 =>
    if ci <=? eindex e0 then Err ErrCompacted
    else do ls <- rs_last_index s;
    let '(li, s1) := ls in
    if li <? ci then Err ErrOutOfBound
    else Ok (mkRS (rs_snapi s1) (rs_snapt s1) (db_del_below ci (rs_db s1)) 0 (rs_lc s1))
  end.

Definition rs_append (s : rstore) (entries : list entry) : res rstore :=
  match entries with
  | [] => Ok s
  | e0 :: _ =>
    do fs <- rs_first_index s;
    let '(first, s1) := fs in
    let entry_last := eindex e0 + nlen entries - 1 in
    if entry_last <? first then Ok s1
    else
      let entries' := if eindex e0 <? first then nskipn (first - eindex e0) entries else entries in
      do ls <- rs_last_index s1;
      let '(lasti, s2) := ls in
      match last_opt entries' with
      | None => Panic (* entries[len-1] of an empty slice *)
      | Some le =>
        let db1 := fold_left (fun db e => db_put e db) entries' (rs_db s2) in
        let laste := eindex le in
        let db2 := if laste <? lasti then db_del_from (laste + 1) db1 else db1 in
        Ok (mkRS (rs_snapi s2) (rs_snapt s2) db2 (rs_fc s2) laste)
      end
  end.

(* ====================================================================================== *)
(* the Storage interface as raftLog sees it *)
Inductive storage := SMem (m : mstore) | SRocks (r : rstore).

Definition st_first_index (s : storage) : res (N * storage) :=
  match s with
  | SMem m => do v <- ms_first_index m; Ok (v, s)
  | SRocks r => do vr <- rs_first_index r; Ok (fst vr, SRocks (snd vr))
  end.
Definition st_last_index (s : storage) : res (N * storage) :=
  match s with
  | SMem m => do v <- ms_last_index m; Ok (v, s)
  | SRocks r => do vr <- rs_last_index r; Ok (fst vr, SRocks (snd vr))
  end.
Definition st_term (s : storage) (i : N) : res (N * storage) :=
  match s with
  | SMem m => do v <- ms_term m i; Ok (v, s)
  | SRocks r => do vr <- rs_term r i; Ok (fst vr, SRocks (snd vr))
  end.
Definition st_entries (s : storage) (lo hi max : N) : res (list entry * storage) :=
  match s with
  | SMem m => do v <- ms_entries m lo hi max; Ok (v, s)
  | SRocks r => do vr <- rs_entries r lo hi max; Ok (fst vr, SRocks (snd vr))
  end.
Definition st_snapshot (s : storage) : N * N :=
  match s with SMem m => (ms_snapi m, ms_snapt m) | SRocks r => (rs_snapi r, rs_snapt r) end.
Definition st_append (s : storage) (es : list entry) : res storage :=
  match s with
  | SMem m => do v <- ms_append m es; Ok (SMem v)
  | SRocks r => do v <- rs_append r es; Ok (SRocks v)
  end.
Definition st_apply_snapshot (s : storage) (si st : N) : res storage :=
  match s with
  | SMem m => do v <- ms_apply_snapshot m si st; Ok (SMem v)
  | SRocks r => do v <- rs_apply_snapshot r si st; Ok (SRocks v)
  end.
Definition st_create_snapshot (s : storage) (i : N) : res storage :=
  match s with
  | SMem m => do v <- ms_create_snapshot m i; Ok (SMem v)
  | SRocks r => do v <- rs_create_snapshot r i; Ok (SRocks v)
  end.
Definition st_compact (s : storage) (i : N) : res storage :=
  match s with
  | SMem m => do v <- ms_compact m i; Ok (SMem v)
  | SRocks r => do v <- rs_compact r i; Ok (SRocks v)
  end.

(* ====================================================================================== *)
(* unstable *)
Record unstable := mkU { u_snap : option (N * N) (* index, term *); u_ents : list entry; u_off : N }.

Definition u_maybe_first_index (u : unstable) : option N :=
  match u_snap u with Some (i, _) => Some (i + 1) | None => None end.
Definition u_maybe_last_index (u : unstable) : option N :=
  match u_ents u with
  | _ :: _ => Some (u_off u + nlen (u_ents u) - 1)
  | [] => match u_snap u with Some (i, _) => Some i | None => None end
  end.
(* Ok (Some t) = (t, true); Ok None = (0, false); u.entries[i-u.offset] out of range = Panic *)
Definition u_maybe_term (u : unstable) (i : N) : res (option N) :=
  if i <? u_off u then
    match u_snap u with
    | Some (si, st) => if si =? i then Ok (Some st) else Ok None
    | None => Ok None
    end
  else match u_maybe_last_index u with
       | None => Ok None
       | Some last => if last <? i then Ok None
                      else match nnth (i - u_off u) (u_ents u) with
                           | Some e => Ok (Some (eterm e))
                           | None => Panic
                           end
       end.

Definition u_stable_to (u : unstable) (i t : N) : res unstable :=
  do mt <- u_maybe_term u i;
  match mt with
  | None => Ok u
  | Some gt => if (gt =? t) && (u_off u <=? i)
               then Ok (mkU (u_snap u) (nskipn (i + 1 - u_off u) (u_ents u)) (i + 1))
               else Ok u
  end.
Definition u_stable_snap_to (u : unstable) (i : N) : unstable :=
  match u_snap u with
  | Some (si, _) => if si =? i then mkU None (u_ents u) (u_off u) else u
  | None => u
  end.
Definition u_restore (u : unstable) (si st : N) : unstable := mkU (Some (si, st)) [] (si + 1).

Definition u_slice (u : unstable) (lo hi : N) : res (list entry) :=
  if hi <? lo then Panic
  else let upper := u_off u + nlen (u_ents u) in
       if (lo <? u_off u) || (upper <? hi) then Panic
       else goslice (u_ents u) (lo - u_off u) (hi - u_off u).

(* truncateAndAppend: ents non-empty (ents[0] of an empty slice is a Go panic) *)
Definition u_truncate_and_append (u : unstable) (ents : list entry) : res unstable :=
  match ents with
  | [] => Panic
  | e0 :: _ =>
    let after := eindex e0 in
    if after =? u_off u + nlen (u_ents u) then Ok (mkU (u_snap u) (u_ents u ++ ents) (u_off u))
    else if after <=? u_off u then Ok (mkU (u_snap u) ents after)
    else do keep <- u_slice u (u_off u) after;
         Ok (mkU (u_snap u) (keep ++ ents) (u_off u))
  end.

(* ====================================================================================== *)
(* raftLog *)
Record rlog := mkL { l_st : storage; l_u : unstable; l_committed : N; l_applied : N; l_maxnext : N }.

Definition set_st (l : rlog) (s : storage) : rlog := mkL s (l_u l) (l_committed l) (l_applied l) (l_maxnext l).
Definition set_u (l : rlog) (u : unstable) : rlog := mkL (l_st l) u (l_committed l) (l_applied l) (l_maxnext l).
Definition set_committed (l : rlog) (c : N) : rlog := mkL (l_st l) (l_u l) c (l_applied l) (l_maxnext l).
Definition set_applied (l : rlog) (a : N) : rlog := mkL (l_st l) (l_u l) (l_committed l) a (l_maxnext l).

(* errors of FirstIndex / LastIndex are Go panics in raftLog *)
Definition err_to_panic {A} (r : res A) : res A := match r with Err _ => Panic | x => x end.

Definition new_log (s : storage) (maxnext : N) : res rlog :=
  do fs <- err_to_panic (st_first_index s);
  do ls <- err_to_panic (st_last_index (snd fs));
  Ok (mkL (snd ls) (mkU None [] (fst ls + 1)) (fst fs - 1) (fst fs - 1) maxnext).

Definition l_first_index (l : rlog) : res (N * rlog) :=
  match u_maybe_first_index (l_u l) with
  | Some i => Ok (i, l)
  | None => do fs <- err_to_panic (st_first_index (l_st l)); Ok (fst fs, set_st l (snd fs))
  end.
Definition l_last_index (l : rlog) : res (N * rlog) :=
  match u_maybe_last_index (l_u l) with
  | Some i => Ok (i, l)
  | None => do ls <- err_to_panic (st_last_index (l_st l)); Ok (fst ls, set_st l (snd ls))
  end.

(* term: (t, nil) = Ok; (0, ErrCompacted/ErrUnavailable) = Err; other storage errors panic *)
Definition l_term (l : rlog) (i : N) : res (N * rlog) :=
  do fl <- l_first_index l;
  let '(first, l1) := fl in
  do ll <- l_last_index l1;
  let '(last, l2) := ll in
  if (i <? first - 1) || (last <? i) then Ok (0, l2)
  else do mt <- u_maybe_term (l_u l2) i;
       match mt with
       | Some t => Ok (t, l2)
       | None =>
         match st_term (l_st l2) i with
         | Ok (t, s) => Ok (t, set_st l2 s)
         | Err ErrCompacted => Err ErrCompacted
         | Err ErrUnavailable => Err ErrUnavailable
         | _ => Panic
         end
       end.

(* the log state is unchanged (up to storage caches) by queries; where Go discards the error
   value the model keeps the pre-state *)
Definition l_match_term (l : rlog) (i t : N) : res (bool * rlog) :=
  match l_term l i with
  | Ok (t', l') => Ok (t' =? t, l')
  | Err _ => Ok (false, l)
  | Panic => Panic
  end.

Definition l_zero_term_on_err_compacted (l : rlog) (r : res (N * rlog)) : res (N * rlog) :=
  match r with
  | Ok x => Ok x
  | Err ErrCompacted => Ok (0, l)
  | _ => Panic
  end.

Definition l_last_term (l : rlog) : res (N * rlog) :=
  do ll <- l_last_index l;
  match l_term (snd ll) (fst ll) with
  | Ok x => Ok x
  | _ => Panic
  end.

Definition l_is_up_to_date (l : rlog) (lasti t : N) : res (bool * rlog) :=
  do lt <- l_last_term l;
  let '(myt, l1) := lt in
  do ll <- l_last_index l1;
  let '(myi, l2) := ll in
  Ok ((myt <? t) || ((t =? myt) && (myi <=? lasti)), l2).

(* findConflict; the Infof argument zeroTermOnErrCompacted(term(ne.Index)) is evaluated even though
   it is only logged, and panics when the term is unavailable *)
Fixpoint l_find_conflict (l : rlog) (ents : list entry) : res (N * rlog) :=
  match ents with
  | [] => Ok (0, l)
  | ne :: r =>
    do m <- l_match_term l (eindex ne) (eterm ne);
    if fst m then l_find_conflict (snd m) r
    else do ll <- l_last_index (snd m);
         if eindex ne <=? fst ll then
           do tt <- l_zero_term_on_err_compacted (snd ll) (l_term (snd ll) (eindex ne));
           Ok (eindex ne, snd tt)
         else Ok (eindex ne, snd ll)
  end.

Definition l_commit_to (l : rlog) (tocommit : N) : res rlog :=
  if l_committed l <? tocommit then
    do ll <- l_last_index l;
    if fst ll <? tocommit then Panic
    else Ok (set_committed (snd ll) tocommit)
  else Ok l.

Definition l_applied_to (l : rlog) (i : N) : res rlog :=
  if i =? 0 then Ok l
  else if (l_committed l <? i) || (i <? l_applied l) then Panic
  else Ok (set_applied l i).

Definition l_append (l : rlog) (ents : list entry) : res (N * rlog) :=
  match ents with
  | [] => l_last_index l
  | e0 :: _ =>
    if (1 <=? eindex e0) && (eindex e0 - 1 <? l_committed l) then Panic
    else do u <- u_truncate_and_append (l_u l) ents;
         l_last_index (set_u l u)
  end.

Definition l_maybe_append (l : rlog) (index logterm committed : N) (ents : list entry) : res (option N * rlog) :=
  do m <- l_match_term l index logterm;
  let '(ok, l1) := m in
  if negb ok then Ok (None, l1)
  else
    let lastnewi := index + nlen ents in
    do c <- l_find_conflict l1 ents;
    let '(ci, l2) := c in
    do l3 <- (if ci =? 0 then Ok l2
              else if ci <=? l_committed l2 then Panic
              else if ci <? index + 1 then Panic   (* ents[ci-offset:] with a wrapped bound *)
              else do sl <- goslice ents (ci - (index + 1)) (nlen ents);
                   do a <- l_append l2 sl; Ok (snd a));
    do l4 <- l_commit_to l3 (N.min committed lastnewi);
    Ok (Some lastnewi, l4).

Definition l_must_check_out_of_bounds (l : rlog) (lo hi : N) : res (option err * rlog) :=
  if hi <? lo then Panic
  else do fl <- l_first_index l;
  let '(fi, l1) := fl in
  if lo <? fi then Ok (Some ErrCompacted, l1)
  else do ll <- l_last_index l1;
  let '(li, l2) := ll in
  (* Go: length := lastIndex+1-fi ; hi > fi+length. In uint64 arithmetic fi+(li+1-fi) = li+1
     whether or not the subtraction wraps, so the test is hi > li+1 *)
  if li + 1 <? hi then Panic else Ok (None, l2).

Definition l_slice (l : rlog) (lo hi max : N) : res (list entry * rlog) :=
  do chk <- l_must_check_out_of_bounds l lo hi;
  let '(e, l1) := chk in
  match e with
  | Some er => Err er
  | None =>
    if lo =? hi then Ok ([], l1)
    else
      let uoff := u_off (l_u l1) in
      do part1 <-
        (if lo <? uoff then
           match st_entries (l_st l1) lo (N.min hi uoff) max with
           | Ok (se, s) => Ok (Some se, set_st l1 s)
           | Err ErrCompacted => Err ErrCompacted
           | _ => Panic
           end
         else Ok (None, l1));
      let '(stored, l2) := part1 in
      let short := match stored with
                   | Some se => nlen se <? N.min hi uoff - lo
                   | None => false
                   end in
      if short then Ok (match stored with Some se => se | None => [] end, l2)
      else
        let ents := match stored with Some se => se | None => [] end in
        do ents2 <-
          (if uoff <? hi then
             do us <- u_slice (l_u l2) (N.max lo uoff) hi;
             Ok (ents ++ us)
           else Ok ents);
        Ok (limit_size ents2 max, l2)
  end.

Definition l_entries (l : rlog) (i max : N) : res (list entry * rlog) :=
  do ll <- l_last_index l;
  let '(li, l1) := ll in
  if li <? i then Ok ([], l1) else l_slice l1 i (li + 1) max.

Definition l_next_ents (l : rlog) : res (list entry * rlog) :=
  do fl <- l_first_index l;
  let '(fi, l1) := fl in
  let off := N.max (l_applied l1 + 1) fi in
  if off <? l_committed l1 + 1 then
    match l_slice l1 off (l_committed l1 + 1) (l_maxnext l1) with
    | Ok x => Ok x
    | _ => Panic
    end
  else Ok ([], l1).

Definition l_has_next_ents (l : rlog) : res (bool * rlog) :=
  do fl <- l_first_index l;
  let '(fi, l1) := fl in
  Ok (N.max (l_applied l1 + 1) fi <? l_committed l1 + 1, l1).

Definition l_has_more_next_ents (l : rlog) (applied_to : N) : bool := applied_to <? l_committed l.

Definition l_maybe_commit (l : rlog) (max_index t : N) : res (bool * rlog) :=
  if l_committed l <? max_index then
    do tt <- l_zero_term_on_err_compacted l (l_term l max_index);
    if fst tt =? t then do l' <- l_commit_to (snd tt) max_index; Ok (true, l')
    else Ok (false, snd tt)
  else Ok (false, l).

Definition l_restore (l : rlog) (si st : N) : rlog :=
  set_u (set_committed l si) (u_restore (l_u l) si st).

Definition l_stable_to (l : rlog) (i t : N) : res rlog := do u <- u_stable_to (l_u l) i t; Ok (set_u l u).
Definition l_stable_snap_to (l : rlog) (i : N) : rlog := set_u l (u_stable_snap_to (l_u l) i).

(* node.go: Ready.appliedCursor and the raftLog part of Advance *)
Definition applied_cursor (cents : list entry) (snap_index : N) : N :=
  match last_opt cents with
  | Some e => eindex e
  | None => snap_index
  end.
Definition advance_applied (l : rlog) (cents : list entry) (snap_index : N) : res rlog :=
  l_applied_to l (applied_cursor cents snap_index).

(* ====================================================================================== *)
(* raft.go: quorum arithmetic and the vote rule *)
Definition quorum (nvoters : N) : N := nvoters / 2 + 1.

Fixpoint insert_sorted (x : N) (l : list N) : list N :=
  match l with
  | [] => [x]
  | y :: r => if x <=? y then x :: l else y :: insert_sorted x r
  end.
Definition sort_n (l : list N) : list N := fold_right insert_sorted [] l.
(* raft.maybeCommit: mci = sorted(matches)[len - quorum] *)
Definition commit_index (matches : list N) : option N :=
  nnth (nlen matches - quorum (nlen matches)) (sort_n matches).

(* Step, case MsgVote / MsgPreVote (after the term handling): Some granted / None = no answer *)
Definition can_vote (vote lead from : N) (is_prevote : bool) (mterm term : N) : bool :=
  (vote =? from) || ((vote =? none_id) && (lead =? none_id)) || (is_prevote && (term <? mterm)).
Definition vote_decision (is_learner : bool) (vote lead from : N) (is_prevote : bool) (mterm term : N)
           (up_to_date : bool) : option bool :=
  if is_learner then None
  else Some (can_vote vote lead from is_prevote mterm term && up_to_date).
