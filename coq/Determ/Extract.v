(* Determ/Extract.v — extraction of the C07 model (ExtrOcamlBasic only) *)
From Coq Require Import ExtrOcamlBasic ZArith NArith.
From ZV Require Import Determ.Model.
Extraction Language OCaml.
Extraction "model.ml" Z.of_N N.of_nat Nat.add run_trace run_trace_gen jreply mkReq mkCall.
