(* Determ/Extract.v — extraction of the C07 model (ExtrOcamlBasic only) *)
From Coq Require Import ExtrOcamlBasic ZArith NArith.
From ZV Require Import Determ.Model Determ.ModelRW.
Extraction Language OCaml.
Extraction "model.ml" Z.of_N N.of_nat Nat.add run_trace run_trace_gen jreply ws_covered wset_classes mkReq mkCall.
