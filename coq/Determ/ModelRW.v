(* Determ/ModelRW.v — C07: read sets and write sets of the batchable commands, by engine-key class.

   Transcribes which engine keys the four batchable handlers read and write (Go, /repo):
     rockredis/t_kv.go   setKV (SET, SETEX), KVSetWithOpts (SET .. NX|XX|EX): read  [KVType]table:key
                         (ExistNoLock / getRawDBKVValue); write the same key, a merge operand on the table
                         counter [TableMetaType]meta:table, and — local-deletion policy — the expire-time
                         index key [ExpTimeType]when|KVType|table:key (t_ttl_l.go rawExpireAt)
     rockredis/t_kv.go   DelKeys/kvDel (DEL with one key): read and delete [KVType]table:key, merge on the counter
     rockredis/t_hash.go HMset: read the size record [HSizeType]table:key and the field keys
                         [HashType]table|key|field; write them and a merge on the table counter
   Never read by any of them: table counters (only merged), expire-time index keys (read by the
   node-local sweeper only). Hash-field secondary indexes (tables with an hset index schema) are not modelled.
   The sets below are those of batch candidates (Model.batch_cand): DEL in its single-key form only.
   An engine key is identified by its class and owner; that different (class, owner) pairs are different
   byte strings is C12's injectivity theorem. *)
From Coq Require Import List NArith Bool.
From ZV Require Import Determ.Consts Determ.Model.
Import ListNotations.
Open Scope N_scope.

Inductive ekey :=
| KKV (pk : bytes)                       (* [KVType] table:key *)
| KHSize (pk : bytes)                    (* [HSizeType] table:key *)
| KHField (pk : bytes) (field : bytes)   (* [HashType] table | key | field *)
| KCounter (table : bytes)               (* [TableMetaType] meta:table *)
| KExpTime (pk : bytes) (dt when : N).   (* [ExpTimeType] when | data type | table:key *)

(* table of a primary key "table:key": the bytes before the first ':' *)
Fixpoint table_of (pk : bytes) : bytes :=
  match pk with
  | [] => []
  | c :: r => if c =? 58 then [] else c :: table_of r
  end.

Definition name_set : bytes := [115; 101; 116].
Definition name_setex : bytes := [115; 101; 116; 101; 120].
Definition name_hmset : bytes := [104; 109; 115; 101; 116].

Definition is_kv_write (q : req) : bool := bytes_eqb (rname q) name_set || bytes_eqb (rname q) name_setex.
Definition is_del (q : req) : bool := bytes_eqb (rname q) del_name.
Definition is_hmset (q : req) : bool := bytes_eqb (rname q) name_hmset.

Definition rset (q : req) (k : ekey) : Prop :=
  match k with
  | KKV pk => (is_kv_write q = true \/ is_del q = true) /\ pk = rpk q
  | KHSize pk => is_hmset q = true /\ pk = rpk q
  | KHField pk _ => is_hmset q = true /\ pk = rpk q
  | KCounter _ => False
  | KExpTime _ _ _ => False
  end.

Definition wset (q : req) (k : ekey) : Prop :=
  match k with
  | KKV pk => (is_kv_write q = true \/ is_del q = true) /\ pk = rpk q
  | KHSize pk => is_hmset q = true /\ pk = rpk q
  | KHField pk _ => is_hmset q = true /\ pk = rpk q
  | KCounter t => t = table_of (rpk q)
  | KExpTime pk _ _ => is_kv_write q = true /\ pk = rpk q
  end.

(* executable form for the correspondence check: the key classes a command may write
   (0 kv, 1 hsize, 2 hfield, 3 counter, 4 exptime), all owned by the command's own primary key / table *)
Definition wset_classes (name : bytes) : list N :=
  if bytes_eqb name name_set || bytes_eqb name name_setex then [0; 3; 4]
  else if bytes_eqb name del_name then [0; 3]
  else if bytes_eqb name name_hmset then [1; 2; 3]
  else [].

(* observed = the classes of the engine keys a command changed; 100 + c = a key of class c owned by
   another primary key / table *)
Definition ws_covered (name : bytes) (observed : list N) : bool :=
  forallb (fun c => existsb (N.eqb c) (wset_classes name)) observed.
