(* Determ/Model.v — C07: the batching logic of the apply loop over an ABSTRACT store and handlers.

   Transcribes (Go, /repo):
     node/state_machine.go  kvStoreSM.ApplyRaftRequest   (the per-request loop: parse failure, non-redis
                            requests, cluster-syncer conflict pre-check, IsBatchable / BeginBatch /
                            CommitBatch-before-a-non-batchable-command, handler lookup, AddBatchKey,
                            a batchable command joins a batch only if isValidBatchableWrite,
                            handler call, error -> Trigger + AbortBatchForError when IsNeedAbortError,
                            success -> AddBatchRsp when batching else Trigger, CommitBatch at the end of
                            a list that carries a ReqId)
     node/state_machine.go  kvbatchOperator.{IsBatchable, BeginBatch, AddBatchKey, AddBatchRsp,
                            CommitBatch, AbortBatchForError}
     node/node.go           KVNode.applyEntries          (one batch operator per delivered group of
                            entries, CommitBatch after the last entry)
     rockredis/rockredis.go BeginBatchWrite / MaybeCommitBatch / CommitBatchWrite / AbortBatch,
                            IsBatchableWrite (the set is in Consts.v, generated from the source)

   Abstraction (Section variables): the engine state [store] changed only by applying write operations
   [W] in order ([apply_w]; a committed write batch is applied operation by operation, merge operands
   included); a handler sees the COMMITTED store only (the Go handlers read through GetBytesNoLock /
   iterators on the engine, never the pending db.wb) and yields its write operations and its reply, or
   an error with the IsNeedAbortError bit. Not modelled: engine write failures (CommitBatchWrite
   returning an error), isUnrecoveryError panics (disk full), BeginBatchWrite refusing because another
   batch is open (impossible with one operator alive at a time, which applyEntries guarantees), the
   partial writes a failing handler leaves in db.wb (always cleared by AbortBatch, batched or not: checked
   on the code by the part-way-failing-writes sweep with a restore cut at every position; the only
   non-aborting error, errTooMuchBatchSize, is returned before db.wb is touched), metrics/slow logs.
   A Go index panic (cmd.Args[1] on a one-word command) is the explicit outcome [None]. *)
From Coq Require Import List NArith Bool.
From ZV Require Import Determ.Consts.
Import ListNotations.
Open Scope N_scope.

Definition bytes := list N.

Fixpoint bytes_eqb (a b : bytes) : bool :=
  match a, b with
  | [], [] => true
  | x :: a', y :: b' => (x =? y) && bytes_eqb a' b'
  | _, _ => false
  end.

Definition mem_bytes (x : bytes) (l : list bytes) : bool := existsb (bytes_eqb x) l.

(* request kinds: a redis command, another data type (custom / schema / unknown: the batch is
   committed first), redis bytes that do not parse (only an error reply) *)
Inductive kind := KRedis | KOther | KGarbage.

(* rname = lower-cased command name, rpk = cmd.Args[1], rnargs = len(cmd.Args);
   rbody stands for the rest of the entry (argument bytes and the timestamp carried by the entry);
   rvalid = isValidBatchableWrite(cmdName, cmd.Args, reqTs): a pure function of the entry (the argument
   checks a batchable handler makes before it writes anything), so it is a field of the request *)
Record req := mkReq { rid : N; rkind : kind; rname : bytes; rpk : bytes; rnargs : N; rbody : N; rvalid : bool }.

Inductive outcome (W R : Type) :=
| Ok (ws : list W) (r : R)          (* writes put into the batch (or committed at once), reply *)
| Fail (e : R) (abort : bool)       (* handler error; abort = rockredis.IsNeedAbortError *)
| NoHandler.                        (* GetInternalCmdHandler fails *)
Arguments Ok {W R}. Arguments Fail {W R}. Arguments NoHandler {W R}.

(* calls of the batch operator, in order (the correspondence observes exactly these) *)
Inductive ev := EQ (b : bool) | EB | EK | ER | EC (was : bool) | EA (was : bool) | ESep.

(* one ApplyRaftRequest call: the requests of one BatchInternalRaftRequest; cflag = ReqId > 0 *)
Record call := mkCall { cflag : bool; creqs : list req }.

Definition name_batchable (q : req) : bool := mem_bytes (rname q) batchable_cmds.

(* a request that can ever be a member of a batch: a batchable name, and not a multi-key DEL
   (kvbatchOperator.IsBatchable refuses "del" with more than one key before anything else) *)
Definition multi_del (q : req) : bool := bytes_eqb (rname q) del_name && (2 <? rnargs q).
Definition batch_cand (q : req) : bool := name_batchable q && negb (multi_del q).

Section Batching.
  Variables (store W R : Type).
  Variable apply_w : store -> W -> store.
  Variable handler : req -> store -> outcome W R.        (* router lookup + local*Command(cmd, ts) *)
  Variable other_exec : req -> store -> store * R.        (* custom / schema / unknown requests *)
  Variable parse_err : req -> R.
  Variable err_invalid : R.                               (* common.ErrInvalidCommand *)
  Variable reply_nil : R.                                 (* Trigger(reqID, nil) of an ignored sync *)
  Variable conflicts : req -> store -> bool.              (* preCheckConflict = Conflict *)

  Definition commit_ws (s : store) (ws : list W) : store := fold_left apply_w ws s.

  (* kvbatchOperator + the store's write batch *)
  Record opstate := mkOp { batching : bool; dup : list bytes; pend : list (N * R); wb : list W }.
  Definition init_op : opstate := mkOp false [] [] [].

  Definition is_batchable (st : opstate) (q : req) : bool :=
    if multi_del q then false
    else name_batchable q
         && (N.of_nat (length (pend st)) <? max_db_batch_cmd_num)
         && negb (mem_bytes (rpk q) (dup st)).

  (* CommitBatch: returns at once when not batching (nothing is reset in that case) *)
  Definition commit_op (st : opstate) (s : store) : opstate * store * list (N * R) :=
    if batching st then (init_op, commit_ws s (wb st), pend st) else (st, s, []).

  (* AbortBatchForError: the write batch is dropped; when batching every collected request gets the error *)
  Definition abort_op (st : opstate) (s : store) (e : R) : opstate * store * list (N * R) :=
    if batching st then (init_op, s, map (fun p => (fst p, e)) (pend st)) else (st, s, []).

  Definition begin_op (st : opstate) : opstate := mkOp true (dup st) (pend st) (wb st).
  Definition add_key (st : opstate) (pk : bytes) : opstate :=
    mkOp (batching st) (pk :: dup st) (pend st) (wb st).
  Definition add_rsp (st : opstate) (id : N) (r : R) (ws : list W) : opstate :=
    mkOp (batching st) (dup st) (pend st ++ [(id, r)]) (wb st ++ ws).

  (* result of processing one request: new operator state, new committed store, replies triggered
     (in trigger order), operator calls made.  None = Go panic. *)
  Definition stepres := option (opstate * store * list (N * R) * list ev).

  (* the body of the loop for a redis request, after the (optional) conflict pre-check;
     out0 / ev0 = replies triggered and operator calls made by the pre-check's CommitBatch *)
  Definition exec_redis (st0 : opstate) (s0 : store) (out0 : list (N * R)) (ev0 : list ev) (q : req) : stepres :=
    let bq := is_batchable st0 q in            (* batch.IsBatchable(...) is always called ... *)
    let b := bq && rvalid q in                 (* ... && isValidBatchableWrite(...) *)
    let '(st1, s1, out1, ev1) :=
      if b then (if batching st0 then (st0, s0, out0, ev0 ++ [EQ bq]) else (begin_op st0, s0, out0, ev0 ++ [EQ bq; EB]))
      else let '(a, c, d) := commit_op st0 s0 in (a, c, out0 ++ d, ev0 ++ [EQ bq; EC (batching st0)]) in
    match handler q s1 with
    | NoHandler => Some (st1, s1, out1 ++ [(rid q, err_invalid)], ev1)
    | Fail e ab =>
        let st2 := if batching st1 then add_key st1 (rpk q) else st1 in
        let evk := if batching st1 then [EK] else [] in
        if ab then
          let '(st3, s3, out3) := abort_op st2 s1 e in
          Some (st3, s3, out1 ++ (rid q, e) :: out3, ev1 ++ evk ++ [EA (batching st2)])
        else Some (st2, s1, out1 ++ [(rid q, e)], ev1 ++ evk)
    | Ok ws r =>
        let st2 := if batching st1 then add_key st1 (rpk q) else st1 in
        let evk := if batching st1 then [EK] else [] in
        if batching st2
        then Some (add_rsp st2 (rid q) r ws, s1, out1, ev1 ++ evk ++ [ER])
        else Some (st2, commit_ws s1 ws, out1 ++ [(rid q, r)], ev1 ++ evk)
    end.

  Definition step (conflict_on : bool) (st : opstate) (s : store) (q : req) : stepres :=
    match rkind q with
    | KGarbage => Some (st, s, [(rid q, parse_err q)], [])
    | KOther =>
        let '(st1, s1, out1) := commit_op st s in
        let '(s2, r) := other_exec q s1 in
        Some (st1, s2, out1 ++ [(rid q, r)], [EC (batching st)])
    | KRedis =>
        if rnargs q <? 2 then None
        else if conflict_on then
          (* live entry of the cluster syncer (not syncer-only): CommitBatch, then the conflict pre-check
             on the committed store; a conflicting write is acknowledged with nil and skipped *)
          let '(st0, s0, out0) := commit_op st s in
          if conflicts q s0 then Some (st0, s0, out0 ++ [(rid q, reply_nil)], [EC (batching st)])
          else exec_redis st0 s0 out0 [EC (batching st)] q
        else exec_redis st s [] [] q
    end.

  Fixpoint steps (conflict_on : bool) (st : opstate) (s : store) (qs : list req) : stepres :=
    match qs with
    | [] => Some (st, s, [], [])
    | q :: qs' =>
        match step conflict_on st s q with
        | None => None
        | Some (st1, s1, o1, e1) =>
            match steps conflict_on st1 s1 qs' with
            | None => None
            | Some (st2, s2, o2, e2) => Some (st2, s2, o1 ++ o2, e1 ++ e2)
            end
        end
    end.

  (* the conflict pre-check runs only for live (not replayed) entries that came from the cluster
     syncer, and not on a syncer-only node *)
  Definition conflict_on (replaying from_syncer syncer_only : bool) : bool :=
    negb replaying && from_syncer && negb syncer_only.

  Definition apply_call (replaying from_syncer syncer_only : bool) (st : opstate) (s : store) (c : call) : stepres :=
    match steps (conflict_on replaying from_syncer syncer_only) st s (creqs c) with
    | None => None
    | Some (st1, s1, o1, e1) =>
        if cflag c then
          let '(st2, s2, o2) := commit_op st1 s1 in Some (st2, s2, o1 ++ o2, e1 ++ [EC (batching st1)])
        else Some (st1, s1, o1, e1)
    end.

  Fixpoint apply_calls (rp fs so : bool) (st : opstate) (s : store) (cs : list call) : stepres :=
    match cs with
    | [] => Some (st, s, [], [])
    | c :: cs' =>
        match apply_call rp fs so st s c with
        | None => None
        | Some (st1, s1, o1, e1) =>
            match apply_calls rp fs so st1 s1 cs' with
            | None => None
            | Some (st2, s2, o2, e2) => Some (st2, s2, o1 ++ o2, e1 ++ e2)
            end
        end
    end.

  (* one applyEntries event: a fresh operator, every entry's call, CommitBatch at the end *)
  Definition apply_op (rp fs so : bool) (s : store) (cs : list call) : option (store * list (N * R) * list ev) :=
    match apply_calls rp fs so init_op s cs with
    | None => None
    | Some (st1, s1, o1, e1) =>
        let '(_, s2, o2) := commit_op st1 s1 in
        Some (s2, o1 ++ o2, e1 ++ [EC (batching st1); ESep])
    end.

  Fixpoint apply_batched (rp fs so : bool) (s : store) (p : list (list call)) : option (store * list (N * R) * list ev) :=
    match p with
    | [] => Some (s, [], [])
    | cs :: p' =>
        match apply_op rp fs so s cs with
        | None => None
        | Some (s1, o1, e1) =>
            match apply_batched rp fs so s1 p' with
            | None => None
            | Some (s2, o2, e2) => Some (s2, o1 ++ o2, e1 ++ e2)
            end
        end
    end.

  (* the log of a partition, and the one-at-a-time partition of a log *)
  Definition flatten (p : list (list call)) : list req := concat (map (fun cs => concat (map creqs cs)) p).
  Definition singletons (l : list req) : list (list call) := map (fun q => [mkCall false [q]]) l.
  Definition apply_seq (rp fs so : bool) (s : store) (l : list req) := apply_batched rp fs so s (singletons l).

  (* what one request does when it is alone (the specification side of batch_equiv) *)
  Definition seq_step (s : store) (q : req) : option (store * R) :=
    match rkind q with
    | KGarbage => Some (s, parse_err q)
    | KOther => Some (other_exec q s)
    | KRedis =>
        if rnargs q <? 2 then None
        else match handler q s with
             | NoHandler => Some (s, err_invalid)
             | Fail e _ => Some (s, e)
             | Ok ws r => Some (commit_ws s ws, r)
             end
    end.

  Fixpoint seq_run (s : store) (l : list req) : option (store * list (N * R)) :=
    match l with
    | [] => Some (s, [])
    | q :: l' =>
        match seq_step s q with
        | None => None
        | Some (s1, r) =>
            match seq_run s1 l' with
            | None => None
            | Some (s2, o) => Some (s2, (rid q, r) :: o)
            end
        end
    end.

  (* the reply a client sees: the first Trigger for its id *)
  Fixpoint reply_of (id : N) (out : list (N * R)) : option R :=
    match out with
    | [] => None
    | (i, r) :: out' => if i =? id then Some r else reply_of id out'
    end.
End Batching.

Arguments mkOp {W R}.
Arguments init_op {W R}.
Arguments batching {W R}. Arguments dup {W R}. Arguments pend {W R}. Arguments wb {W R}.

(* ------------------------------------------------------------------------------------------
   The instance run by the correspondence check ("journal"): the store is the list of request
   ids whose writes were committed, in commit order; a request's own outcome is an input
   (class and error hash observed on the Go side, packed in rbody):
       rbody = 4 * errhash + class,  class 0 = success, 1 = error needing abort, 2 = other error,
       3 = ignored by the cluster-syncer conflict pre-check (only in live runs of syncer entries).
   Replies: 0 = a value, h + 1 = the error with hash h.  *)
Definition jstore := list N.
Definition jhandler (q : req) (_ : jstore) : outcome N N :=
  match N.land (rbody q) 3 with
  | 0 => Ok [rid q] 0
  | 1 => Fail (N.shiftr (rbody q) 2 + 1) true
  | _ => Fail (N.shiftr (rbody q) 2 + 1) false
  end.
Definition jother (q : req) (s : jstore) : jstore * N :=
  (s, if N.land (rbody q) 3 =? 0 then 0 else N.shiftr (rbody q) 2 + 1).
Definition jparse (q : req) : N := N.shiftr (rbody q) 2 + 1.

Definition jconflicts (q : req) (_ : jstore) : bool := N.land (rbody q) 3 =? 3.

Definition run_trace_gen (replaying from_syncer : bool) (p : list (list call)) : option (jstore * list (N * N) * list ev) :=
  apply_batched jstore N N (fun s w => s ++ [w]) jhandler jother jparse 0 0 jconflicts
                replaying from_syncer false [] p.
Definition run_trace (p : list (list call)) := run_trace_gen false false p.

Definition jreply (id : N) (out : list (N * N)) : option N := reply_of N id out.
