(* Determ/ProofsRW.v — the isolation hypothesis of batch_equiv, discharged for the concrete read/write
   sets of the four batchable commands (ModelRW.v): different primary keys => the write set of one
   never meets the read set of the other. What remains assumed about the handlers is only that they
   respect these sets ([Hreads], [Hwrites]) and the engine's frame property. *)
From Coq Require Import List NArith Bool.
From ZV Require Import Determ.Consts Determ.Model Determ.ModelRW Determ.Proofs.
Import ListNotations.
Open Scope N_scope.

Lemma rw_isolation : forall q q' k, batch_cand q = true -> batch_cand q' = true ->
  rpk q <> rpk q' -> wset q' k -> rset q k -> False.
Proof.
  intros q q' k _ _ Hpk Hw Hr. destruct k as [pk|pk|pk f|t|pk dt w]; simpl in *.
  - destruct Hw as [_ E1]. destruct Hr as [_ E2]. congruence.
  - destruct Hw as [_ E1]. destruct Hr as [_ E2]. congruence.
  - destruct Hw as [_ E1]. destruct Hr as [_ E2]. congruence.
  - exact Hr.
  - exact Hr.
Qed.

(* the write set of a command holds only keys owned by its own primary key or its table's counter *)
Lemma wset_owned : forall q k, wset q k ->
  match k with
  | KKV pk | KHSize pk | KHField pk _ | KExpTime pk _ _ => pk = rpk q
  | KCounter t => t = table_of (rpk q)
  end.
Proof. intros q k H. destruct k; simpl in *; tauto. Qed.

Section Concrete.
  Variables (store W R V : Type).
  Variable apply_w : store -> W -> store.
  Variable handler : req -> store -> outcome W R.
  Variable get : store -> ekey -> V.
  Variable wkey : W -> ekey.
  Hypothesis Hframe : forall s w k, wkey w <> k -> get (apply_w s w) k = get s k.
  Hypothesis Hreads : forall q s s', (forall k, rset q k -> get s k = get s' k) -> handler q s = handler q s'.
  Hypothesis Hwrites : forall q s ws r, batch_cand q = true -> handler q s = Ok ws r -> forall w, In w ws -> wset q (wkey w).

  Theorem isolation_concrete : forall q q' s' ws r s,
    batch_cand q = true -> batch_cand q' = true -> rpk q <> rpk q' ->
    handler q' s' = Ok ws r -> handler q (commit_ws store W apply_w s ws) = handler q s.
  Proof.
    apply (indep_from_rw_sets store W R ekey V apply_w handler get wkey rset wset Hframe Hreads Hwrites rw_isolation).
  Qed.
End Concrete.

(* the executable class list agrees with the write set *)
Definition class_of (k : ekey) : N :=
  match k with KKV _ => 0 | KHSize _ => 1 | KHField _ _ => 2 | KCounter _ => 3 | KExpTime _ _ _ => 4 end.

Lemma bytes_eqb_refl : forall a, bytes_eqb a a = true.
Proof. intros. now apply bytes_eqb_eq. Qed.

Ltac name_clash E H :=
  unfold is_kv_write, is_del, is_hmset in H; apply bytes_eqb_eq in E; rewrite E in H; vm_compute in H;
  try discriminate H; try (destruct H as [H|H]; discriminate H).

Lemma wset_classes_sound : forall q k, wset q k ->
  In (class_of k) (wset_classes (rname q)) \/ (is_kv_write q = false /\ is_del q = false /\ is_hmset q = false).
Proof.
  intros q k H. unfold wset_classes. unfold is_kv_write, is_del, is_hmset in *.
  destruct (bytes_eqb (rname q) name_set) eqn:E1; [|destruct (bytes_eqb (rname q) name_setex) eqn:E1'];
    simpl orb.
  - left. destruct k; simpl in *; auto 6.
    + destruct H as [H _]. name_clash E1 H.
    + destruct H as [H _]. name_clash E1 H.
  - left. destruct k; simpl in *; auto 6.
    + destruct H as [H _]. name_clash E1' H.
    + destruct H as [H _]. name_clash E1' H.
  - destruct (bytes_eqb (rname q) del_name) eqn:E2.
    + left. destruct k; simpl in *; auto.
      * destruct H as [H _]. name_clash E2 H.
      * destruct H as [H _]. name_clash E2 H.
      * destruct H as [H _]. unfold is_kv_write in H. rewrite E1, E1' in H. discriminate H.
    + destruct (bytes_eqb (rname q) name_hmset) eqn:E3.
      * left. destruct k; simpl in *; auto.
        -- destruct H as [H _]. unfold is_kv_write, is_del in H. rewrite E1, E1', E2 in H. destruct H as [H|H]; discriminate H.
        -- destruct H as [H _]. unfold is_kv_write in H. rewrite E1, E1' in H. discriminate H.
      * right. auto.
Qed.

(* all four names of the generated batchable set are covered by ModelRW (checked against Consts.v) *)
Lemma batchable_names_covered :
  forallb (fun n => negb (match wset_classes n with [] => true | _ => false end)) batchable_cmds = true.
Proof. vm_compute. reflexivity. Qed.
