(* driver for the C07 model: reads case lines on stdin, prints "<id>\t<model output>".
   Only B lines are the model's business:
     <id> B <flags: r = isReplaying, s = from the cluster syncer, - = none> <ops '|'> ; calls ';' (prefix '!' = the list carries a ReqId) ; requests ','
     request = R.<namehex>.<pk>.<nargs>.<valid 0/1>.<class>.<errhash> | X.<class>.<errhash> | G.<class>.<errhash>
   Output: the batch-operator calls the model makes, then " # ", then every request's reply kind. *)
open Model
open Vio

let cls_code c = match c with "o" -> 0 | "a" -> 1 | "c" -> 3 | _ -> 2
let body cls eh =
  let h = if eh = "-" then 0 else int_of_string ("0x" ^ eh) in
  n_of_int (4 * h + cls_code cls)

(* primary keys travel as p<index> (first-use number within the log) or hex *)
let pk_bytes s =
  if String.length s > 0 && s.[0] = 'p' then [n_of_int (int_of_string (String.sub s 1 (String.length s - 1)))]
  else bytes_of_hex s

let parse_req (id : int) (s : string) : req =
  match split_on '.' s with
  | "R" :: name :: pk :: nargs :: valid :: cls :: eh :: _ ->
    { rid = n_of_int id; rkind = KRedis; rname = bytes_of_hex name; rpk = pk_bytes pk;
      rnargs = n_of_dec nargs; rbody = body cls eh; rvalid = (valid = "1") }
  | "X" :: cls :: eh :: _ ->
    { rid = n_of_int id; rkind = KOther; rname = []; rpk = []; rnargs = N0; rbody = body cls eh; rvalid = true }
  | "G" :: cls :: eh :: _ ->
    { rid = n_of_int id; rkind = KGarbage; rname = []; rpk = []; rnargs = N0; rbody = body cls eh; rvalid = true }
  | _ -> failwith ("bad request " ^ s)

let ev_tok = function
  | EQ b -> if b then "Q1" else "Q0"
  | EB -> "B" | EK -> "K" | ER -> "R"
  | EC b -> if b then "C1" else "C0"
  | EA b -> if b then "A1" else "A0"
  | ESep -> "/"

let () =
  read_lines stdin (fun line ->
    match split_on '\t' line with
    | id :: "B" :: flags :: body :: _ ->
      let replaying = String.contains flags 'r' and syncer = String.contains flags 's' in
      let next = ref 0 in
      let ops = if body = "" then [] else split_on '|' body in
      let p = List.map (fun op ->
          List.filter_map (fun c ->
              if c = "" then None else
              let fl = c.[0] = '!' in
              let c = if fl then String.sub c 1 (String.length c - 1) else c in
              let rs = List.map (fun r -> let i = !next in incr next; parse_req i r) (split_on ',' c) in
              Some { cflag = fl; creqs = rs }) (split_on ';' op)) ops in
      let n = !next in
      (match run_trace_gen replaying syncer p with
       | None -> Printf.printf "%s\tpanic\n" id
       | Some ((_, out), evs) ->
         let kinds = List.init n (fun i ->
             match jreply (n_of_int i) out with
             | None -> "N"
             | Some N0 -> "V"
             | Some r -> Printf.sprintf "E%04x" (int_of_n r - 1)) in
         Printf.printf "%s\t%s # %s\n" id (String.concat " " (List.map ev_tok evs)) (String.concat " " kinds))
    | id :: "WS" :: name :: obs :: _ ->
      (* the key classes a batchable command changed on the real engine must lie in the model's write set *)
      let o = if obs = "" then [] else List.map n_of_dec (split_on ',' obs) in
      Printf.printf "%s\t%s\n" id (if ws_covered (bytes_of_hex name) o then "ok" else "outside the write set: " ^ obs)
    | _ -> ())
