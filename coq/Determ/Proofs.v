(* Determ/Proofs.v — proofs about the batching model (C07).

   Main result [batch_equiv]: for every partition of a log into ApplyRaftRequest calls and batch-operator
   lifetimes, the committed store and the multiset of (request id, reply) pairs equal those of applying
   the log one request at a time ([seq_run]) — under two named hypotheses about the handlers:
     [Hindep]   (isolation, C12) the writes a batch candidate (batchable name, not a multi-key DEL) on another primary key produces never
                change what a batchable command reads;
     [Hnoabort] no batchable command that passed isValidBatchableWrite fails with an error that needs an abort.
   [Hindep] is derived from read-set / write-set disjointness in [indep_from_rw_sets].
   Without [Hnoabort] the statement is false of the model: [batch_equiv_refuted] (Properties/C07.v). *)
From Coq Require Import List NArith Bool Permutation Lia.
From ZV Require Import Determ.Consts Determ.Model.
Import ListNotations.
Open Scope N_scope.

Lemma bytes_eqb_eq : forall a b, bytes_eqb a b = true <-> a = b.
Proof.
  induction a as [|x a IH]; destruct b as [|y b]; simpl; split; intro H; try discriminate; try reflexivity.
  - apply andb_true_iff in H as [H1 H2]. apply N.eqb_eq in H1. apply IH in H2. now subst.
  - inversion H; subst. apply andb_true_iff. split; [apply N.eqb_refl | now apply IH].
Qed.

Lemma mem_bytes_in : forall x l, mem_bytes x l = true <-> In x l.
Proof.
  intros x l. unfold mem_bytes. rewrite existsb_exists. split.
  - intros [y [Hin He]]. apply bytes_eqb_eq in He. now subst.
  - intros Hin. exists x. split; [exact Hin | now apply bytes_eqb_eq].
Qed.

Lemma mem_bytes_not_in : forall x l, mem_bytes x l = false <-> ~ In x l.
Proof.
  intros x l. rewrite <- mem_bytes_in. destruct (mem_bytes x l); split; intro H; try reflexivity; try discriminate.
  - now elim H.
Qed.

Lemma perm_insert : forall (A : Type) (a b c : list A) (x : A),
  Permutation (a ++ b) c -> Permutation ((a ++ [x]) ++ b) (c ++ [x]).
Proof.
  intros A a b c x H. rewrite <- app_assoc. simpl.
  apply Permutation_trans with (x :: a ++ b).
  - symmetry. apply Permutation_middle.
  - apply Permutation_trans with (x :: c).
    + now apply perm_skip.
    + apply Permutation_cons_append.
Qed.

Section Equiv.
  Variables (store W R : Type).
  Variable apply_w : store -> W -> store.
  Variable handler : req -> store -> outcome W R.
  Variable other_exec : req -> store -> store * R.
  Variable parse_err : req -> R.
  Variables (err_invalid reply_nil : R).
  Variable conflicts : req -> store -> bool.

  Notation commit_ws := (commit_ws store W apply_w).
  Notation opstate := (opstate W R).
  Notation step := (step store W R apply_w handler other_exec parse_err err_invalid reply_nil conflicts).
  Notation steps := (steps store W R apply_w handler other_exec parse_err err_invalid reply_nil conflicts).
  Notation apply_call := (apply_call store W R apply_w handler other_exec parse_err err_invalid reply_nil conflicts).
  Notation apply_calls := (apply_calls store W R apply_w handler other_exec parse_err err_invalid reply_nil conflicts).
  Notation apply_op := (apply_op store W R apply_w handler other_exec parse_err err_invalid reply_nil conflicts).
  Notation apply_batched := (apply_batched store W R apply_w handler other_exec parse_err err_invalid reply_nil conflicts).
  Notation apply_seq := (apply_seq store W R apply_w handler other_exec parse_err err_invalid reply_nil conflicts).
  Notation seq_step := (seq_step store W R apply_w handler other_exec parse_err err_invalid).
  Notation seq_run := (seq_run store W R apply_w handler other_exec parse_err err_invalid).
  Notation commit_op := (commit_op store W R apply_w).
  Notation abort_op := (abort_op store W R).
  Notation is_batchable := (is_batchable W R).

  Lemma commit_ws_app : forall s a b, commit_ws s (a ++ b) = commit_ws (commit_ws s a) b.
  Proof. intros. unfold Model.commit_ws. apply fold_left_app. Qed.

  (* isReplaying is consulted only for entries that came from the cluster syncer *)
  Lemma replay_flag_irrelevant_call : forall rp1 rp2 so st s c,
    apply_call rp1 false so st s c = apply_call rp2 false so st s c.
  Proof.
    intros. unfold Model.apply_call, conflict_on. rewrite !andb_false_r. reflexivity.
  Qed.

  Lemma replay_flag_irrelevant : forall rp1 rp2 so s p,
    apply_batched rp1 false so s p = apply_batched rp2 false so s p.
  Proof.
    intros rp1 rp2 so s p. revert s. induction p as [|cs p IH]; intros s; simpl; [reflexivity|].
    assert (Hc : forall st s0 l, apply_calls rp1 false so st s0 l = apply_calls rp2 false so st s0 l).
    { intros st s0 l. revert st s0. induction l as [|c l IHl]; intros st s0; simpl; [reflexivity|].
      rewrite (replay_flag_irrelevant_call rp1 rp2).
      destruct (apply_call rp2 false so st s0 c) as [[[[st1 s1] o1] e1]|]; [|reflexivity].
      now rewrite IHl. }
    unfold Model.apply_op. rewrite Hc.
    destruct (apply_calls rp2 false so init_op s cs) as [[[[st1 s1] o1] e1]|]; [|reflexivity].
    destruct (commit_op st1 s1) as [[st2 s2] o2]. now rewrite IH.
  Qed.

  (* ------------------------------------------------------------------ hypotheses *)
  Hypothesis Hindep : forall q q' s' ws r s,
    batch_cand q = true -> batch_cand q' = true -> rpk q <> rpk q' ->
    handler q' s' = Ok ws r -> handler q (commit_ws s ws) = handler q s.
  Hypothesis Hnoabort : forall q s e, batch_cand q = true -> rvalid q = true -> handler q s <> Fail e true.

  (* the pending write batch is made of writes of batchable commands whose primary keys are in dupCheckMap *)
  Inductive wb_ok : list bytes -> list W -> Prop :=
  | wb_nil : forall d, wb_ok d []
  | wb_snoc : forall d wbs q' s' ws r, wb_ok d wbs -> In (rpk q') d -> batch_cand q' = true ->
      handler q' s' = Ok ws r -> wb_ok d (wbs ++ ws).

  Lemma wb_ok_mono : forall d d' w, wb_ok d w -> incl d d' -> wb_ok d' w.
  Proof.
    intros d d' w H. induction H as [d|d wbs q' s' ws r H IH Hin Hb Hh]; intros Hi.
    - constructor.
    - eapply wb_snoc; eauto.
  Qed.

  Lemma indep_wb : forall d w q s, wb_ok d w -> batch_cand q = true -> ~ In (rpk q) d ->
    handler q (commit_ws s w) = handler q s.
  Proof.
    intros d w q s H Hb Hn. induction H as [d|d wbs q' s' ws r H IH Hin Hb' Hh].
    - reflexivity.
    - rewrite commit_ws_app. rewrite (Hindep q q' s' ws r); auto.
      intros E. apply Hn. rewrite E. exact Hin.
  Qed.

  Record Inv (st : opstate) (s : store) (out : list (N * R)) (sseq : store) (oseq : list (N * R)) : Prop := {
    inv_store : sseq = commit_ws s (wb st);
    inv_out : Permutation (out ++ pend st) oseq;
    inv_wb : wb_ok (dup st) (wb st);
    inv_idle : batching st = false -> st = init_op }.

  Lemma inv_init : forall s, Inv init_op s [] s [].
  Proof. intros s. constructor; simpl; auto. constructor. Qed.

  (* CommitBatch re-establishes the idle state and publishes the pending replies *)
  Lemma commit_sim : forall st s out sseq oseq, Inv st s out sseq oseq ->
    forall st1 s1 o1, commit_op st s = (st1, s1, o1) ->
    st1 = init_op /\ s1 = sseq /\ Permutation (out ++ o1) oseq.
  Proof.
    intros st s out sseq oseq [Hs Ho Hw Hi] st1 s1 o1 H. unfold Model.commit_op in H.
    destruct (batching st) eqn:B.
    - inversion H; subst. auto.
    - inversion H; subst. rewrite (Hi eq_refl) in *. simpl in *. auto.
  Qed.

  Lemma inv_after_commit : forall out sseq oseq o1, Permutation (out ++ o1) oseq -> Inv init_op sseq (out ++ o1) sseq oseq.
  Proof. intros. constructor; simpl; auto; [now rewrite app_nil_r | constructor]. Qed.

  Lemma is_batchable_true : forall st q, is_batchable st q = true ->
    batch_cand q = true /\ ~ In (rpk q) (dup st).
  Proof.
    intros st q H. unfold Model.is_batchable in H. unfold batch_cand.
    destruct (multi_del q); [discriminate|].
    apply andb_true_iff in H as [H H2]. apply andb_true_iff in H as [H1 _].
    split; [now rewrite H1|]. apply mem_bytes_not_in. now apply negb_true_iff.
  Qed.

  Definition sim_result (r1 : stepres store W R) (r2 : option (store * R)) (q : req) (out oseq : list (N * R)) : Prop :=
    match r1, r2 with
    | Some (st', s', o, _), Some (sseq', r) => Inv st' s' (out ++ o) sseq' (oseq ++ [(rid q, r)])
    | None, None => True
    | _, _ => False
    end.

  Lemma step_sim : forall st s out sseq oseq q, Inv st s out sseq oseq ->
    sim_result (step false st s q) (seq_step sseq q) q out oseq.
  Proof.
    intros st s out sseq oseq q HI. unfold sim_result, Model.step, Model.seq_step, Model.exec_redis.
    destruct (rkind q) eqn:K.
    - (* redis *)
      destruct (rnargs q <? 2); [exact I|].
      destruct (is_batchable st q && rvalid q) eqn:B0.
      + apply andb_true_iff in B0 as [B Hv].
        (* joins (or opens) the batch: the handler reads the committed store, which lacks the pending writes *)
        destruct (is_batchable_true _ _ B) as [Hb Hn].
        destruct HI as [Hs Ho Hw Hi].
        assert (Hh : handler q sseq = handler q s) by (subst sseq; eapply indep_wb; eauto).
        assert (Est : exists st1 ee, (if batching st then (st, s, @nil (N * R), [] ++ [EQ (is_batchable st q)]) else (begin_op W R st, s, [], [] ++ [EQ (is_batchable st q); EB])) = (st1, s, [], ee)
                                  /\ batching st1 = true /\ dup st1 = dup st /\ pend st1 = pend st /\ wb st1 = wb st).
        { destruct (batching st) eqn:Bt; eexists; eexists; (split; [reflexivity|]); simpl; auto. }
        destruct Est as [st1 [ee [E1 [Bt1 [D1 [P1 W1]]]]]]. rewrite E1. rewrite Hh.
        destruct (handler q s) as [ws r|e ab|] eqn:Hq.
        * rewrite Bt1. simpl. rewrite Bt1. constructor; simpl.
          -- rewrite W1, commit_ws_app. now subst sseq.
          -- rewrite P1, app_nil_r, app_assoc. now apply Permutation_app_tail.
          -- rewrite D1, W1. eapply wb_snoc with (q' := q); eauto; [|now left].
             eapply wb_ok_mono; eauto. intros x Hx. now right.
          -- intros Hf; congruence.
        * destruct ab; [exfalso; eapply (Hnoabort q s e); eauto|].
          rewrite Bt1. simpl. constructor; simpl.
          -- now rewrite W1.
          -- rewrite P1. now apply perm_insert.
          -- rewrite D1, W1. eapply wb_ok_mono; eauto. intros x Hx. now right.
          -- intros Hf; congruence.
        * constructor; simpl.
          -- now rewrite W1.
          -- rewrite P1. now apply perm_insert.
          -- now rewrite D1, W1.
          -- intros Hf; congruence.
      + (* not batchable: the batch is committed first, the command runs on the committed store *)
        destruct (commit_op st s) as [[st1 s1] o1] eqn:C.
        destruct (commit_sim _ _ _ _ _ HI _ _ _ C) as [E1 [E2 P]]. subst st1 s1. simpl.
        destruct (handler q sseq) as [ws r|e ab|] eqn:Hq.
        * simpl. constructor; simpl; auto.
          -- rewrite app_nil_r, app_assoc. now apply Permutation_app_tail.
          -- constructor.
        * destruct ab; simpl.
          -- constructor; simpl; auto; [|constructor].
             rewrite app_nil_r, app_assoc. now apply Permutation_app_tail.
          -- constructor; simpl; auto; [|constructor].
             rewrite app_nil_r, app_assoc. now apply Permutation_app_tail.
        * constructor; simpl; auto; [|constructor].
          rewrite app_nil_r, app_assoc. now apply Permutation_app_tail.
    - (* other data types: CommitBatch, then the request acts on the committed store *)
      destruct (commit_op st s) as [[st1 s1] o1] eqn:C.
      destruct (commit_sim _ _ _ _ _ HI _ _ _ C) as [E1 [E2 P]]. subst st1 s1.
      destruct (other_exec q sseq) as [s2 r]. constructor; simpl; auto; [|constructor].
      rewrite app_nil_r, app_assoc. now apply Permutation_app_tail.
    - (* unparseable: an error reply, nothing else *)
      destruct HI as [Hs Ho Hw Hi]. constructor; simpl; auto. now apply perm_insert.
  Qed.

  Definition sim_run (r1 : stepres store W R) (r2 : option (store * list (N * R))) out oseq : Prop :=
    match r1, r2 with
    | Some (st', s', o, _), Some (sseq', oq) => Inv st' s' (out ++ o) sseq' (oseq ++ oq)
    | None, None => True
    | _, _ => False
    end.

  Lemma steps_sim : forall qs st s out sseq oseq, Inv st s out sseq oseq ->
    sim_run (steps false st s qs) (seq_run sseq qs) out oseq.
  Proof.
    induction qs as [|q qs IH]; intros st s out sseq oseq HI; simpl.
    - now rewrite !app_nil_r.
    - pose proof (step_sim _ _ _ _ _ q HI) as H. unfold sim_result in H.
      destruct (step false st s q) as [[[[st1 s1] o1] e1]|]; destruct (seq_step sseq q) as [[sq1 r]|]; try contradiction; [|exact I].
      pose proof (IH _ _ _ _ _ H) as H2. unfold sim_run in *.
      destruct (steps false st1 s1 qs) as [[[[st2 s2] o2] e2]|]; destruct (seq_run sq1 qs) as [[sq2 oq]|]; try contradiction; [|exact I].
      rewrite <- !app_assoc in H2. simpl in H2. exact H2.
  Qed.

  Lemma call_sim : forall rp so c st s out sseq oseq, Inv st s out sseq oseq ->
    sim_run (apply_call rp false so st s c) (seq_run sseq (creqs c)) out oseq.
  Proof.
    intros rp so c st s out sseq oseq HI. unfold Model.apply_call, conflict_on. rewrite andb_false_r. simpl.
    pose proof (steps_sim (creqs c) _ _ _ _ _ HI) as H. unfold sim_run in *.
    destruct (steps false st s (creqs c)) as [[[[st1 s1] o1] e1]|]; destruct (seq_run sseq (creqs c)) as [[sq1 oq]|]; try contradiction; [|exact I].
    destruct (cflag c); [|exact H].
    destruct (commit_op st1 s1) as [[st2 s2] o2] eqn:C.
    destruct (commit_sim _ _ _ _ _ H _ _ _ C) as [E1 [E2 P]]. subst st2 s2.
    rewrite app_assoc. now apply inv_after_commit.
  Qed.

  Lemma seq_run_app : forall l1 l2 s, seq_run s (l1 ++ l2) =
    match seq_run s l1 with
    | None => None
    | Some (s1, o1) => match seq_run s1 l2 with None => None | Some (s2, o2) => Some (s2, o1 ++ o2) end
    end.
  Proof.
    induction l1 as [|q l1 IH]; intros l2 s; simpl.
    - destruct (seq_run s l2) as [[s2 o2]|]; reflexivity.
    - destruct (seq_step s q) as [[s1 r]|]; [|reflexivity]. rewrite IH.
      destruct (seq_run s1 l1) as [[s2 o]|]; [|reflexivity].
      destruct (seq_run s2 l2) as [[s3 o3]|]; reflexivity.
  Qed.

  Lemma calls_sim : forall rp so cs st s out sseq oseq, Inv st s out sseq oseq ->
    sim_run (apply_calls rp false so st s cs) (seq_run sseq (concat (map creqs cs))) out oseq.
  Proof.
    intros rp so. induction cs as [|c cs IH]; intros st s out sseq oseq HI; simpl.
    - now rewrite !app_nil_r.
    - rewrite seq_run_app. pose proof (call_sim rp so c _ _ _ _ _ HI) as H. unfold sim_run in *.
      destruct (apply_call rp false so st s c) as [[[[st1 s1] o1] e1]|]; destruct (seq_run sseq (creqs c)) as [[sq1 oq1]|]; try contradiction; [|exact I].
      pose proof (IH _ _ _ _ _ H) as H2.
      destruct (apply_calls rp false so st1 s1 cs) as [[[[st2 s2] o2] e2]|]; destruct (seq_run sq1 (concat (map creqs cs))) as [[sq2 oq2]|]; try contradiction; [|exact I].
      rewrite <- !app_assoc in H2. exact H2.
  Qed.

  Definition same_result (r1 : option (store * list (N * R) * list ev)) (r2 : option (store * list (N * R))) : Prop :=
    match r1, r2 with
    | Some (s1, o1, _), Some (s2, o2) => s1 = s2 /\ Permutation o1 o2
    | None, None => True
    | _, _ => False
    end.

  Lemma op_sim : forall rp so cs s, same_result (apply_op rp false so s cs) (seq_run s (concat (map creqs cs))).
  Proof.
    intros rp so cs s. unfold Model.apply_op, same_result.
    pose proof (calls_sim rp so cs _ _ _ _ _ (inv_init s)) as H. unfold sim_run in H. simpl in H.
    destruct (apply_calls rp false so init_op s cs) as [[[[st1 s1] o1] e1]|]; destruct (seq_run s (concat (map creqs cs))) as [[sq oq]|]; try contradiction; [|exact I].
    destruct (commit_op st1 s1) as [[st2 s2] o2] eqn:C.
    destruct (commit_sim _ _ _ _ _ H _ _ _ C) as [E1 [E2 P]]. auto.
  Qed.

  (* THE batch equivalence: any partition = one request at a time *)
  Theorem batch_equiv : forall rp so p s,
    same_result (apply_batched rp false so s p) (seq_run s (flatten p)).
  Proof.
    intros rp so. induction p as [|cs p IH]; intros s; simpl.
    - split; [reflexivity | constructor].
    - unfold flatten. simpl. rewrite seq_run_app.
      pose proof (op_sim rp so cs s) as H. unfold same_result in *.
      destruct (apply_op rp false so s cs) as [[[s1 o1] e1]|]; destruct (seq_run s (concat (map creqs cs))) as [[sq oq]|]; try contradiction; [|exact I].
      destruct H as [E P]. subst sq. pose proof (IH s1) as H2. unfold flatten in H2.
      destruct (apply_batched rp false so s1 p) as [[[s2 o2] e2]|]; destruct (seq_run s1 (concat (map (fun cs0 => concat (map creqs cs0)) p))) as [[sq2 oq2]|]; try contradiction; [|exact I].
      destruct H2 as [E2 P2]. split; [exact E2 | now apply Permutation_app].
  Qed.

  Lemma flatten_singletons : forall l, flatten (singletons l) = l.
  Proof. induction l as [|q l IH]; [reflexivity|]. unfold flatten in *. simpl. now rewrite IH. Qed.

  Definition same_result2 (r1 r2 : option (store * list (N * R) * list ev)) : Prop :=
    match r1, r2 with
    | Some (s1, o1, _), Some (s2, o2, _) => s1 = s2 /\ Permutation o1 o2
    | None, None => True
    | _, _ => False
    end.

  (* any two partitions of the same log, replayed or live: same store, same replies *)
  Theorem partition_independent : forall rp1 rp2 so p1 p2 s, flatten p1 = flatten p2 ->
    same_result2 (apply_batched rp1 false so s p1) (apply_batched rp2 false so s p2).
  Proof.
    intros rp1 rp2 so p1 p2 s E. pose proof (batch_equiv rp1 so p1 s) as H1. pose proof (batch_equiv rp2 so p2 s) as H2.
    rewrite E in H1. unfold same_result, same_result2 in *.
    destruct (apply_batched rp1 false so s p1) as [[[s1 o1] e1]|]; destruct (apply_batched rp2 false so s p2) as [[[s2 o2] e2]|];
      destruct (seq_run s (flatten p2)) as [[sq oq]|]; try contradiction; auto.
    destruct H1 as [A1 P1]. destruct H2 as [A2 P2]. subst. split; [reflexivity|].
    eapply Permutation_trans; [exact P1 | now symmetry].
  Qed.

  Theorem batch_equiv_seq : forall rp so p s,
    same_result2 (apply_batched rp false so s p) (apply_seq rp false so s (flatten p)).
  Proof.
    intros. unfold Model.apply_seq. apply partition_independent. now rewrite flatten_singletons.
  Qed.

  (* (b) checkpoint at a cut, then the tail (replayed): the same as the whole log one at a time.
     (That the restored store IS the store at the cut is C14's theorem; here it is the value s1.) *)
  Theorem cut_then_replay : forall rp1 rp2 so p1 p2 s,
    match apply_batched rp1 false so s p1 with
    | None => seq_run s (flatten p1 ++ flatten p2) = None
    | Some (s1, o1, _) =>
        same_result
          (match apply_batched rp2 false so s1 p2 with
           | None => None
           | Some (s2, o2, e2) => Some (s2, o1 ++ o2, e2)
           end)
          (seq_run s (flatten p1 ++ flatten p2))
    end.
  Proof.
    intros rp1 rp2 so p1 p2 s. rewrite seq_run_app.
    pose proof (batch_equiv rp1 so p1 s) as H1. unfold same_result in *.
    destruct (apply_batched rp1 false so s p1) as [[[s1 o1] e1]|]; destruct (seq_run s (flatten p1)) as [[sq oq]|]; try contradiction; [|reflexivity].
    destruct H1 as [E P]. subst sq.
    pose proof (batch_equiv rp2 so p2 s1) as H2. unfold same_result in H2.
    destruct (apply_batched rp2 false so s1 p2) as [[[s2 o2] e2]|]; destruct (seq_run s1 (flatten p2)) as [[sq2 oq2]|]; try contradiction; [|exact I].
    destruct H2 as [E2 P2]. split; [exact E2 | now apply Permutation_app].
  Qed.

  Theorem cut_then_replay_expanded : forall rp1 rp2 so p1 p2 s,
      match apply_batched rp1 false so s p1 with
      | None => seq_run s (flatten p1 ++ flatten p2) = None
      | Some (s1, o1, _) =>
          match apply_batched rp2 false so s1 p2, seq_run s (flatten p1 ++ flatten p2) with
          | Some (s2, o2, _), Some (s3, o3) => s2 = s3 /\ Permutation (o1 ++ o2) o3
          | None, None => True
          | _, _ => False
          end
      end.
  Proof.
    intros rp1 rp2 so p1 p2 s. pose proof (cut_then_replay rp1 rp2 so p1 p2 s) as H.
    destruct (apply_batched rp1 false so s p1) as [[[s1 o1] e1]|]; [|exact H].
    destruct (apply_batched rp2 false so s1 p2) as [[[s2 o2] e2]|]; exact H.
  Qed.

  (* ------------------------------------------------------------------ replies per request id *)
  Lemma seq_run_ids : forall l s s' o, seq_run s l = Some (s', o) -> map fst o = map rid l.
  Proof.
    induction l as [|q l IH]; intros s s' o H; simpl in H.
    - inversion H. reflexivity.
    - destruct (seq_step s q) as [[s1 r]|]; [|discriminate].
      destruct (seq_run s1 l) as [[s2 o2]|] eqn:E; [|discriminate]. inversion H; subst. simpl. f_equal. eauto.
  Qed.

  Lemma reply_of_notin : forall id (o : list (N * R)), ~ In id (map fst o) -> reply_of R id o = None.
  Proof.
    induction o as [|[i r] o IH]; intros H; simpl; [reflexivity|].
    destruct (i =? id) eqn:E.
    - apply N.eqb_eq in E. subst. elim H. now left.
    - apply IH. intros Hin. apply H. now right.
  Qed.

  Lemma reply_of_perm : forall id (o1 o2 : list (N * R)), Permutation o1 o2 -> NoDup (map fst o1) ->
    reply_of R id o1 = reply_of R id o2.
  Proof.
    intros id o1 o2 P. induction P as [|[i r] l l' P IH|[i r] [j r'] l|l l' l'' P1 IH1 P2 IH2]; intros ND.
    - reflexivity.
    - simpl. destruct (i =? id); [reflexivity|]. apply IH. now inversion ND.
    - simpl. destruct (j =? id) eqn:Ej; destruct (i =? id) eqn:Ei; try reflexivity.
      apply N.eqb_eq in Ej, Ei. subst. simpl in ND. inversion ND as [|? ? Hn _]; subst. elim Hn. now left.
    - rewrite IH1 by exact ND. apply IH2.
      eapply Permutation_NoDup; [|exact ND]. now apply Permutation_map.
  Qed.

  (* every request's reply is the one it gets when applied alone, whatever the partition *)
  Theorem batch_equiv_replies : forall rp so p s s1 o1 e1 s2 o2,
    NoDup (map rid (flatten p)) ->
    apply_batched rp false so s p = Some (s1, o1, e1) -> seq_run s (flatten p) = Some (s2, o2) ->
    s1 = s2 /\ forall id, reply_of R id o1 = reply_of R id o2.
  Proof.
    intros rp so p s s1 o1 e1 s2 o2 ND H1 H2. pose proof (batch_equiv rp so p s) as H.
    unfold same_result in H. rewrite H1, H2 in H. destruct H as [E P]. split; [exact E|].
    intros id. apply reply_of_perm; [exact P|].
    eapply Permutation_NoDup; [apply Permutation_map; symmetry; exact P|].
    rewrite (seq_run_ids _ _ _ _ H2). exact ND.
  Qed.

  (* a Go panic (one-word command) happens under a partition iff it happens one-at-a-time *)
  Theorem batch_equiv_panic : forall rp so p s,
    apply_batched rp false so s p = None <-> seq_run s (flatten p) = None.
  Proof.
    intros rp so p s. pose proof (batch_equiv rp so p s) as H. unfold same_result in H.
    destruct (apply_batched rp false so s p) as [[[s1 o1] e1]|]; destruct (seq_run s (flatten p)) as [[s2 o2]|];
      try contradiction; split; intro; try discriminate; reflexivity.
  Qed.
End Equiv.

(* ------------------------------------------------------------------------------------------
   Invariants of the batch operator itself (no hypothesis on the handlers): an idle operator is
   in its initial state (so dupCheckMap / the reply list are non-empty only while a batch is open),
   and a batch never collects more than maxDBBatchCmdNum replies. *)
Section OpInv.
  Variables (store W R : Type).
  Variable apply_w : store -> W -> store.
  Variable handler : req -> store -> outcome W R.
  Variable other_exec : req -> store -> store * R.
  Variable parse_err : req -> R.
  Variables (err_invalid reply_nil : R).
  Variable conflicts : req -> store -> bool.
  Notation step := (step store W R apply_w handler other_exec parse_err err_invalid reply_nil conflicts).
  Notation steps := (steps store W R apply_w handler other_exec parse_err err_invalid reply_nil conflicts).

  Definition op_ok (st : opstate W R) : Prop :=
    (batching st = false -> st = init_op) /\ (N.of_nat (length (pend st)) <= max_db_batch_cmd_num).

  Lemma op_ok_init : op_ok init_op.
  Proof. split; [reflexivity | simpl; unfold max_db_batch_cmd_num; lia]. Qed.

  Lemma is_batchable_room : forall (st : opstate W R) q, is_batchable W R st q = true ->
    N.of_nat (length (pend st)) < max_db_batch_cmd_num.
  Proof.
    intros st q H. unfold is_batchable in H.
    destruct (multi_del q); [discriminate|].
    apply andb_true_iff in H as [H _]. apply andb_true_iff in H as [_ H]. now apply N.ltb_lt.
  Qed.

  Lemma commit_op_ok : forall (st : opstate W R) s st1 s1 o1, op_ok st ->
    commit_op store W R apply_w st s = (st1, s1, o1) -> op_ok st1.
  Proof.
    intros st s st1 s1 o1 Hok H. unfold commit_op in H. destruct (batching st); inversion H; subst; [apply op_ok_init | exact Hok].
  Qed.

  Lemma exec_redis_op_ok : forall st s out0 ev0 q st' s' o e, op_ok st ->
    exec_redis store W R apply_w handler err_invalid st s out0 ev0 q = Some (st', s', o, e) -> op_ok st'.
  Proof.
    intros st s out0 ev0 q st' s' o e [Hi Hl] H. unfold Model.exec_redis in H.
    destruct (is_batchable W R st q && rvalid q) eqn:B0.
    - apply andb_true_iff in B0 as [B _]. pose proof (is_batchable_room _ _ B) as Hroom.
      assert (Est : exists st1 ee, (if batching st then (st, s, out0, ev0 ++ [EQ (is_batchable W R st q)]) else (begin_op W R st, s, out0, ev0 ++ [EQ (is_batchable W R st q); EB])) = (st1, s, out0, ee)
                                /\ batching st1 = true /\ pend st1 = pend st).
      { destruct (batching st) eqn:Bt; eexists; eexists; (split; [reflexivity|]); simpl; auto. }
      destruct Est as [st1 [ee [E1 [Bt1 P1]]]]. rewrite E1 in H.
      destruct (handler q s) as [ws r|er ab|].
      + rewrite Bt1 in H. simpl in H. rewrite Bt1 in H. inversion H; subst. split; simpl.
        * intros Hf; congruence.
        * rewrite P1, app_length. simpl. lia.
      + rewrite Bt1 in H. destruct ab.
        * unfold abort_op in H. simpl in H. rewrite Bt1 in H. inversion H; subst. apply op_ok_init.
        * inversion H; subst. split; simpl; [intros Hf; congruence | rewrite P1; exact Hl].
      + inversion H; subst. split; [intros Hf; congruence | rewrite P1; exact Hl].
    - unfold commit_op in H. destruct (batching st) eqn:Bt.
      + destruct (handler q (commit_ws store W apply_w s (wb st))) as [ws r|er ab|]; simpl in H.
        * inversion H; subst. apply op_ok_init.
        * destruct ab; simpl in H; inversion H; subst; apply op_ok_init.
        * inversion H; subst. apply op_ok_init.
      + rewrite (Hi eq_refl) in H. simpl in H.
        destruct (handler q s) as [ws r|er ab|]; simpl in H.
        * inversion H; subst. apply op_ok_init.
        * destruct ab; simpl in H; inversion H; subst; apply op_ok_init.
        * inversion H; subst. apply op_ok_init.
  Qed.

  Lemma step_op_ok : forall c st s q st' s' o e, op_ok st -> step c st s q = Some (st', s', o, e) -> op_ok st'.
  Proof.
    intros c st s q st' s' o e Hok H. unfold Model.step in H.
    destruct (rkind q).
    - destruct (rnargs q <? 2); [discriminate|].
      destruct c.
      + destruct (commit_op store W R apply_w st s) as [[st0 s0] out0] eqn:C.
        pose proof (commit_op_ok _ _ _ _ _ Hok C) as Hok0.
        destruct (conflicts q s0).
        * inversion H; subst. exact Hok0.
        * eapply exec_redis_op_ok; eauto.
      + eapply exec_redis_op_ok; eauto.
    - destruct (commit_op store W R apply_w st s) as [[st1 s1] o1] eqn:C.
      pose proof (commit_op_ok _ _ _ _ _ Hok C) as Hok1.
      destruct (other_exec q s1) as [s2 r]. inversion H; subst. exact Hok1.
    - inversion H; subst. exact Hok.
  Qed.

  Theorem steps_op_ok : forall c qs st s st' s' o e, op_ok st -> steps c st s qs = Some (st', s', o, e) -> op_ok st'.
  Proof.
    intros c. induction qs as [|q qs IH]; intros st s st' s' o e Hok H; simpl in H.
    - inversion H; subst. exact Hok.
    - destruct (step c st s q) as [[[[st1 s1] o1] e1]|] eqn:E; [|discriminate].
      destruct (steps c st1 s1 qs) as [[[[st2 s2] o2] e2]|] eqn:E2; [|discriminate].
      inversion H; subst. eapply IH; [|exact E2]. eapply step_op_ok; eauto.
  Qed.

  Theorem steps_op_ok_init : forall c qs s st' s' o e, steps c init_op s qs = Some (st', s', o, e) ->
    (batching st' = false -> st' = init_op) /\ N.of_nat (length (pend st')) <= max_db_batch_cmd_num.
  Proof. intros. eapply steps_op_ok; [apply op_ok_init | eassumption]. Qed.
End OpInv.

(* ------------------------------------------------------------------------------------------
   [Hindep] from read sets and write sets: a handler's outcome depends only on the keys it reads;
   its writes touch only its write set; different primary keys => the write set of one batchable
   command does not meet the read set of the other (C12's isolation; table counters are written
   through merge operands and never read by a handler, so they are in no read set); a write leaves
   every other key untouched (the engine's frame property). *)
Section RWSets.
  Variables (store W R K V : Type).
  Variable apply_w : store -> W -> store.
  Variable handler : req -> store -> outcome W R.
  Variable get : store -> K -> V.
  Variable wkey : W -> K.
  Variable rset wset : req -> K -> Prop.

  Hypothesis Hframe : forall s w k, wkey w <> k -> get (apply_w s w) k = get s k.
  Hypothesis Hreads : forall q s s', (forall k, rset q k -> get s k = get s' k) -> handler q s = handler q s'.
  Hypothesis Hwrites : forall q s ws r, batch_cand q = true -> handler q s = Ok ws r -> forall w, In w ws -> wset q (wkey w).
  Hypothesis Hisolation : forall q q' k, batch_cand q = true -> batch_cand q' = true ->
    rpk q <> rpk q' -> wset q' k -> rset q k -> False.

  Theorem indep_from_rw_sets : forall q q' s' ws r s,
    batch_cand q = true -> batch_cand q' = true -> rpk q <> rpk q' ->
    handler q' s' = Ok ws r -> handler q (commit_ws store W apply_w s ws) = handler q s.
  Proof.
    intros q q' s' ws r s Hb Hb' Hpk Hh. apply Hreads. intros k Hk.
    assert (Hall : forall w, In w ws -> wkey w <> k).
    { intros w Hin E. apply (Hisolation q q' k Hb Hb' Hpk); [|exact Hk]. rewrite <- E. eapply Hwrites; eauto. }
    clear Hh. revert s. unfold commit_ws. induction ws as [|w ws IH]; intros s; simpl; [reflexivity|].
    rewrite IH; [|intros w' Hw'; apply Hall; now right].
    apply Hframe. apply Hall. now left.
  Qed.
End RWSets.

(* ------------------------------------------------------------------------------------------
   Refutation of the unconditional statement: in the journal instance ([Hindep] holds trivially,
   handlers ignore the store) a batchable command that fails with an abort error changes the reply
   and the stored writes of an earlier batchable command of the same batch. *)
Definition ex_set : bytes := [115; 101; 116].
Definition ex_setex : bytes := [115; 101; 116; 101; 120].
Definition ex_log : list req :=
  [ mkReq 0 KRedis ex_set [1] 3 0 true;          (* set k1 v      : succeeds *)
    mkReq 1 KRedis ex_setex [2] 4 (4 * 7 + 1) true ].  (* a setex that passes the pre-check but whose handler fails (error 7, needs abort) *)
Definition ex_together : list (list call) := [[mkCall false [nth 0 ex_log (mkReq 0 KGarbage [] [] 0 0 true)]; mkCall false [nth 1 ex_log (mkReq 0 KGarbage [] [] 0 0 true)]]].

Lemma batch_equiv_refuted_journal :
  exists p, match run_trace p, run_trace (singletons (flatten p)) with
            | Some (s1, o1, _), Some (s2, o2, _) => s1 <> s2 /\ jreply 0 o1 <> jreply 0 o2
            | _, _ => False
            end.
Proof.
  exists ex_together. vm_compute. split; intro H; discriminate H.
Qed.

(* ------------------------------------------------------------------------------------------
   Non-vacuity: an instance whose handlers really read the store and that satisfies both hypotheses.
   Store = association list primary key -> value; "set" (any batchable name) replies the old value of
   its own key and writes the new one; other names read and write their own key too. *)
Definition tstore := list (bytes * N).
Fixpoint tget (s : tstore) (k : bytes) : N :=
  match s with [] => 0 | (k', v) :: s' => if bytes_eqb k' k then v else tget s' k end.
Definition tapply (s : tstore) (w : bytes * N) : tstore := w :: s.
Definition thandler (q : req) (s : tstore) : outcome (bytes * N) N := Ok [(rpk q, rbody q)] (tget s (rpk q)).

Lemma thandler_indep : forall q q' s' ws r s,
  batch_cand q = true -> batch_cand q' = true -> rpk q <> rpk q' ->
  thandler q' s' = Ok ws r -> thandler q (commit_ws tstore (bytes * N) tapply s ws) = thandler q s.
Proof.
  intros q q' s' ws r s _ _ Hpk H. unfold thandler in *. inversion H; subst. simpl.
  destruct (bytes_eqb (rpk q') (rpk q)) eqn:E; [|reflexivity].
  apply bytes_eqb_eq in E. congruence.
Qed.

Lemma thandler_noabort : forall q s e, batch_cand q = true -> rvalid q = true -> thandler q s <> Fail e true.
Proof. intros. unfold thandler. discriminate. Qed.
