(* RaftAbs/ListFacts.v — list lemmas used by the abstract raft development:
   prefixes, firstn/nth_error, and the counting lemma behind quorum intersection. *)
From Coq Require Import List Arith Lia Bool.
Import ListNotations.

Set Implicit Arguments.

Section Prefix.
Variable A : Type.

Definition prefix (l1 l2 : list A) : Prop := exists r, l2 = l1 ++ r.

Lemma prefix_refl l : prefix l l.
Proof. exists []. now rewrite app_nil_r. Qed.

Lemma prefix_nil l : prefix [] l.
Proof. now exists l. Qed.

Lemma prefix_trans l1 l2 l3 : prefix l1 l2 -> prefix l2 l3 -> prefix l1 l3.
Proof. intros [r1 ->] [r2 ->]. exists (r1 ++ r2). now rewrite app_assoc. Qed.

Lemma prefix_app l r : prefix l (l ++ r).
Proof. now exists r. Qed.

Lemma prefix_app_r l1 l2 r : prefix l1 l2 -> prefix l1 (l2 ++ r).
Proof. intros H. eapply prefix_trans; [exact H | apply prefix_app]. Qed.

Lemma prefix_length l1 l2 : prefix l1 l2 -> length l1 <= length l2.
Proof. intros [r ->]. rewrite app_length. lia. Qed.

Lemma prefix_firstn n l : prefix (firstn n l) l.
Proof. exists (skipn n l). now rewrite firstn_skipn. Qed.

Lemma prefix_firstn_eq l1 l2 : prefix l1 l2 -> firstn (length l1) l2 = l1.
Proof.
  intros [r ->]. rewrite firstn_app, Nat.sub_diag, firstn_all. simpl. now rewrite app_nil_r.
Qed.

Lemma firstn_eq_prefix l1 l2 : firstn (length l1) l2 = l1 -> prefix l1 l2.
Proof. intros H. rewrite <- H. apply prefix_firstn. Qed.

Lemma prefix_firstn_le n m l : n <= m -> prefix (firstn n l) (firstn m l).
Proof.
  intros H. replace n with (min n m) by lia. rewrite <- firstn_firstn. apply prefix_firstn.
Qed.

Lemma prefix_firstn_mono n l1 l2 : prefix l1 l2 -> prefix (firstn n l1) (firstn n l2).
Proof.
  intros [r ->]. rewrite firstn_app. apply prefix_app.
Qed.

Lemma prefix_firstn_same n l1 l2 : prefix l1 l2 -> n <= length l1 -> firstn n l1 = firstn n l2.
Proof.
  intros [r ->] H. rewrite firstn_app. replace (n - length l1) with 0 by lia.
  simpl. now rewrite app_nil_r.
Qed.

(* two prefixes of one list are comparable; the shorter one is a prefix of the longer one *)
Lemma prefix_of_same l1 l2 l : prefix l1 l -> prefix l2 l -> length l1 <= length l2 -> prefix l1 l2.
Proof.
  intros H1 H2 Hl. apply prefix_firstn_eq in H1. apply prefix_firstn_eq in H2.
  rewrite <- H1, <- H2. now apply prefix_firstn_le.
Qed.

Lemma prefix_comparable l1 l2 l : prefix l1 l -> prefix l2 l -> prefix l1 l2 \/ prefix l2 l1.
Proof.
  intros H1 H2. destruct (le_lt_dec (length l1) (length l2)).
  - left. eapply prefix_of_same; eauto.
  - right. eapply prefix_of_same; eauto. lia.
Qed.

Lemma prefix_antisym_len l1 l2 : prefix l1 l2 -> length l2 <= length l1 -> l1 = l2.
Proof.
  intros [r ->] H. rewrite app_length in H. destruct r; simpl in *; [now rewrite app_nil_r | lia].
Qed.

Lemma prefix_nth_error l1 l2 k x : prefix l1 l2 -> nth_error l1 k = Some x -> nth_error l2 k = Some x.
Proof.
  intros [r ->] H. rewrite nth_error_app1; auto. apply nth_error_Some. congruence.
Qed.

Lemma prefix_nth_error_lt l1 l2 k : prefix l1 l2 -> k < length l1 -> nth_error l1 k = nth_error l2 k.
Proof. intros [r ->] H. now rewrite nth_error_app1. Qed.

Lemma firstn_prefix_of n l l' : prefix (firstn n l) l' -> n <= length l -> firstn n l' = firstn n l.
Proof.
  intros H Hn. apply prefix_firstn_eq in H. rewrite firstn_length_le in H by lia. exact H.
Qed.

Lemma firstn_S_nth_error n (l : list A) x : nth_error l n = Some x -> firstn (S n) l = firstn n l ++ [x].
Proof.
  revert l; induction n as [|n IH]; intros [|y l] H; simpl in *; try discriminate.
  - now inversion H.
  - f_equal. now apply IH.
Qed.

Lemma nth_error_firstn_lt n k (l : list A) : k < n -> nth_error (firstn n l) k = nth_error l k.
Proof.
  revert k l; induction n as [|n IH]; intros k l H; [lia|].
  destruct l as [|y l]; simpl; [now destruct k|]. destruct k; simpl; auto. apply IH. lia.
Qed.

Lemma nth_error_firstn_ge n k (l : list A) : n <= k -> nth_error (firstn n l) k = None.
Proof.
  intros H. apply nth_error_None. rewrite firstn_length. lia.
Qed.

Lemma prefix_snoc_inv l1 l2 x : prefix l1 (l2 ++ [x]) -> prefix l1 l2 \/ l1 = l2 ++ [x].
Proof.
  intros H. destruct (le_lt_dec (length l1) (length l2)).
  - left. eapply prefix_of_same; eauto. apply prefix_app.
  - right. apply prefix_antisym_len; auto. rewrite app_length; simpl; lia.
Qed.

Lemma prefix_app_same l l1 l2 : prefix l1 l2 -> prefix (l ++ l1) (l ++ l2).
Proof. intros [r ->]. exists r. now rewrite app_assoc. Qed.

Lemma firstn_app_le n (l r : list A) : n <= length l -> firstn n (l ++ r) = firstn n l.
Proof.
  intros H. rewrite firstn_app. replace (n - length l) with 0 by lia. simpl. now rewrite app_nil_r.
Qed.

Lemma nth_error_snoc (l : list A) x k e :
  nth_error (l ++ [x]) k = Some e -> (k < length l /\ nth_error l k = Some e) \/ (k = length l /\ e = x).
Proof.
  intros H. destruct (lt_dec k (length l)).
  - left. split; auto. now rewrite nth_error_app1 in H.
  - right. rewrite nth_error_app2 in H by lia.
    destruct (k - length l) as [|d] eqn:E; simpl in H.
    + inversion H. split; auto. lia.
    + destruct d; discriminate.
Qed.

End Prefix.

#[export] Hint Resolve prefix_refl prefix_nil prefix_app prefix_firstn : plist.

(* ---------- counting / majorities ---------- *)

Definition count (f : nat -> bool) (V : list nat) : nat := length (filter f V).

Definition majority (V : list nat) (f : nat -> bool) : bool := length V <? 2 * count f V.

Lemma count_inter f g V : count f V + count g V <= length V + count (fun x => f x && g x) V.
Proof.
  unfold count. induction V as [|x V IH]; simpl; auto.
  destruct (f x), (g x); simpl; lia.
Qed.

Lemma count_pos_ex f V : 0 < count f V -> exists x, In x V /\ f x = true.
Proof.
  unfold count. induction V as [|x V IH]; simpl; [lia|].
  destruct (f x) eqn:E; simpl; intros H.
  - exists x; auto.
  - destruct (IH H) as [y [? ?]]. exists y; auto.
Qed.

(* quorum intersection inside one voter list (duplicates harmless) *)
Lemma majority_intersect V f g :
  majority V f = true -> majority V g = true -> exists x, In x V /\ f x = true /\ g x = true.
Proof.
  unfold majority. intros Hf Hg. apply Nat.ltb_lt in Hf, Hg.
  pose proof (count_inter f g V) as H.
  destruct (@count_pos_ex (fun x => f x && g x) V) as [x [Hin Hx]]; [lia|].
  apply andb_true_iff in Hx. exists x; tauto.
Qed.

Lemma count_ext f g V : (forall x, In x V -> f x = true -> g x = true) -> count f V <= count g V.
Proof.
  unfold count. induction V as [|x V IH]; simpl; intros H; auto.
  destruct (f x) eqn:E.
  - rewrite (H x) by auto. simpl. apply le_n_S. apply IH. intros; apply H; auto.
  - destruct (g x); simpl; [apply le_S|]; apply IH; intros; apply H; auto.
Qed.

Lemma majority_mono V f g :
  (forall x, In x V -> f x = true -> g x = true) -> majority V f = true -> majority V g = true.
Proof.
  unfold majority. intros H Hf. apply Nat.ltb_lt in Hf. apply Nat.ltb_lt.
  pose proof (count_ext f g V H). lia.
Qed.

Lemma majority_all V f : V <> [] -> (forall x, In x V -> f x = true) -> majority V f = true.
Proof.
  intros Hne H. unfold majority, count. apply Nat.ltb_lt.
  assert (filter f V = V) as ->.
  { induction V as [|x V IH]; simpl; auto. rewrite (H x) by (left; auto). f_equal.
    destruct V; auto. apply IH; [discriminate|]. intros; apply H; right; auto. }
  destruct V; [congruence|simpl; lia].
Qed.
