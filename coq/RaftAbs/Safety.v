(* RaftAbs/Safety.v — the invariants hold in every reachable state of the abstract protocol; the
   safety theorems (election safety, log matching, leader completeness, state-machine safety,
   durability of committed entries), for fixed membership unconditionally and for changing
   membership under the explicit hypothesis [Overlap]. *)
From Coq Require Import List Arith Bool NArith Lia.
From ZV Require Import RaftAbs.ListFacts RaftAbs.Model RaftAbs.Inv RaftAbs.Pres1 RaftAbs.Pres2 RaftAbs.Pres3
  RaftAbs.Inv1 RaftAbs.Inv2.
Import ListNotations.

(* ---------- the initial state ---------- *)

Section Init.
Variable cf : config.
Variable log0 : list entry.
Hypothesis OK : init_ok cf log0.

Let Hterm : forall e, In e log0 -> eterm e = boot_term.
Proof. destruct OK as [H _]. now apply Forall_forall. Qed.

Lemma init_node_member j : In j (voters cf) \/ In j (learners cf) ->
  init_node cf log0 j = mkN boot_term None Follower log0 0 (length log0) cf.
Proof.
  intros H. unfold init_node.
  assert (memb j (voters cf) || memb j (learners cf) = true) as ->; auto.
  apply orb_true_iff. destruct H; [left|right]; now apply memb_In.
Qed.

Lemma init_node_0 : init_node cf log0 0 = mkN boot_term None Follower [] 0 0 (mkConfig [] []).
Proof.
  destruct OK as (_ & _ & _ & H1 & H2). unfold init_node.
  assert (memb 0 (voters cf) = false) as ->.
  { destruct (memb 0 (voters cf)) eqn:E; auto. apply memb_In in E. tauto. }
  assert (memb 0 (learners cf) = false) as ->.
  { destruct (memb 0 (learners cf)) eqn:E; auto. apply memb_In in E. tauto. }
  reflexivity.
Qed.

Lemma init_node_rl j : rl (init_node cf log0 j) = Follower.
Proof. unfold init_node. destruct (_ || _); reflexivity. Qed.

Lemma init_node_log j : log (init_node cf log0 j) = log0 \/ log (init_node cf log0 j) = [].
Proof. unfold init_node. destruct (_ || _); auto. Qed.

Lemma init_tlogs t : tlogs (init cf log0) t = if t =? boot_term then log0 else [].
Proof. reflexivity. Qed.

Lemma LMlog_log0 : LMlog (tlogs (init cf log0)) log0.
Proof.
  intros k e Hk. rewrite init_tlogs. rewrite (Hterm e) by (eapply nth_error_In; eauto).
  rewrite Nat.eqb_refl. apply prefix_firstn.
Qed.

Lemma in_init_grants j t c : In (j, t, c) (grants (init cf log0)) -> In j (voters cf) /\ t = boot_term /\ c = 0.
Proof. simpl. intros H. apply in_map_iff in H. destruct H as [x [E Hx]]. inversion E; subst; auto. Qed.

Lemma in_init_acks j t k : In (j, t, k) (acks (init cf log0)) -> In j (voters cf) /\ t = boot_term /\ k = length log0.
Proof.
  simpl. destruct log0 as [|e0 l0]; [intros []|].
  intros H. apply in_map_iff in H. destruct H as [x [E Hx]]. inversion E; subst; auto.
Qed.

Lemma init_inv1 : inv1 (init cf log0).
Proof.
  destruct OK as (HF & Hne & Hdj & H01 & H02).
  constructor.
  - intros j t c H. apply in_init_grants in H. tauto.
  - intros j t c c' H H'. apply in_init_grants in H, H'. destruct H as (_ & _ & ->), H' as (_ & _ & ->). auto.
  - intros j t c H. apply in_init_grants in H. destruct H as (_ & -> & ->). exists []. now left.
  - intros u c cl [H|[]]. inversion H; subst. auto.
  - intros u c cl [H|[]]. inversion H; subst. simpl. rewrite init_node_0. simpl. lia.
  - intros u c cl cl' [H|[]] [H'|[]]. congruence.
  - intros u c cl [H|[]]. inversion H; subst. apply LMlog_nil.
  - intros u c cl [H|[]]. inversion H; subst. intros e [].
  - intros c H. simpl in H. rewrite init_node_rl in H. discriminate.
  - intros t c el q [H|[]]. inversion H; subst. split.
    + exists (voters cf). split; [now left|]. apply majority_all; auto. intros x Hx. now apply memb_In.
    + intros j Hj. simpl. apply in_map_iff. exists j. auto.
  - intros t c el q c' el' q' [H|[]] [H'|[]]. inversion H; inversion H'; subst. auto.
  - intros t c el q [H|[]]. inversion H; subst. simpl. rewrite init_node_0. simpl. lia.
  - intros t c el q [H|[]]. inversion H; subst. now left.
  - intros c H. simpl in H. rewrite init_node_rl in H. discriminate.
  - intros t c el q [H|[]]. inversion H; subst. rewrite init_tlogs. simpl. repeat split.
    + apply prefix_nil.
    + intros e He. rewrite (Hterm e He). auto.
    + intros k e _ He. apply Hterm. eapply nth_error_In; eauto.
  - intros t. rewrite init_tlogs. destruct (Nat.eqb_spec t boot_term); auto.
    right. subst. exists 0, [], (voters cf). now left.
  - intros j. simpl. destruct (init_node_log j) as [-> | ->]; [apply LMlog_log0 | apply LMlog_nil].
  - intros t. rewrite init_tlogs. destruct (t =? boot_term); [apply LMlog_log0 | apply LMlog_nil].
  - intros j e He. simpl in *. unfold init_node in *. destruct (_ || _); simpl in *; [|tauto].
    rewrite (Hterm e He). auto.
  - intros j t k H. apply in_init_acks in H. destruct H as (Hj & -> & ->). simpl.
    rewrite init_node_member by auto. simpl. split; auto.
  - intros j t k' k H Hk. apply in_init_acks in H. destruct H as (Hj & -> & ->). left. simpl.
    rewrite init_node_member by auto. simpl. split; auto. apply prefix_firstn.
  - intros j u c cl t k' k Hg _ Ha _ Ht _. apply in_init_grants in Hg. apply in_init_acks in Ha.
    destruct Hg as (_ & -> & _), Ha as (_ & -> & _). lia.
Qed.

Lemma init_inv2 : inv2 (init cf log0).
Proof.
  destruct OK as (HF & Hne & Hdj & H01 & H02).
  constructor.
  - simpl. destruct (list_snoc_cases log0) as [E|[l0 [x E]]]; [now left|right].
    exists (voters cf), boot_term, (length log0). simpl. rewrite upd_same. repeat split; auto.
    + apply majority_all; auto. intros j Hj. apply ackedb_In. exists (length log0). split; auto.
      simpl. rewrite E. destruct (l0 ++ [x]) eqn:E2; [destruct l0; discriminate|]. rewrite <- E2.
      apply in_map_iff. exists j; auto.
    + rewrite firstn_all. exists l0, x. split; auto. apply Hterm. rewrite E. apply in_or_app. right. now left.
    + now rewrite firstn_all.
  - intros j. simpl. unfold init_node. destruct (_ || _); simpl.
    + split; auto. rewrite firstn_all. apply prefix_refl.
    + split; auto. apply prefix_nil.
  - intros j. simpl. lia.
Qed.

End Init.

(* ---------- reachable states ---------- *)

Lemma step_quorums s s' : step s s' -> incl (quorums s) (quorums s').
Proof. intros H. inversion H; subst; simpl; try apply incl_refl; apply incl_tl, incl_refl. Qed.

Lemma steps_quorums s s' : steps s s' -> incl (quorums s) (quorums s').
Proof.
  induction 1; [apply incl_refl|]. eapply incl_tran; eauto. now apply step_quorums.
Qed.

Lemma steps_inv s s' : inv1 s -> inv2 s -> steps s s' -> Overlap s' -> inv1 s' /\ inv2 s'.
Proof.
  intros I J H. induction H as [|s1 s2 s3 H12 IH H23]; intros O; auto.
  assert (O2 : Overlap s2) by (eapply Overlap_mono; [apply step_quorums; eauto | auto]).
  destruct (IH I J O2) as [I2 J2]. split.
  - eapply inv1_step; eauto.
  - eapply inv2_step; eauto.
Qed.

Theorem reachable_inv cf log0 s :
  init_ok cf log0 -> reachable cf log0 s -> Overlap s -> inv1 s /\ inv2 s.
Proof.
  intros OK H O. eapply steps_inv; eauto; [now apply init_inv1 | now apply init_inv2].
Qed.

(* ---------- the safety properties of a state that satisfies the invariants ---------- *)

(* P was committed in term t *)
Definition committed_in_term (s : gstate) (t : nat) (P : list entry) : Prop :=
  exists V k, In V (quorums s) /\ majority V (ackedb s t k) = true /\
              k <= length (tlogs s t) /\ endst (firstn k (tlogs s t)) t /\ P = firstn k (tlogs s t).

Lemma cpre_committed s P : cpre s P <-> exists t, committed_in_term s t P.
Proof.
  split.
  - intros (V & t & k & H). exists t, V, k. exact H.
  - intros (t & V & k & H). exists V, t, k. exact H.
Qed.

Section Safe.
Variable s : gstate.
Hypothesis I : inv1 s.
Hypothesis J : inv2 s.
Hypothesis O : Overlap s.

(* (i) election safety *)
Theorem election_safety i j :
  rl (nodes s i) = Leader -> rl (nodes s j) = Leader -> cur (nodes s i) = cur (nodes s j) -> i = j.
Proof. now apply one_leader_per_term. Qed.

Theorem election_safety_history t c el q c' el' q' :
  In (t, c, el, q) (leaders s) -> In (t, c', el', q') (leaders s) -> c = c'.
Proof. intros H H'. now destruct (i_L2 I _ _ _ _ _ _ _ H H'). Qed.

(* every leader was elected by a majority of a voter list, each of whom cast its vote of that term for it *)
Theorem leader_has_quorum t c el q :
  In (t, c, el, q) (leaders s) ->
  (exists V, In V (quorums s) /\ majority V (fun j => memb j q) = true) /\
  (forall j, In j q -> In (j, t, c) (grants s)).
Proof. apply (i_L1 I). Qed.

Theorem one_vote_per_term j t c c' : In (j, t, c) (grants s) -> In (j, t, c') (grants s) -> c = c'.
Proof. apply (i_G2 I). Qed.

(* (ii) a leader's log is the leader log of its term: what it was elected with plus entries of its own term *)
Theorem leader_log c : rl (nodes s c) = Leader ->
  exists el q, In (cur (nodes s c), c, el, q) (leaders s) /\ prefix el (log (nodes s c)) /\
  forall k e, length el <= k -> nth_error (log (nodes s c)) k = Some e -> eterm e = cur (nodes s c).
Proof.
  intros H. destruct (i_T1 I _ H) as [E [el [q Hl]]]. exists el, q. rewrite E.
  destruct (i_T2 I _ _ _ _ Hl) as [A [_ C]]. auto.
Qed.

(* (iii) log matching *)
Theorem log_matching i j k e e' :
  nth_error (log (nodes s i)) k = Some e -> nth_error (log (nodes s j)) k = Some e' -> eterm e = eterm e' ->
  firstn (S k) (log (nodes s i)) = firstn (S k) (log (nodes s j)).
Proof.
  intros Hi Hj E. pose proof (i_LM I i _ Hi) as Pi. pose proof (i_LM I j _ Hj) as Pj. rewrite <- E in Pj.
  assert (Li : length (firstn (S k) (log (nodes s i))) = S k).
  { apply firstn_length_le.
    assert (k < length (log (nodes s i))) by (apply nth_error_Some; congruence). lia. }
  assert (Lj : length (firstn (S k) (log (nodes s j))) = S k).
  { apply firstn_length_le.
    assert (k < length (log (nodes s j))) by (apply nth_error_Some; congruence). lia. }
  apply prefix_antisym_len; [|lia]. eapply prefix_of_same; eauto. lia.
Qed.

(* (iv) leader completeness *)
Theorem leader_completeness_term t P u c el q :
  committed_in_term s t P -> In (u, c, el, q) (leaders s) -> t < u -> prefix P el.
Proof.
  intros (V & k & HV & Hm & Hk & He & ->) Hl Ht. eapply leader_completeness; eauto.
Qed.

Theorem leader_completeness_node t P c :
  committed_in_term s t P -> rl (nodes s c) = Leader -> t < cur (nodes s c) -> prefix P (log (nodes s c)).
Proof.
  intros HC Hl Ht. destruct (leader_log c Hl) as (el & q & Hin & Hp & _).
  eapply prefix_trans; [|exact Hp]. eapply leader_completeness_term; eauto.
Qed.

Theorem gcommit_committed : gcommit s = [] \/ exists t, committed_in_term s t (gcommit s).
Proof. destruct (i_GC J); auto. right. now apply cpre_committed. Qed.

(* (v) state-machine safety *)
Theorem committed_in_gcommit j :
  commit (nodes s j) <= length (log (nodes s j)) /\
  prefix (firstn (commit (nodes s j)) (log (nodes s j))) (gcommit s).
Proof. apply (i_AP J). Qed.

Theorem state_machine_safety i j k e e' :
  k < commit (nodes s i) -> k < commit (nodes s j) ->
  nth_error (log (nodes s i)) k = Some e -> nth_error (log (nodes s j)) k = Some e' -> e = e'.
Proof.
  intros Hi Hj Ei Ej.
  destruct (i_AP J i) as [_ Pi]. destruct (i_AP J j) as [_ Pj].
  assert (nth_error (gcommit s) k = Some e).
  { eapply prefix_nth_error; [exact Pi|]. now rewrite nth_error_firstn_lt. }
  assert (nth_error (gcommit s) k = Some e').
  { eapply prefix_nth_error; [exact Pj|]. now rewrite nth_error_firstn_lt. }
  congruence.
Qed.

(* what the application of node j has applied is a prefix of the one committed log *)
Theorem applied_in_gcommit j : app s j <= length (gcommit s).
Proof. apply (i_APP J). Qed.

End Safe.

(* the committed log only grows, whatever happens (including crashes and restarts) *)
Theorem gcommit_grows_step s s' :
  inv1 s -> inv2 s -> Overlap s' -> step s s' -> prefix (gcommit s) (gcommit s').
Proof.
  intros I J O H.
  pose proof (inv1_step s s' I O H) as I'.
  pose proof (step_hist_le s s' I (overlap_noclash s s' I O H) H) as HL.
  inv_step H; try apply prefix_refl. subst n.
  set (P := firstn k (log (nodes s c))).
  assert (HP : cpre (mkG (upd (nodes s) c (mkN (cur (nodes s c)) (vote (nodes s c)) Leader (log (nodes s c))
                             (snapi (nodes s c)) k (conf (nodes s c))))
                        (camps s) (grants s) (leaders s) (tlogs s) (acks s)
                        (longer (gcommit s) P) (voters (conf (nodes s c)) :: quorums s) (app s)) P).
  { destruct (i_T1 I _ H0) as [HT _]. exists (voters (conf (nodes s c))), (cur (nodes s c)), k. simpl.
    rewrite <- HT. repeat split; auto. apply term_at_endst; auto. }
  assert (Hcmp : prefix (gcommit s) P \/ prefix P (gcommit s)).
  { destruct (i_GC J) as [E|HC]; [left; rewrite E; apply prefix_nil|].
    eapply (cpre_comparable _ _ _ I' O); [|exact HP]. eapply (cpre_mono s); eauto. }
  apply (longer_cases _ _ Hcmp).
Qed.

Theorem gcommit_grows s s' :
  inv1 s -> inv2 s -> steps s s' -> Overlap s' -> prefix (gcommit s) (gcommit s').
Proof.
  intros I J H. induction H as [|s1 s2 s3 H12 IH H23]; intros O; [apply prefix_refl|].
  assert (O2 : Overlap s2) by (eapply Overlap_mono; [apply step_quorums; eauto | auto]).
  destruct (steps_inv _ _ I J H12 O2) as [I2 J2].
  eapply prefix_trans; [apply IH; auto|]. eapply gcommit_grows_step; eauto.
Qed.

(* an entry applied anywhere is never replaced: later applications, on any node, after any
   crashes, see the same entry at that index *)
Theorem applied_never_replaced s s' i j k :
  inv1 s -> inv2 s -> steps s s' -> Overlap s' ->
  k < app s i -> k < app s' j -> nth_error (gcommit s') k = nth_error (gcommit s) k.
Proof.
  intros I J H O Hi Hj. symmetry. apply prefix_nth_error_lt.
  - eapply gcommit_grows; eauto.
  - pose proof (i_APP J i). lia.
Qed.

(* the leader logs, hence the log of a node while it leads a term, only grow *)
Theorem leader_append_only s s' t :
  inv1 s -> Overlap s' -> step s s' -> prefix (tlogs s t) (tlogs s' t).
Proof. intros I O H. apply (step_hist_le s s' I (overlap_noclash s s' I O H) H). Qed.

(* ---------- runs whose steps were checked: no overlap hypothesis ---------- *)

(* every step elects only the first leader of a term and commits only comparably with the committed
   log; both conditions are decidable on the abstract state and the acceptor checks them *)
Inductive steps_ok : gstate -> gstate -> Prop :=
| sok_refl s : steps_ok s s
| sok_step s1 s2 s3 : steps_ok s1 s2 -> step s2 s3 -> NoClash s2 s3 -> CommitOK s2 s3 -> steps_ok s1 s3.

Lemma steps_ok_steps a b : steps_ok a b -> steps a b.
Proof. induction 1; [constructor | econstructor; eauto]. Qed.

Theorem steps_ok_inv s s' : inv1 s -> inv2 s -> steps_ok s s' -> inv1 s' /\ inv2 s'.
Proof.
  intros I J H. induction H as [|s1 s2 s3 H12 IH H23 NC CO]; auto.
  destruct (IH I J) as [I2 J2]. split.
  - eapply inv1_step_nc; eauto.
  - eapply inv2_step_ok; eauto.
Qed.

Theorem gcommit_grows_step_ok s s' :
  inv1 s -> inv2 s -> CommitOK s s' -> step s s' -> prefix (gcommit s) (gcommit s').
Proof.
  intros I J CO H. inv_step H; try apply prefix_refl. subst n.
  assert (Hcmp : prefix (gcommit s) (firstn k (log (nodes s c))) \/ prefix (firstn k (log (nodes s c))) (gcommit s)).
  { pose proof (CO c H0) as X. simpl in X. rewrite upd_same in X. simpl in X. apply X; auto. }
  apply (longer_cases _ _ Hcmp).
Qed.

Theorem gcommit_grows_ok s s' : inv1 s -> inv2 s -> steps_ok s s' -> prefix (gcommit s) (gcommit s').
Proof.
  intros I J H. induction H as [|s1 s2 s3 H12 IH H23 NC CO]; [apply prefix_refl|].
  destruct (steps_ok_inv _ _ I J H12) as [I2 J2].
  eapply prefix_trans; [apply IH; auto|]. eapply gcommit_grows_step_ok; eauto.
Qed.
