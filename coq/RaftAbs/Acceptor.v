(* RaftAbs/Acceptor.v — the executable checker that ties implementation traces to the abstract
   protocol.  [apply_label s l] checks the premises of ONE rule of Model.step at state s and
   returns the successor state; AcceptorSound.v proves [apply_label s l = Some s' -> step s s'].
   The trace driver (extract/driver.ml) proposes labels for every recorded implementation event
   (the proposal is untrusted: a wrong proposal can only be rejected here) and then compares the
   resulting abstract node with the recorded node through [match_node] (field renaming only).
   No proofs in this file. *)
From Coq Require Import List Arith Bool NArith.
From ZV Require Import RaftAbs.ListFacts RaftAbs.Model.
Import ListNotations.

Inductive label :=
| L_UpdateTerm (j t : nat)
| L_StepDown (j : nat)
| L_PreCampaign (j : nat)
| L_Campaign (c : nat)
| L_ExposeCamp (c : nat)
| L_SetVote (j c : nat)
| L_Grant (j c : nat)                    (* the campaign log is looked up in the history *)
| L_BecomeLeader (c : nat)
| L_LeaderAppend (c : nat) (e : entry)
| L_Replicate (j len : nat)              (* new log = first len entries of the leader log of j's term *)
| L_Ack (j k : nat)
| L_AdvanceCommit (c k : nat)
| L_LearnCommit (j k : nat)
| L_Compact (j m : nat)
| L_ChangeConf (j : nat) (cf : config)
| L_Restart (j cu : nat) (vo : option nat) (lt len sn cm : nat) (cf : config)
                                         (* restarted state; log = first len entries of the leader log of term lt *)
| L_Apply (j : nat) (ents : list entry)  (* the application applies these entries next *)
| L_ApplySnap (j a : nat)                (* the application installs a snapshot up to index a *)
| L_AppRestart (j a : nat).

Definition opt_nat_eqb (a b : option nat) : bool :=
  match a, b with
  | None, None => true
  | Some x, Some y => x =? y
  | _, _ => false
  end.

Fixpoint find_camp (t c : nat) (l : list (nat * nat * list entry)) : option (list entry) :=
  match l with
  | [] => None
  | (t', c', cl) :: r => if (t' =? t) && (c' =? c) then Some cl else find_camp t c r
  end.

(* length of the longest common prefix, capped at n *)
Fixpoint cpl (n : nat) (l1 l2 : list entry) : nat :=
  match n, l1, l2 with
  | S n', a :: r1, b :: r2 => if entry_eqb a b then S (cpl n' r1 r2) else 0
  | _, _, _ => 0
  end.

(* some leader of a term in (t, cu] was elected with a log that does not start with p *)
Definition lackingb (s : gstate) (p : list entry) (t cu : nat) : bool :=
  existsb (fun r => let '(w, _, el, _) := r in (t <? w) && (w <=? cu) && negb (prefixb p el)) (leaders s).

Definition ack_keptb (s : gstate) (cu : nat) (lg : list entry) (t k' : nat) : bool :=
  (t <=? cu) &&
  (let m := cpl k' lg (tlogs s t) in
   (m =? k') || lackingb s (firstn (S m) (tlogs s t)) t cu).

Definition promises_keptb (s : gstate) (j : nat) (n : nstate) : bool :=
  forallb (fun g => let '(j', t, c) := g in
             negb (j' =? j) || (t <? cur n) || ((t =? cur n) && opt_nat_eqb (vote n) (Some c))
             || ((t =? boot_term) && (c =? 0))) (grants s) &&
  forallb (fun r => let '(u, c, _) := r in negb (c =? j) || (u <=? cur n)) (camps s) &&
  forallb (fun r => let '(t, c, _, _) := r in negb (c =? j) || (t <=? cur n)) (leaders s) &&
  forallb (fun a => let '(j', t, k') := a in negb (j' =? j) || ack_keptb s (cur n) (log n) t k') (acks s) &&
  prefixb (log n) (tlogs s (lastterm (log n))) &&
  (lastterm (log n) <=? cur n) &&
  (commit n <=? length (log n)) &&
  prefixb (firstn (commit n) (log n)) (gcommit s).

(* the node recorded as elected for term t, if any *)
Fixpoint leader_of (t : nat) (l : list (nat * nat * list entry * list nat)) : option nat :=
  match l with
  | [] => None
  | (t', c, _, _) :: r => if t' =? t then Some c else leader_of t r
  end.
Definition term_leader (s : gstate) (t : nat) : option nat := leader_of t (leaders s).

(* the prefix a leader is about to commit is comparable with the committed log *)
Definition commit_comparable (s : gstate) (c k : nat) : bool :=
  let p := firstn k (log (nodes s c)) in prefixb p (gcommit s) || prefixb (gcommit s) p.


Definition apply_label (s : gstate) (l : label) : option gstate :=
  match l with
  | L_UpdateTerm j t =>
      let n := nodes s j in
      if cur n <? t
      then Some (set_node s j (mkN t None Follower (log n) (snapi n) (commit n) (conf n)))
      else None
  | L_StepDown j =>
      let n := nodes s j in
      Some (set_node s j (mkN (cur n) (vote n) Follower (log n) (snapi n) (commit n) (conf n)))
  | L_PreCampaign j =>
      let n := nodes s j in
      if promotable j n && role_eqb (rl n) Follower
      then Some (set_node s j (mkN (cur n) (vote n) PreCandidate (log n) (snapi n) (commit n) (conf n)))
      else None
  | L_Campaign c =>
      let n := nodes s c in
      if promotable c n && negb (role_eqb (rl n) Leader) && (1 <=? cur n)
      then Some (set_node s c (mkN (S (cur n)) (Some c) Candidate (log n) (snapi n) (commit n) (conf n)))
      else None
  | L_ExposeCamp c =>
      let n := nodes s c in
      if role_eqb (rl n) Candidate && opt_nat_eqb (vote n) (Some c)
      then Some (mkG (nodes s) ((cur n, c, log n) :: camps s) ((c, cur n, c) :: grants s)
                     (leaders s) (tlogs s) (acks s) (gcommit s) (quorums s) (app s))
      else None
  | L_SetVote j c =>
      let n := nodes s j in
      if opt_nat_eqb (vote n) None
      then Some (set_node s j (mkN (cur n) (Some c) (rl n) (log n) (snapi n) (commit n) (conf n)))
      else None
  | L_Grant j c =>
      let n := nodes s j in
      match find_camp (cur n) c (camps s) with
      | None => None
      | Some cl =>
          (* the last conjunct follows from the invariants (one vote per term in the history of votes
             cast); checking it makes a second vote fail at the grant itself *)
          if negb (is_learner j n) && (opt_nat_eqb (vote n) None || opt_nat_eqb (vote n) (Some c))
             && uptodate cl (log n)
             && forallb (fun g => let '(j', t, c') := g in negb ((j' =? j) && (t =? cur n)) || (c' =? c)) (grants s)
          then Some (mkG (upd (nodes s) j (mkN (cur n) (Some c) (rl n) (log n) (snapi n) (commit n) (conf n)))
                         (camps s) ((j, cur n, c) :: grants s) (leaders s) (tlogs s) (acks s) (gcommit s)
                         (quorums s) (app s))
          else None
      end
  | L_BecomeLeader c =>
      let n := nodes s c in
      (* last conjunct: no leader was elected for this term yet (a theorem under the overlap hypothesis,
         a check otherwise) *)
      if role_eqb (rl n) Candidate && majority (voters (conf n)) (grantedb s (cur n) c)
         && match term_leader s (cur n) with None => true | Some _ => false end
      then Some (mkG (upd (nodes s) c (mkN (cur n) (vote n) Leader (log n) (snapi n) (commit n) (conf n)))
                     (camps s) (grants s)
                     ((cur n, c, log n, filter (grantedb s (cur n) c) (voters (conf n))) :: leaders s)
                     (upd (tlogs s) (cur n) (log n))
                     (acks s) (gcommit s) (voters (conf n) :: quorums s) (app s))
      else None
  | L_LeaderAppend c e =>
      let n := nodes s c in
      if role_eqb (rl n) Leader && (eterm e =? cur n)
      then Some (mkG (upd (nodes s) c (mkN (cur n) (vote n) Leader (log n ++ [e]) (snapi n) (commit n) (conf n)))
                     (camps s) (grants s) (leaders s) (upd (tlogs s) (cur n) (log n ++ [e]))
                     (acks s) (gcommit s) (quorums s) (app s))
      else None
  | L_Replicate j len =>
      let n := nodes s j in
      let full := firstn len (tlogs s (cur n)) in
      if (role_eqb (rl n) Follower || role_eqb (rl n) PreCandidate)
         && negb (prefixb full (log n))
         && (commit n <=? length full)
         && log_eqb (firstn (commit n) (log n)) (firstn (commit n) full)
      then Some (set_node s j (mkN (cur n) (vote n) (rl n) full (snapi n) (commit n) (conf n)))
      else None
  | L_Ack j k =>
      let n := nodes s j in
      if (k <=? length (log n)) && prefixb (firstn k (log n)) (tlogs s (cur n))
      then Some (mkG (nodes s) (camps s) (grants s) (leaders s) (tlogs s) ((j, cur n, k) :: acks s)
                     (gcommit s) (quorums s) (app s))
      else None
  | L_AdvanceCommit c k =>
      let n := nodes s c in
      if role_eqb (rl n) Leader && (commit n <? k) && (k <=? length (log n))
         && opt_nat_eqb (term_at (log n) k) (Some (cur n))
         && majority (voters (conf n)) (ackedb s (cur n) k)
         && commit_comparable s c k   (* a theorem under the overlap hypothesis, a check otherwise *)
      then Some (mkG (upd (nodes s) c (mkN (cur n) (vote n) Leader (log n) (snapi n) k (conf n)))
                     (camps s) (grants s) (leaders s) (tlogs s) (acks s)
                     (longer (gcommit s) (firstn k (log n))) (voters (conf n) :: quorums s) (app s))
      else None
  | L_LearnCommit j k =>
      let n := nodes s j in
      if (commit n <? k) && (k <=? length (log n)) && prefixb (firstn k (log n)) (gcommit s)
      then Some (set_node s j (mkN (cur n) (vote n) (rl n) (log n) (snapi n) k (conf n)))
      else None
  | L_Compact j m =>
      let n := nodes s j in
      if m <=? commit n
      then Some (set_node s j (mkN (cur n) (vote n) (rl n) (log n) m (commit n) (conf n)))
      else None
  | L_ChangeConf j cf =>
      let n := nodes s j in
      Some (set_node s j (mkN (cur n) (vote n) (rl n) (log n) (snapi n) (commit n) cf))
  | L_Restart j cu vo lt len sn cm cf =>
      let lg := firstn len (tlogs s lt) in
      let n' := mkN cu vo Follower lg sn cm cf in
      if (length lg =? len) && promises_keptb s j n'
      then Some (set_node s j n')
      else None
  | L_Apply j ents =>
      let a := app s j + length ents in
      if (a <=? length (gcommit s)) && log_eqb (firstn (length ents) (skipn (app s j) (gcommit s))) ents
      then Some (mkG (nodes s) (camps s) (grants s) (leaders s) (tlogs s) (acks s) (gcommit s) (quorums s)
                     (upd (app s) j a))
      else None
  | L_ApplySnap j a =>
      if (app s j <=? a) && (a <=? length (gcommit s))
      then Some (mkG (nodes s) (camps s) (grants s) (leaders s) (tlogs s) (acks s) (gcommit s) (quorums s)
                     (upd (app s) j a))
      else None
  | L_AppRestart j a =>
      if a <=? app s j
      then Some (mkG (nodes s) (camps s) (grants s) (leaders s) (tlogs s) (acks s) (gcommit s) (quorums s)
                     (upd (app s) j a))
      else None
  end.

Fixpoint run (s : gstate) (ls : list label) : option gstate :=
  match ls with
  | [] => Some s
  | l :: r => match apply_label s l with Some s' => run s' r | None => None end
  end.

(* ---------- comparing an abstract node with a recorded node ---------- *)

(* what the trace records of a node: raft.Term, Vote (0 = none), state, the snapshot index and term
   (first-1 and its term), the entries above it, committed, prs / learnerPrs *)
Record obs := mkObs {
  o_term : nat; o_vote : nat; o_role : role; o_snapi : nat; o_snapt : nat;
  o_ents : list entry; o_commit : nat; o_voters : list nat; o_learners : list nat
}.

Fixpoint nat_list_eqb (a b : list nat) : bool :=
  match a, b with
  | [], [] => true
  | x :: r, y :: r' => (x =? y) && nat_list_eqb r r'
  | _, _ => false
  end.

Definition vote_of_nat (v : nat) : option nat := match v with 0 => None | _ => Some v end.

Definition match_log (n : nstate) (o : obs) : bool :=
  (match o_snapi o with
   | 0 => true
   | _ => opt_nat_eqb (term_at (log n) (o_snapi o)) (Some (o_snapt o))
   end) &&
  (o_snapi o <=? length (log n)) &&
  log_eqb (skipn (o_snapi o) (log n)) (o_ents o).

Definition match_node (n : nstate) (o : obs) : bool :=
  (cur n =? o_term o) && opt_nat_eqb (vote n) (vote_of_nat (o_vote o)) && role_eqb (rl n) (o_role o) &&
  (snapi n =? o_snapi o) && match_log n o && (commit n =? o_commit o) &&
  nat_list_eqb (voters (conf n)) (o_voters o) && nat_list_eqb (learners (conf n)) (o_learners o).

Definition init_okb (cf : config) (log0 : list entry) : bool :=
  forallb (fun e => eterm e =? boot_term) log0 &&
  (match voters cf with [] => false | _ => true end) &&
  forallb (fun j => negb (memb j (learners cf))) (voters cf) &&
  negb (memb 0 (voters cf)) && negb (memb 0 (learners cf)).

(* helpers for the driver's (untrusted) planning *)

(* does the recorded log (snapshot index/term + entries) coincide with a prefix of the leader log of w? *)
Definition obs_in_tlog (s : gstate) (w : nat) (o : obs) : bool :=
  let len := o_snapi o + length (o_ents o) in
  let full := firstn len (tlogs s w) in
  (length full =? len) &&
  (match o_snapi o with
   | 0 => true
   | _ => opt_nat_eqb (term_at full (o_snapi o)) (Some (o_snapt o))
   end) &&
  log_eqb (skipn (o_snapi o) full) (o_ents o).

Definition obs_lastterm (o : obs) : nat :=
  match o_ents o with [] => o_snapt o | _ => lastterm (o_ents o) end.

Definition node_of (s : gstate) (j : nat) : nstate := nodes s j.
Definition tlog_of (s : gstate) (t : nat) : list entry := tlogs s t.
Definition app_of (s : gstate) (j : nat) : nat := app s j.

Definition gcommit_len (s : gstate) : nat := length (gcommit s).
Definition camp_exposed (s : gstate) (t c : nat) : bool :=
  match find_camp t c (camps s) with Some _ => true | None => false end.

(* diagnosis of a refused restart (not used by any proof): which promise is broken *)
Definition promises_why (s : gstate) (j : nat) (n : nstate) : nat :=
  if negb (forallb (fun g => let '(j', t, c) := g in
             negb (j' =? j) || (t <? cur n) || ((t =? cur n) && opt_nat_eqb (vote n) (Some c))
             || ((t =? boot_term) && (c =? 0))) (grants s)) then 1
  else if negb (forallb (fun r => let '(u, c, _) := r in negb (c =? j) || (u <=? cur n)) (camps s)) then 2
  else if negb (forallb (fun r => let '(t, c, _, _) := r in negb (c =? j) || (t <=? cur n)) (leaders s)) then 3
  else if negb (forallb (fun a => let '(j', t, k') := a in negb (j' =? j) || ack_keptb s (cur n) (log n) t k') (acks s)) then 4
  else if negb (prefixb (log n) (tlogs s (lastterm (log n)))) then 5
  else if negb (lastterm (log n) <=? cur n) then 6
  else if negb (commit n <=? length (log n)) then 7
  else if negb (prefixb (firstn (commit n) (log n)) (gcommit s)) then 8
  else 0.

Definition restart_node (s : gstate) (cu : nat) (vo : option nat) (lt len sn cm : nat) (cf : config) : nstate :=
  mkN cu vo Follower (firstn len (tlogs s lt)) sn cm cf.

(* ---------- the overlap hypothesis of the membership-change theorems, as a test ---------- *)

Fixpoint nodupb (l : list nat) : bool :=
  match l with [] => true | x :: r => negb (memb x r) && nodupb r end.

Definition common (V1 V2 : list nat) : list nat := filter (fun x => memb x V2) V1.

(* two duplicate-free voter lists with c common members have intersecting majorities if
   |V1| + |V2| < 2c + 2 (this is also necessary) *)
Definition overlap2b (V1 V2 : list nat) : bool :=
  match V1, V2 with
  | [], _ | _, [] => true
  | _, _ => length V1 + length V2 <? 2 * length (common V1 V2) + 2
  end.

Definition overlapb (qs : list (list nat)) : bool :=
  forallb nodupb qs && forallb (fun V1 => forallb (overlap2b V1) qs) qs.

(* distinct voter lists a majority was counted over *)
Fixpoint dedup_lists (qs : list (list nat)) : list (list nat) :=
  match qs with
  | [] => []
  | q :: r => if existsb (nat_list_eqb q) r then dedup_lists r else q :: dedup_lists r
  end.

Definition overlap_state (s : gstate) : bool := overlapb (dedup_lists (quorums s)).
Definition n_configs (s : gstate) : nat := length (dedup_lists (quorums s)).

(* ---------- monitors evaluated by the trace driver (direct checks, no rule of the protocol) ---------- *)

(* a MsgApp of term t with previous index/term and entries is a slice of the log of the leader of t *)
Definition msgapp_ok (s : gstate) (t prev prevt : nat) (ents : list entry) : bool :=
  let lg := tlogs s t in
  (match prev with 0 => true | _ => opt_nat_eqb (term_at lg prev) (Some prevt) end) &&
  (prev + length ents <=? length lg) &&
  log_eqb (firstn (length ents) (skipn prev lg)) ents.

(* a heartbeat of term t to j may carry a commit index only up to what j acknowledged in term t,
   and only what is committed *)
Definition heartbeat_ok (s : gstate) (t j c : nat) : bool :=
  match c with 0 => true | _ => ackedb s t c j && (c <=? length (gcommit s)) end.

(* a snapshot of term-t leader: index within the committed log, term as in the leader log *)
Definition snapshot_ok (s : gstate) (t idx idxt : nat) : bool :=
  match idx with
  | 0 => true
  | _ => (idx <=? length (gcommit s)) && opt_nat_eqb (term_at (gcommit s) idx) (Some idxt)
  end.
Definition gcommit_of (s : gstate) : list entry := gcommit s.

(* ---------- leader completeness without the overlap hypothesis: two per-step conditions ---------- *)

(* at an election: if the committed log was last extended in an earlier term, one of the voters that
   elect c has acknowledged the whole committed log (in the term of its last entry) *)
Definition elect_lc_ok (s : gstate) (c : nat) : bool :=
  let n := nodes s c in
  let g := gcommit s in
  match g with
  | [] => true
  | _ => (cur n <=? lastterm g) ||
         existsb (fun x => grantedb s (cur n) c x && ackedb s (lastterm g) (length g) x) (voters (conf n))
  end.

(* at a commit by the leader of term t: every leader already elected for a later term has, among the
   voters that elected it, one that acknowledged the committed index in term t *)
Definition commit_lc_ok (s : gstate) (c k : nat) : bool :=
  let t := cur (nodes s c) in
  forallb (fun r => let '(u, _, _, q) := r in negb (t <? u) || existsb (ackedb s t k) q) (leaders s).

Definition lc_label_ok (s : gstate) (l : label) : bool :=
  match l with
  | L_BecomeLeader c => elect_lc_ok s c
  | L_AdvanceCommit c k => commit_lc_ok s c k
  | _ => true
  end.

(* a run in which, in addition, these conditions hold at every step *)
Fixpoint run_lc (s : gstate) (ls : list label) : option gstate :=
  match ls with
  | [] => Some s
  | l :: r => if lc_label_ok s l then match apply_label s l with Some s' => run_lc s' r | None => None end else None
  end.
