(* RaftAbs/Inv.v — the invariants of the abstract raft protocol and basic facts about the
   notions they use.  The preservation proofs are in Pres*.v, the safety theorems in Safety.v. *)
From Coq Require Import List Arith Bool NArith Lia.
From ZV Require Import RaftAbs.ListFacts RaftAbs.Model.
Import ListNotations.

(* ---------- decidability ---------- *)

Lemma entry_eqb_eq a b : entry_eqb a b = true <-> a = b.
Proof.
  unfold entry_eqb. destruct a as [t1 k1 d1 x1], b as [t2 k2 d2 x2]; simpl.
  rewrite !andb_true_iff, Nat.eqb_eq, !N.eqb_eq. split.
  - intros [[[-> ->] ->] ->]; auto.
  - intros H; inversion H; auto.
Qed.

Lemma entry_eq_dec (a b : entry) : {a = b} + {a <> b}.
Proof.
  destruct (entry_eqb a b) eqn:E.
  - left. now apply entry_eqb_eq.
  - right. intros H. apply entry_eqb_eq in H. congruence.
Qed.

Lemma log_eqb_eq l1 l2 : log_eqb l1 l2 = true <-> l1 = l2.
Proof.
  revert l2; induction l1 as [|a l1 IH]; intros [|b l2]; simpl; split; intros H; try discriminate; auto.
  - apply andb_true_iff in H. destruct H as [H1 H2]. apply entry_eqb_eq in H1. apply IH in H2. congruence.
  - inversion H; subst. apply andb_true_iff. split; [now apply entry_eqb_eq | now apply IH].
Qed.

Lemma prefixb_prefix l1 l2 : prefixb l1 l2 = true <-> prefix l1 l2.
Proof.
  revert l2; induction l1 as [|a l1 IH]; intros l2; simpl.
  - split; auto. intros _. apply prefix_nil.
  - destruct l2 as [|b l2].
    + split; [discriminate|]. intros [r H]; discriminate.
    + rewrite andb_true_iff, entry_eqb_eq, IH. split.
      * intros [-> [r ->]]. exists r. reflexivity.
      * intros [r H]. inversion H; subst. split; auto. now exists r.
Qed.

Lemma prefix_dec (l1 l2 : list entry) : {prefix l1 l2} + {~ prefix l1 l2}.
Proof.
  destruct (prefixb l1 l2) eqn:E.
  - left. now apply prefixb_prefix.
  - right. intros H. apply prefixb_prefix in H. congruence.
Qed.

Lemma memb_In x l : memb x l = true <-> In x l.
Proof.
  unfold memb. rewrite existsb_exists. split.
  - intros [y [H1 H2]]. apply Nat.eqb_eq in H2. now subst.
  - intros H. exists x. split; auto. apply Nat.eqb_refl.
Qed.

Lemma triple_eqb_eq a b : triple_eqb a b = true <-> a = b.
Proof.
  destruct a as [[a1 a2] a3], b as [[b1 b2] b3]. unfold triple_eqb.
  rewrite !andb_true_iff, !Nat.eqb_eq. split.
  - intros [[-> ->] ->]; auto.
  - intros H; inversion H; auto.
Qed.

Lemma grantedb_In s t c j : grantedb s t c j = true <-> In (j, t, c) (grants s).
Proof.
  unfold grantedb. rewrite existsb_exists. split.
  - intros [x [H1 H2]]. apply triple_eqb_eq in H2. now subst.
  - intros H. exists (j, t, c). split; auto. now apply triple_eqb_eq.
Qed.

Lemma ackedb_In s t k j : ackedb s t k j = true <-> exists k', k <= k' /\ In (j, t, k') (acks s).
Proof.
  unfold ackedb. rewrite existsb_exists. split.
  - intros [[[j' t'] k'] [H1 H2]]. rewrite !andb_true_iff, !Nat.eqb_eq, Nat.leb_le in H2.
    destruct H2 as [[-> ->] H]. exists k'; auto.
  - intros [k' [H1 H2]]. exists (j, t, k'). split; auto.
    rewrite !andb_true_iff, !Nat.eqb_eq, Nat.leb_le. auto.
Qed.

Lemma upd_same {A} (f : nat -> A) i x : upd f i x i = x.
Proof. unfold upd. now rewrite Nat.eqb_refl. Qed.

Lemma upd_other {A} (f : nat -> A) i x j : j <> i -> upd f i x j = f j.
Proof. unfold upd. intros H. apply Nat.eqb_neq in H. now rewrite H. Qed.

(* ---------- last terms ---------- *)

Lemma lastterm_snoc l e : lastterm (l ++ [e]) = eterm e.
Proof. unfold lastterm. rewrite map_app. simpl. apply last_last. Qed.

Lemma list_snoc_cases {A} (l : list A) : l = [] \/ exists l0 x, l = l0 ++ [x].
Proof.
  destruct l as [|a l]; auto. right.
  destruct (@exists_last _ (a :: l)) as [l0 [x H]]; [discriminate|]. eauto.
Qed.

Lemma lastterm_nil : lastterm [] = 0.
Proof. reflexivity. Qed.

Lemma lastterm_pos l x : x < lastterm l -> exists l0 e, l = l0 ++ [e] /\ eterm e = lastterm l.
Proof.
  intros H. destruct (list_snoc_cases l) as [->|[l0 [e ->]]].
  - rewrite lastterm_nil in H. lia.
  - exists l0, e. split; auto. now rewrite lastterm_snoc.
Qed.

Lemma nth_error_last_snoc {A} (l : list A) x : nth_error (l ++ [x]) (length l) = Some x.
Proof. rewrite nth_error_app2 by lia. now rewrite Nat.sub_diag. Qed.

(* a non-empty list whose last entry has term t *)
Definition endst (p : list entry) (t : nat) : Prop := exists p0 e, p = p0 ++ [e] /\ eterm e = t.

Lemma endst_lastterm p t : endst p t -> lastterm p = t.
Proof. intros [p0 [e [-> H]]]. now rewrite lastterm_snoc. Qed.

Lemma endst_nonnil p t : endst p t -> p <> [].
Proof. intros [p0 [e [-> _]]]. destruct p0; discriminate. Qed.

Lemma endst_length p t : endst p t -> 1 <= length p.
Proof. intros [p0 [e [-> _]]]. rewrite app_length. simpl. lia. Qed.

Lemma term_at_endst l k t : term_at l k = Some t -> k <= length l -> endst (firstn k l) t.
Proof.
  destruct k as [|k]; simpl; [discriminate|]. intros H Hk.
  destruct (nth_error l k) as [e|] eqn:E; simpl in H; [|discriminate]. inversion H; subst.
  exists (firstn k l), e. split; auto. now apply firstn_S_nth_error.
Qed.

Lemma endst_term_at l k t : endst (firstn k l) t -> k <= length l -> term_at l k = Some t.
Proof.
  intros [p0 [e [H1 H2]]] Hk.
  assert (Hlen : length (firstn k l) = k) by (apply firstn_length_le; auto).
  rewrite H1, app_length in Hlen. simpl in Hlen.
  destruct k as [|k]; [lia|]. simpl.
  assert (nth_error (firstn (S k) l) k = Some e).
  { rewrite H1. replace k with (length p0) by lia. apply nth_error_last_snoc. }
  rewrite nth_error_firstn_lt in H by lia. rewrite H. simpl. now subst.
Qed.

(* ---------- log matching relative to the leader logs ---------- *)

(* every prefix of l that ends in an entry of term T is a prefix of the log of the leader of T *)
Definition LMlog (tl : nat -> list entry) (l : list entry) : Prop :=
  forall k e, nth_error l k = Some e -> prefix (firstn (S k) l) (tl (eterm e)).

Lemma LMlog_nil tl : LMlog tl [].
Proof. intros k e H. destruct k; discriminate. Qed.

Lemma LMlog_mono tl tl' l : (forall T, prefix (tl T) (tl' T)) -> LMlog tl l -> LMlog tl' l.
Proof. intros H HL k e Hk. eapply prefix_trans; [apply HL; eauto | apply H]. Qed.

Lemma LMlog_prefix tl l1 l2 : prefix l1 l2 -> LMlog tl l2 -> LMlog tl l1.
Proof.
  intros Hp HL k e Hk.
  assert (Hk2 : nth_error l2 k = Some e) by (eapply prefix_nth_error; eauto).
  assert (k < length l1) by (apply nth_error_Some; congruence).
  rewrite (prefix_firstn_same (n:=S k) Hp) by lia. now apply HL.
Qed.

Lemma LMlog_last tl l : LMlog tl l -> prefix l (tl (lastterm l)).
Proof.
  intros HL. destruct (list_snoc_cases l) as [->|[l0 [e ->]]]; [apply prefix_nil|].
  rewrite lastterm_snoc. specialize (HL (length l0) e (nth_error_last_snoc l0 e)).
  rewrite firstn_all2 in HL; auto. rewrite app_length; simpl; lia.
Qed.

Lemma LMlog_snoc tl l e : LMlog tl l -> prefix (l ++ [e]) (tl (eterm e)) -> LMlog tl (l ++ [e]).
Proof.
  intros HL Hp k x Hk. apply nth_error_snoc in Hk. destruct Hk as [[Hlt Hk]|[-> ->]].
  - rewrite firstn_app_le by lia. now apply HL.
  - rewrite firstn_all2; auto. rewrite app_length; simpl; lia.
Qed.

Lemma In_firstn {A} n (l : list A) x : In x (firstn n l) -> In x l.
Proof. intros H. rewrite <- (firstn_skipn n l). apply in_or_app. now left. Qed.

Lemma prefix_In {A} (l1 l2 : list A) x : prefix l1 l2 -> In x l1 -> In x l2.
Proof. intros [r ->] H. apply in_or_app. now left. Qed.

(* ---------- the invariants ---------- *)

Definition has_leader (s : gstate) (t : nat) : Prop := exists c el q, In (t, c, el, q) (leaders s).

(* a leader of term u exists that was elected without j's vote *)
Definition late (s : gstate) (j u : nat) : Prop :=
  exists c el q, In (u, c, el, q) (leaders s) /\ ~ In j q.

Definition NC (s : gstate) (j : nat) : nat := cur (nodes s j).

Set Implicit Arguments.
Record inv1 (s : gstate) : Prop := {
  (* votes *)
  i_G1 : forall j t c, In (j, t, c) (grants s) ->
      t < cur (nodes s j) \/ (t = cur (nodes s j) /\ vote (nodes s j) = Some c) \/ (t = boot_term /\ c = 0);
  i_G2 : forall j t c c', In (j, t, c) (grants s) -> In (j, t, c') (grants s) -> c = c';
  i_G3 : forall j t c, In (j, t, c) (grants s) -> exists cl, In (t, c, cl) (camps s);
  (* campaigns *)
  i_CB : forall u c cl, In (u, c, cl) (camps s) -> (u = boot_term /\ c = 0 /\ cl = []) \/ 2 <= u;
  i_C1 : forall u c cl, In (u, c, cl) (camps s) -> u <= cur (nodes s c);
  i_C2 : forall u c cl cl', In (u, c, cl) (camps s) -> In (u, c, cl') (camps s) -> cl = cl';
  i_CLM : forall u c cl, In (u, c, cl) (camps s) -> LMlog (tlogs s) cl;
  i_CLT : forall u c cl, In (u, c, cl) (camps s) -> forall e, In e cl -> eterm e < u;
  i_Cand : forall c, rl (nodes s c) = Candidate ->
      2 <= cur (nodes s c) /\
      (forall cl, In (cur (nodes s c), c, cl) (camps s) -> cl = log (nodes s c)) /\
      (forall e, In e (log (nodes s c)) -> eterm e < cur (nodes s c)) /\
      (forall el q, ~ In (cur (nodes s c), c, el, q) (leaders s));
  (* leaders *)
  i_L1 : forall t c el q, In (t, c, el, q) (leaders s) ->
      (exists V, In V (quorums s) /\ majority V (fun j => memb j q) = true) /\
      (forall j, In j q -> In (j, t, c) (grants s));
  i_L2 : forall t c el q c' el' q', In (t, c, el, q) (leaders s) -> In (t, c', el', q') (leaders s) ->
      c = c' /\ el = el' /\ q = q';
  i_L3 : forall t c el q, In (t, c, el, q) (leaders s) -> t <= cur (nodes s c);
  i_L4 : forall t c el q, In (t, c, el, q) (leaders s) -> In (t, c, el) (camps s);
  i_T1 : forall c, rl (nodes s c) = Leader ->
      log (nodes s c) = tlogs s (cur (nodes s c)) /\
      exists el q, In (cur (nodes s c), c, el, q) (leaders s);
  i_T2 : forall t c el q, In (t, c, el, q) (leaders s) ->
      prefix el (tlogs s t) /\
      (forall e, In e (tlogs s t) -> eterm e <= t) /\
      (forall k e, length el <= k -> nth_error (tlogs s t) k = Some e -> eterm e = t);
  i_T3 : forall t, tlogs s t = [] \/ has_leader s t;
  (* logs *)
  i_LM : forall j, LMlog (tlogs s) (log (nodes s j));
  i_LMt : forall t, LMlog (tlogs s) (tlogs s t);
  i_LT : forall j e, In e (log (nodes s j)) -> eterm e <= cur (nodes s j);
  (* acknowledgments *)
  i_A1 : forall j t k, In (j, t, k) (acks s) -> t <= cur (nodes s j) /\ k <= length (tlogs s t);
  i_AN : forall j t k' k, In (j, t, k') (acks s) -> k <= k' ->
      (k <= length (log (nodes s j)) /\ prefix (firstn k (log (nodes s j))) (tlogs s t)) \/
      (exists w, t < w /\ w <= cur (nodes s j) /\ lacking s (firstn k (tlogs s t)) w);
  (* a vote is only given to a log that contains what the voter acknowledged, unless some
     leader in between was elected without it *)
  i_CV : forall j u c cl t k' k,
      In (j, u, c) (grants s) -> In (u, c, cl) (camps s) -> In (j, t, k') (acks s) -> k <= k' -> t < u ->
      endst (firstn k (tlogs s t)) t ->
      prefix (firstn k (tlogs s t)) cl \/
      (exists w, t < w /\ w < u /\ lacking s (firstn k (tlogs s t)) w) \/
      late s j u
}.

Arguments i_CV [s] i j u c cl t k' k _ _ _ _ _ _.
Arguments i_AN [s] i j t k' k _ _.

(* P is a committed prefix: the first k entries of the leader log of t, ending in a term-t entry,
   acknowledged by a majority of a voter list that was used *)
Definition cpre (s : gstate) (P : list entry) : Prop :=
  exists V t k, In V (quorums s) /\ majority V (ackedb s t k) = true /\
                k <= length (tlogs s t) /\ endst (firstn k (tlogs s t)) t /\ P = firstn k (tlogs s t).

(* the second group: commitment *)
Record inv2 (s : gstate) : Prop := {
  i_GC : gcommit s = [] \/ cpre s (gcommit s);
  i_AP : forall j, commit (nodes s j) <= length (log (nodes s j)) /\
                   prefix (firstn (commit (nodes s j)) (log (nodes s j))) (gcommit s);
  i_APP : forall j, app s j <= length (gcommit s)
}.

Unset Implicit Arguments.

(* any two majorities that were ever counted intersect *)
Definition Overlap (s : gstate) : Prop :=
  forall V1 V2, In V1 (quorums s) -> In V2 (quorums s) ->
  forall f g, majority V1 f = true -> majority V2 g = true -> exists x, f x = true /\ g x = true.

(* Two per-step conditions that replace the Overlap hypothesis when they are checked on a run
   (the acceptor checks them on every step it accepts):
   NoClash: a candidate only becomes leader of a term that has no elected leader yet;
   CommitOK: a leader only commits a prefix that is comparable with the committed log. *)
Definition NoClash (s s' : gstate) : Prop :=
  forall c, rl (nodes s c) = Candidate -> rl (nodes s' c) = Leader -> ~ has_leader s (cur (nodes s c)).

Definition CommitOK (s s' : gstate) : Prop :=
  forall c, rl (nodes s c) = Leader -> rl (nodes s' c) = Leader -> commit (nodes s c) < commit (nodes s' c) ->
    let P := firstn (commit (nodes s' c)) (log (nodes s c)) in
    prefix (gcommit s) P \/ prefix P (gcommit s).

(* ---------- monotonicity of the history along a step ---------- *)

Definition hist_le (s s' : gstate) : Prop :=
  incl (camps s) (camps s') /\ incl (grants s) (grants s') /\ incl (leaders s) (leaders s') /\
  incl (acks s) (acks s') /\ incl (quorums s) (quorums s') /\
  (forall t, prefix (tlogs s t) (tlogs s' t)).

Lemma lacking_mono s s' p w : incl (leaders s) (leaders s') -> lacking s p w -> lacking s' p w.
Proof. intros H [c [el [q [H1 H2]]]]. exists c, el, q. auto. Qed.

Lemma late_mono s s' j u : incl (leaders s) (leaders s') -> late s j u -> late s' j u.
Proof. intros H [c [el [q [H1 H2]]]]. exists c, el, q. auto. Qed.

Lemma has_leader_mono s s' t : incl (leaders s) (leaders s') -> has_leader s t -> has_leader s' t.
Proof. intros H [c [el [q H1]]]. exists c, el, q. auto. Qed.

Lemma Overlap_mono s s' : incl (quorums s) (quorums s') -> Overlap s' -> Overlap s.
Proof. intros H O V1 V2 H1 H2. apply O; auto. Qed.

(* firstn k of a leader log is stable once k is within it *)
Lemma firstn_stable (l l' : list entry) k : prefix l l' -> k <= length l -> firstn k l' = firstn k l.
Proof. intros H Hk. symmetry. now apply prefix_firstn_same. Qed.
