(* RaftAbs/Inv1.v — the first invariant group is inductive; election safety and leader completeness. *)
From Coq Require Import List Arith Bool NArith Lia.
From ZV Require Import RaftAbs.ListFacts RaftAbs.Model RaftAbs.Inv RaftAbs.Pres1 RaftAbs.Pres2 RaftAbs.Pres3.
Import ListNotations.

Theorem inv1_step_nc s s' : inv1 s -> NoClash s s' -> step s s' -> inv1 s'.
Proof.
  intros I O H. constructor.
  - apply (pres_G1 s s' I H).
  - apply (pres_G2 s s' I H).
  - apply (pres_G3 s s' I H).
  - apply (pres_CB s s' I H).
  - apply (pres_C1 s s' I H).
  - apply (pres_C2 s s' I H).
  - apply (pres_CLM s s' I O H).
  - apply (pres_CLT s s' I H).
  - apply (pres_Cand s s' I H).
  - apply (pres_L1 s s' I H).
  - apply (pres_L2 s s' I O H).
  - apply (pres_L3 s s' I H).
  - apply (pres_L4 s s' I H).
  - apply (pres_T1 s s' I O H).
  - apply (pres_T2 s s' I O H).
  - apply (pres_T3 s s' I H).
  - apply (pres_LM s s' I O H).
  - apply (pres_LMt s s' I O H).
  - apply (pres_LT s s' I H).
  - apply (pres_A1 s s' I O H).
  - apply (pres_AN s s' I O H).
  - apply (pres_CV s s' I O H).
Qed.

Theorem inv1_step s s' : inv1 s -> Overlap s' -> step s s' -> inv1 s'.
Proof. intros I O H. apply (inv1_step_nc s s' I (overlap_noclash s s' I O H) H). Qed.

(* ---------- election safety ---------- *)

Theorem one_leader_per_term s i j :
  inv1 s -> rl (nodes s i) = Leader -> rl (nodes s j) = Leader -> cur (nodes s i) = cur (nodes s j) -> i = j.
Proof.
  intros I Hi Hj E.
  destruct (i_T1 I _ Hi) as [_ [el [q Hl]]]. destruct (i_T1 I _ Hj) as [_ [el' [q' Hl']]].
  rewrite E in Hl. now destruct (i_L2 I _ _ _ _ _ _ _ Hl Hl').
Qed.

(* ---------- leader completeness ---------- *)

(* a prefix of the log of the leader of term t, ending in an entry of term t and acknowledged by a
   majority of a voter list that was used, is in the log every leader of a later term was elected with *)
Theorem leader_completeness s V t k :
  inv1 s -> Overlap s ->
  In V (quorums s) -> majority V (ackedb s t k) = true ->
  endst (firstn k (tlogs s t)) t ->
  forall u c el q, In (u, c, el, q) (leaders s) -> t < u -> prefix (firstn k (tlogs s t)) el.
Proof.
  intros I O HV Hm He u. induction u as [u IH] using lt_wf_ind. intros c el q Hl Ht.
  destruct (i_L1 I _ _ _ _ Hl) as [[V' [HV' Hm']] Hq].
  destruct (O V V' HV HV' _ _ Hm Hm') as [x [Hx1 Hx2]].
  apply ackedb_In in Hx1. destruct Hx1 as [k' [Hk' Ha]].
  apply memb_In in Hx2. pose proof (Hq _ Hx2) as Hg.
  pose proof (i_L4 I _ _ _ _ Hl) as Hc.
  destruct (i_CV I _ _ _ _ _ _ _ Hg Hc Ha Hk' Ht He) as [H|[[w [A [B [c' [el' [q' [C D]]]]]]]|[c' [el' [q' [C D]]]]]].
  - exact H.
  - exfalso. apply D. eapply IH; eauto.
  - exfalso. destruct (i_L2 I _ _ _ _ _ _ _ Hl C) as [_ [_ E]]. subst q'. auto.
Qed.

(* the same for the current log of every later leader *)
Corollary leader_completeness_tlog s V t k :
  inv1 s -> Overlap s ->
  In V (quorums s) -> majority V (ackedb s t k) = true ->
  endst (firstn k (tlogs s t)) t ->
  forall u, has_leader s u -> t < u -> prefix (firstn k (tlogs s t)) (tlogs s u).
Proof.
  intros I O HV Hm He u [c [el [q Hl]]] Ht.
  eapply prefix_trans; [eapply leader_completeness; eauto|]. apply (i_T2 I _ _ _ _ Hl).
Qed.
