(* RaftAbs/LCChecked.v — leader completeness for the committed log without the overlap hypothesis.
   Two decidable conditions, checked by the acceptor at every election and at every commit
   (Acceptor.elect_lc_ok, commit_lc_ok), make the following an invariant of every run:
     LCG: every elected leader of a term above the term of the last committed entry was elected with
          a log that contains the whole committed log;
   and give the two step properties
     - when a leader of term t commits a prefix, every leader already elected for a later term has it;
     - when a candidate wins a term above the term of the last committed entry, its log contains the
       committed log.
   The conditions speak about voters and acknowledgments only (who elected the leader, who
   acknowledged the committed index), not about logs; the proof goes through invariant CV. *)
From Coq Require Import List Arith Bool NArith Lia.
From ZV Require Import RaftAbs.ListFacts RaftAbs.Model RaftAbs.Inv RaftAbs.Pres1 RaftAbs.Pres2 RaftAbs.Pres3
  RaftAbs.Inv1 RaftAbs.Inv2 RaftAbs.Safety RaftAbs.Acceptor RaftAbs.AcceptorSound.
Import ListNotations.

Definition LCG (s : gstate) : Prop :=
  forall u c el q, In (u, c, el, q) (leaders s) -> lastterm (gcommit s) < u -> prefix (gcommit s) el.

(* a leader of term t commits index k: every leader of a later term already elected has that prefix *)
Lemma commit_lc s c k :
  inv1 s -> rl (nodes s c) = Leader -> k <= length (log (nodes s c)) ->
  term_at (log (nodes s c)) k = Some (cur (nodes s c)) -> commit_lc_ok s c k = true ->
  forall u c' el q, In (u, c', el, q) (leaders s) -> cur (nodes s c) < u ->
    prefix (firstn k (tlogs s (cur (nodes s c)))) el.
Proof.
  intros I Hl Hk Ht Hok. set (t := cur (nodes s c)) in *.
  destruct (i_T1 I _ Hl) as [HT _]. fold t in HT.
  assert (He : endst (firstn k (tlogs s t)) t) by (rewrite <- HT; apply term_at_endst; auto).
  unfold commit_lc_ok in Hok. fold t in Hok. rewrite forallb_forall in Hok.
  intros u. induction u as [u IH] using lt_wf_ind. intros c' el q Hin Hu.
  specialize (Hok _ Hin). simpl in Hok.
  apply orb_true_iff in Hok. destruct Hok as [Hok|Hok].
  { apply negb_true_iff in Hok. apply Nat.ltb_ge in Hok. lia. }
  apply existsb_exists in Hok. destruct Hok as [x [Hxq Hxa]].
  apply ackedb_In in Hxa. destruct Hxa as [k' [Hk' Ha]].
  destruct (i_L1 I _ _ _ _ Hin) as [_ Hq]. pose proof (Hq _ Hxq) as Hg.
  pose proof (i_L4 I _ _ _ _ Hin) as Hc.
  destruct (i_CV I _ _ _ _ _ _ _ Hg Hc Ha Hk' Hu He) as [H|[[w [A [B [c2 [el2 [q2 [C D]]]]]]]|[c2 [el2 [q2 [C D]]]]]].
  - exact H.
  - exfalso. apply D. eapply IH; eauto.
  - exfalso. destruct (i_L2 I _ _ _ _ _ _ _ Hin C) as [_ [_ E]]. subst q2. auto.
Qed.

(* a candidate wins term u above the term of the last committed entry: its log has the committed log *)
Lemma elect_lc s c :
  inv1 s -> inv2 s -> LCG s -> rl (nodes s c) = Candidate -> ~ has_leader s (cur (nodes s c)) ->
  elect_lc_ok s c = true -> lastterm (gcommit s) < cur (nodes s c) ->
  prefix (gcommit s) (log (nodes s c)).
Proof.
  intros I J L Hc Hnl Hok Hlt. unfold elect_lc_ok in Hok.
  destruct (i_GC J) as [E|(V & t & k & HV & Hm & Hk & He & Eg)]; [rewrite E; apply prefix_nil|].
  assert (Et : lastterm (gcommit s) = t) by (rewrite Eg; now apply endst_lastterm).
  assert (El : length (gcommit s) = k) by (rewrite Eg; now apply firstn_length_le).
  destruct (gcommit s) as [|g0 g] eqn:G; [apply prefix_nil|]. rewrite <- G in *.
  apply orb_true_iff in Hok. destruct Hok as [Hok|Hok]; [apply Nat.leb_le in Hok; lia|].
  apply existsb_exists in Hok. destruct Hok as [x [_ Hx]]. apply andb_true_iff in Hx. destruct Hx as [Hg Ha].
  apply grantedb_In in Hg. apply ackedb_In in Ha. destruct Ha as [k' [Hk' Ha]]. rewrite Et, El in *.
  destruct (i_G3 I _ _ _ Hg) as [cl Hcl].
  destruct (i_Cand I _ Hc) as [_ [Hcam _]]. pose proof (Hcam _ Hcl) as Ecl. subst cl.
  destruct (i_CV I _ _ _ _ _ _ _ Hg Hcl Ha Hk' Hlt He) as [H|[[w [A [B [c2 [el2 [q2 [C D]]]]]]]|[c2 [el2 [q2 [C _]]]]]].
  - rewrite Eg. exact H.
  - exfalso. apply D. rewrite <- Eg. eapply L; eauto. lia.
  - exfalso. apply Hnl. exists c2, el2, q2. exact C.
Qed.

Lemma label_keeps_leaders_gcommit s l s' :
  apply_label s l = Some s' ->
  match l with L_BecomeLeader _ | L_AdvanceCommit _ _ => True | _ => leaders s' = leaders s /\ gcommit s' = gcommit s end.
Proof.
  intros H. destruct l; auto; simpl in H; guards H; inversion H; subst; simpl; auto.
Qed.

Theorem lcg_label s l s' :
  inv1 s -> inv2 s -> LCG s -> lc_label_ok s l = true -> apply_label s l = Some s' -> LCG s'.
Proof.
  intros I J L Hok H.
  pose proof (label_keeps_leaders_gcommit s l s' H) as K.
  pose proof (apply_label_noclash s l s' H) as NC.
  pose proof (apply_label_commitok s l s' H) as CO.
  destruct l; try (destruct K as [K1 K2]; unfold LCG; rewrite K1, K2; exact L).
  - (* BecomeLeader *)
    simpl in H, Hok. guards H. inversion H; subst; clear H. boolh.
    assert (Hnl : ~ has_leader s (cur (nodes s c))).
    { apply (NC c); auto. simpl. rewrite upd_same. reflexivity. }
    intros u c' el q Hin Hlt. simpl in Hin, Hlt. destruct Hin as [Hin|Hin]; [|simpl; eapply L; eauto].
    inversion Hin; subst; clear Hin. simpl. apply elect_lc; auto.
  - (* AdvanceCommit *)
    simpl in H, Hok. guards H. inversion H; subst; clear H. boolh.
    set (P := firstn k (log (nodes s c))) in *.
    assert (Hcmp : prefix (gcommit s) P \/ prefix P (gcommit s)).
    { match goal with Hc : commit_comparable _ _ _ = true |- _ =>
        unfold commit_comparable in Hc; fold P in Hc; apply orb_true_iff in Hc;
        destruct Hc as [Hc|Hc]; apply prefixb_prefix in Hc; auto end. }
    destruct (longer_cases _ _ Hcmp) as [_ [_ [E|E]]].
    + unfold LCG. simpl. fold P. rewrite E. exact L.
    + intros u c' el q Hin Hlt. simpl in Hin, Hlt. fold P in Hlt. simpl. fold P. rewrite E in *.
      match goal with Hr : rl (nodes s c) = Leader |- _ => destruct (i_T1 I _ Hr) as [HT _] end.
      assert (Ht : lastterm P = cur (nodes s c)).
      { apply endst_lastterm. unfold P. apply term_at_endst; auto. }
      unfold P. rewrite HT at 1. eapply commit_lc; eauto. rewrite <- Ht. exact Hlt.
Qed.

Lemma init_LCG cf log0 : init_ok cf log0 -> LCG (init cf log0).
Proof.
  intros OK u c el q [H|[]] Hlt. inversion H; subst. simpl in *.
  destruct log0 as [|e0 l0]; [apply prefix_nil|].
  exfalso. destruct OK as [HF _].
  destruct (list_snoc_cases (e0 :: l0)) as [E|[l1 [x E]]]; [discriminate|].
  rewrite E in Hlt. rewrite lastterm_snoc in Hlt.
  assert (eterm x = boot_term).
  { rewrite Forall_forall in HF. apply HF. rewrite E. apply in_or_app. right. now left. }
  unfold boot_term in *. lia.
Qed.

Theorem run_lc_inv ls : forall s s', inv1 s -> inv2 s -> LCG s -> run_lc s ls = Some s' ->
  inv1 s' /\ inv2 s' /\ LCG s' /\ steps_ok s s'.
Proof.
  induction ls as [|l ls IH]; simpl; intros s s' I J L H.
  - inversion H; subst. split; [auto|split; [auto|split; [auto|constructor]]].
  - destruct (lc_label_ok s l) eqn:K; [|discriminate].
    destruct (apply_label s l) as [s1|] eqn:E; [|discriminate].
    assert (S1 : steps_ok s s1).
    { econstructor; [constructor | eapply apply_label_sound; eauto | eapply apply_label_noclash; eauto
                    | eapply apply_label_commitok; eauto]. }
    destruct (steps_ok_inv _ _ I J S1) as [I1 J1].
    pose proof (lcg_label s l s1 I J L K E) as L1.
    destruct (IH _ _ I1 J1 L1 H) as (I' & J' & L' & S').
    split; [auto|split; [auto|split; [auto|eapply steps_ok_trans; eauto]]].
Qed.

(* leader completeness for every trace the acceptor accepts with the two conditions checked:
   no assumption on configurations *)
Theorem accepted_trace_leader_completeness cf log0 ls s :
  init_okb cf log0 = true -> run_lc (init cf log0) ls = Some s ->
  forall u c el q, In (u, c, el, q) (leaders s) -> lastterm (gcommit s) < u -> prefix (gcommit s) el.
Proof.
  intros OK H. apply init_okb_ok in OK.
  destruct (run_lc_inv ls _ _ (init_inv1 cf log0 OK) (init_inv2 cf log0 OK) (init_LCG cf log0 OK) H) as (_ & _ & L & _).
  exact L.
Qed.

(* the same for a node that currently leads *)
Theorem accepted_trace_leader_has_committed cf log0 ls s c :
  init_okb cf log0 = true -> run_lc (init cf log0) ls = Some s ->
  rl (nodes s c) = Leader -> lastterm (gcommit s) < cur (nodes s c) -> prefix (gcommit s) (log (nodes s c)).
Proof.
  intros OK H Hl Hlt. pose proof OK as OK'. apply init_okb_ok in OK'.
  destruct (run_lc_inv ls _ _ (init_inv1 cf log0 OK') (init_inv2 cf log0 OK') (init_LCG cf log0 OK') H) as (I & _ & L & _).
  destruct (leader_log s I c Hl) as (el & q & Hin & Hp & _).
  eapply prefix_trans; [|exact Hp]. eapply L; eauto.
Qed.

(* ---------- the overlap hypothesis is not an invariant of legal runs; the step conditions are enough ---------- *)

(* Voters {1,2,3} -> add 4 -> remove 3, one change at a time, each used for a commit, then node 2 wins
   term 3 under {1,2,4}.  The voter lists {1,2,3} and {1,2,4} have disjoint majorities ({1,3}, {2,4}),
   so Overlap fails for this run although it is one the protocol allows; every step satisfies NoClash,
   CommitOK and the two leader-completeness conditions, so all *_checked theorems and
   accepted_trace_leader_completeness apply to it. *)
Definition ex2_cf : config := mkConfig [1; 2; 3] [].
Definition ex2_c4 : config := mkConfig [1; 2; 3; 4] [].
Definition ex2_c3 : config := mkConfig [1; 2; 4] [].
Definition ex2_e (p : N) : entry := mkEntry 2 1 p 0.

Definition ex2_labels : list label :=
  [ L_Campaign 1; L_ExposeCamp 1; L_UpdateTerm 2 2; L_Grant 2 1; L_BecomeLeader 1;
    L_LeaderAppend 1 (ex2_e 1); L_Replicate 2 1; L_Ack 2 1; L_Ack 1 1; L_AdvanceCommit 1 1;
    L_ChangeConf 1 ex2_c4; L_ChangeConf 2 ex2_c4; L_UpdateTerm 4 2; L_ChangeConf 4 ex2_c4; L_Replicate 4 1;
    L_LeaderAppend 1 (ex2_e 2); L_Replicate 2 2; L_Replicate 4 2; L_Ack 2 2; L_Ack 4 2; L_Ack 1 2; L_AdvanceCommit 1 2;
    L_ChangeConf 1 ex2_c3; L_ChangeConf 2 ex2_c3; L_ChangeConf 4 ex2_c3;
    L_LeaderAppend 1 (ex2_e 3); L_Replicate 2 3; L_Ack 2 3; L_Ack 1 3; L_AdvanceCommit 1 3;
    L_Campaign 2; L_ExposeCamp 2; L_UpdateTerm 4 3; L_Grant 4 2; L_BecomeLeader 2 ].

Example ex2_run :
  match run_lc (init ex2_cf []) ex2_labels with
  | Some s => negb (overlap_state s) && role_eqb (rl (nodes s 2)) Leader && (cur (nodes s 2) =? 3) &&
              (length (gcommit s) =? 3) && (length (leaders s) =? 3)
  | None => false
  end = true.
Proof. vm_compute. reflexivity. Qed.
