(* RaftAbs/Inv2.v — the commitment invariants: committed prefixes are totally ordered, the global
   committed log only grows, every node's committed prefix is part of it. *)
From Coq Require Import List Arith Bool NArith Lia.
From ZV Require Import RaftAbs.ListFacts RaftAbs.Model RaftAbs.Inv RaftAbs.Pres1 RaftAbs.Pres2 RaftAbs.Pres3 RaftAbs.Inv1.
Import ListNotations.

Lemma cpre_comparable s P1 P2 :
  inv1 s -> Overlap s -> cpre s P1 -> cpre s P2 -> prefix P1 P2 \/ prefix P2 P1.
Proof.
  intros I O (V1 & t1 & k1 & HV1 & Hm1 & Hk1 & He1 & ->) (V2 & t2 & k2 & HV2 & Hm2 & Hk2 & He2 & ->).
  assert (Hl : forall t k, endst (firstn k (tlogs s t)) t -> has_leader s t).
  { intros t k He. destruct (i_T3 I t) as [E|?]; auto. rewrite E, firstn_nil in He. now apply endst_nil in He. }
  destruct (lt_eq_lt_dec t1 t2) as [[Hlt|Heq]|Hgt].
  - eapply prefix_comparable; [|apply prefix_firstn].
    eapply (leader_completeness_tlog s V1 t1 k1); eauto.
  - subst t2. eapply prefix_comparable; apply prefix_firstn.
  - apply or_comm. eapply prefix_comparable; [|apply prefix_firstn].
    eapply (leader_completeness_tlog s V2 t2 k2); eauto.
Qed.

Lemma cpre_mono s s' P : inv1 s -> hist_le s s' -> cpre s P -> cpre s' P.
Proof.
  intros I (_ & _ & _ & Ha & Hq & Ht) (V & t & k & HV & Hm & Hk & He & ->).
  assert (E : firstn k (tlogs s' t) = firstn k (tlogs s t)) by (apply firstn_stable; auto).
  exists V, t, k. repeat split; auto.
  - eapply majority_mono; [|exact Hm]. intros x _ Hx. apply ackedb_In in Hx. apply ackedb_In.
    destruct Hx as [k' [? ?]]. exists k'; auto.
  - specialize (Ht t). apply prefix_length in Ht. lia.
  - now rewrite E.
Qed.

Lemma longer_cases (g P : list entry) :
  (prefix g P \/ prefix P g) ->
  prefix g (longer g P) /\ prefix P (longer g P) /\ (longer g P = g \/ longer g P = P).
Proof.
  intros H. unfold longer. destruct (Nat.ltb_spec (length g) (length P)).
  - destruct H as [H|H]; [|apply prefix_length in H; lia]. repeat split; auto using prefix_refl.
  - destruct H as [H|H].
    + assert (g = P) by (apply prefix_antisym_len; auto). subst. repeat split; auto using prefix_refl.
    + repeat split; auto using prefix_refl.
Qed.

Theorem inv2_step_ok s s' : inv1 s -> inv2 s -> NoClash s s' -> CommitOK s s' -> step s s' -> inv2 s'.
Proof.
  intros I J O CO H.
  pose proof (inv1_step_nc s s' I O H) as I'.
  pose proof (step_hist_le s s' I O H) as HL.
  assert (GCm : gcommit s' = gcommit s -> gcommit s' = [] \/ cpre s' (gcommit s')).
  { intros E. rewrite E. destruct (i_GC J) as [?|HC]; auto. right. eapply (cpre_mono s s'); eauto. }
  inv_step H.
  all: try subst n.
  all: try (constructor; [apply GCm; reflexivity | intros j0; pose proof (i_AP J j0) as [AP1 AP2];
            simpl; upd_destr; simpl; auto | try (apply (i_APP J))]).
  - (* LeaderAppend *)
    split; [rewrite app_length; lia | now rewrite firstn_app_le].
  - (* Replicate *)
    split; auto. now rewrite <- H4.
  - (* AdvanceCommit *)
    set (P := firstn k (log (nodes s c))).
    assert (HP : cpre (mkG (upd (nodes s) c (mkN (cur (nodes s c)) (vote (nodes s c)) Leader (log (nodes s c))
                               (snapi (nodes s c)) k (conf (nodes s c))))
                          (camps s) (grants s) (leaders s) (tlogs s) (acks s)
                          (longer (gcommit s) P) (voters (conf (nodes s c)) :: quorums s) (app s)) P).
    { destruct (i_T1 I _ H0) as [HT _]. exists (voters (conf (nodes s c))), (cur (nodes s c)), k. simpl.
      rewrite <- HT. repeat split; auto. apply term_at_endst; auto. }
    assert (Hcmp : prefix (gcommit s) P \/ prefix P (gcommit s)).
    { pose proof (CO c H0) as X. simpl in X. rewrite upd_same in X. simpl in X. apply X; auto. }
    destruct (longer_cases _ _ Hcmp) as [Hg [Hp Hor]].
    constructor; simpl.
    + destruct Hor as [E|E]; fold P; rewrite E.
      * destruct (i_GC J) as [E0|HC]; [left; exact E0 | right; eapply (cpre_mono s); eauto].
      * right. exact HP.
    + intros j0. pose proof (i_AP J j0) as [AP1 AP2]. upd_destr; simpl.
      * split; auto.
      * split; auto. eapply prefix_trans; eauto.
    + intros j0. pose proof (i_APP J j0). apply prefix_length in Hg. fold P. lia.
  - (* Restart *)
    promises. auto.
  - (* Apply *)
    intros j0. simpl. upd_destr; auto. apply (i_APP J).
  - (* AppRestart *)
    intros j0. simpl. upd_destr; auto; [|apply (i_APP J)]. pose proof (i_APP J j). lia.
Qed.

(* under the overlap hypothesis every step commits comparably (leader completeness) *)
Lemma overlap_commitok s s' : inv1 s -> inv2 s -> Overlap s' -> step s s' -> CommitOK s s'.
Proof.
  intros I J O H.
  pose proof (inv1_step s s' I O H) as I'.
  pose proof (step_hist_le s s' I (overlap_noclash s s' I O H) H) as HL.
  intros c0 Hl Hl' Hlt. inv_step H; try subst n; simpl in *; upd_destr; try lia; try congruence.
  - (* AdvanceCommit *)
    set (P := firstn k (log (nodes s c))).
    assert (HP : cpre (mkG (upd (nodes s) c (mkN (cur (nodes s c)) (vote (nodes s c)) Leader (log (nodes s c))
                               (snapi (nodes s c)) k (conf (nodes s c))))
                          (camps s) (grants s) (leaders s) (tlogs s) (acks s)
                          (longer (gcommit s) P) (voters (conf (nodes s c)) :: quorums s) (app s)) P).
    { destruct (i_T1 I _ Hl) as [HT _]. exists (voters (conf (nodes s c))), (cur (nodes s c)), k. simpl.
      rewrite <- HT. repeat split; auto. apply term_at_endst; auto. }
    destruct (i_GC J) as [E|HC]; [left; rewrite E; apply prefix_nil|].
    eapply (cpre_comparable _ _ _ I' O); [|exact HP]. eapply (cpre_mono s); eauto.
  - (* LearnCommit *) right. assumption.
Qed.

Theorem inv2_step s s' : inv1 s -> inv2 s -> Overlap s' -> step s s' -> inv2 s'.
Proof.
  intros I J O H. apply (inv2_step_ok s s' I J (overlap_noclash s s' I O H) (overlap_commitok s s' I J O H) H).
Qed.
