(* RaftAbs/Theorems.v — the results of the abstract raft development, in the form the property
   files use.  "_fixed": fixed membership (any voter list, any learner list; every node keeps its
   configuration): no hypothesis.  "_reconf_partial": arbitrary configuration changes, under the
   explicit hypothesis [Overlap s] (any two voter lists a majority was counted over have
   intersecting majorities); Reconf.v gives the computable test [overlapb] the acceptor evaluates
   on every trace and shows that single-step changes keep consecutive configurations overlapping.
   What is NOT proved: that the fork's way of applying configuration changes establishes Overlap
   for non-consecutive configurations. *)
From Coq Require Import List Arith Bool NArith Lia.
From ZV Require Import RaftAbs.ListFacts RaftAbs.Model RaftAbs.Inv RaftAbs.Pres1 RaftAbs.Pres2 RaftAbs.Pres3
  RaftAbs.Inv1 RaftAbs.Inv2 RaftAbs.Safety RaftAbs.Fixed RaftAbs.Reconf RaftAbs.Acceptor RaftAbs.AcceptorSound.
Import ListNotations.

Lemma stepsf_trans a b c : steps_fixed a b -> steps_fixed b c -> steps_fixed a c.
Proof. intros H1 H2. induction H2 as [|x y z Hxy IH Hyz HF]; auto. econstructor; [apply IH; auto | exact Hyz | exact HF]. Qed.

Section FixedMembership.
Variable cf : config.
Variable log0 : list entry.
Hypothesis OK : init_ok cf log0.
Variable s : gstate.
Hypothesis R : steps_fixed (init cf log0) s.

Let I : inv1 s := proj1 (fixed_inv cf log0 OK s R).
Let J : inv2 s := proj2 (fixed_inv cf log0 OK s R).

(* C01: at most one leader per term; history form: the election records are functional in the term *)
Theorem election_safety_fixed i j :
  rl (nodes s i) = Leader -> rl (nodes s j) = Leader -> cur (nodes s i) = cur (nodes s j) -> i = j.
Proof. apply (election_safety s I). Qed.

Theorem election_safety_history_fixed t c el q c' el' q' :
  In (t, c, el, q) (leaders s) -> In (t, c', el', q') (leaders s) -> c = c'.
Proof. apply (election_safety_history s I). Qed.

(* C01: learners (and nodes outside the configuration) never leave the follower role and never vote *)
Theorem learners_never_lead_fixed j : rl (nodes s j) <> Follower -> In j (voters cf) /\ ~ In j (learners cf).
Proof.
  intros H. destruct (fixed_roles_votes cf log0 OK s R) as [A _]. split; auto.
  pose proof OK as OK'. destruct OK' as (_ & _ & Hd & _). auto.
Qed.

Theorem learners_never_vote_fixed j t c : In (j, t, c) (grants s) -> ~ In j (learners cf).
Proof. apply (fixed_roles_votes cf log0 OK s R). Qed.

Theorem one_vote_per_term_fixed j t c c' : In (j, t, c) (grants s) -> In (j, t, c') (grants s) -> c = c'.
Proof. apply (one_vote_per_term s I). Qed.

(* log matching *)
Theorem log_matching_fixed i j k e e' :
  nth_error (log (nodes s i)) k = Some e -> nth_error (log (nodes s j)) k = Some e' -> eterm e = eterm e' ->
  firstn (S k) (log (nodes s i)) = firstn (S k) (log (nodes s j)).
Proof. apply (log_matching s I). Qed.

(* C03: leader completeness: a prefix committed in term t is in the log of every leader of a later term *)
Theorem leader_completeness_fixed t P u c el q :
  committed_in_term s t P -> In (u, c, el, q) (leaders s) -> t < u -> prefix P el.
Proof. apply (leader_completeness_term s I (fixed_overlap cf log0 s R)). Qed.

Theorem leader_completeness_node_fixed t P c :
  committed_in_term s t P -> rl (nodes s c) = Leader -> t < cur (nodes s c) -> prefix P (log (nodes s c)).
Proof. apply (leader_completeness_node s I (fixed_overlap cf log0 s R)). Qed.

(* C02: state-machine safety *)
Theorem state_machine_safety_fixed i j k e e' :
  k < commit (nodes s i) -> k < commit (nodes s j) ->
  nth_error (log (nodes s i)) k = Some e -> nth_error (log (nodes s j)) k = Some e' -> e = e'.
Proof. apply (state_machine_safety s J). Qed.

Theorem committed_prefix_global_fixed j :
  commit (nodes s j) <= length (log (nodes s j)) /\
  prefix (firstn (commit (nodes s j)) (log (nodes s j))) (gcommit s).
Proof. apply (committed_in_gcommit s J). Qed.

Theorem applied_prefix_global_fixed j : app s j <= length (gcommit s).
Proof. apply (applied_in_gcommit s J). Qed.

(* C03: what any node regards as committed is in the log of every leader of a term after the term in
   which the global committed log was committed *)
Theorem gcommit_committed_fixed : gcommit s = [] \/ exists t, committed_in_term s t (gcommit s).
Proof. apply (gcommit_committed s J). Qed.

Theorem committed_entries_in_later_leaders_fixed j :
  exists t, forall u c el q, In (u, c, el, q) (leaders s) -> t < u ->
    prefix (firstn (commit (nodes s j)) (log (nodes s j))) el.
Proof.
  destruct (committed_prefix_global_fixed j) as [_ Hp].
  destruct gcommit_committed_fixed as [E|[t Ht]].
  - exists 0. intros u c el q _ _. rewrite E in Hp. destruct Hp as [r Hr].
    destruct (firstn (commit (nodes s j)) (log (nodes s j))); [apply prefix_nil|discriminate].
  - exists t. intros u c el q Hl Hu. eapply prefix_trans; [exact Hp|].
    eapply leader_completeness_fixed; eauto.
Qed.

(* C02/C03: whatever happens next (crashes and restarts included), the committed log only grows, so
   an entry applied anywhere is never replaced and is what every node applies at that index later *)
Theorem committed_log_grows_fixed s' : steps_fixed s s' -> prefix (gcommit s) (gcommit s').
Proof.
  intros H. apply (gcommit_grows s s' I J (stepsf_steps _ _ H)).
  apply (fixed_overlap cf log0). eapply stepsf_trans; eauto.
Qed.

Theorem applied_never_replaced_fixed s' i j k :
  steps_fixed s s' -> k < app s i -> k < app s' j -> nth_error (gcommit s') k = nth_error (gcommit s) k.
Proof.
  intros H. apply (applied_never_replaced s s' i j k I J (stepsf_steps _ _ H)).
  apply (fixed_overlap cf log0). eapply stepsf_trans; eauto.
Qed.

End FixedMembership.

Section Reconfiguration.
Variable cf : config.
Variable log0 : list entry.
Hypothesis OK : init_ok cf log0.
Variable s : gstate.
Hypothesis R : reachable cf log0 s.
Hypothesis O : Overlap s.

Let I : inv1 s := proj1 (reachable_inv cf log0 s OK R O).
Let J : inv2 s := proj2 (reachable_inv cf log0 s OK R O).

Theorem election_safety_reconf_partial i j :
  rl (nodes s i) = Leader -> rl (nodes s j) = Leader -> cur (nodes s i) = cur (nodes s j) -> i = j.
Proof. apply (election_safety s I). Qed.

Theorem log_matching_reconf_partial i j k e e' :
  nth_error (log (nodes s i)) k = Some e -> nth_error (log (nodes s j)) k = Some e' -> eterm e = eterm e' ->
  firstn (S k) (log (nodes s i)) = firstn (S k) (log (nodes s j)).
Proof. apply (log_matching s I). Qed.

Theorem leader_completeness_reconf_partial t P u c el q :
  committed_in_term s t P -> In (u, c, el, q) (leaders s) -> t < u -> prefix P el.
Proof. apply (leader_completeness_term s I O). Qed.

Theorem state_machine_safety_reconf_partial i j k e e' :
  k < commit (nodes s i) -> k < commit (nodes s j) ->
  nth_error (log (nodes s i)) k = Some e -> nth_error (log (nodes s j)) k = Some e' -> e = e'.
Proof. apply (state_machine_safety s J). Qed.

Theorem committed_log_grows_reconf_partial s' : steps s s' -> Overlap s' -> prefix (gcommit s) (gcommit s').
Proof. apply (gcommit_grows s s' I J). Qed.

End Reconfiguration.

(* ---------- the acceptor ties implementation traces to these theorems ---------- *)

(* if the checker accepts a label sequence from a well-formed initial state and the overlap test
   succeeds on the final state, the final state satisfies all invariants (hence every theorem of
   the Safe section of Safety.v) *)
Theorem accepted_trace_safe cf log0 ls s :
  init_okb cf log0 = true -> run (init cf log0) ls = Some s -> overlap_state s = true ->
  inv1 s /\ inv2 s.
Proof.
  intros H1 H2 H3. eapply reachable_inv.
  - apply init_okb_ok; eauto.
  - eapply accepted_reachable; eauto.
  - now apply overlap_state_Overlap.
Qed.

(* ---------- non-vacuity: a three-node election, replication, commit, apply, crash, second term ---------- *)

Definition ex_cf : config := mkConfig [1; 2; 3] [4].
Definition ex_e (t : nat) (p : N) : entry := mkEntry t 1 p 0.

Definition ex_labels : list label :=
  [ L_Campaign 1; L_ExposeCamp 1;
    L_UpdateTerm 2 2; L_Grant 2 1;
    L_BecomeLeader 1; L_LeaderAppend 1 (mkEntry 2 0 0 0); L_LeaderAppend 1 (ex_e 2 7);
    L_Replicate 2 2; L_Ack 2 2; L_Ack 1 2; L_AdvanceCommit 1 2;
    L_LearnCommit 2 2; L_Apply 2 [mkEntry 2 0 0 0; ex_e 2 7];
    L_UpdateTerm 4 2; L_Replicate 4 1;
    (* node 1 crashes and restarts with everything persisted *)
    L_Restart 1 2 (Some 1) 2 2 0 2 ex_cf;
    (* node 3 was partitioned; node 2 wins term 3 with the vote of node 1 *)
    L_Campaign 2; L_ExposeCamp 2; L_UpdateTerm 1 3; L_Grant 1 2; L_BecomeLeader 2;
    L_LeaderAppend 2 (mkEntry 3 0 0 0) ].

Definition ex_check (s : gstate) : bool :=
  role_eqb (rl (nodes s 2)) Leader && (cur (nodes s 2) =? 3) && role_eqb (rl (nodes s 1)) Follower &&
  (commit (nodes s 2) =? 2) && (length (gcommit s) =? 2) && (app s 2 =? 2) &&
  (length (log (nodes s 2)) =? 3) && (length (log (nodes s 4)) =? 1) && (length (leaders s) =? 3) &&
  overlap_state s.

Example ex_run : match run (init ex_cf []) ex_labels with Some s => ex_check s | None => false end = true.
Proof. vm_compute. reflexivity. Qed.

Example ex_reachable : exists s,
  reachable ex_cf [] s /\ rl (nodes s 2) = Leader /\ cur (nodes s 2) = 3 /\ commit (nodes s 2) = 2 /\
  length (gcommit s) = 2 /\ app s 2 = 2 /\ Overlap s.
Proof.
  pose proof ex_run as H. destruct (run (init ex_cf []) ex_labels) as [s|] eqn:E; [|discriminate].
  exists s. unfold ex_check in H. rewrite !andb_true_iff in H.
  destruct H as [[[[[[[[[A B] C] D] F] G] _] _] _] O].
  apply role_eqb_eq in A. apply Nat.eqb_eq in B, D, F, G.
  repeat split; auto. - eapply accepted_reachable; eauto. - now apply overlap_state_Overlap.
Qed.

(* the hypotheses of the theorems above are met by this state: it has a committed prefix of term 2
   and a leader of the later term 3, whose log therefore contains it *)
Example ex_init_ok : init_ok ex_cf [].
Proof. apply init_okb_ok. vm_compute. reflexivity. Qed.

(* the same run is a fixed-membership run *)
Example ex_overlap_single_step : overlap2b [1; 2; 3] [1; 2; 3; 4] = true /\ overlap2b [1; 2; 3] [1; 2; 4] = false.
Proof. split; vm_compute; reflexivity. Qed.

(* ---------- the example run is a fixed-membership run ---------- *)

Definition config_eqb (a b : config) : bool :=
  nat_list_eqb (voters a) (voters b) && nat_list_eqb (learners a) (learners b).

Lemma config_eqb_eq a b : config_eqb a b = true -> a = b.
Proof.
  destruct a as [v1 l1], b as [v2 l2]. unfold config_eqb. simpl. rewrite andb_true_iff.
  intros [H1 H2]. apply nat_list_eqb_eq in H1, H2. congruence.
Qed.

(* labels that leave every configuration alone at state s *)
Definition keeps_conf (s : gstate) (l : label) : bool :=
  match l with
  | L_ChangeConf j cf => config_eqb cf (conf (nodes s j))
  | L_Restart j _ _ _ _ _ _ cf => config_eqb cf (conf (nodes s j))
  | _ => true
  end.

Lemma upd_conf_same s j n i : conf n = conf (nodes s j) -> conf (upd (nodes s) j n i) = conf (nodes s i).
Proof. intros H. unfold upd. destruct (Nat.eqb_spec i j); subst; auto. Qed.

Lemma apply_label_keeps_conf s l s' :
  apply_label s l = Some s' -> keeps_conf s l = true -> conf_fixed s s'.
Proof.
  intros H K i. destruct l; simpl in H, K;
    repeat match type of H with
    | (if ?c then _ else _) = Some _ => destruct c; [|discriminate]
    | match ?c with Some _ => _ | None => _ end = Some _ => destruct c; [|discriminate]
    end; inversion H; subst; simpl; try reflexivity; try (apply upd_conf_same; reflexivity).
  - apply upd_conf_same. simpl. now apply config_eqb_eq.
  - apply upd_conf_same. simpl. now apply config_eqb_eq.
Qed.

Fixpoint run_fixed (s : gstate) (ls : list label) : option gstate :=
  match ls with
  | [] => Some s
  | l :: r => if keeps_conf s l then match apply_label s l with Some s' => run_fixed s' r | None => None end else None
  end.

Lemma stepsf_cons a b c : step a b -> conf_fixed a b -> steps_fixed b c -> steps_fixed a c.
Proof.
  intros Hab Fab Hbc. induction Hbc as [|x y z Hxy IH Hyz HF].
  - econstructor; [constructor | exact Hab | exact Fab].
  - econstructor; [apply IH; auto | exact Hyz | exact HF].
Qed.

Theorem run_fixed_sound ls : forall s s', run_fixed s ls = Some s' -> steps_fixed s s'.
Proof.
  induction ls as [|l ls IH]; simpl; intros s s' H.
  - inversion H; subst. constructor.
  - destruct (keeps_conf s l) eqn:K; [|discriminate].
    destruct (apply_label s l) as [s1|] eqn:E; [|discriminate].
    eapply stepsf_cons; [eapply apply_label_sound; eauto | eapply apply_label_keeps_conf; eauto | eauto].
Qed.

Example ex_run_fixed : match run_fixed (init ex_cf []) ex_labels with Some s => ex_check s | None => false end = true.
Proof. vm_compute. reflexivity. Qed.

(* the hypotheses of the fixed-membership theorems are met by a state with two elected leaders
   (terms 2 and 3), a committed prefix of term 2, a learner and a restarted node *)
Example ex_reachable_fixed : exists s,
  steps_fixed (init ex_cf []) s /\ rl (nodes s 2) = Leader /\ cur (nodes s 2) = 3 /\
  commit (nodes s 2) = 2 /\ length (gcommit s) = 2 /\ length (leaders s) = 3.
Proof.
  pose proof ex_run_fixed as H. destruct (run_fixed (init ex_cf []) ex_labels) as [s|] eqn:E; [|discriminate].
  exists s. unfold ex_check in H. rewrite !andb_true_iff in H.
  destruct H as [[[[[[[[[A B] C] D] F] G] _] _] L] _].
  apply role_eqb_eq in A. apply Nat.eqb_eq in B, D, F, L.
  repeat split; auto. eapply run_fixed_sound; eauto.
Qed.

(* ---------- checked runs: no hypothesis on configurations ---------- *)

(* A run is "checked" (Safety.steps_ok) if each of its steps elects only the first leader of a term
   and commits only a prefix comparable with the committed log.  Both conditions are theorems under
   Overlap (Pres1.overlap_noclash, Inv2.overlap_commitok) and are decided by the acceptor on every
   step it accepts (AcceptorSound.apply_label_noclash / apply_label_commitok), so the results below
   hold for EVERY accepted implementation trace, whatever membership changes it contains.
   Leader completeness is not among them: it remains under the Overlap hypothesis. *)
Section CheckedRuns.
Variable cf : config.
Variable log0 : list entry.
Hypothesis OK : init_ok cf log0.
Variable s : gstate.
Hypothesis R : steps_ok (init cf log0) s.

Let IJ : inv1 s /\ inv2 s := steps_ok_inv _ _ (init_inv1 cf log0 OK) (init_inv2 cf log0 OK) R.

Theorem election_safety_checked i j :
  rl (nodes s i) = Leader -> rl (nodes s j) = Leader -> cur (nodes s i) = cur (nodes s j) -> i = j.
Proof. apply (election_safety s (proj1 IJ)). Qed.

Theorem election_safety_history_checked t c el q c' el' q' :
  In (t, c, el, q) (leaders s) -> In (t, c', el', q') (leaders s) -> c = c'.
Proof. apply (election_safety_history s (proj1 IJ)). Qed.

Theorem one_vote_per_term_checked j t c c' : In (j, t, c) (grants s) -> In (j, t, c') (grants s) -> c = c'.
Proof. apply (one_vote_per_term s (proj1 IJ)). Qed.

Theorem log_matching_checked i j k e e' :
  nth_error (log (nodes s i)) k = Some e -> nth_error (log (nodes s j)) k = Some e' -> eterm e = eterm e' ->
  firstn (S k) (log (nodes s i)) = firstn (S k) (log (nodes s j)).
Proof. apply (log_matching s (proj1 IJ)). Qed.

Theorem state_machine_safety_checked i j k e e' :
  k < commit (nodes s i) -> k < commit (nodes s j) ->
  nth_error (log (nodes s i)) k = Some e -> nth_error (log (nodes s j)) k = Some e' -> e = e'.
Proof. apply (state_machine_safety s (proj2 IJ)). Qed.

Theorem committed_prefix_global_checked j :
  commit (nodes s j) <= length (log (nodes s j)) /\
  prefix (firstn (commit (nodes s j)) (log (nodes s j))) (gcommit s).
Proof. apply (committed_in_gcommit s (proj2 IJ)). Qed.

Theorem applied_prefix_global_checked j : app s j <= length (gcommit s).
Proof. apply (applied_in_gcommit s (proj2 IJ)). Qed.

Theorem committed_log_grows_checked s' : steps_ok s s' -> prefix (gcommit s) (gcommit s').
Proof. apply (gcommit_grows_ok s s' (proj1 IJ) (proj2 IJ)). Qed.

Theorem applied_never_replaced_checked s' i j k :
  steps_ok s s' -> k < app s i -> k < app s' j -> nth_error (gcommit s') k = nth_error (gcommit s) k.
Proof.
  intros H Hi Hj. symmetry. apply prefix_nth_error_lt.
  - now apply committed_log_grows_checked.
  - pose proof (applied_prefix_global_checked i). lia.
Qed.

End CheckedRuns.

(* the acceptor produces checked runs *)
Theorem accepted_run_checked cf log0 ls s : run (init cf log0) ls = Some s -> steps_ok (init cf log0) s.
Proof. apply run_ok. Qed.

(* the example run contains no configuration change, but it is also a checked run *)
Example ex_checked : exists s, steps_ok (init ex_cf []) s /\ rl (nodes s 2) = Leader /\ length (gcommit s) = 2.
Proof.
  pose proof ex_run as H. destruct (run (init ex_cf []) ex_labels) as [s|] eqn:E; [|discriminate].
  exists s. unfold ex_check in H. rewrite !andb_true_iff in H.
  destruct H as [[[[[[[[[A B] C] D] F] G] _] _] _] O].
  apply role_eqb_eq in A. apply Nat.eqb_eq in F.
  repeat split; auto. eapply run_ok; eauto.
Qed.
